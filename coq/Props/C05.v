(* C05 -- The epoch cron never fails and keeps every active miner on schedule.
   Pinned statements only; every proof is `exact <lemma from Proofs/Cron_lemmas.v>` (or a vm_compute witness).

   Vocabulary (coq/Model/Cron.v, coq/Proofs/Cron_lemmas.v):
     run st ops            the state after the operation history `ops` (CreateMiner, PreCommit, SetObl, Terminate,
                           EnrolET, Tick, Skip, Nop); Tick runs Cron::EpochTick at the current epoch, then the
                           epoch advances by one;
     wf_op                 histories "with the tick run at EVERY epoch": no Skip, and the power actor's cron entry
                           itself does not fail (t_entry_fail / t_reward_fail / t_kpi_fail = false); EVERY failure
                           input of the miner callbacks (cb_in) and the market's failure stay arbitrary;
     pdq st id k           number of pending ProvingDeadline events of miner id at epoch k in the power queue;
     ind b                 1 if b else 0;
     dl_last pps e         last epoch of the proving deadline (offset pps) that contains epoch e. *)
From stdpp Require Import gmap.
From Coq Require Import ZArith List Bool Lia.
From VF Require Import Gen.Consts Gen.CronConsts Base.Corr Model.Cron Proofs.Cron_lemmas.
Import ListNotations.
Open Scope Z_scope.

(* ---- the constants and call-site inventory the statements depend on, as in /repo today ---- *)
Theorem C05_constants :
  WPOST_PROVING_PERIOD = 2880 /\ WPOST_CHALLENGE_WINDOW = 60 /\ WPOST_PERIOD_DEADLINES = 48 /\
  WPOST_PROVING_PERIOD = WPOST_CHALLENGE_WINDOW * WPOST_PERIOD_DEADLINES /\
  CRON_EVENT_PROVING_DEADLINE = 1 /\ CRON_EVENT_PROCESS_EARLY_TERMINATIONS = 2 /\
  ERR_BALANCE_INVARIANTS_BROKEN = 1000 /\
  (* deadline_cron_active is switched on in exactly two places (pre-commit, prove-commit-NI) and off in one
     (handle_proving_deadline); the constructor locks the deposit but enrols nothing (finding F2); the power
     actor deletes claims in exactly one place (process_deferred_cron_events) *)
  CRON_ON_SITES = 2 /\ CRON_OFF_SITES = 1 /\ CONSTRUCTOR_ENROLS = false /\ CONSTRUCTOR_LOCKS_DEPOSIT = true /\
  MINER_ENROLL_CALL_SITES = 4 /\ POWER_DELETE_CLAIM_SITES = 1.
Proof. repeat split. Qed.

(* ---- deadline arithmetic: dl_last is what the statement calls "the last epoch of the deadline containing e" ---- *)
Theorem C05_deadline_arithmetic : forall p e,
  dl_period_start p e <= e < dl_period_start p e + 2880 /\
  (exists k, dl_period_start p e = p + 2880 * k) /\
  0 <= dl_index p e < 48 /\
  dl_period_start p e + 60 * dl_index p e <= e < dl_period_start p e + 60 * dl_index p e + 60 /\
  dl_last p e = dl_period_start p e + 60 * dl_index p e + 59.
Proof. exact dl_facts. Qed.

(* ---- level 1: the cron actor's tick returns exit code 0 whatever its entries and their callbacks do ---- *)
Theorem C05_cron_tick_total : forall st ti, snd (fst (epoch_tick st ti)) = 0.
Proof. exact epoch_tick_code. Qed.

(* ---- the schedule invariant: for every history with the tick at every epoch, a miner that holds a claim has
        deadline_cron_active  <->  exactly one pending ProvingDeadline event, at the last epoch of the deadline
        containing the current epoch (and none anywhere else) ---- *)
Theorem C05_cron_schedule_inv : forall e0 fc bud ops, Forall wf_op ops ->
  let st := run (init e0 fc bud) ops in
  forall id mi, miners st !! id = Some mi -> id ∈ claims st ->
  (m_active mi = true <-> forall k, pdq st id k = ind (k =? dl_last (m_pps mi) (now st))) /\
  (m_active mi = false -> forall k, pdq st id k = 0).
Proof. exact schedule_inv_reachable. Qed.

(* ---- no duplicate: no miner (claim or not, known or not) ever has two pending ProvingDeadline events ---- *)
Theorem C05_no_duplicate_event : forall e0 fc bud ops id, Forall wf_op ops ->
  exists E, forall k, pdq (run (init e0 fc bud) ops) id k <= ind (k =? E).
Proof. exact no_duplicate_reachable. Qed.

(* ---- no event lost: a tick dispatches exactly the events of claim holders at all epochs first_cron_epoch..now
        (in queue order), nothing older than first_cron_epoch exists, nothing at or before `now` remains, later
        events are kept, and first_cron_epoch becomes now+1 ---- *)
Theorem C05_no_event_lost : forall e0 fc bud ops ti, Forall wf_op ops -> power_ok ti ->
  let st := run (init e0 fc bud) ops in
  let st' := fst (fst (step st (Tick ti))) in
  let log := snd (step st (Tick ti)) in
  map (fun x => fst x) log =
    flat_map (fun k => List.filter (has_claim (claims st)) (evs (queue st) k)) (due_epochs (first_cron st) (now st)) /\
  (forall k, evs (queue st) k <> [] -> first_cron st <= k) /\
  (forall k, k <= now st -> evs (queue st') k = []) /\
  (forall k, now st < k -> exists l, evs (queue st') k = evs (queue st) k ++ l) /\
  first_cron st' = now st + 1 /\ now st' = now st + 1.
Proof. exact no_event_lost_reachable. Qed.

(* ---- on time: in a tick, the proving-deadline callback of an active claim holder is dispatched exactly when the
        current epoch is the last epoch of its deadline ---- *)
Theorem C05_proving_deadline_callback_on_time : forall e0 fc bud ops ti id mi, Forall wf_op ops -> power_ok ti ->
  let st := run (init e0 fc bud) ops in
  miners st !! id = Some mi -> m_active mi = true -> id ∈ claims st ->
  (dl_last (m_pps mi) (now st) = now st <-> In (id, PD) (map (fun x => fst x) (snd (step st (Tick ti))))).
Proof. exact pd_callback_on_time. Qed.

(* ---- a claim disappears only in a tick, and only for a miner one of whose callbacks failed in that tick
        (ANY state, ANY operation, ANY inputs); conversely a failed callback costs the claim ---- *)
Theorem C05_claims_deleted_only_on_failed_callback : forall st o id,
  id ∈ claims st -> id ∉ claims (fst (fst (step st o))) ->
  exists ti kind, o = Tick ti /\ In (id, kind, 1) (snd (step st o)).
Proof. exact claims_deleted_only_on_failed_callback. Qed.

Theorem C05_failed_callback_deletes_claim : forall st ti id kind, power_ok ti ->
  In (id, kind, 1) (snd (step st (Tick ti))) -> id ∉ claims (fst (fst (step st (Tick ti)))).
Proof. exact tick_failed_loses_claim. Qed.

(* ---- the miner's callback fails ONLY through its failure inputs: with none of
          f_tx (a state transaction errs), f_power (UpdateClaimedPower rejected), f_burn (burn send fails),
          f_pledge (UpdatePledgeTotal rejected = finding F1), f_balance (ERR_BALANCE_INVARIANTS_BROKEN),
          f_enroll (an EnrollCronEvent send fails)
        set, every callback of an existing miner at a non-negative epoch succeeds (f_deals, the market's
        OnMinerSectorsTerminate, is tolerated); and each hard input does abort it.
        PARTIAL: that f_tx / f_balance are never raised by the real transactions is C03/C04/C14 territory. ---- *)
Theorem C05_miner_callback_total_partial : forall st id kind ci,
  is_Some (miners st !! id) -> 0 <= now st ->
  f_tx ci = false -> f_power ci = false -> f_burn ci = false -> f_pledge ci = false -> f_balance ci = false ->
  f_enroll ci = false ->
  is_Some (callback st id kind ci).
Proof. exact callback_total_partial_flags. Qed.

Theorem C05_miner_callback_fails_on_hard_input : forall st id kind ci,
  ci_hard_fail ci = true -> callback st id kind ci = None.
Proof. exact callback_hard_fail. Qed.

(* ---- early terminations drain: a ProcessEarlyTerminations callback strictly decreases the number of waiting
        sectors (by min(waiting, budget)) and re-enrols itself for the next epoch while any remain; and in every
        history a claim-holding miner with waiting sectors has a ProcessEarlyTerminations event pending at an
        epoch the tick will still visit ---- *)
Theorem C05_early_terminations_drain : forall st id ci st' mi,
  miners st !! id = Some mi -> 0 < budget st -> 0 < m_et mi ->
  callback st id ET ci = Some st' ->
  exists mi', miners st' !! id = Some mi' /\
    m_et mi' = m_et mi - Z.min (m_et mi) (budget st) /\ 0 <= m_et mi' < m_et mi /\
    (0 < m_et mi' -> In (id, ET) (evs (queue st') (now st + 1))).
Proof. exact et_callback_drains. Qed.

Theorem C05_early_terminations_never_stranded : forall e0 fc bud ops, Forall wf_op ops ->
  let st := run (init e0 fc bud) ops in
  forall id mi, miners st !! id = Some mi -> id ∈ claims st -> 0 < m_et mi ->
  exists k, first_cron st <= k /\ In (id, ET) (evs (queue st) k).
Proof. exact et_never_stranded_reachable. Qed.

(* ---- the recorded deadline.  After the tick that runs a miner's proving-deadline callback on time, the recorded
        current_deadline is the index of the deadline containing the NEXT epoch; the recorded proving_period_start
        moves by whole periods only, and is the true period start when it was before or the period wrapped.
        (proving_period_start is an offset, used modulo 2880 everywhere in the actor.) ---- *)
Theorem C05_deadline_recorded_after_tick : forall e0 fc bud ops ti id mi, Forall wf_op ops -> power_ok ti ->
  let st := run (init e0 fc bud) ops in
  miners st !! id = Some mi -> m_active mi = true -> id ∈ claims st ->
  dl_last (m_pps mi) (now st) = now st ->
  let st' := fst (fst (step st (Tick ti))) in
  id ∈ claims st' ->
  exists mi', miners st' !! id = Some mi' /\ now st' = now st + 1 /\
    m_dl mi' = dl_index (m_pps mi') (now st') /\
    (exists k, m_pps mi' = m_pps mi + 2880 * k) /\
    (m_pps mi = dl_period_start (m_pps mi) (now st) \/ dl_index (m_pps mi) (now st) = 47 ->
       m_pps mi' = dl_period_start (m_pps mi') (now st')).
Proof. exact deadline_recorded_reachable. Qed.

(* ... and once the recorded pair of an active claim holder is the current deadline it stays so, whatever happens
   (messages, ticks with arbitrary callback failures), as long as the miner keeps its claim *)
Theorem C05_recorded_deadline_stable : forall e0 fc bud ops o id mi mi', Forall wf_op ops -> wf_op o ->
  let st := run (init e0 fc bud) ops in
  miners st !! id = Some mi -> m_active mi = true -> id ∈ claims st -> recorded mi (now st) ->
  let st' := fst (fst (step st o)) in
  miners st' !! id = Some mi' -> id ∈ claims st' -> recorded mi' (now st').
Proof. exact recorded_stable_reachable. Qed.

(* a freshly constructed miner's recorded pair is the deadline containing its creation epoch *)
Theorem C05_constructor_records_current_deadline : forall e off, 0 <= e -> 0 <= off < 2880 ->
  let pps := ctor_period_start e off in
  pps <= e < pps + 2880 /\ 0 <= ctor_deadline_index e pps < 48 /\
  pps = dl_period_start pps e /\ ctor_deadline_index e pps = dl_index pps e.
Proof. exact ctor_ok. Qed.

(* ---- obligations vs. the cron switch.
        Full statement (property clause "while a miner has sectors, deposits or vesting funds it has exactly one
        pending proving-deadline callback"):
            forall histories, forall miner, (pcd <> 0 \/ ip <> 0 \/ locked <> 0) -> deadline_cron_active
        REFUTED by the faithful model (finding F2, reproduced on the real code): Power::CreateMiner locks the
        deposit (locked_funds > 0) and enrols nothing. ---- *)
Definition F2_history : list op := [CreateMiner 1000 100 31999999497815982080].

Definition F2_miner : miner :=
  {| m_pps := -2780; m_dl := 46; m_active := false; m_et := 0; m_pcd := 0; m_ip := 0;
     m_locked := 31999999497815982080; m_pre := false |}.

Theorem C05_active_iff_obligations_refuted :
  exists ops id mi, Forall wf_op ops /\ miners (run (init 0 0 25000) ops) !! id = Some mi /\
    obl_nz (m_obl mi) = true /\ m_active mi = false /\ m_pre mi = false /\
    (forall k, pdq (run (init 0 0 25000) ops) id k = 0).
Proof.
  exists F2_history, 1000, F2_miner.
  split; [repeat constructor|]. split; [vm_compute; reflexivity|].
  split; [reflexivity|]. split; [reflexivity|]. split; [reflexivity|].
  intros k. unfold pdq. replace (queue (run (init 0 0 25000) F2_history)) with (∅ : gmap Z (list (Z * Z))) by (vm_compute; reflexivity).
  rewrite evs_empty. reflexivity.
Qed.

(* the strongest true variant: outside the known class (a miner that has never pre-committed), and when no input
   creates obligations out of nothing for a miner whose cron is off (`disciplined`: SetObl / Terminate / the
   callbacks' obligation inputs never turn a zero triple of an INACTIVE miner into a non-zero one -- in the code
   only pre-commit does that, and it switches the cron on), obligations imply an active deadline cron *)
Theorem C05_active_iff_obligations_after_precommit : forall e0 fc bud ops,
  hist_ok disciplined (init e0 fc bud) ops ->
  forall id mi, miners (run (init e0 fc bud) ops) !! id = Some mi -> m_pre mi = true ->
  obl_nz (m_obl mi) = true -> m_active mi = true.
Proof. exact obligations_after_precommit. Qed.

(* ---- non-vacuity: concrete histories evaluated by the kernel ---- *)
Definition T0 := Tick {| t_entry_fail := false; t_reward_fail := false; t_kpi_fail := false; t_market_fail := false; t_cbs := [] |}.
Definition ci_ok (o : obl) : cb_in :=
  {| ci_obl := o; ci_new_et := 0; ci_obl_et := o; f_tx := false; f_power := false; f_burn := false;
     f_pledge := false; f_enroll := false; f_deals := false; f_balance := false |}.
Definition ci_f1 (o : obl) : cb_in :=
  {| ci_obl := o; ci_new_et := 0; ci_obl_et := o; f_tx := false; f_power := false; f_burn := false;
     f_pledge := true; f_enroll := false; f_deals := false; f_balance := false |}.
Definition Tcb (c : cb_in) := Tick {| t_entry_fail := false; t_reward_fail := false; t_kpi_fail := false; t_market_fail := true; t_cbs := [c] |}.

(* miner 1000 created at epoch 0 with offset 100 (period start -2780, deadline 46, ends at 39); pre-commits at
   epoch 2; the callback at 39 re-enrols at 99 and wraps the period at 99 -> 100; a callback hit by F1 at 159
   deletes the claim *)
Definition ex_ops : list op :=
  [CreateMiner 1000 100 5; T0; T0; PreCommit 1000 (3, 0, 5) false] ++ repeat T0 37 ++ [Tcb (ci_ok (3, 0, 5))] ++
  repeat T0 59 ++ [Tcb (ci_ok (0, 7, 5))].

Definition ex_check : bool :=
  let st := run (init 0 0 2) ex_ops in
  (now st =? 100) && bool_decide (1000 ∈ claims st) &&
  match miners st !! 1000 with
  | Some mi => m_active mi && (m_pps mi =? 100) && (m_dl mi =? 0) && recorded_ok mi (now st) &&
               (dl_last (m_pps mi) (now st) =? 159)
  | None => false end &&
  zlist_eqb (enc_events (evs (queue st) 159)) [1000; PD] && (pending st 1000 PD =? 1) &&
  (* the same history continued: a callback failing on UpdatePledgeTotal (F1) costs the claim and freezes the miner *)
  (let st2 := run st (repeat T0 59 ++ [Tcb (ci_f1 (0, 7, 5))]) in
   negb (bool_decide (1000 ∈ claims st2)) && (miner_count st2 =? 0) && (pending st2 1000 PD =? 0) &&
   match miners st2 !! 1000 with Some mi => m_active mi | None => false end) &&
  (* and a cron whose obligations are gone stops *)
  (let st3 := run st (repeat T0 59 ++ [Tcb (ci_ok (0, 0, 0))]) in
   match miners st3 !! 1000 with Some mi => negb (m_active mi) | None => false end && (pending st3 1000 PD =? 0)).

Example C05_nonvacuous : Forall wf_op ex_ops /\ ex_check = true.
Proof. split; [apply wf_opb_ok; vm_compute; reflexivity|vm_compute; reflexivity]. Qed.

(* early-termination drain with budget 2: 5 sectors terminated by the user at epoch 0 leave 3 (event enrolled for
   epoch 1), the callback at epoch 1 leaves 1 (event for epoch 2), the callback at epoch 2 leaves 0 (no event) *)
Definition ex_drain : list op :=
  [CreateMiner 1000 100 5; PreCommit 1000 (3, 0, 5) false; Terminate 1000 5 (3, 4, 5) false;
   T0; Tcb (ci_ok (3, 3, 5)); Tcb (ci_ok (3, 2, 5))].

Definition ex_drain_check : bool :=
  zlist_eqb (map (fun ops => match miners (run (init 0 0 2) ops) !! 1000 with Some mi => m_et mi | None => -1 end)
                 [firstn 3 ex_drain; firstn 5 ex_drain; ex_drain]) [3; 1; 0] &&
  zlist_eqb (enc_events (evs (queue (run (init 0 0 2) (firstn 3 ex_drain))) 1)) [1000; ET] &&
  zlist_eqb (enc_events (evs (queue (run (init 0 0 2) (firstn 5 ex_drain))) 2)) [1000; ET] &&
  zlist_eqb (enc_events (evs (queue (run (init 0 0 2) ex_drain)) 3)) [].

Example C05_nonvacuous_drain : Forall wf_op ex_drain /\ ex_drain_check = true.
Proof. split; [apply wf_opb_ok; vm_compute; reflexivity|vm_compute; reflexivity]. Qed.

(* ---- clearly labelled side lemmas (not pinned theorems) ---- *)

(* The LITERAL pair reading of "the recorded deadline is the one containing the next epoch" is false: a miner
   created at epoch 0 (period start -2780) whose cron starts at epoch 3000 runs its first callback on time at
   3039; afterwards current_deadline = 1 is right, but the recorded proving_period_start is still -2780 (the true
   period started at 2980): advance_deadline rewrites it only when current_deadline wraps to 0.  The field is an
   offset (used mod 2880), so this is not a defect; C05_deadline_recorded_after_tick is the true statement. *)
Definition ex_stale : list op :=
  [CreateMiner 1000 100 5] ++ repeat T0 3000 ++ [PreCommit 1000 (3, 0, 5) false] ++ repeat T0 39 ++ [Tcb (ci_ok (3, 0, 5))].
Definition ex_stale_check : bool :=
  let st := run (init 0 0 2) ex_stale in
  (now st =? 3040) && bool_decide (1000 ∈ claims st) &&
  match miners st !! 1000 with
  | Some mi => m_active mi && (m_dl mi =? 1) && (dl_index (m_pps mi) (now st) =? 1) && (m_pps mi =? -2780) &&
               (dl_period_start (m_pps mi) (now st) =? 2980) && negb (recorded_ok mi (now st))
  | None => false end.
Lemma C05_side_recorded_pair_literal_reading_refuted : Forall wf_op ex_stale /\ ex_stale_check = true.
Proof. split; [apply wf_opb_ok; vm_compute; reflexivity|vm_compute; reflexivity]. Qed.

(* miner_count is decremented once per FAILED CALLBACK, not once per deleted claim: two failing callbacks of one
   miner in one tick drive it below the number of claims (reproduced on the real code, scenario "double") *)
Definition ex_drift : list op :=
  [CreateMiner 1000 100 5; PreCommit 1000 (3, 0, 5) false; EnrolET 1000 39] ++ repeat T0 39 ++
  [Tick {| t_entry_fail := false; t_reward_fail := false; t_kpi_fail := false; t_market_fail := false;
           t_cbs := [ci_f1 (3, 0, 5); ci_f1 (3, 0, 5)] |}].
Definition ex_drift_check : bool :=
  let st := run (init 0 0 2) ex_drift in
  (miner_count st =? -1) && (Z.of_nat (length (elements (claims st))) =? 0).
Lemma C05_side_miner_count_drift_witness : Forall wf_op ex_drift /\ ex_drift_check = true.
Proof. split; [apply wf_opb_ok; vm_compute; reflexivity|vm_compute; reflexivity]. Qed.
