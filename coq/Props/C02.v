(* C02 -- Power is credited exactly for proven, healthy, unexpired sectors.
   Pinned statements only; every proof is `exact <lemma from Proofs/>`.
   Partition side: Model/Partition.v + Model/PartitionInv.v (credited, step_delta);
   power-actor side: Model/Power.v (PowerInv = totals are the sums over claims under the
   consensus-minimum rule). *)
From Coq Require Import ZArith List Bool.
From stdpp Require Import gmap.
From VF Require Import Gen.Consts Base.Corr Base.SetSum Model.Partition Model.PartitionInv
  Model.Power Model.Deadline Model.DeadlineInv Model.DeadlineC02
  Proofs.Partition_lemmas Proofs.Partition_c02 Proofs.Power_lemmas Proofs.Deadline_c02b.
Import ListNotations.
Open Scope Z_scope.

(* the consensus minimum the theorems speak about is the one in runtime/src/runtime/policy.rs *)
Theorem C02_minimum_consensus_power_is_10TiB : MINIMUM_CONSENSUS_POWER = 10 * 2 ^ 40.
Proof. reflexivity. Qed.

(* ---------- partition: memoised active power = Σ power of proven, non-faulty, live sectors ---------- *)
Theorem C02_active_power_exact : forall qs tbl p,
  PartInv qs tbl p ->
  p_active_power p = spow tbl (((sectors p ∖ terminated p) ∖ faults p) ∖ unproven p).
Proof. exact active_power_exact. Qed.

(* every operation moves the credited power by exactly the delta it reports to its caller
   (which the caller forwards to the power actor): credited' = credited + δ, also when the
   operation is rejected (δ = 0, nothing changes) *)
Theorem C02_delta_is_difference : forall st o,
  StInv st -> op_wf st o ->
  st_credited (next st o) = pp_add (st_credited st) (step_delta st o).
Proof. exact delta_is_difference. Qed.

(* hence the running sum of reported deltas equals the current sum, along every history *)
Theorem C02_credited_is_sum_of_deltas : forall unit off ops,
  0 < unit -> all_wf (init unit off) ops ->
  st_credited (run (init unit off) ops) = sum_deltas (init unit off) ops.
Proof. exact credited_is_sum_of_deltas_init. Qed.

(* a sector contributes nothing before a Window PoSt has covered it ... *)
Theorem C02_unproven_contributes_nothing : forall st secs,
  StInv st -> op_wf st (AddSectors false secs) ->
  step_delta st (AddSectors false secs) = pp0 /\
  st_credited (next st (AddSectors false secs)) = st_credited st.
Proof. exact unproven_contributes_nothing. Qed.

(* ... and exactly its power once the PoSt activates it *)
Theorem C02_activation_credits_unproven_power : forall st,
  StInv st ->
  step_delta st ActivateUnproven = spow (st_tbl st) (unproven (st_part st)) /\
  unproven (st_part (next st ActivateUnproven)) = ∅.
Proof. exact activation_credits_unproven_power. Qed.

(* no power while skipped, faulty or not yet proven recovered: faulty (hence recovering) and
   unproven sectors are never part of the credited set, and a skipped sector leaves it at once *)
Theorem C02_skipped_or_faulty_contributes_nothing : forall st fe skipped n p' d nfp rrp hnf,
  StInv st ->
  (n ∈ faults (st_part st) -> n ∉ active_sectors (st_part st)) /\
  (n ∈ recoveries (st_part st) -> n ∉ active_sectors (st_part st)) /\
  (p_record_skipped_faults (st_q st) (st_tbl st) (st_part st) fe skipped = Ok (p', d, nfp, rrp, hnf) ->
   n ∈ skipped -> n ∉ active_sectors p').
Proof. exact skipped_or_faulty_contributes_nothing. Qed.

(* a deadline that closes without a proof removes all power of the partition at its end: the
   reported delta is minus everything that was credited, and nothing is credited afterwards *)
Theorem C02_missed_post_removes_power_at_deadline_end : forall st fe p' d pen nfp,
  StInv st ->
  p_record_missed_post (st_q st) (st_part st) fe = Ok (p', d, pen, nfp) ->
  credited (st_tbl st) p' = pp0 /\ active_sectors p' = ∅ /\ d = pp_neg (st_credited st).
Proof. exact missed_post_removes_power. Qed.

(* ---------- deadline: the same for every operation of deadline_state.rs ----------
   dcredited = Σ over the deadline's partitions of the credited power; dstep_delta = what the
   operation returns to the miner actor (record_faults / record_proven_sectors /
   process_deadline_end return the delta, terminate returns the power lost, expiry the expired
   active power; sectors are added unproven; compaction reports nothing). *)
Theorem C02_deadline_delta_is_difference : forall st o,
  DsInv st -> dop_wf st o ->
  ds_credited (dnext st o) = pp_add (ds_credited st) (dstep_delta st o).
Proof. exact ddelta_is_difference. Qed.

Theorem C02_deadline_credited_is_sum_of_deltas : forall unit off psize ops,
  0 < unit -> 0 < psize -> dall_wf (dinit unit off psize) ops ->
  ds_credited (drun (dinit unit off psize) ops) = dsum_deltas (dinit unit off psize) ops.
Proof. exact dcredited_is_sum_of_deltas. Qed.

(* ---------- power actor: totals = sums of claims under the consensus-minimum rule ---------- *)
Theorem C02_power_totals_exact : forall minp minm ops,
  0 < minp -> pall_wf (pinit minp minm) ops -> PowerInv (prun (pinit minp minm) ops).
Proof. exact power_totals_exact. Qed.

Theorem C02_current_total_power_rule : forall st,
  PowerInv st ->
  current_total_power st =
    if above_min_count st <? min_miners st
    then (sumc c_raw (claim_list st), sumc c_qa (claim_list st))
    else (sumc (fun c => if above st c then c_raw c else 0) (claim_list st),
          sumc (fun c => if above st c then c_qa c else 0) (claim_list st)).
Proof. exact current_total_power_rule. Qed.

(* a claim moves by exactly the delta its miner reports; other claims are untouched *)
Theorem C02_claim_is_sum_of_deltas : forall st m dr dq st' c,
  add_to_claim st m dr dq = inl st' -> claims st !! m = Some c ->
  claims st' !! m = Some {| c_raw := c_raw c + dr; c_qa := c_qa c + dq |} /\
  (forall m', m' <> m -> claims st' !! m' = claims st !! m').
Proof. exact claim_is_sum_of_deltas. Qed.

(* Composition: if the miner forwards every reported delta to UpdateClaimedPower, its claim equals
   the credited power.  Proved for one partition (below) and one deadline (above) driven by their
   callers; the composition over the 48 deadlines and the message handlers of
   actors/miner/src/lib.rs (which delta each handler sends, cron scheduling) is validated by the
   handler-level monitor harness (harness/src/bin/minerpower.rs), not proved: *)
Theorem C02_miner_claim_tracks_partial : forall unit off ops,
  0 < unit -> all_wf (init unit off) ops ->
  let claim := sum_deltas (init unit off) ops in
  claim = spow (st_tbl (run (init unit off) ops))
               (active_sectors (st_part (run (init unit off) ops))).
Proof. exact miner_claim_tracks_partition. Qed.

(* ---- non-vacuity ---- *)
Definition ex_mk n e q pl f :=
  {| s_num := n; s_exp := e; s_raw := 32; s_qa := q; s_pledge := pl; s_fee := f |}.
Definition ex_secs := [ex_mk 1%N 20 50 1000 3; ex_mk 2%N 30 51 1001 4; ex_mk 3%N 70 52 1002 5].
Definition ex_ops :=
  [AddSectors false ex_secs; ActivateUnproven; RecordSkippedFaults 9 [1]%N;
   DeclareFaultsRecovered [1]%N; RecoverFaults; RecordMissedPost 9].

Example C02_nonvacuous :
  map (fun k => st_credited (run (init 4 1) (firstn k ex_ops))) (seq 0 7) =
    [pp0; pp0; PP 96 153; PP 64 103; PP 64 103; PP 96 153; pp0] /\
  sum_deltas (init 4 1) (firstn 5 ex_ops) = PP 96 153 /\
  all_wf_b (init 4 1) ex_ops = true.
Proof. vm_compute. repeat split. Qed.

Example C02_power_nonvacuous :
  let st := prun (pinit 100 2)
    [PCreateMiner 1%N; PCreateMiner 2%N; PCreateMiner 3%N;
     PUpdateClaimedPower 1%N true 150 300; PUpdateClaimedPower 2%N true 99 500;
     PUpdateClaimedPower 3%N true 100 7; PUpdateClaimedPower 1%N true (-60) (-100);
     PDeleteClaim 2%N] in
  (total_bytes st, total_qa_bytes st, total_raw st, total_qa st, above_min_count st, miner_count st)
    = (190, 207, 100, 7, 1, 2) /\
  current_total_power st = (190, 207) /\
  snd (pstep st (PUpdateClaimedPower 1%N true (-91) 0)) = 20.
Proof. vm_compute. repeat split. Qed.
