(* C07 -- Deal payments are exact and independent of the settlement schedule.
   Pinned statements only; every proof is `exact <lemma from Proofs/MarketPay_lemmas.v or Market_lemmas.v>`.

   Vocabulary (see also Props/C06.v):
     fate                     how a deal left the tables: FCompleted | FTerminated t | FTimedOut
     earned_final p f         price * (end - start) | price * max 0 (min end t - start) | 0
     burnt_final p f          0 for FCompleted, the whole provider collateral otherwise
     flow a p e b             [a = provider p] (e - b) - [a = client p] e   (net escrow movement for a)
     live_flow a pu p         flow a p (price * (pu - start)) 0             (deal still in the tables)
     gone_flow a _ (p, f)     flow a p (earned_final p f) (burnt_final p f)
     ghost = (g_gone, g_dep, g_wd)  bookkeeping that is NOT part of the model: for every deal that left the
                              tables its proposal and fate; per participant total deposits and withdrawals.
                              gstep runs the model's step and updates the ghost from the step's own inputs
                              and outputs (C07_ghost_records, C07_gone_new_lookup)
     Led st g                 for every participant a:
                                escrow a = deposits a - withdrawals a
                                           + sum over live deals of live_flow a (paid_until) p
                                           + sum over finished deals of gone_flow a
                              and burnt <= sum of burnt_final, and finished deals are not live *)
From stdpp Require Import gmap.
From Coq Require Import ZArith List Bool.
From VF Require Import Gen.Consts Gen.MarketConsts Base.Corr Model.Market
  Proofs.MarketBase_lemmas Proofs.Market_lemmas Proofs.MarketPay_lemmas.
Import ListNotations.
Open Scope Z_scope.

(* the closed-form ledger holds after every history: any number of settlements, cron ticks and
   terminations at any epochs relative to start/end, interleaved with arbitrary operations on other
   deals, by any callers *)
Theorem C07_ledger_reachable : forall ivl ops,
  hist_ok 0 ops -> Led (fst (grun (init ivl) g0 ops)) (snd (grun (init ivl) g0 ops)).
Proof. exact led_reachable. Qed.

Theorem C07_ledger_step : forall now st g o,
  MarketInv now st -> Led st g -> now <= op_epoch o -> wf_op o ->
  Led (fst (gstep st g o)) (snd (gstep st g o)).
Proof. exact gstep_led. Qed.

Theorem C07_grun_is_run : forall ops st g, fst (grun st g ops) = run st ops.
Proof. exact grun_fst. Qed.

(* provider_credit_exact / client_refund_exact / provider_collateral_fate, all deals at once *)
Theorem C07_ledger_reads : forall st g, Led st g ->
  (forall a, E st a = bt_get (g_dep g) a - bt_get (g_wd g) a
                      + osum (live_flow a) (proposals st) (states st) + msum (gone_flow a) (g_gone g)) /\
  burnt st <= msum gone_burnt (g_gone g) /\
  (forall id, g_gone g !! id <> None -> proposals st !! id = None /\ id < next_id st).
Proof. exact ledger_reads. Qed.

Theorem C07_flow_provider : forall p e b, p_client p <> p_provider p -> flow (p_provider p) p e b = e - b.
Proof. exact flow_provider. Qed.
Theorem C07_flow_client : forall p e b, p_client p <> p_provider p -> flow (p_client p) p e b = - e.
Proof. exact flow_client. Qed.
Theorem C07_flow_other : forall a p e b, a <> p_client p -> a <> p_provider p -> flow a p e b = 0.
Proof. exact flow_other. Qed.

(* what the ghost records: a deal enters g_gone in the step in which its proposal disappears, as
   FTerminated pe if that step is OnMinerSectorsTerminate(pe), else FCompleted if it had a deal state
   (it was activated) and FTimedOut if not *)
Theorem C07_ghost_records : forall st g o,
  snd (gstep st g o) =
  mkG (g_gone g ∪ gone_new (term_of o) st (proposals (fst (step st o))))
      (match o, snd (step st o) with
       | AddBalance _ who _ v, c :: _ => if c =? OK then bt_upd (g_dep g) who v else g_dep g
       | _, _ => g_dep g
       end)
      (match o, snd (step st o) with
       | Withdraw _ _ who _ _ _, [c; paid; _] => if c =? OK then bt_upd (g_wd g) who paid else g_wd g
       | _, _ => g_wd g
       end).
Proof. exact ghost_records. Qed.

Theorem C07_gone_new_lookup : forall term st0 P' id,
  gone_new term st0 P' !! id =
  match proposals st0 !! id with
  | Some p => match P' !! id with None => Some (p, fate_by term (states st0 !! id)) | Some _ => None end
  | None => None
  end.
Proof. exact gone_new_lookup. Qed.

(* path_independence *)
Theorem C07_path_independence : forall st1 g1 st2 g2,
  Led st1 g1 -> Led st2 g2 ->
  proposals st1 = proposals st2 ->
  (forall id p, proposals st1 !! id = Some p ->
                paid_until (states st1 !! id) p = paid_until (states st2 !! id) p) ->
  g_gone g1 = g_gone g2 ->
  (forall a, bt_get (g_dep g1) a - bt_get (g_wd g1) a = bt_get (g_dep g2) a - bt_get (g_wd g2) a) ->
  forall a, E st1 a = E st2 a.
Proof. exact path_independence. Qed.

(* no_epoch_twice_or_skipped: process_deal_update on a live deal at `epoch` pays exactly
   price * (pu' - pu) from the client's escrow and lock to the provider's escrow, where pu is the old
   paid-until epoch and pu' = max pu (min end epoch); it completes the deal iff end <= epoch, releasing
   both collaterals in full then; ... *)
Theorem C07_update_pays_exact_window : forall epoch owed S st id p ds,
  InvS epoch owed S st -> proposals st !! id = Some p -> S !! id = Some ds -> 0 <= epoch ->
  let c := p_client p in let pr := p_provider p in
  let pu := paid_until (Some ds) p in
  let pu' := Z.max pu (Z.min (p_end p) epoch) in
  let x := p_price p * (pu' - pu) in
  let done := p_end p <=? epoch in
  let k := if done then 1 else 0 in
  exists st',
    process_deal_update st ds p epoch = Ok st' (0, x, done, done) /\
    eff c pr st st' (x + k * p_ccoll p) (k * p_pcoll p) x 0 (k * p_ccoll p) (k * p_pcoll p) x /\
    pending st' = (if ds_lu ds =? UNDEF then pend_del (pending st) p else pending st).
Proof. exact pdu_spec. Qed.

(* ... and the state then written (last_updated := epoch) makes the next window start where this one
   ended; the paid-until epoch never moves backwards *)
Theorem C07_windows_consecutive : forall now p ds epoch,
  wf_ds now p ds -> now <= epoch -> 0 <= epoch -> epoch < p_end p ->
  paid_until (Some (mkDs (ds_sector ds) (ds_start ds) epoch (ds_slash ds))) p =
  Z.max (paid_until (Some ds) p) (Z.min (p_end p) epoch).
Proof. exact pu_after_update. Qed.

(* termination at pe < end: pays price * max 0 (pe - pu), returns the rest of the fee and the client
   collateral to the client, takes the whole provider collateral out of escrow (burnt) *)
Theorem C07_termination_exact : forall now owed S st id p ds pe,
  InvS now owed S st -> proposals st !! id = Some p -> S !! id = Some ds -> now <= pe -> pe < p_end p ->
  let c := p_client p in let pr := p_provider p in
  let pu := paid_until (Some ds) p in
  let x := p_price p * Z.max 0 (pe - pu) in
  exists st', process_slashed_deal st p (mkDs (ds_sector ds) (ds_start ds) (ds_lu ds) pe) = Ok st' (p_pcoll p) /\
    eff c pr st st' (p_ccoll p + fee_left pu p) (p_pcoll p) x (p_pcoll p) (p_ccoll p) (p_pcoll p) (fee_left pu p) /\
    pending st' = pending st.
Proof. exact slashed_spec. Qed.

(* never activated: the client's whole lock is released, the provider collateral is forfeited in full *)
Theorem C07_timeout_exact : forall now owed S st id p,
  InvS now owed S st -> proposals st !! id = Some p -> S !! id = None ->
  let c := p_client p in let pr := p_provider p in
  exists st', process_deal_init_timed_out st p = Ok st' (p_pcoll p) /\
    eff c pr st st' (p_ccoll p + total_fee p) (p_pcoll p) 0 (p_pcoll p) (p_ccoll p) (p_pcoll p) (total_fee p) /\
    pending st' = pending st.
Proof. exact timed_out_spec. Qed.

(* ---- non-vacuity: one deal, three different schedules with the same termination point give the same
   escrow table; the ghost ledger of a concrete history ---- *)
Definition exP := mkProp 7 2048 false 101 200 1 1000 (1000 + 518400) 10 500 300.
Definition exD p := mkPdeal p true true true 100.
Definition exM := TMiner 150 151 [].
Definition prefix := [
  AddBalance 0 101 TAccount 100000000; AddBalance 0 200 exM 5000;
  Publish 151 5 exM [exD exP]; Activate 200 true 10 [(1, 2000000, [0])] ].
Definition sched1 := prefix ++ [Terminate 200 true 300000 300000 [1]].
Definition sched2 := prefix ++ [Settle 20 [0]; Settle 1000 [0]; Settle 1001 [0]; Cron 3 90000; Settle 250000 [0];
                                Terminate 200 true 300000 300000 [1]].
Definition sched3 := prefix ++ [Cron 3 5000; Settle 299999 [0]; Settle 299999 [0]; Terminate 200 true 300000 300000 [1]].

Example C07_nonvacuous :
  hist_ok 0 sched1 /\ hist_ok 0 sched2 /\ hist_ok 0 sched3 /\
  let f ops := let st := run (init 86400) ops in (E st 101, E st 200, L st 101, L st 200, burnt st) in
  f sched1 = (100000000 - 10 * (300000 - 1000), 5000 + 10 * (300000 - 1000) - 500, 0, 0, 500) /\
  f sched2 = f sched1 /\ f sched3 = f sched1 /\
  g_gone (snd (grun (init 86400) g0 sched2)) !! 0 = Some (exP, FTerminated 300000).
Proof.
  assert (H : forall ops, ops = sched1 \/ ops = sched2 \/ ops = sched3 -> hist_ok 0 ops).
  { intros ops [->|[->| ->]]; unfold sched1, sched2, sched3, prefix;
      cbn [app hist_ok op_epoch wf_op];
      repeat match goal with
             | |- _ /\ _ => split
             | |- True => exact I
             | |- wf_op _ => unfold wf_op; cbn [op_epoch]
             | |- NoDup [] => apply NoDup_nil
             | |- NoDup (_ :: _) => apply NoDup_cons; [cbn [In]; intuition lia|]
             | |- _ => lia
             end. }
  split; [apply H; auto|]. split; [apply H; auto|]. split; [apply H; auto|].
  vm_compute. repeat split.
Qed.
