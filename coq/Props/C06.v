(* C06 -- Market escrow: locked funds equal outstanding deal obligations.
   Pinned statements only; every proof is `exact <lemma from Proofs/Market_lemmas.v>`.

   Vocabulary (Proofs/Market_lemmas.v, Proofs/MarketBase_lemmas.v):
     L st a, E st a          the locked / escrow table entry of participant a (0 when absent)
     paid_until os p         start epoch of p, or max(start, last_updated) once the deal state os was updated
     fee_left pu p           price * (end - pu)
     contribf a pu p         [a = client p] (client_collateral + fee_left pu p) + [a = provider p] provider_collateral
     osum f P S              sum over the stored proposals (id, p) of f (paid_until (S !! id) p) p
     obligations st a        osum (contribf a) (proposals st) (states st)
     bsum t                  sum of all entries of a balance table
     MarketInv now st        the invariant (record InvC): proposals well-formed and ids < next_id; every deal
                             state belongs to a stored proposal, is unslashed, last_updated <= now and < end;
                             locked = obligations for EVERY participant; locked <= escrow; the three
                             market-wide totals = the three per-deal sums; sum of escrow <= market balance
     wf_op o                 0 <= epoch; the sector-termination epoch passed by the miner is the current epoch;
                             SettleDealPayments ids are a set (a bitfield in the implementation)
     hist_ok now ops         epochs never decrease along the history and every op is wf_op *)
From stdpp Require Import gmap.
From Coq Require Import ZArith List Bool.
From VF Require Import Gen.Consts Gen.MarketConsts Base.Corr Model.Market
  Proofs.MarketBase_lemmas Proofs.Market_lemmas.
Import ListNotations.
Open Scope Z_scope.

(* constants of actors/market/src/policy.rs and lib.rs the model uses, as they are in /repo today *)
Theorem C06_market_constants :
  DEAL_MIN_DURATION = 180 * EPOCHS_IN_DAY /\ DEAL_MAX_DURATION = 1278 * EPOCHS_IN_DAY /\
  TOTAL_FILECOIN = 2000000000 * 10 ^ 18 /\ EX_DEAL_EXPIRED = FIRST_ACTOR_SPECIFIC_EXIT_CODE /\
  CRON_ACTOR_ID = 3 /\ PENALTY_IS_FULL_COLLATERAL = true /\ MARKET_GUARDS_PRESENT = true.
Proof. repeat split. Qed.

(* the invariant holds initially and after every operation -- accepted or rejected, any caller, any
   amounts, batches mixing valid and invalid deals, both activation paths -- of every history *)
Theorem C06_market_inv_reachable : forall ivl ops,
  hist_ok 0 ops -> MarketInv (last_epoch 0 ops) (run (init ivl) ops).
Proof. exact market_inv_reachable. Qed.

Theorem C06_market_inv_step : forall now st o,
  MarketInv now st -> now <= op_epoch o -> wf_op o -> MarketInv (op_epoch o) (fst (step st o)).
Proof. exact step_inv. Qed.

Theorem C06_rejected_call_changes_nothing : forall st o st' c r,
  step st o = (st', c :: r) -> c <> OK -> st' = st.
Proof. exact step_rejected_unchanged. Qed.

Theorem C06_locked_equals_obligations : forall now st a,
  MarketInv now st -> L st a = obligations st a.
Proof. exact locked_equals_obligations. Qed.

Theorem C06_locked_le_escrow : forall now st a, MarketInv now st -> 0 <= L st a <= E st a.
Proof. exact locked_le_escrow. Qed.

Theorem C06_totals_exact : forall now st, MarketInv now st ->
  tot_ccoll st = osum fcc (proposals st) (states st) /\
  tot_pcoll st = osum fpc (proposals st) (states st) /\
  tot_fee st = osum fee_left (proposals st) (states st).
Proof. exact totals_exact. Qed.

Theorem C06_states_subset_proposals : forall now st id ds,
  MarketInv now st -> states st !! id = Some ds ->
  exists p, proposals st !! id = Some p /\ wf_ds now p ds.
Proof. exact states_subset_proposals. Qed.

(* feeds C01: the market actor always holds at least the sum of all escrow entries *)
Theorem C06_market_solvent : forall now st, MarketInv now st -> bsum (escrow st) <= balance st.
Proof. exact market_solvent. Qed.

(* an accepted withdrawal pays exactly min(requested, escrow - locked), out of `who`'s entry only; it is
   accepted only if the payout transfer did not fail (pf = None): a failing payout fails the whole call *)
Theorem C06_withdraw_exact : forall now st caller who t amt pf st' paid recipient,
  MarketInv now st ->
  withdraw_balance st caller who t amt pf = (st', [OK; paid; recipient]) ->
  pf = None /\
  paid = Z.min amt (E st who - L st who) /\ 0 <= paid /\
  E st' who = E st who - paid /\ (forall a, a <> who -> E st' a = E st a) /\
  (forall a, L st' a = L st a) /\ balance st' = balance st - paid /\
  proposals st' = proposals st /\ states st' = states st /\ pending st' = pending st.
Proof. exact withdraw_exact. Qed.

(* ... to the participant itself, or to a miner's owner, and only the participant (resp. the miner's
   owner or worker, as answered by the miner's ControlAddresses) can cause it *)
Theorem C06_withdraw_auth : forall st caller who t amt pf st' paid recipient,
  withdraw_balance st caller who t amt pf = (st', [OK; paid; recipient]) ->
  match t with
  | TNone => False
  | TAccount => caller = who /\ recipient = who
  | TMiner o w _ => (caller = o \/ caller = w) /\ recipient = o
  end.
Proof. exact withdraw_auth. Qed.

(* ---- non-vacuity: deposits, a batch with a valid, a duplicate and an unfunded deal, activation,
   partial settlement, cron, sector termination, withdrawal of exactly the unlocked remainder ---- *)
Definition exP := mkProp 7 2048 false 101 200 1 1000 (1000 + 518400) 10 500 300.
Definition exQ := mkProp 8 2048 false 102 200 1 2000 (2000 + 518400) 20 600 0.
Definition exD p := mkPdeal p true true true 100.
Definition exM := TMiner 150 151 [].
Definition ex_ops := [
  AddBalance 0 101 TAccount 100000000; AddBalance 0 200 exM 5000; AddBalance 1 102 TAccount 5;
  Publish 151 5 exM [exD exP; exD exP; exD exQ];
  Activate 200 true 10 [(1, 2000000, [0])];
  Settle 1500 [0];
  Cron 3 2000;
  Terminate 200 true 3000 3000 [1];
  Withdraw 101 3001 101 TAccount 999999999999 None ].

Example C06_nonvacuous :
  hist_ok 0 ex_ops /\
  let st4 := run (init 86400) (firstn 4 ex_ops) in
  let st6 := run (init 86400) (firstn 6 ex_ops) in
  let st8 := run (init 86400) (firstn 8 ex_ops) in
  let st9 := run (init 86400) ex_ops in
  snd (step (run (init 86400) (firstn 3 ex_ops)) (Publish 151 5 exM [exD exP; exD exP; exD exQ]))
    = [OK; 1; 0; 1; 0] /\
  L st4 101 = 300 + 10 * 518400 /\ L st4 200 = 500 /\
  L st6 101 = 300 + 10 * (518400 - 500) /\ E st6 200 = 5000 + 10 * 500 /\
  L st8 101 = 0 /\ L st8 200 = 0 /\ E st8 200 = 5000 + 10 * 2000 - 500 /\ burnt st8 = 500 /\
  E st9 101 = 0 /\ balance st9 = bsum (escrow st9).
Proof. split; [cbn; repeat split; try lia; repeat constructor; cbn; intuition lia|vm_compute; repeat split]. Qed.
