(* C12 -- Multisig: spending needs a quorum of current signers, once, within the lock.
   Pinned statements only; every proof is `exact <lemma from Proofs/Multisig_lemmas.v>`.

   LEVELS.  "world level" = the re-entrant semantics of coq/Model/Multisig.v: a world of wallets and
   accounts, top-level messages from accounts, executed transactions that call multisig methods of the
   same or other wallets recursively; `reach accts next ops` is the world after the history `ops`
   (each operation with its own call-depth bound `fuel`; exhaustion = the inner send fails), starting
   from a world of accounts in which every wallet is created by the constructor.  All world-level
   theorems hold for EVERY history and EVERY fuel.  `log` records every send made by a wallet (theorem
   C12_every_send_is_logged) with the wallet's state and balance at that instant.
   "single-wallet level" = one method invocation `wallet_method` on an arbitrary wallet state (these are
   the building blocks; the world level re-establishes their hypotheses at every call, theorem
   C12_calls_start_in_invariant_worlds). *)
From Coq Require Import ZArith NArith List Bool.
From stdpp Require Import gmap.
From VF Require Import Gen.Consts Base.Corr Model.Multisig Proofs.Multisig_lemmas.
Import ListNotations.
Open Scope Z_scope.

(* the bound the theorems speak about is the one in actors/multisig/src/types.rs today *)
Theorem C12_signers_max_is_256 : SIGNERS_MAX = 256.
Proof. reflexivity. Qed.

(* ---- world level ---- *)

(* 1 <= threshold <= number of signers <= 256, no duplicate signer: every wallet, every reachable world *)
Theorem C12_wallet_wf : forall accts next ops w st,
  wallets (reach accts next ops) !! w = Some st ->
  1 <= threshold st /\ threshold st <= len (signers st) /\ len (signers st) <= SIGNERS_MAX /\
  NoDup (signers st).
Proof. exact wallet_wf_reachable. Qed.

(* a transaction is sent only when at least `threshold` DISTINCT CURRENT signers are recorded as its
   approvers (ev_st = the wallet's state at the instant of the send) *)
Theorem C12_quorum_at_send : forall accts next ops ev,
  ev ∈ log (reach accts next ops) ->
  1 <= threshold (ev_st ev) /\
  threshold (ev_st ev) <= len (t_approved (ev_txn ev)) /\
  NoDup (t_approved (ev_txn ev)) /\
  t_approved (ev_txn ev) ⊆ signers (ev_st ev) /\
  NoDup (signers (ev_st ev)) /\ len (signers (ev_st ev)) <= SIGNERS_MAX.
Proof. exact quorum_at_send. Qed.

(* ... at most once: no two sends of the same (wallet, transaction id) *)
Theorem C12_sent_at_most_once : forall accts next ops,
  NoDup (map ev_key (log (reach accts next ops))).
Proof. exact sent_at_most_once. Qed.

Theorem C12_sent_never_pending_again : forall accts next ops more ev st,
  ev ∈ log (reach accts next ops) ->
  wallets (reach accts next (ops ++ more)) !! ev_w ev = Some st ->
  pending st !! ev_id ev = None /\ ev_id ev < next_id st.
Proof. exact sent_never_pending_again. Qed.

(* transaction ids are handed out in increasing order, never reused, and what a pending transaction
   says (to, value, payload) never changes: approvals are approvals of exactly that transaction *)
Theorem C12_txn_ids_increase_and_bodies_fixed : forall accts next ops more w st,
  wallets (reach accts next ops) !! w = Some st ->
  exists st', wallets (reach accts next (ops ++ more)) !! w = Some st' /\
    next_id st <= next_id st' /\
    (forall id t t', pending st !! id = Some t -> pending st' !! id = Some t' ->
       t_to t = t_to t' /\ t_value t = t_value t' /\ t_payload t = t_payload t') /\
    (forall id t', pending st' !! id = Some t' -> pending st !! id = None -> next_id st <= id).
Proof. exact txn_ids_increase_and_bodies_fixed. Qed.

(* ... and never leaves the balance below the amount still locked (ev_bal = balance at that instant) *)
Theorem C12_lock_respected : forall accts next ops ev,
  ev ∈ log (reach accts next ops) ->
  0 <= t_value (ev_txn ev) <= ev_bal ev /\
  (0 < t_value (ev_txn ev) ->
   amount_locked (ev_st ev) (ev_epoch ev - start_epoch (ev_st ev)) <= ev_bal ev - t_value (ev_txn ev)).
Proof. exact lock_respected. Qed.

(* the vesting schedule: closed form (0 after the end, everything before the start, the ceiling of the
   linear interpolation in between), bounds, monotone non-increasing in the elapsed time *)
Theorem C12_amount_locked_spec : forall st x,
  (unlock_dur st <= x -> amount_locked st x = 0) /\
  (x < unlock_dur st -> x <= 0 -> amount_locked st x = init_bal st) /\
  (0 < x < unlock_dur st ->
     let L := amount_locked st x in
     unlock_dur st * (L - 1) < init_bal st * (unlock_dur st - x) <= unlock_dur st * L) /\
  (0 <= init_bal st -> 0 <= amount_locked st x <= init_bal st) /\
  (0 <= init_bal st -> forall y, x <= y -> amount_locked st y <= amount_locked st x).
Proof. exact amount_locked_spec. Qed.

(* approvals of removed or replaced signers do not count: in every reachable world every approval
   held by a pending transaction belongs to a CURRENT signer (and there is at least one, no duplicates) *)
Theorem C12_approvals_are_current_signers : forall accts next ops w st id t,
  wallets (reach accts next ops) !! w = Some st -> pending st !! id = Some t ->
  t_approved t <> [] /\ NoDup (t_approved t) /\ t_approved t ⊆ signers st /\ 0 <= id < next_id st.
Proof. exact approvals_are_current_signers. Qed.

(* signers, threshold and lock-up change only through a transaction the wallet sends to itself *)
Theorem C12_config_changes_only_via_self : forall accts next ops more w st st',
  wallets (reach accts next ops) !! w = Some st ->
  wallets (reach accts next (ops ++ more)) !! w = Some st' ->
  config st' <> config st ->
  exists ev, ev ∈ log (reach accts next (ops ++ more)) /\ ~ ev ∈ log (reach accts next ops) /\
    ev_w ev = w /\ t_to (ev_txn ev) = w /\
    exists o, t_payload (ev_txn ev) = PCall o /\ is_config_op o = true.
Proof. exact config_changes_only_via_self. Qed.

Theorem C12_rejected_changes_nothing : forall fuel W o W' c r,
  step fuel W o = (W', (c, r)) -> c <> 0 -> W' = W.
Proof. exact rejected_changes_nothing. Qed.

(* the log is complete and truthful: the VM hands a send to the nested executor only when the last
   log entry announces exactly that send and records the sender's actual state and balance *)
Theorem C12_every_send_is_logged : forall sd1 sd2 e,
  (forall W from to v p, announced e W from to v p -> sd1 W from to v p = sd2 W from to v p) ->
  forall W from to v p, vm_send sd1 e W from to v p = vm_send sd2 e W from to v p.
Proof. exact every_send_is_logged. Qed.

(* every nested call starts in a world satisfying the invariant (all wallets well-formed, approvals of
   current signers only, ...): the single-wallet theorems below apply at every depth of re-entrancy *)
Theorem C12_calls_start_in_invariant_worlds : forall sd1 sd2 e,
  (forall W from to v p, inv W -> sd1 W from to v p = sd2 W from to v p) ->
  forall W from to v p, inv W -> vm_send sd1 e W from to v p = vm_send sd2 e W from to v p.
Proof. exact calls_start_in_invariant_worlds. Qed.

(* a failing call fails before any send: its outcome does not depend on the nested executor *)
Theorem C12_failure_decided_before_send : forall sd1 sd2 e W from to v p W' c r,
  vm_send sd1 e W from to v p = (W', (c, r)) -> c <> 0 ->
  vm_send sd2 e W from to v p = (W', (c, r)).
Proof. exact failure_decided_before_send. Qed.

(* Propose / Approve succeed whatever the inner send answered; its (normalised) code is only reported *)
Theorem C12_inner_failure_is_tolerated : forall sd e W from to v o cur st' id t k,
  negb (v =? 0) && (v <? 0) = false -> negb (v =? 0) && (balance W from <? v) = false ->
  exists_b W to = true ->
  wallets (transfer W from to v) !! to = Some cur ->
  wallet_method cur (balance (transfer W from to v) to) e from to (exists_b (transfer W from to v)) o
    = Send st' id t k ->
  exists W' code r, vm_send sd e W from to v (PCall o) = (W', (OK, mk_ret k true (checked_code code) r)).
Proof. exact inner_failure_is_tolerated. Qed.

(* ---- single-wallet level ---- *)

(* one method invocation: preserves the wallet invariant, only extends the bookkeeping, and when it
   ends in a send all of `send_facts` hold (quorum of current distinct signers at that instant, the
   transaction already deleted, lock inequality, caller is a signer, where the approvals come from) *)
Theorem C12_single_wallet_step : forall cur bal e caller self ex o,
  wallet_inv cur -> method_post cur bal e caller (wallet_method cur bal e caller self ex o).
Proof. exact m_method_post. Qed.

(* only signers can propose, approve or cancel *)
Theorem C12_only_signers_propose_approve : forall cur bal e caller self ex o,
  caller ∉ signers cur ->
  match o with Propose _ _ _ | Approve _ _ | Cancel _ _ => True | _ => False end ->
  exists c, wallet_method cur bal e caller self ex o = Fail c /\ c <> 0.
Proof. exact only_signers_propose_approve_cancel. Qed.

(* an approval enters a pending (or sent) transaction only for the caller of the method *)
Theorem C12_approvals_only_by_caller : forall cur bal e caller self ex o,
  wallet_inv cur ->
  match wallet_method cur bal e caller self ex o with
  | Fail _ => True
  | Done st' _ => forall id t', pending st' !! id = Some t' -> approvals_from cur caller id t'
  | Send st' id t _ =>
      approvals_from cur caller id t /\
      forall i t', pending st' !! i = Some t' -> approvals_from cur caller i t'
  end.
Proof. exact approvals_only_by_caller. Qed.

(* a pending transaction can be cancelled only by its earliest remaining approver ... *)
Theorem C12_cancel_only_by_first_approver : forall cur caller id h st' r,
  cancel cur caller id h = Done st' r ->
  caller ∈ signers cur /\
  (exists t, pending cur !! id = Some t /\ head (t_approved t) = Some caller /\
             (h = HNone \/ hash_matches h t = true)) /\
  st' = set_pending cur (delete id (pending cur)) /\ r = RNone.
Proof. exact cancel_only_by_first_approver. Qed.

(* ... who initially is the proposer; a proposal gets the next id *)
Theorem C12_propose_first_approver : forall cur bal e caller to v p,
  match propose cur bal e caller to v p with
  | Fail _ => True
  | Done st' r =>
      r = RProp (next_id cur) false OK RNone /\ next_id st' = next_id cur + 1 /\
      pending st' !! next_id cur =
        Some {| t_to := to; t_value := v; t_payload := p; t_approved := [caller] |}
  | Send st' id t k =>
      id = next_id cur /\ k = KProp (next_id cur) /\ next_id st' = next_id cur + 1 /\
      t = {| t_to := to; t_value := v; t_payload := p; t_approved := [caller] |}
  end.
Proof. exact propose_first_approver. Qed.

(* RemoveSigner / SwapSigner: the outgoing signer's approvals vanish from every pending transaction,
   nothing else about the transactions changes, transactions left without approver are deleted *)
Theorem C12_purged_approvals_do_not_count : forall cur caller self ex o st' r (x : addr),
  wallet_inv cur ->
  (exists dec, o = RemoveSigner x dec) \/ (exists b, o = SwapSigner x b) ->
  wallet_method cur 0 0 caller self ex o = Done st' r ->
  let a := a_id x in
  a ∉ signers st' /\ purged a (pending cur) (pending st') /\
  (forall id t, pending st' !! id = Some t -> a ∉ t_approved t).
Proof. exact purged_approvals_do_not_count. Qed.

(* only the five administrative methods, and only when called by the wallet itself, touch
   signers / threshold / lock *)
Theorem C12_config_needs_self_caller : forall cur bal e caller self ex o,
  match wallet_method cur bal e caller self ex o with
  | Fail _ => True
  | Done st' _ => config st' = config cur \/ (caller = self /\ is_config_op o = true)
  | Send st' _ _ _ => config st' = config cur
  end.
Proof. exact m_config. Qed.

(* ---- non-vacuity: a concrete history with a lock refusal, re-entrancy 104 -> 105 -> 104, a refused
   foreign AddSigner, a self AddSigner, a RemoveSigner that purges and deletes a transaction ---- *)
Definition ex_accts : list (N * Z) := [(101%N, 1000); (102%N, 1000); (103%N, 1000)].
Definition ex_call (e : Z) (from : N) (o : op) : nat * top := (8%nat, Msg e from 104%N 0 (PCall o)).
Definition ex_ops : list (nat * top) := [
  (8%nat, Create 0 101%N [101%N; 102%N] 2 100 0 500);
  (8%nat, Create 0 101%N [101%N; 104%N] 1 0 0 100);
  ex_call 10 101%N (Propose 103%N 60 PSend);
  ex_call 10 102%N (Approve 0 HNone);                                   (* refused: still locked *)
  ex_call 20 102%N (Approve 0 (HOf (Some 101%N) 103%N 60 PSend));
  ex_call 21 101%N (Propose 105%N 0 (PCall (Propose 104%N 0 (PCall (AddSigner (mk_addr 103%N false) true)))));
  ex_call 21 102%N (Approve 1 HNone);                                   (* 104 -> 105 -> 104: refused *)
  ex_call 22 101%N (Propose 104%N 0 (PCall (AddSigner (mk_addr 103%N false) true)));
  ex_call 22 102%N (Approve 2 HNone);
  ex_call 23 101%N (Propose 103%N 1 PSend);
  ex_call 23 102%N (Propose 104%N 0 (PCall (RemoveSigner (mk_addr 101%N true) true)));
  ex_call 23 101%N (Approve 4 HNone);
  ex_call 23 103%N (Approve 4 HNone);
  ex_call 24 103%N (Cancel 3 HNone)
].

Example C12_nonvacuous :
  let W := reach ex_accts 104%N ex_ops in
  map (fun ev => (ev_w ev, ev_id ev, t_to (ev_txn ev), t_approved (ev_txn ev), ev_bal ev)) (log W) =
    [(104%N, 0, 103%N, [101%N; 102%N], 500); (104%N, 1, 105%N, [101%N; 102%N], 440);
     (105%N, 0, 104%N, [104%N], 100); (104%N, 2, 104%N, [101%N; 102%N], 440);
     (104%N, 4, 104%N, [102%N; 101%N; 103%N], 440)] /\
  (match wallets W !! 104%N with
   | Some st => signers st = [102%N; 103%N] /\ threshold st = 2 /\ next_id st = 5 /\ map_to_list (pending st) = []
   | None => False end) /\
  balance W 103%N = 1060 /\ balance W 104%N = 440 /\
  forallb quorum_b (log W) = true /\
  (* the refused steps: lock (19), the foreign AddSigner reported as 18 inside the returns, cancel of a purged txn (17) *)
  map (fun o => hd 0 o) (Corr.observe (stepo 8) (init_world ex_accts 104%N) (map snd ex_ops)) =
    [0; 0; 0; 19; 0; 0; 0; 0; 0; 0; 0; 0; 0; 17] /\
  nth 6 (Corr.observe (stepo 8) (init_world ex_accts 104%N) (map snd ex_ops)) [] !! 1%nat = Some 2 /\
  firstn 8 (nth 6 (Corr.observe (stepo 8) (init_world ex_accts 104%N) (map snd ex_ops)) []) =
    [0; 2; 1; 0; 1; 0; 1; 18].
Proof. vm_compute. repeat split. Qed.
