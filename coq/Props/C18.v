(* C18 -- EVM execution is total, bounded and respects read-only mode (and the machine-level half of
   C17).  Pinned statements only; every proof is `exact <lemma from Proofs/EvmMachine_lemmas.v>`.

   The machine is coq/Model/EvmMachine.v: `step` / `run` parametrised by a [word_ops] (the arithmetic)
   and an [env] (code, call data, read-only flag, hash / context / other-account oracles); the results
   of calls, creates and transfers are the oracle stream m_ext of the state.  All theorems hold for
   EVERY word_ops whose results stay in [0, 2^256) ([ops_ok]), every environment, every code (any list
   of integers: bytes are read modulo 256), every oracle stream and every amount of fuel. *)
From stdpp Require Import gmap.
From Coq Require Import ZArith List Bool.
From VF Require Import Gen.Consts Gen.Opcodes Base.Corr Model.EvmSpec Model.EvmMachine
  Proofs.EvmWord_lemmas Proofs.EvmMachine_lemmas.
Import ListNotations.
Open Scope Z_scope.

(* ---- pins of the generated constants the statements depend on ---- *)
Theorem C18_constants :
  STACK_SIZE = 1024 /\ EVM_WORD_SIZE = 32 /\ MAX_CODE_SIZE = 24 * 1024 /\
  EVM_CONTRACT_REVERTED = 33 /\
  DEFINED_FAILURES = [25; 34; 35; 36; 37; 38; 39; 40] /\
  U32_MAX = 4294967295 /\ MEM_LIMIT = 2 ^ 32.
Proof. repeat split. Qed.

(* ---- the generated opcode table ---- *)
(* each byte is assigned the instruction the Ethereum specification assigns it (table written by hand
   in Proofs: spec_table), DUP/SWAP heights, PUSH widths and LOG topic counts included; every
   instruction defined in instructions/mod.rs is reachable from the jump table *)
Theorem C18_opcode_table_matches_spec :
  map (fun r => (op_byte r, op_instr r)) opcode_table = spec_table /\
  forallb (fun r => op_arg r =? spec_stack_arg (op_byte r)) opcode_table = true /\
  unreachable_instrs = [].
Proof. exact opcode_table_matches_spec. Qed.

(* the stack discipline of every row (see row_ok): push_unchecked only after pop_many of >= 1 operands
   or a checked ensure_one; operands popped = operands the implementation function takes; result
   handling = what the function returns; DUP/SWAP heights 1..16, PUSH widths 0..32 *)
Theorem C18_arity_discipline : forall r, In r opcode_table -> row_ok r = true.
Proof. exact arity_discipline. Qed.

(* pop_many::<S> yields exactly S operands, the top S items of the stack, and is refused (stack
   underflow) otherwise: the raw-pointer read stays inside the vector *)
Theorem C18_pop_many_in_bounds : forall r stk args stk',
  op_pre r = PrePopMany -> 0 <= op_pops r ->
  take_operands r stk = inr (args, stk') ->
  stk = args ++ stk' /\ zlen args = op_pops r /\ op_pops r <= zlen stk.
Proof. exact pop_many_in_bounds. Qed.

(* ---- totality ---- *)
(* no stuck state: whatever the byte under the program counter (truncated PUSH data reads as zeros),
   a step from a well-formed state yields a well-formed successor or halts with Return, Revert or one
   of the defined failure codes *)
Theorem C18_step_total : forall ops E, ops_ok ops -> forall s,
  wf s ->
  (exists s', step ops E s = SNext s' /\ wf s') \/
  (exists o s', step ops E s = SHalt o s' /\ defined_outcome o).
Proof. exact step_total. Qed.

(* a run either ends -- and then its result does not depend on how much fuel was left -- or it is
   interrupted after exactly [fuel] instructions with the program counter still inside the code.
   Fuel stands for gas (not modelled): running out of it is a distinct result, never a normal one. *)
Theorem C18_run_terminates_or_fuel : forall ops E fuel s,
  (exists o s', run ops E fuel s = Done o s' /\ forall extra, run ops E (fuel + extra) s = Done o s') \/
  (exists s', run ops E fuel s = OutOfFuel s' /\ nsteps ops E fuel s s' /\ m_pc s' < codelen E).
Proof. exact run_terminates_or_fuel. Qed.

(* every way a run can end is Return, Revert or a defined failure code *)
Theorem C18_run_outcome_defined : forall ops E fuel storage bal ext o s',
  ops_ok ops ->
  run ops E fuel (init_state storage bal ext) = Done o s' -> defined_outcome o.
Proof.
  intros ops E fuel storage bal ext o s' H R.
  pose proof (run_inv ops E H fuel _ (wf_init storage bal ext)) as (_ & _ & D). rewrite R in D. exact D.
Qed.

(* ---- the stack ---- *)
(* in every state in which a run ends or is interrupted the stack holds at most STACK_SIZE = 1024 words
   and every word is in [0, 2^256) (the second half is what C17's refinement needs) *)
Theorem C18_stack_bound_inv : forall ops E, ops_ok ops -> forall fuel s,
  wf s ->
  zlen (m_stack (final (run ops E fuel s))) <= STACK_SIZE /\
  Forall in_range (m_stack (final (run ops E fuel s))).
Proof. exact stack_bound_inv. Qed.

Theorem C18_stack_bound_from_start : forall ops E fuel storage bal ext,
  ops_ok ops ->
  zlen (m_stack (final (run ops E fuel (init_state storage bal ext)))) <= 1024.
Proof.
  intros ops E fuel storage bal ext H.
  exact (proj1 (stack_bound_inv ops E H fuel _ (wf_init storage bal ext))).
Qed.

(* ---- memory ---- *)
(* get_memory_region refuses exactly the accesses whose size, or (for a non-empty region) offset or end,
   exceeds 32 bits; zero-size regions never expand the memory; the memory never exceeds 4 GiB *)
Theorem C18_mem_region_refuses : forall ms off size,
  mem_region ms off size = None <->
  (U32_MAX < size \/ (size <> 0 /\ (U32_MAX < off \/ U32_MAX < off + size))).
Proof. exact mem_region_none. Qed.

Theorem C18_zero_size_region_does_not_expand : forall ms off, mem_region ms off 0 = Some (RegNone, ms).
Proof. exact mem_region_zero. Qed.

Theorem C18_memory_access_guard : forall ops E i args s off size,
  mem_args i args = Some (off, size) ->
  (U32_MAX < size \/ (size <> 0 /\ (U32_MAX < off \/ U32_MAX < off + size))) ->
  sem ops E i args s = SemFail EVM_CONTRACT_ILLEGAL_MEMORY_ACCESS s.
Proof. exact memory_access_guard. Qed.

Theorem C18_memory_size_bounded : forall ops E fuel storage bal ext,
  ops_ok ops ->
  0 <= m_msize (final (run ops E fuel (init_state storage bal ext))) <= 2 ^ 32.
Proof.
  intros ops E fuel storage bal ext H.
  pose proof (run_inv ops E H fuel _ (wf_init storage bal ext)) as ((_ & _ & M) & _). exact M.
Qed.

(* ---- jumps ---- *)
(* Bytecode::valid_jump_destination accepts exactly the JUMPDEST bytes on an instruction boundary;
   boundaries are defined inductively from position 0 by the specification's successor function
   (opcode + immediate data width) *)
Theorem C18_jumpdest_analysis_correct : forall code i,
  valid_jumpdest code i = true <->
  0 <= i < zlen code /\ byte_at code i = 91 /\ boundary code (Z.to_nat i).
Proof. exact jumpdest_analysis_correct. Qed.

(* a step from an instruction boundary lands on an instruction boundary: either the next instruction,
   or -- a taken JUMP / JUMPI -- just after a JUMPDEST byte that is itself on a boundary *)
Theorem C18_jump_lands_on_jumpdest : forall ops E, ops_ok ops -> forall s s',
  wf s -> pc_inv E s -> m_pc s < codelen E -> step ops E s = SNext s' ->
  pc_inv E s' /\
  (m_pc s' = next_pc E s \/
   (0 <= m_pc s' - 1 < codelen E /\ byte_at (code E) (m_pc s' - 1) = 91 /\
    boundary (code E) (Z.to_nat (m_pc s' - 1)))).
Proof. exact jump_lands_on_jumpdest. Qed.

Theorem C18_run_visits_boundaries : forall ops E, ops_ok ops -> forall n s s',
  wf s -> pc_inv E s -> nsteps ops E n s s' -> pc_inv E s'.
Proof. exact run_visits_boundaries. Qed.

(* ---- read-only ---- *)
(* with System.readonly set, a run leaves storage and transient storage untouched and every request it
   makes to the outside world is a call carrying no value: no log, no value transfer, no create, no
   selfdestruct.  (The flag is inherited by nested calls in the VM: SendFlags::READ_ONLY; the nested
   executions are separate runs of this machine with e_readonly = true.) *)
Theorem C18_readonly_no_effect : forall ops E, ops_ok ops -> forall fuel storage bal ext,
  e_readonly E = true ->
  let s' := final (run ops E fuel (init_state storage bal ext)) in
  m_storage s' = storage /\ m_transient s' = ∅ /\ Forall (fun e => is_effect e = false) (m_log s').
Proof. exact readonly_no_effect. Qed.

(* ---- extensionality in the word operations (the bridge to C17) ---- *)
Theorem C18_run_ext : forall o1 o2 E,
  ops_ok o1 -> ops_agree o1 o2 -> forall fuel s, wf s -> run o1 E fuel s = run o2 E fuel s.
Proof. exact run_ext. Qed.

(* the specification's word operations qualify (range lemmas of Proofs/EvmWord_lemmas.v) *)
Theorem C18_spec_ops_ok : ops_ok spec_ops.
Proof.
  unfold ops_ok, bin_list, un_list, tern_list.
  split; [|split];
    repeat (apply Forall_cons;
      [ first [ exact range_add | exact range_mul | exact range_sub | exact range_div | exact range_sdiv
              | exact range_mod | exact range_smod | exact range_exp | exact range_signextend | exact range_lt
              | exact range_gt | exact range_slt | exact range_sgt | exact range_eq | exact range_and
              | exact range_or | exact range_xor | exact range_byte | exact range_shl | exact range_shr
              | exact range_sar | exact range_iszero | exact range_not | exact range_clz | exact range_addmod
              | exact range_mulmod ] | ]);
    apply Forall_nil.
Qed.

(* ---- non-vacuity ---- *)
Definition ex_ci (cd : list Z) : call_in :=
  mkci cd 0 1000 (id_eth 100) (id_eth 100) 0 0 2000 3000 0 0 [] 77 [] [].
(* counter loop writing storage, then returning 32 bytes *)
Definition ex_prog : list Z :=
  [96; 10; 91; 96; 1; 144; 3; 128; 96; 2; 87; 96; 42; 95; 85; 96; 7; 95; 82; 96; 32; 95; 243].
(* fills the stack with 1024 words, then one more push *)
Definition ex_overflow : list Z := 95 :: repeat 128 1023 ++ [95].
(* jump into push data that contains a JUMPDEST byte: PUSH1 4 JUMP PUSH1 0x5b STOP *)
Definition ex_badjump : list Z := [96; 4; 86; 96; 91; 0].

Example C18_nonvacuous :
  let st := {| cs_code := ex_prog; cs_storage := ∅; cs_alive := true |} in
  (* direct: storage written, 32 bytes returned, stack depth 1 at halt *)
  snd (cstepo st (Invoke (ex_ci []))) = [0; 32; 7; 1; 0; 42; 0; 0; 0; 1; 32] /\
  (* beneath STATICCALL: the SSTORE is refused, the caller sees failure and no data *)
  snd (cstepo st (InvokeStatic (ex_ci []))) = [0; 0; 0; 0] /\
  (* the 1025th push is a stack overflow, with 1024 words on the stack *)
  snd (cstepo {| cs_code := ex_overflow; cs_storage := ∅; cs_alive := true |} (Invoke (ex_ci [])))
    = [37; 0; 0; 0; 0; 0; 1024; 0] /\
  (* a JUMPDEST byte inside push data is not a jump destination *)
  snd (cstepo {| cs_code := ex_badjump; cs_storage := ∅; cs_alive := true |} (Invoke (ex_ci [])))
    = [39; 0; 0; 0; 0; 0; 0; 0] /\
  valid_jumpdest ex_badjump 4 = false /\ byte_at ex_badjump 4 = 91.
Proof. vm_compute. repeat split. Qed.
