(* C16 -- Payment channel: vouchers redeem once and the payout is exact.
   Pinned statements only; every proof is `exact <lemma from Proofs/Paych_lemmas.v>`. *)
From stdpp Require Import gmap.
From Coq Require Import ZArith List Bool.
From VF Require Import Gen.Consts Base.Corr Model.Paych Proofs.Paych_lemmas.
Import ListNotations.
Open Scope Z_scope.

(* the settlement delay the theorems speak about is the one in actors/paych/src/types.rs today *)
Theorem C16_settle_delay_is_12_hours :
  SETTLE_DELAY = 12 * EPOCHS_IN_HOUR /\ EPOCHS_IN_HOUR = 120 /\ MAX_LANE = 2^63 - 1.
Proof. repeat split. Qed.

(* A voucher is accepted iff every condition of the statement holds (caller is a party, signed by
   the OTHER party, names this channel, inside its time lock, right secret, extra verification ok,
   lane <= MAX_LANE, nonce above the lane's, every merge names another existing lane with a higher
   nonce, 0 <= new amount owed <= balance, channel not past settling_at); and then the new state is
   exactly `updated`: to_send changes by amount - redeemed(own lane) - redeemed(merged lanes, as
   updated so far), the lane table is updated exactly so, everything else is unchanged. *)
Theorem C16_update_accepts_iff : forall st caller epoch v slo st',
  update st caller epoch v slo = (st', OK) <->
  exists ls' others, accept_cond st caller epoch v slo ls' others /\ st' = updated st v ls' others.
Proof. exact update_accepts_iff. Qed.

Theorem C16_rejected_call_changes_nothing : forall st o st' code,
  step st o = (st', code) -> code <> OK -> st' = st.
Proof. exact step_rejected_unchanged. Qed.

(* per-lane reading for pairwise distinct merge lanes *)
Theorem C16_update_delta_exact : forall st c e v slo st',
  update st c e v slo = (st', OK) -> NoDup (map fst (v_merges v)) ->
  to_send st' - to_send st =
    v_amount v - own_redeemed st (v_lane v) - sum_redeemed (lanes st) (v_merges v).
Proof. exact update_delta_nodup. Qed.

Theorem C16_no_replay : forall st c e v slo st1,
  update st c e v slo = (st1, OK) ->
  forall ops c' e' slo', snd (step (run st1 ops) (Update c' e' v slo')) <> OK.
Proof. exact no_replay. Qed.

Theorem C16_nonce_monotone : forall st ops l x,
  lanes st !! l = Some x -> exists y, lanes (run st ops) !! l = Some y /\ lnonce x <= lnonce y.
Proof. exact nonce_monotone. Qed.

Theorem C16_to_send_bounds : forall f t bal ops,
  0 <= bal -> let st := run (init f t bal) ops in
  0 <= to_send st /\ (alive st = true -> to_send st <= balance st).
Proof. exact to_send_bounds. Qed.

Theorem C16_settle_delay : forall f t bal ops c e st',
  Forall op_epoch_nonneg ops ->
  let '(st, g) := grun (ginit f t bal) ops in
  collect st c e = (st', OK) ->
  (c = from st \/ c = to_ st) /\
  exists es, g_settle g = Some es /\ es + SETTLE_DELAY <= e /\ g_msh g <= e /\ settling_at st <= e.
Proof. exact settle_delay. Qed.

Theorem C16_settling_at_monotone : forall st o,
  op_epoch_nonneg o -> settling_at st <> 0 -> settling_at st <= settling_at (fst (step st o)).
Proof. exact settling_at_monotone. Qed.

Theorem C16_collect_payout : forall st c e st',
  collect st c e = (st', OK) ->
  paid_to st' = paid_to st + to_send st /\
  paid_from st' = paid_from st + (balance st - to_send st) /\
  alive st' = false /\ balance st' = 0 /\ 0 <= to_send st <= balance st.
Proof. exact collect_payout. Qed.

Theorem C16_payout_only_by_collect : forall st o,
  (forall c e, o <> Collect c e) ->
  paid_to (fst (step st o)) = paid_to st /\ paid_from (fst (step st o)) = paid_from st.
Proof. exact payout_only_by_collect. Qed.

(* ---- non-vacuity: a concrete history that accepts vouchers (with a merge), settles, collects ---- *)
Definition ex_v1 := {| v_chan_ok := true; v_tl_min := 0; v_tl_max := 0; v_secret := None; v_extra := None;
  v_lane := 1; v_nonce := 1; v_amount := 100; v_msh := 0; v_merges := []; v_sig := Some 101 |}.
Definition ex_v2 := {| v_chan_ok := true; v_tl_min := 0; v_tl_max := 0; v_secret := Some true; v_extra := Some 0;
  v_lane := 2; v_nonce := 1; v_amount := 150; v_msh := 5000; v_merges := [(1, 2)]; v_sig := Some 101 |}.
Definition ex_ops := [Update 102 10 ex_v1 true; Update 102 11 ex_v2 true; Settle 101 20; Collect 102 5000].

Example C16_nonvacuous :
  let st := run (init 101 102 1000) ex_ops in
  alive st = false /\ paid_to st = 150 /\ paid_from st = 850 /\
  snd (step (run (init 101 102 1000) [Update 102 10 ex_v1 true]) (Update 102 12 ex_v1 true)) = ILLEGAL_ARGUMENT.
Proof. vm_compute. repeat split. Qed.
