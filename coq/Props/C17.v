(* C17 -- EVM instructions compute what the Ethereum specification says.
   Pinned statements only; every proof is `exact <lemma>`.

   WORD LEVEL (this part): for every arithmetic / comparison / bitwise / shift instruction, the
   algorithm the Rust code uses (Model/EvmWord.v `impl_ops`, transcribed from uints.rs, arithmetic.rs,
   bitwise.rs, boolean.rs) returns, for ALL 256-bit operands, the word the specification
   (Model/EvmSpec.v `spec_ops`: Yellow Paper, EIP-145, EIP-7939) defines.  `in_range x` is
   0 <= x < 2^256; the first argument is the top of the stack.
   MACHINE LEVEL: at the end of the file. *)
From stdpp Require Import gmap.
From Coq Require Import ZArith List Bool Zpow_facts Uint63.
From VF Require Import Gen.Opcodes Model.EvmSpec Model.EvmWord Model.EvmWordCorr Model.EvmMachine
  Proofs.EvmWord_lemmas Proofs.EvmRefine_lemmas.
Import ListNotations.
Open Scope Z_scope.

(* the constants the statements speak about *)
Theorem C17_word_size : W = 2 ^ 256 /\ HALF = 2 ^ 255.
Proof. split; reflexivity. Qed.

(* ---------------- implementation algorithm = specification, all operands ---------------- *)
Theorem C17_impl_add_correct : forall a b, in_range a -> in_range b ->
  w_add impl_ops a b = w_add spec_ops a b.
Proof. exact impl_add_correct. Qed.
Theorem C17_impl_mul_correct : forall a b, in_range a -> in_range b ->
  w_mul impl_ops a b = w_mul spec_ops a b.
Proof. exact impl_mul_correct. Qed.
Theorem C17_impl_sub_correct : forall a b, in_range a -> in_range b ->
  w_sub impl_ops a b = w_sub spec_ops a b.
Proof. exact impl_sub_correct. Qed.
Theorem C17_impl_div_correct : forall a b, in_range a -> in_range b ->
  w_div impl_ops a b = w_div spec_ops a b.
Proof. exact impl_div_correct. Qed.
(* sign-and-magnitude i256_div = truncating signed division, incl. -2^255 / -1 = -2^255 and x / 0 = 0 *)
Theorem C17_impl_sdiv_correct : forall a b, in_range a -> in_range b ->
  w_sdiv impl_ops a b = w_sdiv spec_ops a b.
Proof. exact impl_sdiv_correct. Qed.
Theorem C17_impl_mod_correct : forall a b, in_range a -> in_range b ->
  w_mod impl_ops a b = w_mod spec_ops a b.
Proof. exact impl_mod_correct. Qed.
(* i256_mod = remainder with the sign of the dividend *)
Theorem C17_impl_smod_correct : forall a b, in_range a -> in_range b ->
  w_smod impl_ops a b = w_smod spec_ops a b.
Proof. exact impl_smod_correct. Qed.
(* through U512: no intermediate wrap-around at 2^256 *)
Theorem C17_impl_addmod_correct : forall a b c, in_range a -> in_range b -> in_range c ->
  w_addmod impl_ops a b c = w_addmod spec_ops a b c.
Proof. exact impl_addmod_correct. Qed.
Theorem C17_impl_mulmod_correct : forall a b c, in_range a -> in_range b -> in_range c ->
  w_mulmod impl_ops a b c = w_mulmod spec_ops a b c.
Proof. exact impl_mulmod_correct. Qed.
(* the limb-wise square-and-multiply loop with `remaining_bits` *)
Theorem C17_impl_exp_correct : forall a b, in_range a -> in_range b ->
  w_exp impl_ops a b = w_exp spec_ops a b.
Proof. exact impl_exp_correct. Qed.
Theorem C17_impl_signextend_correct : forall a b, in_range a -> in_range b ->
  w_signextend impl_ops a b = w_signextend spec_ops a b.
Proof. exact impl_signextend_correct. Qed.
Theorem C17_impl_lt_correct : forall a b, in_range a -> in_range b ->
  w_lt impl_ops a b = w_lt spec_ops a b.
Proof. exact impl_lt_correct. Qed.
Theorem C17_impl_gt_correct : forall a b, in_range a -> in_range b ->
  w_gt impl_ops a b = w_gt spec_ops a b.
Proof. exact impl_gt_correct. Qed.
Theorem C17_impl_slt_correct : forall a b, in_range a -> in_range b ->
  w_slt impl_ops a b = w_slt spec_ops a b.
Proof. exact impl_slt_correct. Qed.
Theorem C17_impl_sgt_correct : forall a b, in_range a -> in_range b ->
  w_sgt impl_ops a b = w_sgt spec_ops a b.
Proof. exact impl_sgt_correct. Qed.
Theorem C17_impl_eq_correct : forall a b, in_range a -> in_range b ->
  w_eq impl_ops a b = w_eq spec_ops a b.
Proof. exact impl_eq_correct. Qed.
Theorem C17_impl_iszero_correct : forall a, in_range a ->
  w_iszero impl_ops a = w_iszero spec_ops a.
Proof. exact impl_iszero_correct. Qed.
Theorem C17_impl_and_correct : forall a b, in_range a -> in_range b ->
  w_and impl_ops a b = w_and spec_ops a b.
Proof. exact impl_and_correct. Qed.
Theorem C17_impl_or_correct : forall a b, in_range a -> in_range b ->
  w_or impl_ops a b = w_or spec_ops a b.
Proof. exact impl_or_correct. Qed.
Theorem C17_impl_xor_correct : forall a b, in_range a -> in_range b ->
  w_xor impl_ops a b = w_xor spec_ops a b.
Proof. exact impl_xor_correct. Qed.
Theorem C17_impl_not_correct : forall a, in_range a ->
  w_not impl_ops a = w_not spec_ops a.
Proof. exact impl_not_correct. Qed.
Theorem C17_impl_byte_correct : forall a b, in_range a -> in_range b ->
  w_byte impl_ops a b = w_byte spec_ops a b.
Proof. exact impl_byte_correct. Qed.
Theorem C17_impl_shl_correct : forall a b, in_range a -> in_range b ->
  w_shl impl_ops a b = w_shl spec_ops a b.
Proof. exact impl_shl_correct. Qed.
Theorem C17_impl_shr_correct : forall a b, in_range a -> in_range b ->
  w_shr impl_ops a b = w_shr spec_ops a b.
Proof. exact impl_shr_correct. Qed.
(* negate, subtract one, shift, add one, negate  =  floor division of the signed value *)
Theorem C17_impl_sar_correct : forall a b, in_range a -> in_range b ->
  w_sar impl_ops a b = w_sar spec_ops a b.
Proof. exact impl_sar_correct. Qed.
Theorem C17_impl_clz_correct : forall a, in_range a ->
  w_clz impl_ops a = w_clz spec_ops a.
Proof. exact impl_clz_correct. Qed.

(* all 26 at once, in the form the machine-level refinement consumes (the record ops_agree of
   Proofs/EvmWord_lemmas.v is exactly the conjunction of the 26 statements above, with impl_ops and
   spec_ops replaced by the two parameters) *)
Theorem C17_word_ops_agree : ops_agree impl_ops spec_ops.
Proof. exact impl_ops_agree. Qed.

(* ---------------- every specification function maps words to words ---------------- *)
Theorem C17_spec_ops_in_range :
  (forall a b, in_range a -> in_range b ->
     in_range (w_add spec_ops a b) /\ in_range (w_mul spec_ops a b) /\ in_range (w_sub spec_ops a b) /\
     in_range (w_div spec_ops a b) /\ in_range (w_sdiv spec_ops a b) /\ in_range (w_mod spec_ops a b) /\
     in_range (w_smod spec_ops a b) /\ in_range (w_exp spec_ops a b) /\
     in_range (w_signextend spec_ops a b) /\
     in_range (w_lt spec_ops a b) /\ in_range (w_gt spec_ops a b) /\ in_range (w_slt spec_ops a b) /\
     in_range (w_sgt spec_ops a b) /\ in_range (w_eq spec_ops a b) /\
     in_range (w_and spec_ops a b) /\ in_range (w_or spec_ops a b) /\ in_range (w_xor spec_ops a b) /\
     in_range (w_byte spec_ops a b) /\ in_range (w_shl spec_ops a b) /\ in_range (w_shr spec_ops a b) /\
     in_range (w_sar spec_ops a b)) /\
  (forall a b c, in_range a -> in_range b -> in_range c ->
     in_range (w_addmod spec_ops a b c) /\ in_range (w_mulmod spec_ops a b c)) /\
  (forall a, in_range a ->
     in_range (w_iszero spec_ops a) /\ in_range (w_not spec_ops a) /\ in_range (w_clz spec_ops a)).
Proof.
  split; [|split].
  - intros a b Ha Hb.
    exact (conj (range_add a b Ha Hb)
      (conj (range_mul a b Ha Hb)
      (conj (range_sub a b Ha Hb)
      (conj (range_div a b Ha Hb)
      (conj (range_sdiv a b Ha Hb)
      (conj (range_mod a b Ha Hb)
      (conj (range_smod a b Ha Hb)
      (conj (range_exp a b Ha Hb)
      (conj (range_signextend a b Ha Hb)
      (conj (range_lt a b Ha Hb)
      (conj (range_gt a b Ha Hb)
      (conj (range_slt a b Ha Hb)
      (conj (range_sgt a b Ha Hb)
      (conj (range_eq a b Ha Hb)
      (conj (range_and a b Ha Hb)
      (conj (range_or a b Ha Hb)
      (conj (range_xor a b Ha Hb)
      (conj (range_byte a b Ha Hb)
      (conj (range_shl a b Ha Hb)
      (conj (range_shr a b Ha Hb)
      (range_sar a b Ha Hb))))))))))))))))))))).
  - intros a b c Ha Hb Hc. exact (conj (range_addmod a b c Ha Hb Hc) (range_mulmod a b c Ha Hb Hc)).
  - intros a Ha. exact (conj (range_iszero a Ha) (conj (range_not a Ha) (range_clz a Ha))).
Qed.

Theorem C17_spec_ops_closed : ops_closed spec_ops.
Proof. exact spec_ops_closed. Qed.

(* hence so does every implementation algorithm *)
Theorem C17_impl_ops_closed : ops_closed impl_ops.
Proof. exact impl_ops_closed. Qed.

(* ---------------- EXP: the executable specification form is a^e mod 2^256 ---------------- *)
Theorem C17_exp_spec_is_math : forall a e, s_exp a e = s_exp_math a e.
Proof. exact s_exp_math_eq. Qed.

Theorem C17_impl_exp_is_math : forall a e, in_range a -> in_range e ->
  w_exp impl_ops a e = (a ^ e) mod 2 ^ 256.
Proof. exact impl_exp_math. Qed.

(* ---------------- non-vacuity: boundary operands, both sides evaluated ---------------- *)
Definition both (f : word_ops -> Z) (v : Z) : Prop := f impl_ops = v /\ f spec_ops = v.
Definition neg (x : Z) : Z := W - x.       (* two's complement encoding of -x, 0 < x <= 2^255 *)

Example C17_nonvacuous :
  (* -2^255 / -1 = -2^255 ; -7 / 2 = -3 ; x / 0 = 0 *)
  both (fun o => w_sdiv o HALF (neg 1)) HALF /\
  both (fun o => w_sdiv o (neg 7) 2) (neg 3) /\
  both (fun o => w_sdiv o (neg 7) 0) 0 /\
  (* SMOD takes the sign of the dividend *)
  both (fun o => w_smod o (neg 7) 3) (neg 1) /\
  both (fun o => w_smod o 7 (neg 3)) 1 /\
  both (fun o => w_smod o HALF (neg 1)) 0 /\
  (* SAR: negative by >= 256 is -1, positive is 0; rounds towards minus infinity *)
  both (fun o => w_sar o 256 (neg 1)) (neg 1) /\
  both (fun o => w_sar o (W - 1) HALF) (neg 1) /\
  both (fun o => w_sar o 256 (HALF - 1)) 0 /\
  both (fun o => w_sar o 1 (neg 7)) (neg 4) /\
  both (fun o => w_sar o 255 HALF) (neg 1) /\
  (* SIGNEXTEND: byte index 0, 30, 31 *)
  both (fun o => w_signextend o 0 128) (neg 128) /\
  both (fun o => w_signextend o 0 383) 127 /\
  both (fun o => w_signextend o 30 (2 ^ 247)) (W - 2 ^ 247) /\
  both (fun o => w_signextend o 30 (HALF + 5)) 5 /\
  both (fun o => w_signextend o 31 (HALF + 5)) (HALF + 5) /\
  both (fun o => w_signextend o 32 (HALF + 5)) (HALF + 5) /\
  (* BYTE: index 0 is the most significant byte; 31 the least; 32 out of range *)
  both (fun o => w_byte o 0 (171 * 2 ^ 248 + 205)) 171 /\
  both (fun o => w_byte o 31 (171 * 2 ^ 248 + 205)) 205 /\
  both (fun o => w_byte o 32 (W - 1)) 0 /\
  (* shifts at 255 / 256 *)
  both (fun o => w_shl o 255 1) HALF /\
  both (fun o => w_shl o 256 1) 0 /\
  both (fun o => w_shl o 1 (W - 1)) (W - 2) /\
  both (fun o => w_shr o 255 (W - 1)) 1 /\
  both (fun o => w_shr o 256 (W - 1)) 0 /\
  (* wide modular arithmetic *)
  both (fun o => w_addmod o (W - 1) (W - 1) (W - 2)) 2 /\
  both (fun o => w_mulmod o (W - 1) (W - 1) (W - 2)) 1 /\
  both (fun o => w_addmod o 5 7 0) 0 /\
  (* EXP wraps; 0^0 = 1 *)
  both (fun o => w_exp o 2 255) HALF /\
  both (fun o => w_exp o 2 256) 0 /\
  both (fun o => w_exp o 0 0) 1 /\
  both (fun o => w_exp o 3 (2 ^ 64 + 1)) 32925042014141301448817435362803735931819360079236581228174941073290410590211 /\
  both (fun o => w_exp o (W - 1) (W - 1)) (W - 1) /\
  (* signed comparisons, CLZ *)
  both (fun o => w_slt o (neg 1) 0) 1 /\
  both (fun o => w_sgt o (neg 1) 0) 0 /\
  both (fun o => w_lt o (neg 1) 0) 0 /\
  both (fun o => w_clz o 0) 256 /\
  both (fun o => w_clz o 1) 255 /\
  both (fun o => w_clz o (W - 1)) 0.
Proof. vm_compute. repeat split. Qed.

(* the correspondence plumbing (Model/EvmWordCorr.v) on one step: SAR (0x1d) of -7 by 1 is -4; the check
   accepts the right word and reports [spec; impl; word] for a wrong one *)
Example C17_corr_step_example :
  apply_op spec_ops 29 1 (neg 7) 0 = neg 4 /\ apply_op impl_ops 29 1 (neg 7) 0 = neg 4 /\
  EvmWordCorr.check_case tt [(W2 29 1 0 0 0 0  1152921504606846969 1152921504606846975 1152921504606846975 1152921504606846975 65535
                        1152921504606846972 1152921504606846975 1152921504606846975 1152921504606846975 65535, [])] = None /\
  EvmWordCorr.check_case tt [(W2 29 1 0 0 0 0  1152921504606846969 1152921504606846975 1152921504606846975 1152921504606846975 65535
                        0 0 0 0 0, [])] = Some (0, [neg 4; neg 4; 0], []).
Proof. vm_compute. repeat split. Qed.

(* ================================================================================================
   MACHINE LEVEL.  Model/EvmMachine.v is the interpreter (jump table, stack discipline of the def_*
   macros, memory, storage, control flow, calls as oracle inputs), parametrised by a word_ops.
   Running it with the implementation's word algorithms is the SAME function as running it with the
   specification's: for every environment (code, call data, hash function, context, oracle answers),
   every fuel and every state whose stack holds words.  What remains between "the machine with
   spec_ops" and the Ethereum specification of the non-word instructions is the subject of the
   machine's own correspondence check and theorems (not of this file).
   ================================================================================================ *)

(* generic form: any two instruction sets that agree on words, the second mapping words to words *)
Theorem C17_machine_refines_generic : forall o1 o2, ops_agree o1 o2 -> ops_closed o2 ->
  forall E fuel s, Forall in_range (m_stack s) -> run o1 E fuel s = run o2 E fuel s.
Proof. exact run_agree. Qed.

Theorem C17_machine_refines_spec : forall E fuel s, Forall in_range (m_stack s) ->
  run impl_ops E fuel s = run spec_ops E fuel s.
Proof. exact machine_refines_spec. Qed.

(* from the state every execution starts in (empty stack), unconditionally *)
Theorem C17_machine_refines_spec_from_start : forall E fuel storage balance ext,
  run impl_ops E fuel (init_state storage balance ext) = run spec_ops E fuel (init_state storage balance ext).
Proof. exact machine_refines_spec_init. Qed.

(* the doubling form of `run` the correspondence check evaluates *)
Theorem C17_machine_pow_refines_spec : forall E n s, Forall in_range (m_stack s) ->
  run_pow impl_ops E n s = run_pow spec_ops E n s.
Proof. exact machine_pow_refines_spec. Qed.

(* the invariant behind it: one step of the machine leaves only words on the stack *)
Theorem C17_machine_stack_holds_words : forall E s s', Forall in_range (m_stack s) ->
  step spec_ops E s = SNext s' -> Forall in_range (m_stack s').
Proof. intros E s s'. exact (step_ok spec_ops spec_ops_closed E s s'). Qed.

(* and on such states the two machines take literally the same step *)
Theorem C17_machine_same_step : forall E s, Forall in_range (m_stack s) ->
  step impl_ops E s = step spec_ops E s.
Proof. intros E s. exact (step_agree impl_ops spec_ops impl_ops_agree E s). Qed.

(* non-vacuity: PUSH32 (-7) PUSH1 1 SAR PUSH0 MSTORE PUSH1 32 PUSH0 RETURN returns the word -4 on both *)
Definition ex_code : list Z :=
  [127] ++ Z_to_be 32 (neg 7) ++ [96; 1; 29; 95; 82; 96; 32; 95; 243].
Definition ex_env : env := default_env ex_code [].
Definition returns_word (r : run_res) (w : Z) : Prop :=
  match r with Done (Return d) _ => be_to_Z d = w /\ length d = 32%nat | _ => False end.

Example C17_machine_nonvacuous :
  returns_word (run impl_ops ex_env 20 (init_state ∅ 0 [])) (neg 4) /\
  returns_word (run spec_ops ex_env 20 (init_state ∅ 0 [])) (neg 4).
Proof. vm_compute. repeat split. Qed.
