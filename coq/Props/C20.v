(* C20 -- Actor identities are unique, stable and derived as specified.
   Pinned statements only; every proof is `exact <lemma from Proofs/{Init,Eam}_lemmas.v>`.

   Vocabulary (coq/Model/Init.v, coq/Model/Eam.v):
     world = (amap : init actor's address map, next_id, actors : the VM's actor table)
     step keccak w op = (committed world, what survives roll-back, result) for one top-level message
     run keccak w ops = the committed world after a history; keccak is arbitrary (a Section variable)
     wf w = every id in the address map / actor table is below next_id (true of every real state)  *)
From stdpp Require Import gmap.
From Coq Require Import ZArith NArith List Bool Sorted.
From VF Require Import Gen.Consts Gen.Identity Base.Corr Model.Init Model.Eam
  Proofs.Init_lemmas Proofs.Eam_lemmas.
Import ListNotations.
Open Scope Z_scope.

(* ---- the tables the statements depend on are the ones in /repo today (tools/translator_identity.py) ---- *)
Theorem C20_generated_tables :
  CAN_EXEC_ANY = [TY_Multisig; TY_PaymentChannel] /\ CAN_EXEC_IF_CALLER = [(TY_Miner, TY_Power)] /\
  EXEC_GUARDED_BY_CAN_EXEC = true /\ EXEC4_CALLER_IS_EAM = true /\
  ASSIGN_REJECTS_PRECOMPILE = true /\ ASSIGN_REJECTS_ID = true /\ ASSIGN_REJECTS_NULL = true /\
  EAM_GUARDS_RESERVED_FIRST = true /\
  PRECOMPILE_PREFIXES = [254; 0] /\ PRECOMPILE_ZERO_MIDDLE = 18 /\ ID_MASK_PREFIX = 255 /\ ID_MASK_ZERO_UNTIL = 12 /\
  NONCE_INCREMENTED_BEFORE_SEND = true /\ ENDOWMENT_CHECKED_BEFORE_INCREMENT = true /\ EVM_INITIAL_NONCE = 1 /\
  EAM_ACTOR_ID = 10 /\ STORAGE_POWER_ACTOR_ID = 4 /\ FIRST_NON_SINGLETON_ADDR = 100 /\
  INIT_EXEC_METHOD = 2 /\ INIT_EXEC4_METHOD = 3 /\
  EAM_CREATE_METHOD = 2 /\ EAM_CREATE2_METHOD = 3 /\ EAM_CREATEEXTERNAL_METHOD = 4.
Proof. repeat split. Qed.

(* ================================ fresh ids ================================ *)

(* Exec: the id returned is the old next_id, next_id strictly increases, the robust address was
   unmapped and now maps to the id, and (in a well-formed world) nothing lived at that id *)
Theorem C20_fresh_id_exec : forall mc ctor w nc caller c nc' w' id r,
  ctor_ext mc ctor ->
  init_exec ctor mc w nc caller c = (nc', Ok (w', (id, r))) ->
  id = next_id w /\ (next_id w < next_id w')%N /\ amap w !! r = None /\ amap w' !! r = Some id /\
  exists a', actors w' !! id = Some a' /\ (wf w -> actors w !! id = None).
Proof. exact init_exec_fresh. Qed.

(* Exec4: either a new id (= the old next_id, nothing there, f4 address unmapped, next_id grows) or the
   id the f4 address already had, and then a placeholder lives there; both addresses map to the id *)
Theorem C20_fresh_id_exec4 : forall mc ctor w nc caller sub c nc' w' id r,
  ctor_ext mc ctor -> wf w ->
  init_exec4 ctor mc w nc caller sub c = (nc', Ok (w', (id, r))) ->
  ((id = next_id w /\ actors w !! id = None /\ amap w !! f4 caller sub = None /\ (next_id w < next_id w')%N) \/
   (exists a, actors w !! id = Some a /\ a_code a = C_Placeholder /\ amap w !! f4 caller sub = Some id)) /\
  amap w !! r = None /\ amap w' !! r = Some id /\ amap w' !! f4 caller sub = Some id.
Proof. exact init_exec4_target. Qed.

(* plain sends: the target exists and nothing changes, or an account / placeholder is created at the
   old next_id, which is consumed *)
Theorem C20_fresh_id_auto_creation : forall w nc d nc' w' i,
  wf w ->
  resolve_target w nc d = (nc', Ok (w', i)) ->
  (w' = w /\ actors w !! i <> None) \/
  (i = next_id w /\ next_id w' = (next_id w + 1)%N /\ actors w !! i = None /\
   exists a, d = D_addr a /\ amap w !! a = None /\ amap w' !! a = Some i /\
     (actors w' !! i = Some {| a_code := C_Account; a_deleg := None; a_evm := None |} \/
      actors w' !! i = Some {| a_code := C_Placeholder; a_deleg := Some a; a_evm := None |})).
Proof. exact resolve_target_fresh. Qed.

Theorem C20_next_id_monotone : forall keccak w ops1 ops2,
  (next_id (run keccak w ops1) <= next_id (run keccak w (ops1 ++ ops2)))%N.
Proof. exact next_id_monotone. Qed.

Theorem C20_wf_preserved : forall keccak w ops, wf w -> wf (run keccak w ops).
Proof. exact wf_preserved. Qed.

(* over any history, an actor appears only at an id that was >= next_id at the start *)
Theorem C20_new_actors_get_fresh_ids : forall keccak w ops i,
  wf w -> actors w !! i = None -> actors (run keccak w ops) !! i <> None ->
  (next_id w <= i < next_id (run keccak w ops))%N.
Proof. exact new_actor_fresh. Qed.

(* the ids returned by Exec / Exec4 / CreateMiner / Create / Create2 / CreateExternal for actors that did
   not exist before are pairwise distinct over the whole history (indeed strictly increasing) *)
Theorem C20_returned_ids_never_repeat : forall keccak w ops,
  wf w -> NoDup (run_new_ids keccak w ops).
Proof. exact returned_ids_never_repeat. Qed.

Theorem C20_returned_ids_increase : forall keccak ops w,
  wf w ->
  Forall (fun i => (next_id w <= i)%N) (run_new_ids keccak w ops) /\
  StronglySorted N.lt (run_new_ids keccak w ops).
Proof. exact run_new_ids_sorted. Qed.

(* ================================ stable addresses ================================ *)
Theorem C20_stable_address_permanent : forall keccak w ops1 ops2 a i,
  amap (run keccak w ops1) !! a = Some i -> amap (run keccak w (ops1 ++ ops2)) !! a = Some i.
Proof. exact stable_address_permanent. Qed.

(* ================================ who may create what ================================ *)
Theorem C20_can_exec_matrix : forall caller c,
  can_exec caller c = true <-> (c = C_Multisig \/ c = C_Paych \/ (c = C_Miner /\ caller = C_Power)).
Proof. exact can_exec_spec. Qed.

Theorem C20_exec_ok_implies_matrix : forall mc ctor w nc caller c nc' w' id r,
  init_exec ctor mc w nc caller c = (nc', Ok (w', (id, r))) ->
  exists ca w1 w2,
    actors w !! caller = Some ca /\ can_exec (a_code ca) c = true /\
    r = m_robust mc (n_cnt nc) /\
    map_addresses_to_id w r None = Ok (w1, id, false) /\
    vm_create_actor w1 c id None = Ok w2 /\
    ctor id w2 (bump nc) = (nc', Ok w').
Proof. exact init_exec_ok. Qed.

Theorem C20_matrix_implies_exec_ok : forall mc w nc caller c ca,
  wf w -> actors w !! caller = Some ca -> can_exec (a_code ca) c = true ->
  amap w !! m_robust mc (n_cnt nc) = None ->
  exists w', init_exec (oracle_ctor 0) mc w nc caller c =
             (bump nc, Ok (w', (next_id w, m_robust mc (n_cnt nc)))).
Proof. exact init_exec_accepts. Qed.

(* "caller type Power" means the power actor: no other id ever carries that code *)
Theorem C20_power_actor_unique : forall keccak w ops,
  (forall i a, actors w !! i = Some a -> a_code a = C_Power -> i = POWER_ID) ->
  forall i a, actors (run keccak w ops) !! i = Some a -> a_code a = C_Power -> i = POWER_ID.
Proof. exact power_actor_unique. Qed.

Theorem C20_exec4_only_from_eam : forall mc ctor w nc caller sub c nc' w' id r,
  init_exec4 ctor mc w nc caller sub c = (nc', Ok (w', (id, r))) ->
  caller = EAM_ID /\ Z.of_nat (length sub) <= MAX_SUBADDRESS_LEN /\ r = m_robust mc (n_cnt nc) /\
  exists w1 existing w2,
    map_addresses_to_id w r (Some (f4 caller sub)) = Ok (w1, id, existing) /\
    (existing = true -> exists a, actors w !! id = Some a /\ a_code a = C_Placeholder) /\
    vm_create_actor w1 c id (Some (f4 caller sub)) = Ok w2 /\
    ctor id w2 (bump nc) = (nc', Ok w').
Proof. exact init_exec4_ok. Qed.

(* ================================ address derivation ================================ *)
Theorem C20_create_address_formula : forall keccak body mc w nc caller nonce nc' w' id rb eth,
  eam_create keccak body mc w nc caller nonce = (nc', Ok (w', Ret_eam id rb eth)) ->
  exists ca from, actors w !! caller = Some ca /\ a_code ca = C_Evm /\
    a_deleg ca = Some (f4 EAM_ID from) /\ length from = 20%nat /\
    eth = last20 (keccak (rlp_addr_nonce from nonce)) /\ can_assign eth = true.
Proof. exact create_address_formula. Qed.

Theorem C20_create2_address_formula : forall keccak body mc w nc caller salt ch nc' w' id rb eth,
  eam_create2 keccak body mc w nc caller salt ch = (nc', Ok (w', Ret_eam id rb eth)) ->
  exists ca from, actors w !! caller = Some ca /\ a_code ca = C_Evm /\
    a_deleg ca = Some (f4 EAM_ID from) /\ length from = 20%nat /\
    eth = last20 (keccak ([255] ++ from ++ salt ++ ch)) /\ can_assign eth = true.
Proof. exact create2_address_formula. Qed.

Theorem C20_create_external_address_formula : forall keccak body mc w nc caller key nc' w' id rb eth,
  eam_create_external keccak body mc w nc caller key = (nc', Ok (w', Ret_eam id rb eth)) ->
  caller = m_origin mc /\
  exists st, external_stable keccak w caller key = Some st /\
    eth = last20 (keccak (rlp_addr_nonce st (m_seq mc))) /\ can_assign eth = true.
Proof. exact create_external_address_formula. Qed.

(* the CREATE pre-image is the Ethereum one: 0xc0+len ‖ 0x94 ‖ address ‖ RLP scalar of the nonce *)
Theorem C20_rlp_layout : forall from n,
  length from = 20%nat ->
  rlp_addr_nonce from n =
    (192 + (21 + Z.of_nat (length (rlp_str (be_min n))))) :: 148 :: from ++ rlp_str (be_min n).
Proof. exact rlp_addr_nonce_layout. Qed.

Theorem C20_rlp_scalar_examples :
  rlp_str (be_min 0) = [128] /\ rlp_str (be_min 1) = [1] /\ rlp_str (be_min 127) = [127] /\
  rlp_str (be_min 128) = [129; 128] /\ rlp_str (be_min 255) = [129; 255] /\ rlp_str (be_min 256) = [130; 1; 0] /\
  rlp_str (be_min (2 ^ 64 - 1)) = [136; 255; 255; 255; 255; 255; 255; 255; 255].
Proof. vm_compute. repeat split. Qed.

Theorem C20_rlp_pair_injective : forall from1 from2 n1 n2,
  length from1 = 20%nat -> length from2 = 20%nat ->
  0 <= n1 < 2 ^ 64 -> 0 <= n2 < 2 ^ 64 ->
  rlp_addr_nonce from1 n1 = rlp_addr_nonce from2 n2 -> from1 = from2 /\ n1 = n2.
Proof. exact rlp_pair_injective_l. Qed.

Theorem C20_create2_preimage_injective : forall f1 s1 h1 f2 s2 h2,
  length f1 = 20%nat -> length f2 = 20%nat -> length s1 = 32%nat -> length s2 = 32%nat ->
  create2_preimage f1 s1 h1 = create2_preimage f2 s2 h2 -> f1 = f2 /\ s1 = s2 /\ h1 = h2.
Proof. exact create2_preimage_injective_l. Qed.

(* hence two CREATE addresses coincide only for the same (deployer, nonce) or through a keccak collision *)
Theorem C20_create_addresses_distinct : forall keccak from1 n1 from2 n2,
  length from1 = 20%nat -> length from2 = 20%nat -> 0 <= n1 < 2 ^ 64 -> 0 <= n2 < 2 ^ 64 ->
  create_address keccak from1 n1 = create_address keccak from2 n2 ->
  (from1 = from2 /\ n1 = n2) \/
  exists p1 p2, p1 <> p2 /\ last20 (keccak p1) = last20 (keccak p2).
Proof. exact create_addresses_distinct. Qed.

(* ================================ no overwriting ================================ *)
(* a deployment through the address manager lands on a fresh id, on a placeholder, or on a contract
   that self-destructed in an EARLIER message; the f4 address maps to the id afterwards *)
Theorem C20_no_overwrite : forall body mc w nc new_addr nc' w' id rb eth,
  wf w -> body_ext mc body ->
  eam_create_actor body mc w nc new_addr = (nc', Ok (w', Ret_eam id rb eth)) ->
  eth = new_addr /\ amap w' !! f4 EAM_ID eth = Some id /\
  ((actors w !! id = None /\ id = next_id w /\ amap w !! f4 EAM_ID eth = None) \/
   (exists a, actors w !! id = Some a /\ a_code a = C_Placeholder /\ amap w !! f4 EAM_ID eth = Some id) \/
   (exists a e, actors w !! id = Some a /\ a_code a = C_Evm /\ a_evm a = Some e /\ dead_for mc e /\
                amap w !! f4 EAM_ID eth = Some id /\ rb = None)).
Proof. exact eam_no_overwrite. Qed.

Theorem C20_body_of_every_initcode_is_an_extension : forall keccak mc ic,
  body_ext mc (init_body keccak ic mc).
Proof. exact init_body_ext. Qed.

Theorem C20_vm_create_actor_no_overwrite : forall w c id d w',
  vm_create_actor w c id d = Ok w' ->
  actors w !! id = None \/ exists a, actors w !! id = Some a /\ a_code a = C_Placeholder.
Proof. exact vm_create_actor_no_overwrite. Qed.

(* over any history: an actor keeps its id and delegated address for ever; its code only changes from
   Placeholder to something create_actor accepts (EVM through the address manager, EthAccount when it
   first sends a message) *)
Theorem C20_actor_code_automaton : forall keccak w ops i a,
  actors w !! i = Some a ->
  exists a', actors (run keccak w ops) !! i = Some a' /\
    (a_code a' = a_code a \/ (a_code a = C_Placeholder /\ creatable (a_code a') = true)) /\
    a_deleg a' = a_deleg a.
Proof. exact actor_code_automaton. Qed.

(* ================================ reserved ranges ================================ *)
Theorem C20_reserved_never_assigned : forall body mc w nc new_addr nc' w' r,
  eam_create_actor body mc w nc new_addr = (nc', Ok (w', r)) ->
  can_assign new_addr = true.
Proof. exact eam_reserved_rejected. Qed.

Theorem C20_can_assign_meaning : forall a,
  can_assign a = true <-> is_precompile a = false /\ is_id a = false /\ is_null a = false.
Proof. exact can_assign_spec. Qed.

Theorem C20_reserved_ranges : forall p rest,
  (is_precompile (p :: rest) = true <-> (p = 254 \/ p = 0) /\ Forall (fun b => b = 0) (firstn 18 rest)) /\
  (is_id (p :: rest) = true <-> p = 255 /\ Forall (fun b => b = 0) (firstn 11 rest)) /\
  (is_null (p :: rest) = true <-> Forall (fun b => b = 0) (p :: rest)).
Proof. intros p rest. split; [apply is_precompile_spec | split; [apply is_id_spec | apply is_null_spec]]. Qed.

(* ================================ nonces ================================ *)
(* over one committed message, a contract's nonce decreases only if the contract had self-destructed
   in an earlier message (and was re-deployed by this one) *)
Theorem C20_nonce_monotone : forall keccak w o i a e,
  actors w !! i = Some a -> a_evm a = Some e ->
  exists a' e', actors (fst (fst (step keccak w o))) !! i = Some a' /\ a_evm a' = Some e' /\
    (e_nonce e <= e_nonce e' \/ dead_for (op_mctx o) e).
Proof. exact step_nonce. Qed.

(* CREATE/CREATE2 with an affordable endowment: the nonce is incremented and stored before the send and
   stays incremented whatever happens to the child; the address pushed is 0 or assignable *)
Theorem C20_nonce_incremented_even_if_child_fails : forall keccak mc child w nc self a e use2 salt ch nc' w' e' addr,
  body_ext mc child ->
  actors w !! self = Some a -> a_evm a = Some e -> ~ dead_for mc e ->
  do_create keccak child mc w nc self e use2 salt ch false = (nc', (w', e', addr)) ->
  e_nonce e + 1 <= e_nonce e' /\ get_evm w' self = Some e' /\
  (addr = zero20 \/ can_assign addr = true).
Proof. exact do_create_nonce. Qed.

Theorem C20_nonce_untouched_when_endowment_too_big : forall keccak child mc w nc self e use2 salt ch,
  do_create keccak child mc w nc self e use2 salt ch true = (nc, (w, e, zero20)).
Proof. exact do_create_endowment_too_big. Qed.

(* The literal clause "deployer nonces only grow" is FALSE for a self-destructed and re-deployed
   contract (as in Ethereum, the new incarnation starts again at nonce 1):
     forall keccak w ops i, nonce of i in (run keccak w ops) >= nonce of i in w.
   Witness below: with a keccak that maps everything to one digest, an account deploys a factory, the
   factory's CREATE bumps its nonce to 2, the factory self-destructs, the account deploys again to the
   same address: the nonce is 1 again. *)
Definition wit_keccak (_ : list Z) : list Z := repeat 7 32.
Definition wit_world : world :=
  mk_world [([1; 9], 100%N)] 101%N
    [(1%N, mk_actor C_Init None None); (10%N, mk_actor C_Eam None None); (100%N, mk_actor C_Account None None)].
Definition wit_h (seq : Z) : hdr := {| h_from := 100%N; h_seq := seq; h_robusts := [[2; seq; 0]; [2; seq; 1]] |}.
Definition wit_ops1 : list op :=
  [EamCreateExternal (wit_h 0) [1; 9] IC_factory;
   Invoke (wit_h 1) 101%N (K_fac 0 [] [] IC_kill)].
Definition wit_ops2 : list op :=
  [Invoke (wit_h 2) 101%N K_kill;
   EamCreateExternal (wit_h 3) [1; 9] IC_factory].

Theorem C20_nonce_only_grows_literal_refuted :
  exists keccak w ops1 ops2 i,
    wf w /\
    option_map e_nonce (get_evm (run keccak w ops1) i) = Some 2 /\
    option_map e_nonce (get_evm (run keccak w (ops1 ++ ops2)) i) = Some 1.
Proof.
  exists wit_keccak, wit_world, wit_ops1, wit_ops2, 101%N. split.
  - apply wf_b_sound. vm_compute. reflexivity.
  - vm_compute. split; reflexivity.
Qed.

(* ---- non-vacuity: a concrete history through Exec, auto-creation, CreateExternal, a factory CREATE
   whose child constructor reverts, and a forbidden Exec ---- *)
Definition ex_keccak (l : list Z) : list Z := repeat 0 12 ++ [171] ++ repeat (fold_left Z.add l 0 mod 251) 19.
Definition ex_ops : list op :=
  [Exec (wit_h 0) C_Multisig 0;
   Exec (wit_h 1) C_Miner 0;
   Send (wit_h 2) (D_addr (f4 EAM_ID (repeat 9 20)));
   EamCreateExternal (wit_h 3) [1; 9] IC_factory;
   Invoke (wit_h 4) 103%N (K_fac 0 [] [] IC_revert);
   Invoke (wit_h 5) 103%N (K_fac 0 [] [] IC_kill)].

Example C20_nonvacuous :
  let w := run ex_keccak wit_world ex_ops in
  snd (step ex_keccak wit_world (Exec (wit_h 0) C_Multisig 0)) = Ok (Ret_exec 101%N [2; 0; 0]) /\
  snd (step ex_keccak wit_world (Exec (wit_h 0) C_Miner 0)) = Err FORBIDDEN /\
  next_id w = 105%N /\
  option_map a_code (actors w !! 101%N) = Some C_Multisig /\
  option_map a_code (actors w !! 102%N) = Some C_Placeholder /\
  option_map e_nonce (get_evm w 103%N) = Some 3 /\
  option_map a_code (actors w !! 104%N) = Some C_Evm /\
  run_new_ids ex_keccak wit_world ex_ops = [101%N; 103%N] /\
  amap w !! f4 EAM_ID (last20 (ex_keccak (rlp_addr_nonce (last20 (ex_keccak [1; 9])) 3))) = Some 103%N.
Proof. vm_compute. repeat split. Qed.
