(* C15 -- Faults and early terminations are always paid for.
   Pinned statements only; every proof is `exact <lemma from Proofs/Penalty_lemmas.v>`.

   Reading guide.  `step s o = (s', out)` is one handler invocation on the miner actor (Model/Penalty.v):
   `charged out` is the sum of the penalties the handler applied, `burnt out` what it sent to the
   burnt-funds actor (id 99), `reporter_paid out` what it sent to the reporter.  Oracle inputs (expected-reward projections r, vested amounts v, replies
   of nested sends, results of the un-modelled sector bookkeeping) are universally quantified. *)
From Coq Require Import ZArith List Bool String.
From VF Require Import Gen.Consts Gen.PenaltyConsts Gen.Gated Base.Corr Model.Penalty Proofs.Penalty_lemmas.
Import ListNotations.
Open Scope Z_scope.

(* ---- the constants and tables the statements depend on are the ones in /repo today ---- *)
Theorem C15_constants_pinned :
  TERM_FEE_PLEDGE_MULTIPLE_NUM = 85 /\ TERM_FEE_PLEDGE_MULTIPLE_DENOM = 1000 /\
  TERM_FEE_MIN_PLEDGE_MULTIPLE_NUM = 2 /\ TERM_FEE_MIN_PLEDGE_MULTIPLE_DENOM = 100 /\
  TERM_FEE_MAX_FAULT_FEE_MULTIPLE_NUM = 105 /\ TERM_FEE_MAX_FAULT_FEE_MULTIPLE_DENOM = 100 /\
  TERMINATION_LIFETIME_CAP = 140 /\ EPOCHS_IN_DAY = 2880 /\
  CONTINUED_FAULT_PROJECTION_PERIOD = (EPOCHS_IN_DAY * 351) / 100 /\
  INVALID_WINDOW_POST_PROJECTION_PERIOD = CONTINUED_FAULT_PROJECTION_PERIOD + 2 * EPOCHS_IN_DAY /\
  CONSENSUS_FAULT_FACTOR = 5 /\ EXPECTED_LEADERS_PER_EPOCH = 5 /\ CONSENSUS_FAULT_REPORTER_DEFAULT_SHARE = 4 /\
  BASE_REWARD_FOR_DISPUTED_WINDOW_POST = 4 * 10 ^ 18 /\ BASE_PENALTY_FOR_DISPUTED_WINDOW_POST = 20 * 10 ^ 18 /\
  DAILY_FEE_BLOCK_REWARD_CAP_DENOM = 2 /\ CONSENSUS_FAULT_INELIGIBILITY_DURATION = 900 /\
  LOCKED_REWARD_FACTOR_NUM = 3 /\ LOCKED_REWARD_FACTOR_DENOM = 4 /\ BURNT_FUNDS_ACTOR_ID = 99.
Proof. exact penalty_consts_pinned. Qed.

(* the handlers of lib.rs that call repay_debts_or_abort (Gen/Gated.v, regenerated on every run) are exactly
   these four, each is a modelled operation, and the three the property names are among them *)
Theorem C15_gated_handlers_pinned :
  gated_handlers = ["pre_commit_sector_batch_inner"; "prove_commit_sectors_ni";
                    "declare_faults_recovered"; "withdraw_balance"]%string /\
  incl ["withdraw_balance"; "pre_commit_sector_batch_inner"; "declare_faults_recovered"]%string gated_handlers /\
  (forall name, In name gated_handlers -> exists o, gated_name o = Some name) /\
  (forall o name, gated_name o = Some name -> In name gated_handlers) /\
  callers_repay_debts_or_abort =
    [("pre_commit_sector_batch_inner", 1); ("prove_commit_sectors_ni", 1);
     ("declare_faults_recovered", 1); ("withdraw_balance", 1)]%string.
Proof. exact gated_pinned. Qed.

(* every call site of apply_penalty in lib.rs belongs to a modelled penalised operation; the sites of
   repay_partial_debt_in_priority_order and process_early_terminations are the modelled ones *)
Theorem C15_penalty_sites_pinned :
  callers_apply_penalty =
    [("dispute_windowed_post", 1); ("apply_rewards", 1); ("report_consensus_fault", 1);
     ("process_early_terminations", 1); ("handle_proving_deadline", 3)]%string /\
  (forall name, In name (map fst callers_apply_penalty) -> exists o, In name (penalised_name o)) /\
  map fst callers_repay_partial_debt_in_priority_order =
    ["dispute_windowed_post"; "apply_rewards"; "report_consensus_fault"; "repay_debt";
     "process_early_terminations"; "handle_proving_deadline"]%string /\
  map fst callers_process_early_terminations =
    ["terminate_sectors"; "on_deferred_cron_event"; "handle_proving_deadline"]%string.
Proof. exact penalty_sites_pinned. Qed.

(* ---- termination fee: at least 2 % of the pledge and 105 % of the fault fee, at most
        max(8.5 % of the pledge, 105 % of the fault fee); exactly that cap from 140 days of age on,
        exactly the floor for age <= 0.  For every pledge, age and fault fee. ---- *)
Theorem C15_termination_fee_bounds : forall ip age ff, 0 <= ip -> 0 <= ff ->
  let fee := pledge_penalty_for_termination ip age ff in
  (ip * 2) / 100 <= fee /\ (ff * 105) / 100 <= fee /\
  fee <= Z.max ((ip * 85) / 1000) ((ff * 105) / 100) /\ 0 <= fee /\
  (140 * 2880 <= age -> fee = Z.max ((ip * 85) / 1000) ((ff * 105) / 100)) /\
  (age <= 0 -> fee = Z.max ((ip * 2) / 100) ((ff * 105) / 100)).
Proof. exact c15_termination_fee_bounds. Qed.

(* ---- each deadline end applies the continued-fault fee FF(previously faulty power) = ff (together with
        the expired pre-commit deposits, the capped daily fee and the termination fees of the early
        terminations it processes); all of it is burnt at once or becomes fee debt ---- *)
Theorem C15_continued_fault_charged :
  forall s caller dep ff dfee rday ip_rel v pwr chain sys rps s' out,
  0 <= fee_debt s ->
  step s (Cron caller (CronDeadline dep ff dfee rday ip_rel v pwr chain) sys rps) = (s', out) ->
  code out = 0 ->
  charged out = dep + pledge_penalty_for_continued_fault ff +
                (if 0 <? dfee then daily_proof_fee_payable dfee rday else 0) +
                match chain with Some et => et_fee et | None => 0 end /\
  pledge_penalty_for_continued_fault ff = ff /\ 0 <= ff /\ 0 <= dep /\ ff <= charged out /\
  fee_debt s' + burnt out = fee_debt s + charged out /\ 0 <= burnt out /\
  reporter_paid out = 0 /\ paid_out out = 0.
Proof. exact c15_continued_fault_charged. Qed.

(* ---- penalty accounting, for every operation and all inputs (including every pattern of failing
        nested sends): what is charged is burnt at once, paid to the reporter, or recorded as fee debt;
        every term is non-negative; value only ever goes to the burnt-funds actor, to the reporter
        (dispute / consensus fault) or to the withdrawal payee, everything else is a zero-value call to
        the power, reward or market actor.  A rejected operation changes nothing.
        (History: before the repair of finding F5 in /repo -- fixes/F5_burn_unsent_reporter_reward.diff --
        report_consensus_fault kept the reporter reward in the miner's balance when its transfer failed,
        and this statement was refuted by a vm_compute witness.) ---- *)
Theorem C15_penalty_accounting : forall s o s' out, 0 <= fee_debt s -> step s o = (s', out) ->
  fee_debt s' + burnt out + reporter_paid out = fee_debt s + charged out /\
  0 <= fee_debt s' /\ 0 <= charged out /\ 0 <= burnt out /\ 0 <= reporter_paid out /\
  Forall (send_ok (recipient o)) (sends out) /\
  ((forall a b c d e f g, o <> Withdraw a b c d e f g) -> paid_out out = 0) /\
  (code out = 0 -> charged out = expected_charge o) /\
  (code out <> 0 -> s' = s /\ out = fail (code out)).
Proof. exact c15_penalty_accounting. Qed.

(* ---- the reporter never gets more than was actually taken from the miner, nor more than the policy
        reward (epoch reward / 20 for a consensus fault, 4 FIL for a disputed PoSt) ---- *)
Theorem C15_reporter_reward_le_taken : forall s o s' out, 0 <= fee_debt s -> step s o = (s', out) ->
  reporter_paid out <= fee_debt s + charged out - fee_debt s' /\
  (code out = 0 -> reporter_paid out <= reward_cap o) /\
  (reporter_paid out <> 0 -> (exists a b c d e f, o = ReportFault a b c d e f) \/
                             (exists a b c d e f g, o = Dispute a b c d e f g)).
Proof. exact c15_reporter_reward_le_taken. Qed.

(* ---- penalties are never negative: a handler that applies a negative amount is rejected ---- *)
Theorem C15_penalties_nonneg : forall s o s' out, 0 <= fee_debt s -> step s o = (s', out) ->
  0 <= charged out /\ (code out = 0 -> 0 <= expected_charge o) /\ fee_debt s <= fee_debt s' + burnt out + reporter_paid out.
Proof. exact c15_penalties_nonneg. Qed.

(* ---- the debt gate: when the fee debt exceeds the unlocked balance the handler's gate sees, every
        handler that calls repay_debts_or_abort is rejected and changes nothing ---- *)
Theorem C15_debt_blocks : forall s o name, gated_name o = Some name -> In name gated_handlers ->
  gate_unlocked s o < fee_debt s -> exists c, c <> 0 /\ step s o = (s, fail c).
Proof. exact c15_debt_blocks. Qed.

(* ... with insufficient_funds (19) for well-formed calls of the three handlers the property names *)
Theorem C15_debt_blocks_insufficient_funds : forall s, 0 <= locked s -> 0 <= unlocked s -> unlocked s < fee_debt s ->
  (forall e c1 c2 rps, step s (DeclareRecovered e 0 c1 c2 rps) = (s, fail INSUFFICIENT_FUNDS)) /\
  (forall e c1 c2 dep deals nc, step s (PreCommit e 0 c1 c2 dep deals nc []) = (s, fail INSUFFICIENT_FUNDS)) /\
  (forall req q payee, 0 <= req -> step s (Withdraw true false req q payee 0 []) = (s, fail INSUFFICIENT_FUNDS)).
Proof. exact c15_debt_blocks_code. Qed.

(* a gated handler that goes through has burnt the whole fee debt *)
Theorem C15_gated_success_clears_debt : forall s o name s' out, 0 <= fee_debt s ->
  gated_name o = Some name -> step s o = (s', out) -> code out = 0 ->
  fee_debt s' = 0 /\ burnt out = fee_debt s /\ charged out = 0.
Proof. exact gated_success_clears_debt. Qed.

(* ---- whole histories: over any sequence of operations the fee debt at the end plus everything burnt
        and paid to reporters equals the initial debt plus everything charged ---- *)
Theorem C15_history_accounting : forall ops s, 0 <= fee_debt s ->
  fee_debt (run s ops) + sumf burnt (outs s ops) + sumf reporter_paid (outs s ops)
    = fee_debt s + sumf charged (outs s ops) /\
  0 <= fee_debt (run s ops) /\ 0 <= sumf burnt (outs s ops) /\ 0 <= sumf reporter_paid (outs s ops) /\
  0 <= sumf charged (outs s ops).
Proof. exact history_accounting. Qed.

(* ---- non-vacuity: an insolvent miner (2 FIL unlocked, 30 FIL vesting of which 1 vested, 5 FIL pledge):
   a deadline end with a continued-fault fee of 3 FIL, an early termination, a gated call rejected in
   debt, a dispute paying the reporter, a consensus fault, a repayment after funding ---- *)
Definition ex_fil := 10 ^ 18.
Definition ex_s0 := mk (12 * ex_fil) (5 * ex_fil) 0 (5 * ex_fil) 0 0.
Definition ex_et := {| et_sectors := [ {| ts_ip := 5 * ex_fil; ts_age := 100; ts_ff := ex_fil |} ];
                       et_v := 0; et_deals := false; et_more := false |}.
Definition ex_ops : list op :=
  [ Cron STORAGE_POWER_ACTOR_ID (CronDeadline 0 (3 * ex_fil) 0 0 0 ex_fil true None) true [];
    Dispute 1001 0 0 (2 * ex_fil) 0 true [];
    DeclareRecovered 100 0 0 0 [];
    Terminate 0 true false ex_et [];
    ReportFault 1001 200 (Some (true, 150)) (40 * ex_fil) 0 [0; 18];
    Other (100 * ex_fil) 0 0;
    RepayDebt 0 0 [];
    DeclareRecovered 2000 0 0 0 [] ].

Example C15_nonvacuous :
  map code (outs ex_s0 ex_ops) = [0; 0; 19; 0; 0; 0; 0; 0] /\
  map charged (outs ex_s0 ex_ops) = [3 * ex_fil; 26 * ex_fil; 0; (ex_fil * 105) / 100; 40 * ex_fil; 0; 0; 0] /\
  map reporter_paid (outs ex_s0 ex_ops) = [0; 4 * ex_fil; 0; 0; 0; 0; 0; 0] /\
  fee_debt (run ex_s0 (firstn 5 ex_ops)) = (5805 * ex_fil) / 100 /\
  fee_debt (run ex_s0 ex_ops) = 0 /\
  sumf burnt (outs ex_s0 ex_ops) + sumf reporter_paid (outs ex_s0 ex_ops) = sumf charged (outs ex_s0 ex_ops).
Proof. vm_compute. repeat split. Qed.
