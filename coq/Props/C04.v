(* C04 -- Sector bookkeeping stays a consistent partition of the miner's sectors.
   Pinned statements only; every proof is `exact <lemma from Proofs/>`.
   The invariants themselves (PartInv, QInv, ExpSetInv, ETInv, op_wf) are the definitions of
   Model/PartitionInv.v; the operations are those of Model/Partition.v (transcribed from
   actors/miner/src/{partition_state,expiration_queue,bitfield_queue,quantize}.rs). *)
From Coq Require Import ZArith List Bool.
From stdpp Require Import gmap.
From VF Require Import Base.Corr Base.SetSum Model.Partition Model.PartitionInv
  Model.Deadline Model.DeadlineInv Proofs.Partition_base Proofs.Partition_lemmas
  Proofs.Partition_c04 Proofs.Deadline_lemmas Proofs.Deadline_c02b.
Import ListNotations.
Open Scope Z_scope.

(* The invariant, spelled out once more so that the pinned statement is readable here:
   PartInv qs tbl p  :=
     0 < unit /\ table keyed by sector number /\ every live sector has a well-formed table row /\
     recoveries ⊆ faults ⊆ sectors, unproven ⊆ sectors, terminated ⊆ sectors,
     unproven, faults, terminated pairwise disjoint /\
     live_power = Σ power(sectors∖terminated), unproven_power = Σ power(unproven),
     faulty_power = Σ power(faults), recovering_power = Σ power(recoveries) /\
     QInv qs tbl faults (sectors∖terminated) expirations /\ ETInv terminated early_terminated
   QInv: every entry (k, es) has quantize_up k = k, 0 <= k, is non-empty, on_time ## early,
     early ⊆ faults, each on-time sector s sits at k = quantize_up(expiration s), each early
     sector at k < quantize_up(expiration s), on_time_pledge = Σ pledge(on_time),
     active_power = Σ power(on_time ∖ faults), faulty_power = Σ power((on_time ∩ faults) ∪ early),
     fee_deduction = Σ fee(on_time ∪ early); entries are pairwise disjoint; a sector is live iff
     it is in some entry. *)
Theorem C04_partinv_unfolds : forall qs tbl p,
  PartInv qs tbl p ->
  recoveries p ⊆ faults p /\ faults p ⊆ sectors p /\ unproven p ⊆ sectors p /\
  terminated p ⊆ sectors p /\ unproven p ## faults p /\ unproven p ## terminated p /\
  faults p ## terminated p /\
  live_power p = spow tbl (sectors p ∖ terminated p) /\ unproven_power p = spow tbl (unproven p) /\
  p_faulty_power p = spow tbl (faults p) /\ recovering_power p = spow tbl (recoveries p) /\
  QInv qs tbl (faults p) (sectors p ∖ terminated p) (expirations p) /\
  ETInv (terminated p) (early_terminated p).
Proof. exact partinv_unfolds. Qed.

(* a live sector is in exactly one expiration set, as on-time xor early *)
Theorem C04_live_sector_in_exactly_one_set : forall qs tbl p n,
  PartInv qs tbl p -> n ∈ sectors p ∖ terminated p ->
  exists k es, expirations p !! k = Some es /\
    ((n ∈ on_time es /\ n ∉ early es) \/ (n ∈ early es /\ n ∉ on_time es)) /\
    forall k' es', expirations p !! k' = Some es' -> n ∈ on_time es' ∪ early es' -> k' = k.
Proof. exact live_sector_in_exactly_one_set. Qed.

Theorem C04_partinv_initial : forall unit off, 0 < unit -> StInv (init unit off).
Proof. exact partinv_init. Qed.

(* preserved by EVERY partition operation, for arbitrary sector sets, epochs and quantisation
   specs; op_wf is what the callers guarantee: distinct, well-formed sector infos on AddSectors /
   ReplaceSectors, and replacement infos numbered like the replaced ones (or fresh) *)
Theorem C04_partinv_step : forall st o, StInv st -> op_wf st o -> StInv (next st o).
Proof. exact partinv_step. Qed.

Theorem C04_partinv_reachable : forall unit off ops,
  0 < unit -> all_wf (init unit off) ops -> StInv (run (init unit off) ops).
Proof. exact partinv_reachable. Qed.

(* the code's own run-time checks can never fire on a reachable state *)
Theorem C04_validate_state_redundant : forall qs tbl p,
  PartInv qs tbl p -> validate_state p = true.
Proof. exact validate_state_redundant. Qed.

(* a rejected call changes nothing *)
Theorem C04_rejected_call_changes_nothing : forall st o,
  snd (fst (step st o)) <> 0 -> next st o = st.
Proof. exact rejected_unchanged. Qed.

(* quantisation: keys written by the queue are fixed points of quantize_up *)
Theorem C04_quant_up_idempotent : forall qs e,
  0 < q_unit qs -> quant_up qs (quant_up qs e) = quant_up qs e.
Proof. exact quant_up_idem. Qed.

(* ---------- deadline level (Model/Deadline.v, Model/DeadlineInv.v) ----------
   DeadlineInv: every partition satisfies PartInv; partitions hold pairwise disjoint sectors;
   live_sectors = Σ|sectors∖terminated|, total_sectors = Σ|sectors|, faulty_power = Σ faulty_power,
   live_power = Σ live_power, daily_fee = Σ fee(live sectors); early_terminations = the partitions
   with a non-empty early-termination queue. *)
Theorem C04_deadlineinv_initial : forall unit off psize,
  0 < unit -> 0 < psize -> DsInv (dinit unit off psize).
Proof. exact dsinv_init. Qed.

(* preserved by EVERY deadline operation: add_sectors, record_proven_sectors, process_deadline_end,
   pop_expired_sectors, terminate_sectors, record_faults, declare_faults_recovered,
   compact_partitions, pop_early_terminations (and trivially by allocate / assign).
   Not part of DeadlineInv: DeadlineExpInv (registration of partition expiration epochs in the
   deadline's own queue, Model/DeadlineInv.v) is evaluated by the monitors only; it is NOT an
   invariant of the functions for arbitrary arguments (process_deadline_end with a fault
   expiration lower than an earlier one breaks it: work/c04/deadline_obs_decreasing_fault_expiration.json;
   the actor always passes non-decreasing values). *)
Theorem C04_deadlineinv_step : forall st o, DsInv st -> dop_wf st o -> DsInv (dnext st o).
Proof. exact dsinv_step. Qed.

Theorem C04_deadlineinv_reachable : forall unit off psize ops,
  0 < unit -> 0 < psize -> dall_wf (dinit unit off psize) ops ->
  DsInv (drun (dinit unit off psize) ops).
Proof. exact dsinv_reachable. Qed.

(* Deadline::validate_state can never fail on a reachable deadline *)
Theorem C04_deadline_validate_state_redundant : forall qs tbl d,
  DeadlineInv qs tbl d -> dl_validate d = true.
Proof. exact dl_validate_redundant. Qed.

Theorem C04_sector_in_exactly_one_partition : forall qs tbl d n,
  DeadlineInv qs tbl d -> n ∈ dl_sectors d ->
  exists i p, parts d !! i = Some p /\ n ∈ sectors p /\
    forall j q, parts d !! j = Some q -> n ∈ sectors q -> j = i.
Proof. exact sector_in_exactly_one_partition. Qed.

(* allocate_sector_numbers(DenyCollisions) never accepts an allocated number; allocation only grows *)
Theorem C04_sector_number_allocated_once : forall alloc nums alloc',
  allocate_sector_numbers alloc nums false = Ok alloc' -> nums ## alloc /\ alloc' = alloc ∪ nums.
Proof. exact sector_number_allocated_once. Qed.

Theorem C04_allocated_only_grows : forall st ops, ds_alloc st ⊆ ds_alloc (drun st ops).
Proof. exact allocated_only_grows_run. Qed.

(* assign_deadlines gives each of the n sectors exactly one deadline, among those offered *)
Theorem C04_assign_deadlines_spec : forall mp psize n infos l,
  assign_deadlines mp psize infos n = Ok l ->
  length l = n /\ forall x, In x l -> In x (map di_index infos).
Proof. exact assign_deadlines_spec. Qed.

(* ---- non-vacuity: a concrete history exercising faults, recoveries, skipped faults, a missed
   PoSt, termination, expiry and early-termination processing ---- *)
Definition ex_mk n e q pl f :=
  {| s_num := n; s_exp := e; s_raw := 32; s_qa := q; s_pledge := pl; s_fee := f |}.
Definition ex_secs := [ex_mk 1%N 2 50 1000 3000; ex_mk 2%N 3 51 1001 4000; ex_mk 3%N 7 52 1002 5000;
                       ex_mk 4%N 8 53 1003 6000; ex_mk 5%N 11 54 1004 7000; ex_mk 6%N 13 55 1005 8000].
Definition ex_ops :=
  [AddSectors false ex_secs; ActivateUnproven; RecordFaults [4;5;6]%N 7;
   DeclareFaultsRecovered [4;5]%N; RecordSkippedFaults 9 [1;4]%N; RecoverFaults;
   TerminateSectors 3 [2;6]%N; PopExpiredSectors 5; RecordMissedPost 9;
   PopEarlyTerminations 1; PopExpiredSectors 100; PopEarlyTerminations 10].

Example C04_nonvacuous :
  let st := run (init 4 1) ex_ops in
  all_wf_b (init 4 1) ex_ops = true /\
  map (fun k => snd (fst (step (run (init 4 1) (firstn k ex_ops)) (nth k ex_ops ActivateUnproven))))
      (seq 0 12) = repeat 0 12 /\
  sorted (terminated (st_part st)) = [1; 2; 3; 4; 5; 6]%N /\
  validate_state (st_part st) = true /\ part_memos_b (st_tbl st) (st_part st) = true /\
  snd (fst (step st (TerminateSectors 200 [1]%N))) = 16.
Proof. vm_compute. repeat split. Qed.

(* the caller obligations are satisfiable on that history, so the theorem applies to it *)
Example C04_nonvacuous_inv : StInv (run (init 4 1) ex_ops).
Proof. apply partinv_reachable; [reflexivity|]. apply all_wf_b_sound. vm_compute. reflexivity. Qed.

(* ---- non-vacuity at deadline level: two partitions, a PoSt with a skipped sector, a declared
   recovery, a termination, early-termination processing and a compaction, all accepted; a second
   allocation of an allocated number is refused ---- *)
Definition ex_dsecs := [ex_mk 1%N 20 50 1000 3; ex_mk 2%N 30 51 1001 4; ex_mk 3%N 70 52 1002 5].
Definition ex_dops :=
  [DAllocate [1; 2; 3]%N false; DAddSectors false ex_dsecs; DRecordProven 40 [(0%N, []); (1%N, [3]%N)];
   DProcessDeadlineEnd 44; DDeclareRecovered [(1%N, [3]%N)]; DTerminate 9 [(0%N, [1]%N)];
   DPopEarly 10 10; DCompact [0]%N; DAllocate [2]%N false].
Example C04_deadline_nonvacuous :
  let st := drun (dinit 4 1 2) ex_dops in
  map (fun k => snd (fst (dstep (drun (dinit 4 1 2) (firstn k ex_dops)) (nth k ex_dops (DPopEarly 0 0)))))
      (seq 0 9) = [0; 0; 0; 0; 0; 0; 0; 0; 16] /\
  length (parts (ds_dl st)) = 1%nat /\ dl_live_sectors (ds_dl st) = 2 /\
  dl_total_sectors (ds_dl st) = 2 /\ sorted (ds_alloc st) = [1; 2; 3]%N.
Proof. vm_compute. repeat split. Qed.
