(* C10 -- Verified claims back quality-adjusted power and obey their terms.
   Pinned statements only; every proof is `exact <lemma from Proofs/ClaimTerms_lemmas.v>` or a
   `vm_compute` witness.

   Model: coq/Model/ClaimTerms.v = the registry model of C09 (Model/Verifreg.v) joined with a sector
   view and transcriptions of the miner's ExtendSectorExpiration2 / ProveCommitSectors3 claim logic.

   HISTORY: the faithful model of the code before commit 081fc6c refuted the statement
   "a live sector's verified space is backed by claims whose maximum term reaches the sector's
   expiration" in two ways, both replayed on the real code (corpus/C10/F4*.json):
     F4   one claim id listed twice in maintain_claims (the space check counted it twice, the claim
          left out was never checked against the new expiration);
     F4b  one sector named by two declarations of the same message (claims checked against the first
          declaration's expiration only, the second extension reused the recorded spaces).
   Commit 081fc6c rejects both message shapes (exit 16); the model transcribes the repaired validator,
   the full statement is now a theorem, and the two witness messages are kept below as rejected. *)
From stdpp Require Import gmap.
From Coq Require Import ZArith List Bool Lia.
From VF Require Import Gen.Consts Gen.VerifregConsts Base.Corr Base.MapSum Model.Verifreg
  Proofs.Verifreg_lemmas Model.ClaimTerms Proofs.ClaimTerms_lemmas.
Import ListNotations.
Open Scope Z_scope.

Theorem C10_constants :
  END_OF_LIFE_CLAIM_DROP_PERIOD = 30 * EPOCHS_IN_DAY /\ END_OF_LIFE_CLAIM_DROP_PERIOD = 86400 /\
  MIN_SECTOR_EXPIRATION = 180 * EPOCHS_IN_DAY /\ MAX_SECTOR_EXPIRATION_EXTENSION = 1278 * EPOCHS_IN_DAY /\
  MAXIMUM_VERIFIED_ALLOCATION_TERM = 5 * EPOCHS_IN_YEAR /\ WPOST_PERIOD_DEADLINES = 48.
Proof. vm_compute. repeat split. Qed.

Definition f4_w := {| root := 101; accts := [103; 104; 105; 106; 107]; miners := [108] |}.
Definition f4_ctrl := [(108, 103)].
Definition f4_rq (d tmin tmax : Z) :=
  {| rq_provider := 108; rq_data := d; rq_size := 8589934592; rq_tmin := tmin; rq_tmax := tmax; rq_exp := 100200 |}.
Definition f4_ac (id d : Z) := {| ac_client := 105; ac_id := id; ac_data := d; ac_size := 8589934592 |}.
Definition f4_prefix : list cop := [
  Vr (AddVerifier 101 104 1125899906842624);
  Vr (AddClient 104 105 4398046511104);
  Vr (Transfer 200 105 6 25769803776000000000000000000
        (PReqs [f4_rq 0 521034 1104569; f4_rq 1 584133 1099883; f4_rq 2 532657 1729495] []));
  Onboard 351 108 100 986791 [f4_ac 1 0; f4_ac 2 1; f4_ac 3 2]
].
(* the F4 message: claim 3 listed twice instead of claim 2, 76 days before the sector's expiration,
   new expiration past claim 2's term end 351 + 1099883 *)
Definition f4_msg : cop :=
  Extend2 768099 103 108
    [{| ed_deadline := 0; ed_new_exp := 1101234; ed_sectors := [];
        ed_claims := [{| sc_sector := 100; sc_maintain := [1; 3; 3]; sc_drop := [] |}] |}].
(* the F4b message: the sector in two declarations *)
Definition f4b_msg : cop :=
  Extend2 768099 103 108
    [{| ed_deadline := 0; ed_new_exp := 986791; ed_sectors := [];
        ed_claims := [{| sc_sector := 100; sc_maintain := [1; 2; 3]; sc_drop := [] |}] |};
     {| ed_deadline := 0; ed_new_exp := 2000000; ed_sectors := [100]; ed_claims := [] |}].

(* both are now refused with illegal_argument and change nothing *)
Example C10_F4_messages_rejected :
  let st := crun (cinit f4_w f4_ctrl) f4_prefix in
  cstep st f4_msg = (st, fail ILLEGAL_ARGUMENT) /\ cstep st f4b_msg = (st, fail ILLEGAL_ARGUMENT).
Proof. vm_compute. split; reflexivity. Qed.

(* verified_weight_backed, for ALL histories of registry / datacap messages (not sent by the registry
   itself), verified onboardings, ExtendSectorExpiration2 messages with arbitrary declarations, claim
   term extensions, claim removals and terminations: every live simple-QAP sector's verified weight
   is space * (expiration - power_base_epoch) for a space covered by claims of that provider and
   sector whose maximum term reaches the sector's expiration.  (live = not terminated and expiring
   after every epoch at which a message of the history was sent; cov cl p n x = total size of the
   claims of provider p for sector n with x <= term_start + term_max.) *)
Theorem C10_verified_weight_backed : forall w c ops,
  world_ok w -> Forall cop_caller_ok ops ->
  let st := crun (cinit w c) ops in
  forall p n s, sectors st !! (p, n) = Some s ->
    s_terminated s = false -> s_simple s = true -> max_epoch 0 ops < s_expiration s -> 0 < s_vweight s ->
    exists space, s_vweight s = space * (s_expiration s - s_power_base s) /\
                  0 < s_expiration s - s_power_base s /\
                  space <= cov (claims (reg (vr st))) p n (s_expiration s).
Proof. exact verified_weight_backed. Qed.

(* the repaired validate_extension_declarations accepts a message only if every sector is named by at
   most one declaration and one claim entry and no claim id is repeated inside an entry, and then it
   records exactly the spaces the previous validator recorded *)
Theorem C10_accepted_declarations_are_well_formed : forall cl p ds m,
  validate_decls cl p ds [] ∅ = Ok m -> validate_decls0 cl p ds ∅ = Ok m /\ decls_wf ds.
Proof. exact repaired_validator_accepts_only_wf. Qed.

(* at onboarding every claim starts at the sector's activation and the sector's expiration lies
   within [term_start + term_min, term_start + term_max]; the verified weight is the claimed space
   times the sector's lifetime *)
Theorem C10_onboard_terms : forall st e p n x cs st' ev id,
  onboard st e p n x cs = Ok (st', ev) -> In (EvClaim id) ev ->
  exists s c,
    sectors st' !! (p, n) = Some s /\ s_activation s = e /\ s_expiration s = x /\ s_power_base s = e /\
    s_vweight s = sumZ (map ac_size cs) * (x - e) /\
    claims (reg (vr st')) !! (p, id) = Some c /\ c_sector c = n /\ c_provider c = p /\ c_tstart c = e /\
    c_tstart c + c_tmin c <= x <= c_tstart c + c_tmax c /\
    claims (reg (vr st)) !! (p, id) = None.
Proof. exact onboard_terms. Qed.

(* every sector rewrite of an accepted ExtendSectorExpiration2 (one application of extend_one per
   sector named by a declaration): the declared space must equal the sector's verified space, and
   the maintained space may be smaller (claims dropped) only within the final
   END_OF_LIFE_CLAIM_DROP_PERIOD epochs of the sector's life; the sector is never shortened *)
Theorem C10_drop_only_at_end_of_life : forall e x n s spaces ds s',
  extend_one e x n s spaces ds = Ok s' -> s_simple s = true -> 0 < s_vweight s ->
  let old_space := s_vweight s / (s_expiration s - s_power_base s) in
  exists check maintain,
    spaces !! n = Some (check, maintain) /\ check = old_space /\
    s_vweight s' = maintain * (x - e) /\ s_power_base s' = e /\ s_expiration s' = x /\
    e <= s_expiration s <= x /\ e < x /\
    (maintain <> check -> s_expiration s - e <= END_OF_LIFE_CLAIM_DROP_PERIOD).
Proof. exact drop_only_at_end_of_life. Qed.

Theorem C10_extension_never_shortens : forall e x n s spaces ds s',
  extend_one e x n s spaces ds = Ok s' ->
  s_expiration s <= s_expiration s' /\ s_expiration s' = x /\ s_activation s' = s_activation s /\
  s_power_base s' = e.
Proof. exact extension_never_shortens. Qed.

(* term_max_monotone + removal_only_after_expiry: in every message of the joint model a claim either
   stays, with everything but a possibly larger term_max unchanged, or is removed by a
   RemoveExpiredClaims sent at or after term_start + term_max *)
Theorem C10_claim_term_max_monotone_and_removal_only_after_expiry : forall st o st' out k c,
  cstep st o = (st', out) -> reg_inv (vr st) -> claims (reg (vr st)) !! k = Some c ->
  (exists c', claims (reg (vr st')) !! k = Some c' /\ c' = with_tmax c (c_tmax c') /\ c_tmax c <= c_tmax c') \/
  (claims (reg (vr st')) !! k = None /\ cop_removes_claims o = true /\
   c_tstart c + c_tmax c <= cop_epoch o).
Proof. exact claim_evolution. Qed.

(* ... and the hypothesis reg_inv holds in every reachable state *)
Theorem C10_reachable_registry_invariant : forall w c ops,
  world_ok w -> Forall cop_caller_ok ops -> reg_inv (vr (crun (cinit w c) ops)).
Proof.
  intros w c ops Hw Hc. apply (crun_reg_inv (cinit w c) ops Hc); [exact Hw|apply init_inv].
Qed.

(* ---- non-vacuity: a well-formed history with onboarding, a term extension, an end-of-life drop ---- *)
Definition ex_ops : list cop := f4_prefix ++ [
  Vr (ExtendTerms 105 [(108, 1, 1400000)]);
  Extend2 (986791 - 1000) 103 108
    [{| ed_deadline := 0; ed_new_exp := 1200000; ed_sectors := [];
        ed_claims := [{| sc_sector := 100; sc_maintain := [1; 3]; sc_drop := [2] |}] |}];
  Vr (RemoveExpClaims 1100234 107 108 [2])
].

Example C10_nonvacuous :
  Forall cop_caller_ok ex_ops /\
  let st := crun (cinit f4_w f4_ctrl) ex_ops in
  covered_b st (max_epoch 0 ex_ops) = true /\
  option_map s_vweight (sectors st !! (108, 100)) = Some (2 * 8589934592 * (1200000 - 985791)) /\
  claims (reg (vr st)) !! (108, 2) = None /\
  option_map c_tmax (claims (reg (vr st)) !! (108, 1)) = Some 1400000 /\
  (* the same drop 100 days before the expiration is refused *)
  snd (cstep (crun (cinit f4_w f4_ctrl) f4_prefix)
         (Extend2 (986791 - 288000) 103 108
            [{| ed_deadline := 0; ed_new_exp := 1100000; ed_sectors := [];
                ed_claims := [{| sc_sector := 100; sc_maintain := [1; 3]; sc_drop := [2] |}] |}])) = fail FORBIDDEN.
Proof.
  split.
  - repeat constructor; discriminate.
  - vm_compute. repeat split.
Qed.
