(* C01 -- No FIL is created, lost or stranded: conservation and solvency.  Pinned statements only.
   Layer (a): the VM ledger over arbitrary invocation trees (validated against the harness VM on every
   explored message).  Layer (b): solvency invariants of the custodians, each over its own actor model:
   payment channel (Model/Paych.v), reward actor (Model/Ledger.v `award`); the market's and the miner's
   are pinned in Props/C06.v (C06_market_solvent) and Props/C14.v (the C14 solvency theorems) over their models. *)
From stdpp Require Import gmap.
From Coq Require Import ZArith List Bool.
From VF Require Import Base.Corr Model.Ledger Proofs.Ledger_lemmas Model.Paych Proofs.Paych_lemmas.
From VF Require Model.Market Proofs.MarketBase_lemmas Proofs.Market_lemmas Model.MinerFunds Proofs.MinerFunds_lemmas.
Import ListNotations.
Open Scope Z_scope.

(* one executed message, whatever the actors did (any tree, any nesting, any mix of failed and
   tolerated nested sends): the sum over all actors is unchanged and no balance becomes negative *)
Theorem C01_ledger_total_invariant : forall b i b',
  apply b i = Some b' -> total b' = total b /\ (nonneg b -> nonneg b').
Proof. exact ledger_total_invariant. Qed.

(* any finite history of messages *)
Theorem C01_history_total_invariant : forall msgs b b',
  apply_list b msgs = Some b' -> total b' = total b /\ (nonneg b -> nonneg b').
Proof. exact ledger_history_total_invariant. Qed.

(* a failed invocation leaves no trace on any balance, whatever its nested sends did *)
Theorem C01_rollback_exact : forall b f t v ch, apply b (Ledger.Inv f t v false ch) = Some b.
Proof. exact ledger_rollback_exact. Qed.

(* burning only moves FIL to the burnt-funds actor (id 99) *)
Theorem C01_burn_only_moves : forall b i b',
  apply b i = Some b' ->
  (total b' - bal b' 99) = (total b - bal b 99) - (bal b' 99 - bal b 99).
Proof. exact burn_only_moves. Qed.

Theorem C01_burnt_funds_actor_is_99 : VF.Gen.Consts.BURNT_FUNDS_ACTOR_ID = 99.
Proof. reflexivity. Qed.

(* the reward actor never pays out more than it holds; what it cannot deliver to the miner it burns *)
Theorem C01_reward_never_overpays : forall balance ter pen gas wc mr mo,
  0 <= balance -> 0 <= ter ->
  let o := award balance ter pen gas wc mr mo in
  0 <= a_to_miner o + a_burnt o <= balance /\ a_to_miner o + a_burnt o = a_total_reward o /\
  (a_code o <> 0 -> a_total_reward o = 0).
Proof. exact reward_never_overpays. Qed.

(* a payment channel always holds at least what it owes the payee *)
Theorem C01_paych_solvent : forall f t bal0 ops,
  0 <= bal0 -> let st := Paych_lemmas.run (Paych.init f t bal0) ops in
  0 <= Paych.to_send st /\ (Paych.alive st = true -> Paych.to_send st <= Paych.balance st).
Proof. exact to_send_bounds. Qed.


(* the storage market always holds at least the sum of all escrow balances: every reachable state of the
   market model (any history of deposits, withdrawals, publications, activations, settlements,
   terminations and cron ticks with non-decreasing epochs) *)
Theorem C01_market_solvent : forall ivl ops,
  Market_lemmas.hist_ok 0 ops ->
  MarketBase_lemmas.bsum (Market.escrow (Market.run (Market.init ivl) ops))
    <= Market.balance (Market.run (Market.init ivl) ops).
Proof.
  intros ivl ops H. eapply Market_lemmas.market_solvent. apply Market_lemmas.market_inv_reachable. exact H.
Qed.

(* each miner holds at least its pre-commit deposits plus vesting funds plus initial pledge, after every
   operation of every history (accepted or rejected, whatever the nested calls answered); the amounts
   computed by the un-modelled pledge/penalty formulas are inputs of the operations *)
Theorem C01_miner_solvent : forall balance deposit epoch p own wrk ops,
  0 <= deposit <= balance ->
  let s := MinerFunds_lemmas.run (MinerFunds.init balance deposit epoch p own wrk) ops in
  0 <= MinerFunds.pcd (MinerFunds.fu s) /\ 0 <= MinerFunds.ip (MinerFunds.fu s) /\
  MinerFunds.locked (MinerFunds.fu s) + MinerFunds.pcd (MinerFunds.fu s) + MinerFunds.ip (MinerFunds.fu s)
    <= MinerFunds.bal s.
Proof.
  intros balance deposit epoch p own wrk ops H.
  destruct (MinerFunds_lemmas.history_invariant balance deposit epoch p own wrk ops H) as (_ & _ & ? & ? & _ & ?).
  repeat split; assumption.
Qed.

(* non-vacuity: a message with a tolerated failed nested send and a burn *)
Example C01_nonvacuous :
  let b := of_list [(1, 100); (2, 50)] in
  let m := Ledger.Inv 1 2 30 true [Ledger.Inv 2 3 70 false [Ledger.Inv 3 99 70 true []]; Ledger.Inv 2 99 10 true []] in
  option_map enc (apply b m) = Some [1; 70; 2; 70; 99; 10] /\
  apply b (Ledger.Inv 1 2 101 true []) = None.
Proof. vm_compute. split; reflexivity. Qed.
