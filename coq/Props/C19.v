(* C19 -- EVM contract state stays coherent across nested, re-entrant and reverted calls.
   Pinned statements only; every proof is `exact <lemma from Proofs/EvmWorld_lemmas.v>`.

   Two semantics of the same scripted contracts (coq/Model/EvmWorld.v):
     a*  the abstract specification (one world, snapshot/restore on failure, per-message transient map,
         deferred self-destruction, DELEGATECALL in the caller's context);
     c*  the concrete System protocol of actors/evm (per-activation cache with dirty tracking, flush before
         every send, reload after a successful send iff the root moved, persisted State per contract with
         TransientData lifespan and Tombstone, the VM's roll-back of failed sends).
   The refinement is proved for the FULL action language (SStore SLoad TStore TLoad Log Env
   Call{CALL,STATICCALL,DELEGATECALL} Create Create2 SelfDestruct Revert Return), any nesting and
   re-entrancy, any fuel, any sequence of top-level messages. *)
From stdpp Require Import gmap.
From Coq Require Import ZArith List Bool.
From VF Require Import Base.Corr Gen.EvmWorldShape Model.EvmWorld Proofs.EvmWorld_lemmas.
Import ListNotations.
Open Scope Z_scope.

(* the protocol the concrete model transcribes is the one in actors/evm/src today (syntactic facts
   regenerated from the source on every run; the semantic tie is the correspondence check) *)
Theorem C19_source_shape :
  EVM_CONTRACT_REVERTED = GEN_EVM_CONTRACT_REVERTED /\
  SEND_RAW_FLUSHES_BEFORE_SEND = true /\ SEND_RAW_RELOADS_ON_SUCCESS_ONLY = true /\
  FLUSH_NOOP_WHEN_CLEAN = true /\ FLUSH_REFUSED_WHEN_READONLY = true /\
  RELOAD_SKIPS_READONLY = true /\ RELOAD_SKIPS_SAME_ROOT = true /\
  RELOAD_CHECKS_LIFESPAN = true /\ LOAD_CHECKS_LIFESPAN = true /\
  SET_STORAGE_DIRTY_ON_CHANGE_ONLY = true /\ SET_TRANSIENT_DIRTY_ON_CHANGE_ONLY = true /\
  IS_DEAD_COMPARES_FULL_TOMBSTONE = true /\ SELFDESTRUCT_TRANSFERS_THEN_MARKS = true /\
  RT_SENDS_TOTAL = 3 /\ RT_SENDS_PLAIN_TRANSFER = 2.
Proof. repeat split. Qed.

(* ---- the refinement ---- *)
Theorem C19_system_refines_spec : forall E fuel cs bals msgs,
  c_observe E fuel {| cs_world := mk_cworld cs bals; cs_seq := ∅ |} msgs =
  a_observe E fuel (mk_world cs bals) msgs.
Proof. exact system_refines_spec. Qed.

(* the same from ANY pair of related states (Rb: between messages the abstract world is the persisted
   one with stale tombstones read as "dead", and every stored message identity is older than the
   next message of its origin) *)
Theorem C19_system_refines_spec_rel : forall E fuel msgs cs aw,
  Rb cs aw -> c_observe E fuel cs msgs = a_observe E fuel aw msgs.
Proof. exact system_refines_spec_rel. Qed.

(* one invocation at any depth: equal results, related worlds, read-only and failing invocations
   leave the persisted world untouched (R: persisted world vs abstract world during message m) *)
Theorem C19_invoke_simulation : forall E m f r cw aw cw' rc aw' ra,
  R m cw aw -> req_ok m cw r ->
  cinvoke E m f r cw = (cw', rc) -> ainvoke E f r aw = (aw', ra) ->
  rc = ra /\ R m cw' aw' /\ live_mono m cw cw' /\
  (req_ro r = true -> cw' = cw) /\ (fst rc <> 0 -> cw' = cw).
Proof. exact invoke_sim. Qed.

(* ---- the clauses ---- *)
(* RS m cw s a aw: activation of contract a with cache s over persisted world cw represents the
   abstract world aw (aw's contract a is the CACHE, everything else the persisted states) *)

Theorem C19_inner_writes_visible_to_outer : forall E m f a r cw s aw cw' s' data,
  RS m cw s a aw ->
  match r with RDelegate c _ _ => self c = a | _ => True end ->
  (s_ro s = true -> req_ro r = true) ->
  c_send m (cinvoke E m f) a r cw s = Some (cw', s', (0, data)) ->
  exists root, cw_states cw' !! a = Some root /\ s_saved s' = Some root /\
               s_slots s' = p_slots root /\ s_tslots s' = tslots_of m (p_tdata root) /\
               s_nonce s' = p_nonce root /\ s_tomb s' = p_tomb root.
Proof. exact inner_writes_visible_to_outer_l. Qed.

Theorem C19_outer_writes_visible_to_inner : forall m cw s a aw cw1 s1,
  RS m cw s a aw -> sys_flush m a cw s = Some (cw1, s1) ->
  exists root, cw_states cw1 !! a = Some root /\
    forall rdo, let s_in := sys_load m rdo root in
      s_slots s_in = s_slots s /\ s_tslots s_in = s_tslots s /\ s_nonce s_in = s_nonce s /\
      s_tomb s_in = s_tomb s.
Proof. exact outer_writes_visible_to_inner_l. Qed.

Theorem C19_reverted_call_leaves_no_trace : forall E m f a r cw s aw cw' s' code data,
  RS m cw s a aw ->
  match r with RDelegate c _ _ => self c = a | _ => True end ->
  (s_ro s = true -> req_ro r = true) ->
  c_send m (cinvoke E m f) a r cw s = Some (cw', s', (code, data)) -> code <> 0 ->
  RS m cw' s' a aw /\ cw_bal cw' = cw_bal cw /\ cw_events cw' = cw_events cw /\
  (forall a', a' <> a -> cw_states cw' !! a' = cw_states cw !! a') /\
  s_slots s' = s_slots s /\ s_tslots s' = s_tslots s /\ s_nonce s' = s_nonce s /\ s_tomb s' = s_tomb s.
Proof. exact reverted_call_leaves_no_trace_l. Qed.

Theorem C19_failed_message_leaves_no_trace : forall E fuel cs aw x cs' code d,
  Rb cs aw -> cmsg E fuel cs x = (cs', (code, d)) -> code <> 0 ->
  cs_world cs' = cw_begin (cs_world cs).
Proof. exact failed_message_no_trace_l. Qed.

Theorem C19_transient_shared_within_message : forall m s rdo,
  (s_tomb s = None \/ s_tomb s = Some m) ->
  s_tslots (sys_load m rdo (sys_state m s)) = s_tslots s.
Proof. exact transient_shared_within_message_l. Qed.

Theorem C19_transient_empty_next_message :
  (forall m m' s rdo, m' <> m -> s_tslots (sys_load m' rdo (sys_state m s)) = ∅) /\
  (forall E fuel cs bals ms o a ps rdo,
     let st := c_run E fuel {| cs_world := mk_cworld cs bals; cs_seq := ∅ |} ms in
     cw_states (cs_world st) !! a = Some ps ->
     s_tslots (sys_load (o, seq_of (cs_seq st) o) rdo ps) = ∅).
Proof. split; [exact transient_empty_other_message_l | exact transient_empty_next_message_l]. Qed.

Theorem C19_selfdestruct_deferred_then_empty_and_paid :
  (* paid at once *)
  (forall E m ci c b rest cw s log, s_ro s = false ->
     crun E m ci c (SelfDestruct b :: rest) cw s log =
     (cw_move cw (self c) b (getb (cw_bal cw) (self c)), sys_mark m s, ORet [])) /\
  (* keeps working until the message ends *)
  (forall m s rdo, let s_in := sys_load m rdo (sys_state m (sys_mark m s)) in
     s_slots s_in = s_slots s /\ s_tslots s_in = s_tslots s /\ s_nonce s_in = s_nonce s /\
     s_code s_in = Some (p_code (sys_state m s), p_codeid (sys_state m s)) /\ s_ro s_in = rdo) /\
  (* empty afterwards *)
  (forall m m' s rdo, m' <> m -> sys_load m' rdo (sys_state m (sys_mark m s)) = new_system true) /\
  (forall cw a ps t, cw_states cw !! a = Some ps -> p_tomb ps = Some t ->
     c_obs_addr cw a = [2; 0; 0; 0; getb (cw_bal cw) a]).
Proof.
  split; [exact selfdestruct_pays_at_once_l|]. split; [exact selfdestruct_deferred_l|].
  split; [exact selfdestruct_then_empty_l | exact selfdestruct_observed_dead_l].
Qed.

Theorem C19_delegatecall_uses_caller_context : forall E m f c tgt entry cw tps scr ps,
  cw_states cw !! tgt = Some tps -> is_dead m tps = false ->
  lookup_entry (p_code tps) entry = Some scr -> cw_states cw !! self c = Some ps ->
  cinvoke E m (S f) (RDelegate c tgt entry) cw =
  c_finish m cw (self c) (crun E m (cinvoke E m f) c scr cw (sys_load m (ro c) ps) []).
Proof. exact delegatecall_uses_caller_context_l. Qed.

Theorem C19_readonly_sticky :
  (forall E m f r cw aw, R m cw aw -> req_ok m cw r -> req_ro r = true ->
     fst (cinvoke E m f r cw) = cw) /\
  (forall E m ci c a rest cw s log, s_ro s = true ->
     match a with
     | SStore _ _ | TStore _ _ | Log _ | Create _ _ | Create2 _ _ _ | SelfDestruct _ => True
     | _ => False
     end ->
     crun E m ci c (a :: rest) cw s log = (cw, s, OFail USR_READ_ONLY)).
Proof. split; [exact readonly_no_effect_l | exact readonly_rejects_writes_l]. Qed.

(* ---- non-vacuity: a concrete system exercising every clause, evaluated in both semantics ---- *)
Definition exE : env :=
  {| e_tmpls := [ {| t_ctor := [SStore 0 4]; t_code := [[SLoad 0]; [SLoad 0; SelfDestruct 101]]; t_id := 50 |} ];
     e_create2 := [(1, 0, 0, 200)]; e_create := [];
     e_word := [(1, 1001); (2, 1002); (101, 9101); (102, 9102); (200, 1200)];
     e_universe := [1; 2; 101; 200]; e_eoas := [101; 102] |}.
Definition exA : code :=
  [ [SStore 0 1; Call KCall 2 1 0 false; SLoad 0; Call KCall 2 3 0 false; SLoad 0];   (* e0 *)
    [TStore 0 5; Call KCall 2 2 0 false; TLoad 1];                                    (* e1 *)
    [SLoad 0; SStore 0 2];                                                            (* e2: re-entered *)
    [TLoad 0; TLoad 1];                                                               (* e3 *)
    [SStore 0 9];                                                                     (* e4 *)
    [Env 0; Env 1; Env 2; SStore 1 6];                                                (* e5: delegate target *)
    [Create2 0 0 3; Call KCall 200 1 0 false; Call KCall 200 0 0 false; Create2 0 0 0; Env 3] (* e6 *)
  ].
Definition exB : code :=
  [ [SStore 1 3; Call KDelegate 1 5 0 false; SLoad 1; Call KStatic 1 4 0 false; SLoad 1];  (* e0 *)
    [Call KCall 1 2 0 false];                                                              (* e1: A -> B -> A *)
    [Call KCall 1 3 0 false; TStore 1 8; Call KCall 1 3 0 false];                          (* e2 *)
    [Call KCall 1 4 0 false; Revert]                                                       (* e3: inner write, then revert *)
  ].
Definition exCs := [(1, exA); (2, exB)].
Definition exBals := [(1, 10); (2, 20); (101, 1000); (102, 1000)].
Definition exM f t e v := {| m_from := f; m_to := t; m_entry := e; m_value := v |}.
Definition exMsgs :=
  [exM 101 1 0 0;    (* re-entrancy both ways + reverted inner write:  log 1 [1 1] 2 0 [1] 2 *)
   exM 101 1 1 0;    (* transient shared by A's activations within the message: 5 seen inside *)
   exM 101 1 3 0;    (* next message: transient empty *)
   exM 102 2 0 7;    (* DELEGATECALL: caller 102, value 7, address B, write lands in B; STATICCALL write refused *)
   exM 101 1 6 0;    (* CREATE2, kill, still callable in the same message, re-create refused, paid at once *)
   exM 102 200 0 0;  (* next message: the corpse does nothing *)
   exM 101 1 6 0].   (* re-created at the same address *)

Example C19_nonvacuous :
  c_observe exE FUEL {| cs_world := mk_cworld exCs exBals; cs_seq := ∅ |} exMsgs =
  [[0; 7; 1; 1; 1; 2; 0; 1; 2; 1; 1; 1; 1; 0; 2; 10; 1; 2; 1; 0; 20; 0; 0; 0; 0; 1000; 0; 0; 0; 0; 0; 0];
   [0; 8; 1; 1; 5; 0; 1; 5; 0; 0; 1; 1; 1; 1; 0; 2; 10; 1; 2; 1; 0; 20; 0; 0; 0; 0; 1000; 0; 0; 0; 0; 0; 0];
   [0; 2; 0; 0; 1; 1; 1; 1; 0; 2; 10; 1; 2; 1; 0; 20; 0; 0; 0; 0; 1000; 0; 0; 0; 0; 0; 0];
   [0; 7; 1; 9102; 7; 1002; 6; 0; 6; 1; 1; 1; 1; 0; 2; 10; 1; 2; 1; 1; 1; 6; 27; 0; 0; 0; 0; 1000; 0; 0; 0; 0; 0; 0];
   [0; 6; 1; 1; 1; 4; 0; 7; 1; 1; 3; 1; 0; 2; 7; 1; 2; 1; 1; 1; 6; 27; 0; 0; 0; 0; 1003; 2; 0; 0; 0; 0; 0];
   [0; 0; 1; 1; 3; 1; 0; 2; 7; 1; 2; 1; 1; 1; 6; 27; 0; 0; 0; 0; 1003; 2; 0; 0; 0; 0; 0];
   [0; 6; 1; 1; 1; 4; 0; 4; 1; 1; 5; 1; 0; 2; 4; 1; 2; 1; 1; 1; 6; 27; 0; 0; 0; 0; 1006; 2; 0; 0; 0; 0; 0]]
  /\ a_observe exE FUEL (mk_world exCs exBals) exMsgs =
     c_observe exE FUEL {| cs_world := mk_cworld exCs exBals; cs_seq := ∅ |} exMsgs.
Proof. vm_compute. split; reflexivity. Qed.
