(* C11 -- Privileged methods are callable only by their designated callers.
   Pinned statements only; every proof is `exact <lemma from Proofs/Access_lemmas.v>` or a
   `vm_compute` over the GENERATED table Gen.Dispatch.actors (regenerated from /repo's
   actors/*/src/lib.rs on every run by tools/translator_dispatch.py). *)
From Coq Require Import ZArith List String Bool.
From VF Require Import Gen.Consts Base.Corr Base.AccessTypes Gen.Dispatch Model.Access Proofs.Access_lemmas.
Import ListNotations.
Open Scope string_scope.
Open Scope Z_scope.
Open Scope list_scope.

(* constants the statements depend on *)
Theorem C11_first_exported_is_2_pow_24 :
  FIRST_EXPORTED_METHOD_NUMBER = 2 ^ 24 /\ first_exported_method_number = FIRST_EXPORTED_METHOD_NUMBER /\
  SYSTEM_ACTOR_ID = 0 /\ INIT_ACTOR_ID = 1 /\ REWARD_ACTOR_ID = 2 /\ CRON_ACTOR_ID = 3 /\
  STORAGE_POWER_ACTOR_ID = 4 /\ STORAGE_MARKET_ACTOR_ID = 5 /\ VERIFIED_REGISTRY_ACTOR_ID = 6 /\
  DATACAP_TOKEN_ACTOR_ID = 7 /\ EAM_ACTOR_ID = 10.
Proof. repeat split. Qed.

(* 1. The caller check found in the source of every dispatch row (and of every fallback handler)
      lets through exactly the classes the hand-written specification designates for that method;
      and the specification has no row for a method that does not exist. *)
Theorem C11_guards_match_spec : forall a r,
  In a actors -> In r (a_rows a) ->
  forall cl, In cl (guard_classes (r_guard r)) <-> In cl (designated (a_name a) (r_name r)).
Proof. exact guards_match_spec. Qed.

Theorem C11_fallback_guards_match_spec : forall a f,
  In a actors -> a_fallback a = Some f ->
  forall cl, In cl (guard_classes (f_guard f)) <-> In cl (designated (a_name a) fallback_name).
Proof. exact fallback_matches_spec_thm. Qed.

Theorem C11_spec_has_no_stale_rows : forallb spec_row_in_table spec_table = true.
Proof. exact spec_rows_in_table_b. Qed.

(* 2. Every number of every actor's Method enum has exactly one dispatch row, every row is an enum
      variant, every handler (and fallback) reaches at least one validate_immediate_caller_* call
      site, and no call site of the file lies outside the functions reached from the table. *)
Theorem C11_table_complete : forall a,
  In a actors ->
  (forall name num frc, In (name, num, frc) (a_enum a) -> count_num num (a_rows a) = 1%nat) /\
  (forall r, In r (a_rows a) -> 1 <= r_sites r /\ exists frc, In (r_name r, r_num r, frc) (a_enum a)) /\
  (forall f, a_fallback a = Some f -> 1 <= f_sites f) /\
  actor_site_total a = a_file_sites a.
Proof. exact table_complete. Qed.

(* 3. Semantics of the primitives, for EVERY address assignment and EVERY caller: a guard accepts
      exactly the callers that belong to one of the classes it names. *)
Theorem C11_denote_is_class_membership : forall e g c,
  denote e g c = existsb (in_class e c) (guard_classes g).
Proof. exact denote_classes. Qed.

(* 4. A caller outside every designated class is rejected and the state is unchanged ... *)
Theorem C11_outside_rejected : forall (St : Type) (body : St -> St) a m r e c st,
  In a actors -> find_row a m = Some r ->
  (forall cl, In cl (designated (a_name a) (r_name r)) -> in_class e c cl = false) ->
  exists o, call body a e m c st = (st, o) /\ rejected o = true.
Proof. exact outside_rejected. Qed.

(* ... while a caller inside a designated class passes the caller checks (provided the internal-API
   restriction does not apply to it). *)
Theorem C11_inside_accepted_by_guard : forall a m r e c,
  In a actors -> find_row a m = Some r ->
  (exists cl, In cl (designated (a_name a) (r_name r)) /\ in_class e c cl = true) ->
  (a_restricted a = false \/ restrict_internal_api m c = true) ->
  dispatch a e m c = Passed.
Proof. exact inside_accepted_by_guard. Qed.

Theorem C11_rejected_call_changes_nothing : forall (St : Type) (body : St -> St) a e m c st st' o,
  call body a e m c st = (st', o) -> o <> Passed -> st' = st.
Proof. exact rejected_call_changes_nothing. Qed.

(* 5. Methods below the exported range cannot be invoked by EVM contracts, non-built-in code or
      callers without code on any actor other than the pinned unrestricted ones. *)
Theorem C11_internal_api_closed : forall a e m c,
  In a actors -> ~ In (a_name a) spec_unrestricted -> a_has_dispatch a = true ->
  0 < m < FIRST_EXPORTED_METHOD_NUMBER ->
  (in_class e c EvmContract = true \/ in_class e c C_NonBuiltin = true \/ in_class e c C_NoCode = true) ->
  dispatch a e m c = RejInternal.
Proof. exact internal_api_closed. Qed.

Theorem C11_unrestricted_actors_pinned :
  unrestricted_actors = ["eam"; "evm"] /\ spec_unrestricted = ["eam"; "evm"].
Proof. split; [exact unrestricted_pinned|reflexivity]. Qed.

(* 6. Undefined method numbers are rejected (unhandled_message, or the internal-API restriction
      fires first); the only actors with a fallback handler are pinned, with the number from which
      the fallback accepts. *)
Theorem C11_undefined_method_rejected : forall a e m c,
  In a actors -> m <> 0 -> find_row a m = None ->
  (forall f, a_fallback a = Some f -> m < f_from f) ->
  dispatch a e m c = Unhandled \/ dispatch a e m c = RejInternal.
Proof. exact undefined_method_rejected. Qed.

Theorem C11_fallback_actors_pinned :
  fallback_actors = [("account", 2 ^ 24); ("ethaccount", 2 ^ 24); ("evm", 1024); ("multisig", 2 ^ 24)].
Proof. exact fallbacks_pinned. Qed.

(* 7. The accept-any handlers that nevertheless look at the caller's identity are exactly the
      reviewed ones (a new explicit caller test hidden behind accept_any shows up here). *)
Theorem C11_caller_reading_public_pinned : caller_reading_public = spec_caller_reading_public.
Proof. exact caller_reading_pinned. Qed.

(* ---- non-vacuity: concrete cells of the matrix world ---- *)
Example C11_nonvacuous :
  (* the owner may change the worker key, the worker / a stranger / another miner may not *)
  map (expected "miner" 0 3) [R_Owner; R_Worker; R_Stranger; R_Miner] = [Passed; RejGuard; RejGuard; RejGuard] /\
  (* internal method numbers are closed to EVM contracts and non-built-in code, the exported twin is not *)
  map (expected "miner" 0 3) [R_Evm; R_NonBuiltin] = [RejInternal; RejInternal] /\
  map (expected "miner" 0 3302309124) [R_Owner; R_Evm] = [Passed; RejGuard] /\
  (* two-sided owner handover; beneficiary change; multisig; market escrow by parameter *)
  map (expected "miner" 0 23) [R_Owner; R_PendingOwner; R_Worker] = [Passed; Passed; RejGuard] /\
  map (expected "miner" 0 30) [R_Owner; R_Beneficiary; R_Nominee; R_Worker] = [Passed; Passed; Passed; RejManual] /\
  map (expected "multisig" 0 2) [R_Signer; R_Account] = [Passed; RejManual] /\
  map (expected "multisig" 0 5) [R_Self; R_Signer] = [Passed; RejGuard] /\
  map (expected "market" 0 3) [R_Owner; R_Worker; R_Client; R_Control] = [Passed; Passed; RejGuard; RejGuard] /\
  map (expected "market" 1 3) [R_Owner; R_Client] = [RejGuard; Passed] /\
  (* undefined numbers; fallbacks *)
  map (fun m => expected "cron" 0 m R_System) [2; 3; 16777216] = [Passed; Unhandled; Unhandled] /\
  map (fun m => expected "account" 0 m R_Account) [3; 16777215; 16777216] = [Unhandled; Unhandled; Passed] /\
  map (fun m => expected "evm" 0 m R_Account) [1023; 1024] = [Unhandled; Passed] /\
  (* the EAM is unrestricted: an EVM contract reaches Create, an account does not *)
  map (expected "eam" 0 2) [R_Evm; R_Account] = [Passed; RejGuard] /\
  map (expected "eam" 0 4) [R_OriginAccount; R_OriginEthAccount; R_OriginMultisig; R_Account] = [Passed; Passed; RejManual; RejGuard].
Proof. vm_compute. repeat split. Qed.
