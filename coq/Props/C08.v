(* C08 -- Deal lifecycle: unique publication, one timely activation by the provider.
   Pinned statements only; every proof is `exact <lemma from Proofs/MarketLife_lemmas.v or Market_lemmas.v>`.

   Vocabulary (see also Props/C06.v):
     Life st        the lifecycle invariant (record LifeC):
                      - a live deal that was never updated is in the pending set, unless the cron has
                        already passed its start epoch (start <= last_cron); one that was never
                        activated is in the pending set, always;
                      - a deal state's last_updated, once set, is strictly after the deal's start;
                      - no two live deals have the same proposal (= CID, no-collision hypothesis);
                      - deal_ops_by_epoch never schedules a live deal before its start, holds only ids
                        < next_id; the update interval is positive
     life_op st o   the message comes after the epoch of the last cron tick (the cron runs last in its
                    epoch, once per epoch)
     hist_ok2       hist_ok (see C06) plus life_op for every step
     AccOK          what it takes for a deal of a PublishStorageDeals batch to be accepted (below)

   History: before the fix `settle_deal_payments: activated deal with start_epoch >= curr_epoch is a no-op`
   (finding F3) C08_published_once_until_start was false: publish; activate; SettleDealPayments at an
   epoch <= start removed the proposal from the pending set, after which the identical signed proposal
   was accepted again (two live deals, client locked twice). The model follows the repaired code. *)
From stdpp Require Import gmap.
From Coq Require Import ZArith List Bool.
From VF Require Import Gen.Consts Gen.MarketConsts Base.Corr Model.Market
  Proofs.MarketBase_lemmas Proofs.Market_lemmas Proofs.MarketLife_lemmas.
Import ListNotations.
Open Scope Z_scope.

Theorem C08_life_reachable : forall ivl ops,
  0 < ivl -> hist_ok2 0 (init ivl) ops ->
  MarketInv (last_epoch 0 ops) (run (init ivl) ops) /\ Life (run (init ivl) ops).
Proof. exact life_reachable. Qed.

Theorem C08_life_step : forall now st o,
  MarketInv now st -> Life st -> now <= op_epoch o -> wf_op o -> life_op st o -> Life (fst (step st o)).
Proof. exact life_step. Qed.

(* a live deal that was never activated is in the pending set *)
Theorem C08_unactivated_is_pending : forall st id p,
  Life st -> proposals st !! id = Some p -> states st !! id = None -> In p (pending st).
Proof. exact unactivated_is_pending. Qed.

(* pending_unique: no two simultaneously live deals share a proposal CID *)
Theorem C08_pending_unique : forall st id1 id2 p,
  Life st -> proposals st !! id1 = Some p -> proposals st !! id2 = Some p -> id1 = id2.
Proof. exact pending_unique. Qed.

(* published_once_until_start: while a live deal could still be re-published (a message at epoch e with
   e <= start) its proposal is in the pending set ... *)
Theorem C08_published_once_until_start : forall now st e id p,
  MarketInv now st -> Life st -> now <= e -> last_cron st < e ->
  proposals st !! id = Some p -> e <= p_start p -> In p (pending st).
Proof. exact published_once_until_start. Qed.

(* ... so PublishStorageDeals never accepts a proposal identical to a live deal's *)
Theorem C08_duplicate_rejected : forall now st epoch deals id d,
  MarketInv now st -> Life st -> now <= epoch -> last_cron st < epoch ->
  proposals st !! id = Some (d_prop d) ->
  let acc := pub_filter st (p_provider (d_prop (hd d deals))) epoch (mkPacc [] [] ∅ 0) 0 deals in
  ~ In (d_prop d) (pa_valid acc).
Proof. exact duplicate_rejected. Qed.

(* deal_ids_strictly_increasing / deal_ids_unique *)
Theorem C08_publish_ids : forall st caller epoch t deals st' r,
  publish st caller epoch t deals = (st', OK :: r) ->
  exists n idx, r = Z.of_nat n :: zseq (next_id st) n ++ Z.of_nat (length idx) :: idx /\
                next_id st' = next_id st + Z.of_nat n /\ (0 < n)%nat.
Proof. exact publish_ids. Qed.

Theorem C08_next_id_monotone : forall now st o,
  MarketInv now st -> Life st -> now <= op_epoch o -> wf_op o -> life_op st o ->
  next_id st <= next_id (fst (step st o)) /\
  ((forall c e t ds, o <> Publish c e t ds) -> next_id (fst (step st o)) = next_id st).
Proof. exact next_id_step. Qed.

Theorem C08_ids_below_next_id : forall now st id p,
  MarketInv now st -> proposals st !! id = Some p -> 0 <= id < next_id st.
Proof. intros now st id p I H. exact (proj2 (i_wfP _ _ _ _ _ _ _ _ _ _ _ _ I id p H)). Qed.

(* publish_requires_auth_and_funds: the deals accepted by one PublishStorageDeals message, in order *)
Theorem C08_publish_requires_auth_and_funds : forall st prov epoch deals,
  AccOK st prov epoch deals (pa_valid (pub_filter st prov epoch (mkPacc [] [] ∅ 0) 0 deals)).
Proof. exact publish_requires_auth_and_funds. Qed.

(* AccOK, spelled out (inversion principle of the inductive predicate) *)
Theorem C08_AccOK_snoc : forall st prov epoch deals ps p,
  AccOK st prov epoch deals (ps ++ [p]) ->
  exists d, p = d_prop d /\ AccOK st prov epoch deals ps /\ In d deals /\
    deal_valid epoch d = true /\ d_sig_ok d = true /\ p_provider p = prov /\
    L st (p_client p) + (cl_of ps (p_client p) + client_req p) <= E st (p_client p) /\
    L st prov + (pl_of ps + p_pcoll p) <= E st prov /\
    ~ In p (pending st) /\ ~ In p ps.
Proof.
  intros st prov epoch deals ps p H. inversion H as [Hnil|ps' d H1 H2 H3 H4 H5 H6 H7 H8 H9 Heq].
  - destruct ps; discriminate.
  - apply app_inj_tail in Heq as [-> <-]. exists d. repeat split; assumption.
Qed.

Theorem C08_accepted_deals_are_stored : forall ps st ids st' ids',
  pub_commit st ps ids = Ok st' ids' ->
  forall i p, nth_error ps i = Some p -> proposals st' !! (next_id st + Z.of_nat i) = Some p.
Proof. exact pub_commit_stores. Qed.

(* activation_guard *)
Theorem C08_activation_guard : forall st id caller expiry epoch p,
  preactivate st id caller expiry epoch = inl p ->
  proposals st !! id = Some p /\ states st !! id = None /\ pend_has (pending st) p = true /\
  p_provider p = caller /\ epoch <= p_start p /\ p_end p <= expiry.
Proof. exact activation_guard. Qed.

(* activation_at_most_once: across messages ... *)
Theorem C08_activation_at_most_once : forall st id caller expiry epoch ds,
  states st !! id = Some ds -> exists c, preactivate st id caller expiry epoch = inr c.
Proof. exact activation_at_most_once. Qed.

Theorem C08_removed_deal_not_activated : forall st id caller expiry epoch,
  proposals st !! id = None ->
  preactivate st id caller expiry epoch = inr (if id <? next_id st then EX_DEAL_EXPIRED else NOT_FOUND).
Proof. exact removed_deal_not_activated. Qed.

(* ... and within one BatchActivateDeals message (all sectors): every state written passed the guard
   for its own sector, no id is written twice *)
Theorem C08_activation_once_per_message : forall st caller epoch sectors,
  let acc := act_sectors st caller epoch (mkAacc [] [] [] [] 0 []) 0 sectors in
  Forall (act_ok st caller epoch sectors) (aa_states acc) /\ NoDup (map fst (aa_states acc)).
Proof. exact activation_once_per_message. Qed.

(* timeout_cleanup *)
Theorem C08_timeout_cleanup : forall epoch owed st id p,
  InvS epoch owed (states st) st -> proposals st !! id = Some p -> states st !! id = None ->
  p_start p <= epoch -> pend_has (pending st) p = true ->
  exists st', get_active_deal_or_process_timeout st epoch id p = Ok st' (ProposalExpired (p_pcoll p)) /\
    proposals st' = delete id (proposals st) /\ pending st' = pend_del (pending st) p /\
    InvS epoch (owed + p_pcoll p) (states st) st'.
Proof. exact timeout_cleanup. Qed.

(* ---- non-vacuity ---- *)
Definition exP := mkProp 7 2048 false 101 200 1 1000 (1000 + 518400) 10 500 300.
Definition exQ := mkProp 8 2048 false 101 200 1 900 (900 + 518400) 10 500 0.
Definition exD p := mkPdeal p true true true 100.
Definition exM := TMiner 150 151 [].
Definition ex_ops := [
  AddBalance 0 101 TAccount 100000000; AddBalance 0 200 exM 5000;
  Publish 151 5 exM [exD exP; exD exP; exD exQ];        (* ids 0, 1; the in-batch duplicate is dropped *)
  Publish 151 6 exM [exD exP];                            (* pending duplicate: rejected *)
  Activate 200 true 10 [(1, 2000000, [0])];
  Settle 20 [0];                                          (* before start: a no-op, stays pending *)
  Publish 151 30 exM [exD exP];                           (* still rejected (F3 repaired) *)
  Settle 1000 [0];                                        (* at start: still a no-op *)
  Publish 151 1000 exM [exD exP];                         (* still rejected *)
  Activate 200 true 1000 [(2, 2000000, [0])];             (* second activation: rejected per sector *)
  Settle 1001 [1]                                         (* deal 1 (start 900) was never activated: cleaned up *)
].

Example C08_nonvacuous :
  hist_ok2 0 (init 86400) ex_ops /\
  let res k := snd (step (run (init 86400) (firstn k ex_ops)) (nth k ex_ops (Cron 0 0))) in
  res 2%nat = [OK; 2; 0; 1; 2; 0; 2] /\ res 3%nat = [ILLEGAL_ARGUMENT] /\ res 6%nat = [ILLEGAL_ARGUMENT] /\
  res 8%nat = [ILLEGAL_ARGUMENT] /\ res 9%nat = [OK; 0; 1; 0; ILLEGAL_ARGUMENT] /\
  res 10%nat = [OK; 0; 1; 0; EX_DEAL_EXPIRED; 0] /\
  let st := run (init 86400) ex_ops in
  proposals st !! 1 = None /\ burnt st = 500 /\ pend_has (pending st) exP = true /\ next_id st = 2.
Proof.
  split.
  - unfold ex_ops. cbn [hist_ok2].
    repeat match goal with
           | |- _ /\ _ => split
           | |- True => exact I
           | |- wf_op _ => unfold wf_op; cbn [op_epoch]
           | |- life_op _ _ => unfold life_op; vm_compute; reflexivity
           | |- NoDup [] => apply NoDup_nil
           | |- NoDup (_ :: _) => apply NoDup_cons; [cbn [In]; intuition lia|]
           | |- _ => cbn [op_epoch]; lia
           end.
  - vm_compute. repeat split.
Qed.
