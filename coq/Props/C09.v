(* C09 -- DataCap is conserved and each allocation is spent exactly once.
   Pinned statements only; every proof is `exact <lemma from Proofs/Verifreg_lemmas.v>`.

   Model: coq/Model/Verifreg.v (registry + DataCap token ledger, one `step` per top-level message).
   `run (init w) ops` ranges over ALL histories of messages over ALL worlds `w` (which ids are
   accounts, miners, the root multisig).  Hypotheses used below:
     world_ok w       the registry's own id is not an account / miner / the root key of the world;
     callers_ok ops   no message is sent *by* the registry actor itself (it has no key: on chain it
                      only acts from inside its own methods, which the model executes inline). *)
From stdpp Require Import gmap.
From Coq Require Import ZArith List Bool.
From VF Require Import Gen.Consts Gen.VerifregConsts Base.Corr Base.MapSum Model.Verifreg
  Proofs.Verifreg_lemmas.
Import ListNotations.
Open Scope Z_scope.

(* the constants the statements speak about are the ones in the source today *)
Theorem C09_constants :
  TOKEN_PRECISION = 10 ^ 18 /\ DATACAP_GRANULARITY = TOKEN_PRECISION /\
  INFINITE_ALLOWANCE = TOKEN_PRECISION * 10 ^ 21 /\ VERIFREG_MINT_OPERATORS_IS_MARKET = 1 /\
  VERIFIED_REGISTRY_ACTOR_ID = 6 /\ DATACAP_TOKEN_ACTOR_ID = 7 /\ STORAGE_MARKET_ACTOR_ID = 5 /\
  MINIMUM_VERIFIED_ALLOCATION_SIZE = 2 ^ 20 /\
  MINIMUM_VERIFIED_ALLOCATION_TERM = 180 * EPOCHS_IN_DAY /\
  MAXIMUM_VERIFIED_ALLOCATION_TERM = 5 * EPOCHS_IN_YEAR /\
  MAXIMUM_VERIFIED_ALLOCATION_EXPIRATION = 60 * EPOCHS_IN_DAY.
Proof. vm_compute. repeat split. Qed.

(* supply = sum of the holders' balances (and no zero/negative entry is stored), after every history,
   whoever the callers are *)
Theorem C09_supply_is_sum_of_balances : forall w ops,
  let t := tok (run (init w) ops) in
  supply t = msum (fun x => x) (bal t) /\ (forall k v, bal t !! k = Some v -> 0 < v).
Proof. exact supply_is_sum_of_balances. Qed.

(* supply = everything ever minted minus everything ever burnt (ghost totals) *)
Theorem C09_supply_is_minted_minus_burnt : forall w ops,
  let t := tok (run (init w) ops) in supply t = minted t - burnt t.
Proof. exact supply_is_minted_minus_burnt. Qed.

(* a grant lowers the granting verifier's cap by exactly the grant, credits exactly the grant
   (in token units) to the client and to the supply, and touches nothing else *)
Theorem C09_verifier_allowance_exact : forall st c a al st' o,
  step st (AddClient c a al) = (st', o) -> code o = OK ->
  exists cap, verifiers (reg st) !! c = Some cap /\ al <= cap /\
    verifiers (reg st') !! c = Some (cap - al) /\
    (forall v, v <> c -> verifiers (reg st') !! v = verifiers (reg st) !! v) /\
    balance_of (tok st') a = balance_of (tok st) a + dc2tok al /\
    (forall k, k <> a -> balance_of (tok st') k = balance_of (tok st) k) /\
    supply (tok st') = supply (tok st) + dc2tok al.
Proof. exact verifier_allowance_exact. Qed.

(* ... and no message other than AddVerifier / RemoveVerifier (root only) / AddVerifiedClient
   changes any verifier's cap *)
Theorem C09_verifier_caps_change_only_by_root_or_grant : forall st o,
  changes_verifiers o = false -> verifiers (reg (fst (step st o))) = verifiers (reg st).
Proof. exact verifiers_only_by_root_or_grant. Qed.

(* the registry's own token balance is exactly the total size of the open allocations *)
Theorem C09_registry_balance_is_unclaimed_allocations : forall w ops,
  world_ok w -> callers_ok ops ->
  let st := run (init w) ops in
  balance_of (tok st) VR = dc2tok (msum a_size (allocs (reg st))).
Proof. exact registry_balance_is_unclaimed_allocations. Qed.

(* Fate of an allocation id, read off the trace of registry events of the whole history by the
   automaton  none --allocation--> open --claim--> claimed,  open --allocation-removed--> refunded,
   every other transition --> FBad.  It is never FBad (never created twice, never claimed or refunded
   unless open, hence never both and never twice); the id is in the allocation table iff it is open;
   ids not yet issued have no events; and the table holds an id under one client only, its own. *)
Theorem C09_allocation_fate_unique : forall w ops id,
  world_ok w -> callers_ok ops ->
  let st := run (init w) ops in
  let f := fate_of id (trace (init w) ops) in
  f <> FBad /\
  (f = FOpen <-> exists c a, allocs (reg st) !! (c, id) = Some a) /\
  (next_id (reg st) <= id -> f = FNone) /\
  (forall c c' a a', allocs (reg st) !! (c, id) = Some a -> allocs (reg st) !! (c', id) = Some a' -> c = c') /\
  (forall c a, allocs (reg st) !! (c, id) = Some a -> a_client a = c /\ 1 <= id < next_id (reg st)).
Proof. exact allocation_fate_unique. Qed.

(* the three allocation events come only from the messages that may cause them *)
Theorem C09_event_sources : forall st o e,
  In e (evs (snd (step st o))) -> event_allowed o e = true.
Proof. exact event_sources. Qed.

(* open -> claimed happens only inside a successful ClaimAllocations sent by a miner actor that is
   the allocation's provider, for a declaration naming the allocation's client, data and size, no
   later than the allocation's expiration, for a sector whose remaining lifetime lies within
   [term_min, term_max]; the claim written is exactly the allocation's terms starting now; the
   allocation is gone afterwards and no claim with that id existed for the provider *)
Theorem C09_claim_conditions : forall st e c gs aon st' o id,
  step st (ClaimAllocs e c gs aon) = (st', o) -> In (EvClaim id) (evs o) ->
  code o = OK /\ is_miner (wld st) c = true /\
  exists g ac a,
    In g gs /\ In ac (sg_claims g) /\ ac_id ac = id /\
    allocs (reg st) !! (ac_client ac, id) = Some a /\
    c = a_provider a /\ ac_client ac = a_client a /\ ac_data ac = a_data a /\ ac_size ac = a_size a /\
    e <= a_exp a /\ a_tmin a <= sg_expiry g - e <= a_tmax a /\
    claims (reg st') !! (c, id) = Some (mk_claim c e (sg_sector g) a) /\
    allocs (reg st') !! (ac_client ac, id) = None /\
    claims (reg st) !! (c, id) = None.
Proof. exact claim_conditions. Qed.

(* open -> refunded happens only inside a successful RemoveExpiredAllocations for the allocation's
   own client, at or after the allocation's expiration; the client receives exactly the total size
   of the allocations removed by that message, the registry pays exactly that, the supply and every
   other balance are unchanged *)
Theorem C09_refund_conditions : forall st e caller client ids st' o id,
  step st (RemoveExpAllocs e caller client ids) = (st', o) -> In (EvAllocRemoved id) (evs o) ->
  code o = OK /\ client <> VR /\
  exists a rm,
    allocs (reg st) !! (client, id) = Some a /\ a_exp a <= e /\
    allocs (reg st') !! (client, id) = None /\
    In id rm /\ NoDup rm /\ evs o = map EvAllocRemoved rm /\
    (forall i, In i rm -> exists x, allocs (reg st) !! (client, i) = Some x /\ a_exp x <= e) /\
    let refund := dc2tok (vsum a_size (allocs (reg st)) (map (pair client) rm)) in
    balance_of (tok st') client = balance_of (tok st) client + refund /\
    balance_of (tok st') VR = balance_of (tok st) VR - refund /\
    supply (tok st') = supply (tok st) /\
    (forall k, k <> client -> k <> VR -> balance_of (tok st') k = balance_of (tok st) k).
Proof. exact refund_conditions. Qed.

(* ---- non-vacuity: grant, two allocations, one claimed, a second claim of it refused, the other
   refunded after expiry, a refund of the claimed one refused ---- *)
Definition ex_w := {| root := 100; accts := [101; 102; 103]; miners := [110] |}.
Definition ex_sz := 2 ^ 20.
Definition ex_rq (d exp : Z) :=
  {| rq_provider := 110; rq_data := d; rq_size := ex_sz; rq_tmin := 518400; rq_tmax := 600000; rq_exp := exp |}.
Definition ex_grp (id d : Z) :=
  {| sg_sector := 7; sg_expiry := 20 + 520000;
     sg_claims := [{| ac_client := 103; ac_id := id; ac_data := d; ac_size := ex_sz |}] |}.
Definition ex_ops := [
  AddVerifier 100 101 (2 ^ 30);
  AddClient 101 103 (4 * ex_sz);
  Transfer 10 103 VR (dc2tok (2 * ex_sz)) (PReqs [ex_rq 1 1000; ex_rq 2 1000] []);
  ClaimAllocs 20 110 [ex_grp 1 1] false;
  ClaimAllocs 21 110 [ex_grp 1 1] false;
  RemoveExpAllocs 1000 102 103 [1; 2];
  Burn 103 (dc2tok ex_sz)
].

Example C09_nonvacuous :
  let st := run (init ex_w) ex_ops in
  let tr := trace (init ex_w) ex_ops in
  fate_of 1 tr = FClaimed /\ fate_of 2 tr = FRefunded /\ fate_of 3 tr = FNone /\
  supply (tok st) = dc2tok (2 * ex_sz) /\ minted (tok st) = dc2tok (4 * ex_sz) /\
  burnt (tok st) = dc2tok (2 * ex_sz) /\
  balance_of (tok st) 103 = dc2tok (2 * ex_sz) /\ balance_of (tok st) VR = 0 /\
  verifiers (reg st) !! 101 = Some (2 ^ 30 - 4 * ex_sz) /\
  ret (snd (step (run (init ex_w) (firstn 4 ex_ops)) (ClaimAllocs 21 110 [ex_grp 1 1] false))) = [1; NOT_FOUND; 0] /\
  ret (snd (step (run (init ex_w) (firstn 5 ex_ops)) (RemoveExpAllocs 1000 102 103 [1; 2]))) = [2; 1; 2; NOT_FOUND; OK; ex_sz].
Proof. vm_compute. repeat split. Qed.
