(* C13 -- Control of a miner changes hands only by two-sided, delayed handover.
   Pinned statements only; every proof is `exact <lemma from Proofs/MinerCtl_lemmas.v>`.

   Reading guide.  `step st o = (st', code)` is the model of one message to the miner actor
   (coq/Model/MinerCtl.v); the per-step theorems quantify over ARBITRARY states `st`, so they hold
   in every interleaving of the three handover protocols.  The history theorems quantify over
   arbitrary operation lists `ops` run from any state with nothing pending (e.g. the constructor's
   state `init`); `trace st0 ops` is the list of all executed operations, each with the state it
   ran in (`ev_pre`) and its exit code. *)
From Coq Require Import ZArith List Bool.
From VF Require Import Gen.Consts Base.Corr Model.MinerCtl Proofs.MinerCtl_lemmas.
Import ListNotations.
Open Scope Z_scope.

(* the security delay the theorems speak about is the one in runtime/src/runtime/policy.rs today *)
Theorem C13_worker_key_change_delay_is_finality :
  WORKER_KEY_CHANGE_DELAY = CHAIN_FINALITY /\ CHAIN_FINALITY = 900 /\ MAX_CONTROL_ADDRESSES = 10.
Proof. repeat split. Qed.

(* ---- the model's accepted transitions are exactly `Trans` (one constructor per way a call can
        succeed, with the exact new state); rejected calls change nothing ---- *)
Theorem C13_step_accepts_iff : forall st o st', step st o = (st', OK) <-> Trans st o st'.
Proof. exact step_accepts_iff. Qed.

Theorem C13_rejected_call_changes_nothing : forall st o st' code,
  step st o = (st', code) -> code <> OK -> st' = st.
Proof. exact step_rejected_unchanged. Qed.

(* ---- exact accepted-caller set (and argument conditions) of every method ---- *)
Theorem C13_change_owner_accepts_iff : forall st c e new is_id,
  accepted st (ChangeOwner c e new is_id) <->
  is_id = true /\ (c = owner st \/ (pending_owner st = Some c /\ new = c)).
Proof. exact change_owner_accepts_iff. Qed.

Theorem C13_change_worker_accepts_iff : forall st c e nw ctrls,
  accepted st (ChangeWorker c e nw ctrls) <->
  c = owner st /\ (exists n, nw = WOk n) /\
  Z.of_nat (length ctrls) <= MAX_CONTROL_ADDRESSES /\ resolve_all ctrls <> None.
Proof. exact change_worker_accepts_iff. Qed.

Theorem C13_confirm_worker_accepts_iff : forall st c e,
  accepted st (ConfirmWorker c e) <-> c = owner st.
Proof. exact confirm_worker_accepts_iff. Qed.

Theorem C13_change_beneficiary_accepts_iff : forall st c e nb q x,
  accepted st (ChangeBeneficiary c e nb q x) <->
  exists b, nb = Some b /\
    ((c = owner st /\ (b <> owner st -> 0 < q) /\ (b = owner st -> q = 0 /\ x = 0)) \/
     (c <> owner st /\ exists pt, pending_term st = Some pt /\ (c = beneficiary st \/ c = pb_new pt) /\
        pb_new pt = b /\ pb_quota pt = q /\ pb_exp pt = x)).
Proof. exact change_beneficiary_accepts_iff. Qed.

Theorem C13_withdraw_accepts_iff : forall st c e req,
  accepted st (Withdraw c e req) <->
  0 <= req /\ (c = owner st \/ c = beneficiary st) /\ 0 <= funds st /\
  (beneficiary st = owner st \/ 0 < available (bterm st) e).
Proof. exact withdraw_accepts_iff. Qed.

Theorem C13_change_peer_accepts_iff : forall st c e,
  accepted st (ChangePeer c e) <-> In c (controls st) \/ c = worker st \/ c = owner st.
Proof. exact change_peer_accepts_iff. Qed.

(* ---- owner: two-sided handshake ---- *)
(* per step: the owner changes only when the pending owner itself confirms its own address *)
Theorem C13_owner_step : forall st o st' code,
  step st o = (st', code) -> owner st' <> owner st ->
  code = OK /\ exists e, o = ChangeOwner (owner st') e (owner st') true /\
    pending_owner st = Some (owner st') /\ st' = handover st (owner st').
Proof. exact owner_step. Qed.

(* history: ... and that pending value was set by an accepted ChangeOwnerAddress of the then-owner,
   who is still the owner being replaced *)
Theorem C13_owner_changes_only_by_handshake : forall st0 ops o,
  pending_owner st0 = None ->
  let st := run st0 ops in
  let st' := fst (step st o) in
  owner st' <> owner st ->
  exists e, o = ChangeOwner (owner st') e (owner st') true /\ snd (step st o) = OK /\
    pending_owner st = Some (owner st') /\
    exists x e0, In x (trace st0 ops) /\
      ev_op x = ChangeOwner (owner st) e0 (owner st') true /\ ev_code x = OK /\
      owner (ev_pre x) = owner st.
Proof. exact owner_changes_only_by_handshake. Qed.

(* ---- worker: delayed ---- *)
Theorem C13_worker_step : forall st o st' code,
  step st o = (st', code) -> worker st' <> worker st ->
  code = OK /\ exists eff, pending_worker st = Some (worker st', eff) /\ eff <= epoch_of o /\
    pending_worker st' = None /\ st' = made_effective st (worker st') /\
    ((exists e, o = ConfirmWorker (owner st) e) \/ (exists e, o = Cron e)).
Proof. exact worker_step. Qed.

Theorem C13_pending_worker_step : forall st o st' code,
  step st o = (st', code) -> pending_worker st' <> pending_worker st ->
  code = OK /\
  ((exists n eff, pending_worker st = Some (n, eff) /\ pending_worker st' = None /\
      worker st' = n /\ eff <= epoch_of o /\
      ((exists e, o = ConfirmWorker (owner st) e) \/ (exists e, o = Cron e))) \/
   (pending_worker st = None /\ exists e n cs, o = ChangeWorker (owner st) e (WOk n) cs /\
      n <> worker st /\ pending_worker st' = Some (n, e + WORKER_KEY_CHANGE_DELAY) /\
      worker st' = worker st)).
Proof. exact pending_worker_step. Qed.

(* history: the worker becomes n at epoch e only if the then-owner asked for n in an accepted
   ChangeWorkerAddress at some e0 with e0 + WORKER_KEY_CHANGE_DELAY <= e *)
Theorem C13_worker_delay : forall st0 ops o,
  pending_worker st0 = None ->
  let st := run st0 ops in
  let st' := fst (step st o) in
  worker st' <> worker st ->
  exists x e0 cs, In x (trace st0 ops) /\
    ev_op x = ChangeWorker (owner (ev_pre x)) e0 (WOk (worker st')) cs /\ ev_code x = OK /\
    e0 + WORKER_KEY_CHANGE_DELAY <= epoch_of o /\
    ((exists e, o = ConfirmWorker (owner st) e) \/ (exists e, o = Cron e)).
Proof. exact worker_delay. Qed.

Theorem C13_controls_step : forall st o st' code,
  step st o = (st', code) -> controls st' <> controls st ->
  code = OK /\ exists e n cs, o = ChangeWorker (owner st) e (WOk n) cs /\
    resolve_all cs = Some (controls st').
Proof. exact controls_step. Qed.

(* ---- beneficiary: two-sided ---- *)
Theorem C13_beneficiary_step : forall st o st' code,
  step st o = (st', code) -> beneficiary st' <> beneficiary st ->
  code = OK /\
  ((owner st' <> owner st /\ beneficiary st = owner st /\ beneficiary st' = owner st') \/
   (exists c e q x pt, o = ChangeBeneficiary c e (Some (beneficiary st')) q x /\
      cb_pending st c e (beneficiary st') q x = inr pt /\
      both_approved st c (beneficiary st') pt /\
      bterm st' = {| quota := q; used := 0; expiration := x |} /\
      pending_term st' = None /\ owner st' = owner st)).
Proof. exact beneficiary_step. Qed.

Theorem C13_bterm_step : forall st o st' code,
  step st o = (st', code) -> bterm st' <> bterm st ->
  code = OK /\
  ((exists c e nb q x pt, o = ChangeBeneficiary c e (Some nb) q x /\
      cb_pending st c e nb q x = inr pt /\ both_approved st c nb pt /\
      beneficiary st' = nb /\ quota (bterm st') = q /\ expiration (bterm st') = x /\
      used (bterm st') = (if nb =? beneficiary st then used (bterm st) else 0)) \/
   (exists c e req amt, o = Withdraw c e req /\ (c = owner st \/ c = beneficiary st) /\
      beneficiary st <> owner st /\ 0 < amt <= available (bterm st) e /\ amt <= req /\
      bterm st' = {| quota := quota (bterm st); used := used (bterm st) + amt;
                     expiration := expiration (bterm st) |} /\
      funds st' = funds st - amt /\ beneficiary st' = beneficiary st)).
Proof. exact bterm_step. Qed.

(* history: `backed st0 ops st nb q x P Q` = the history contains an accepted proposal (nb, q, x)
   by the owner of st, made while the beneficiary was the one of st, followed (inclusive) by an
   accepted ChangeBeneficiary(nb, q, x) of that beneficiary -- unless its term had nothing available
   at proposal time -- (if P) and by one of the nominee nb (if Q) *)
Theorem C13_pending_term_backed : forall st0 ops,
  pending_term st0 = None ->
  forall pt, pending_term (run st0 ops) = Some pt ->
  backed st0 ops (run st0 ops) (pb_new pt) (pb_quota pt) (pb_exp pt)
         (pb_by_ben pt = true) (pb_by_nom pt = true).
Proof. exact pending_term_backed. Qed.

Theorem C13_beneficiary_two_sided : forall st0 ops o,
  pending_term st0 = None ->
  let st := run st0 ops in
  let st' := fst (step st o) in
  beneficiary st' <> beneficiary st ->
  (owner st' <> owner st /\ beneficiary st = owner st /\ beneficiary st' = owner st') \/
  (exists c e q x, o = ChangeBeneficiary c e (Some (beneficiary st')) q x /\ snd (step st o) = OK /\
     quota (bterm st') = q /\ expiration (bterm st') = x /\ used (bterm st') = 0 /\
     backed st0 (ops ++ [o]) st (beneficiary st') q x True True).
Proof. exact beneficiary_two_sided. Qed.

Theorem C13_withdraw_within_quota : forall st c e req st',
  step st (Withdraw c e req) = (st', OK) ->
  (c = owner st \/ c = beneficiary st) /\
  let paid := funds st - funds st' in
  0 <= paid <= req /\ paid <= funds st /\
  (beneficiary st <> owner st ->
     0 < available (bterm st) e /\ paid <= available (bterm st) e /\
     used (bterm st') = used (bterm st) + paid) /\
  (beneficiary st = owner st -> bterm st' = bterm st) /\
  owner st' = owner st /\ pending_owner st' = pending_owner st /\ worker st' = worker st /\
  pending_worker st' = pending_worker st /\ controls st' = controls st /\
  beneficiary st' = beneficiary st /\ quota (bterm st') = quota (bterm st) /\
  expiration (bterm st') = expiration (bterm st) /\ pending_term st' = pending_term st.
Proof. exact withdraw_within_quota. Qed.

(* ---- until a handover completes the previous party keeps all its rights ---- *)
Theorem C13_rights_retained_until_completion : forall st o st' code,
  step st o = (st', code) ->
  ((forall e p, o = ChangeOwner p e p true -> pending_owner st <> Some p) -> owner st' = owner st) /\
  ((forall n eff, pending_worker st = Some (n, eff) -> epoch_of o < eff) -> worker st' = worker st) /\
  ((forall c e nb q x, o <> ChangeBeneficiary c e (Some nb) q x) -> owner st' = owner st ->
     beneficiary st' = beneficiary st /\ quota (bterm st') = quota (bterm st) /\
     expiration (bterm st') = expiration (bterm st)).
Proof. exact rights_retained. Qed.

Theorem C13_owner_rights_retained : forall st o st' code,
  step st o = (st', code) ->
  (forall e p, o = ChangeOwner p e p true -> pending_owner st <> Some p) ->
  forall c e, (accepted st' (ConfirmWorker c e) <-> accepted st (ConfirmWorker c e)) /\
    (forall nw cs, accepted st' (ChangeWorker c e nw cs) <-> accepted st (ChangeWorker c e nw cs)) /\
    (forall new, c <> new -> accepted st' (ChangeOwner c e new true) <-> accepted st (ChangeOwner c e new true)).
Proof. exact owner_rights_retained. Qed.

Theorem C13_worker_rights_retained : forall st o st' code,
  step st o = (st', code) ->
  (forall n eff, pending_worker st = Some (n, eff) -> epoch_of o < eff) ->
  (forall e n cs, o <> ChangeWorker (owner st) e (WOk n) cs) ->
  (forall e p, o = ChangeOwner p e p true -> pending_owner st <> Some p) ->
  forall c e, accepted st' (ChangePeer c e) <-> accepted st (ChangePeer c e).
Proof. exact worker_rights_retained. Qed.

(* ---- a pending handover is withdrawn only by the owner ---- *)
Theorem C13_pending_owner_step : forall st o st' code,
  step st o = (st', code) -> pending_owner st' <> pending_owner st ->
  code = OK /\
  ((exists e new, o = ChangeOwner (owner st) e new true /\ owner st' = owner st /\
      pending_owner st' = (if new =? owner st then None else Some new)) \/
   (exists e, o = ChangeOwner (owner st') e (owner st') true /\
      pending_owner st = Some (owner st') /\ owner st' <> owner st /\ pending_owner st' = None)).
Proof. exact pending_owner_step. Qed.

Theorem C13_only_owner_withdraws_handover : forall st o st' code,
  step st o = (st', code) ->
  (forall p, pending_owner st = Some p ->
     pending_owner st' = Some p \/ (exists e new, o = ChangeOwner (owner st) e new true) \/
     (owner st' = p /\ exists e, o = ChangeOwner p e p true)) /\
  (forall n eff, pending_worker st = Some (n, eff) ->
     (pending_worker st' = Some (n, eff) /\ worker st' = worker st) \/
     (pending_worker st' = None /\ worker st' = n /\ eff <= epoch_of o)) /\
  (forall pt, pending_term st = Some pt ->
     (exists pt', pending_term st' = Some pt' /\ pt_extends pt pt') \/
     (exists e nb q x, o = ChangeBeneficiary (owner st) e (Some nb) q x) \/
     (pending_term st' = None /\ beneficiary st' = pb_new pt /\
      quota (bterm st') = pb_quota pt /\ expiration (bterm st') = pb_exp pt) \/
     (pending_term st' = None /\ owner st' <> owner st /\ pending_owner st = Some (owner st'))).
Proof. exact only_owner_withdraws_handover. Qed.

(* ---- nobody else alters anything ---- *)
Theorem C13_strangers_change_nothing : forall st o st' code c,
  step st o = (st', code) -> caller_of o = Some c ->
  c <> owner st -> pending_owner st <> Some c -> c <> beneficiary st ->
  (forall pt, pending_term st = Some pt -> c <> pb_new pt) ->
  st' = st.
Proof. exact strangers_change_nothing. Qed.

Theorem C13_non_owner_limits : forall st o st' code c,
  step st o = (st', code) -> caller_of o = Some c -> c <> owner st ->
  worker st' = worker st /\ pending_worker st' = pending_worker st /\ controls st' = controls st /\
  ((owner st' = owner st /\ pending_owner st' = pending_owner st) \/
   (pending_owner st = Some c /\ owner st' = c /\ pending_owner st' = None)) /\
  (forall pt', pending_term st' = Some pt' -> exists pt, pending_term st = Some pt /\ pt_extends pt pt').
Proof. exact non_owner_limits. Qed.

(* ---- non-vacuity: a concrete history in which all three handovers complete ----
   parties: 100 owner, 101 proposed owner, 102 worker, 103 new worker, 104 beneficiary,
   105 second beneficiary (nominee), 106 stranger, 107 control address *)
Definition ex_ops : list op := [
  ChangeWorker 100 10 (WOk 103) [Some 107];             (* owner asks for worker 103 at epoch 10 *)
  ConfirmWorker 100 909;                                 (* too early: nothing happens *)
  ChangeBeneficiary 100 20 (Some 104) 500 100000;        (* proposal; current term exhausted: auto-approved *)
  ChangeBeneficiary 104 21 (Some 104) 500 100000;        (* nominee approves: 104 is beneficiary *)
  Withdraw 104 30 200;                                   (* beneficiary draws 200 of its 500 *)
  Cron 910;                                              (* 10 + 900 reached: worker becomes 103 *)
  ChangeBeneficiary 100 911 (Some 105) 300 200000;       (* new proposal: needs 104 AND 105 *)
  ChangeBeneficiary 105 912 (Some 105) 300 200000;       (* nominee only: still 104 *)
  ChangeBeneficiary 106 913 (Some 105) 300 200000;       (* stranger: forbidden *)
  ChangeOwner 100 914 101 true;                          (* owner proposes 101 *)
  ChangeOwner 106 915 106 true;                          (* stranger: forbidden *)
  ChangeBeneficiary 104 916 (Some 105) 300 200000;       (* current beneficiary approves: 105 *)
  ChangeOwner 101 917 101 true                           (* 101 confirms: owner is 101 *)
].

Example C13_nonvacuous :
  let st := run (init 100 102 [] 1000) ex_ops in
  owner st = 101 /\ worker st = 103 /\ controls st = [107] /\ beneficiary st = 105 /\
  bterm st = {| quota := 300; used := 0; expiration := 200000 |} /\ funds st = 800 /\
  pending_owner st = None /\ pending_worker st = None /\ pending_term st = None /\
  map ev_code (trace (init 100 102 [] 1000) ex_ops) = [0; 0; 0; 0; 0; 0; 0; 0; 18; 0; 18; 0; 0] /\
  worker (run (init 100 102 [] 1000) [ChangeWorker 100 10 (WOk 103) [Some 107]; ConfirmWorker 100 909]) = 102 /\
  beneficiary (run (init 100 102 [] 1000) (firstn 8 ex_ops)) = 104.
Proof. vm_compute. repeat split. Qed.
