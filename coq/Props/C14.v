(* C14 -- Miner funds unlock only on schedule; withdrawals never touch collateral.
   Pinned statements only; every proof is `exact <lemma from Proofs/{Vesting,MinerFunds}_lemmas.v>`.

   Vocabulary (definitions in Model/Vesting.v, Model/MinerFunds.v and the two lemma files):
     table            raw vesting table head :: tail, list of (epoch, amount)
     tbl_sum t        total locked in the table
     vested_sum t e   amount in entries with epoch < e  (what unlock_vested_funds(e) hands out)
     unvested_sum t e amount in entries with epoch >= e
     wf t             epochs non-decreasing and no negative amount
     new_schedule cur sum pps sp   the entries add_locked_funds(cur, sum) creates (offset pps, spec sp)
     Inv s            wf table /\ table sum = locked_funds /\ pcd, ip, fee_debt >= 0 /\
                      locked + pcd + ip <= balance        (the code's check_balance_invariants)
     step s o = (s', out)   one message; out carries exit code, return value, sends and the flows
                      added / vested / drawn / burnt / paid of this message. *)
From Coq Require Import ZArith List Bool.
From VF Require Import Gen.Consts Base.Corr Model.Vesting Model.MinerFunds
  Proofs.Vesting_lemmas Proofs.MinerFunds_lemmas.
Import ListNotations.
Open Scope Z_scope.

(* ---- the constants the statements are about are the ones in /repo today ---- *)
Theorem C14_spec_pinned :
  REWARD_SPEC = {| initial_delay := 0; vest_period := 180 * EPOCHS_IN_DAY;
                   step_duration := EPOCHS_IN_DAY; quantization := 12 * EPOCHS_IN_HOUR |} /\
  EPOCHS_IN_DAY = 2880 /\ EPOCHS_IN_HOUR = 120 /\
  LOCKED_REWARD_FACTOR_NUM = 3 /\ LOCKED_REWARD_FACTOR_DENOM = 4 /\
  WPOST_PROVING_PERIOD = 2 * REWARD_VEST_QUANTIZATION.
Proof. repeat split. Qed.

(* ---- quantisation ---- *)
Theorem C14_quantize_up_spec : forall unit off e, 0 < unit ->
  e <= quantize_up unit off e < e + unit /\
  exists k, quantize_up unit off e = unit * k + Z.rem off unit.
Proof. exact quantize_up_spec. Qed.

(* the deadline cron moves proving_period_start by whole proving periods; the reward quantisation
   (12 h = half a proving period) does not see it: every offset class is covered by pps alone *)
Theorem C14_pps_shift_irrelevant : forall pps k e,
  quantize_up REWARD_VEST_QUANTIZATION (pps + k * WPOST_PROVING_PERIOD) e =
  quantize_up REWARD_VEST_QUANTIZATION pps e.
Proof. exact pps_shift_irrelevant. Qed.

(* ---- the schedule: for every spec with positive period/step/quantisation, delay >= 0, every
        current epoch, every amount >= 0 and EVERY proving-period offset pps ---- *)
Theorem C14_schedule_sum : forall cur sum pps sp, spec_ok sp -> 0 <= sum ->
  tbl_sum (new_schedule cur sum pps sp) = sum.
Proof. exact new_schedule_sum. Qed.

Theorem C14_schedule_well_formed : forall cur sum pps sp, spec_ok sp -> 0 <= sum ->
  sorted (new_schedule cur sum pps sp) /\ nonneg (new_schedule cur sum pps sp) /\
  all_ge (cur + initial_delay sp + step_duration sp) (new_schedule cur sum pps sp) /\
  (forall e a, In (e, a) (new_schedule cur sum pps sp) -> quantize_up (quantization sp) pps e = e).
Proof.
  intros cur sum pps sp Hok Hs. split; [|split; [|split]].
  - exact (new_schedule_sorted cur sum pps sp Hok).
  - exact (new_schedule_nonneg cur sum pps sp Hok Hs).
  - exact (new_schedule_after cur sum pps sp Hok).
  - exact (new_schedule_on_grid cur sum pps sp Hok).
Qed.

(* never ahead of the straight line ... *)
Theorem C14_schedule_linear_upper : forall cur sum pps sp e, spec_ok sp -> 0 <= sum ->
  vested_sum (new_schedule cur sum pps sp) e <=
  Z.min sum (sum * Z.max 0 (e - (cur + initial_delay sp)) / vest_period sp).
Proof. intros cur sum pps sp e Hok Hs. exact (new_schedule_upper cur sum pps sp Hok Hs e). Qed.

(* ... and never more than one step plus one quantisation unit behind it *)
Theorem C14_schedule_linear_lower : forall cur sum pps sp e, spec_ok sp -> 0 <= sum ->
  Z.min sum (sum * (e - (cur + initial_delay sp) - step_duration sp - quantization sp) / vest_period sp)
  <= vested_sum (new_schedule cur sum pps sp) e.
Proof. intros cur sum pps sp e Hok Hs. exact (new_schedule_lower cur sum pps sp Hok Hs e). Qed.

Theorem C14_schedule_complete_by : forall cur sum pps sp e, spec_ok sp -> 0 <= sum ->
  cur + initial_delay sp + vest_period sp + step_duration sp + quantization sp <= e ->
  vested_sum (new_schedule cur sum pps sp) e = sum.
Proof. intros cur sum pps sp e Hok Hs. exact (new_schedule_complete cur sum pps sp Hok Hs e). Qed.

(* the pinned instance: rewards and the creation deposit are fully vested 180 d + 1 d + 12 h after
   they were locked, whatever the miner's proving-period offset; and nothing vests at once *)
Theorem C14_reward_schedule_complete_by : forall cur sum pps e, 0 <= sum ->
  cur + 181 * EPOCHS_IN_DAY + 12 * EPOCHS_IN_HOUR <= e ->
  vested_sum (new_schedule cur sum pps REWARD_SPEC) e = sum /\
  vested_sum (new_schedule cur sum pps REWARD_SPEC) (cur + EPOCHS_IN_DAY) = 0.
Proof. exact reward_schedule_complete. Qed.

(* ---- the three table operations, on every well-formed table ---- *)
Theorem C14_add_locked_exact : forall t cur sum pps sp t' u,
  wf t -> spec_ok sp -> 0 <= sum ->
  add_locked_funds t cur sum pps sp = (t', u) ->
  u = vested_sum t cur /\ wf t' /\ all_ge cur t' /\
  tbl_sum t' = tbl_sum t - u + sum /\
  unvested_sum t' cur = unvested_sum t cur + sum /\
  (forall e, cur <= e ->
     vested_sum t' e = (vested_sum t e - vested_sum t cur) + vested_sum (new_schedule cur sum pps sp) e).
Proof. exact add_locked_funds_spec. Qed.

Theorem C14_unlock_exact : forall t cur t' u,
  wf t -> unlock_vested_funds t cur = (t', u) ->
  u = vested_sum t cur /\ wf t' /\ tbl_sum t' = tbl_sum t - u /\
  pos t' = from_epoch cur (pos t) /\
  unvested_sum t' cur = unvested_sum t cur /\
  (forall e, cur <= e -> vested_sum t' e = vested_sum t e - u).
Proof. exact unlock_vested_funds_spec. Qed.

Theorem C14_unlock_all_eventually : forall t cur t' u,
  wf t -> (forall e a, In (e, a) t -> e < cur) ->
  unlock_vested_funds t cur = (t', u) -> u = tbl_sum t /\ tbl_sum t' = 0 /\ pos t' = [].
Proof. exact unlock_all_eventually. Qed.

Theorem C14_penalty_draw_exact : forall t cur target t' v u,
  wf t -> 0 <= target ->
  unlock_vested_and_unvested_funds t cur target = (t', v, u) ->
  v = vested_sum t cur /\ u = Z.min target (unvested_sum t cur) /\
  wf t' /\ tbl_sum t' = tbl_sum t - v - u /\
  vested_sum t' cur = 0 /\ unvested_sum t' cur = unvested_sum t cur - u.
Proof. exact unlock_both_spec. Qed.

(* ---- the miner's funds over arbitrary histories of messages ---- *)

(* the constructor locks the whole creation deposit on the reward schedule *)
Theorem C14_creation_deposit_locked : forall balance deposit epoch p own wrk, 0 <= deposit ->
  let s := init balance deposit epoch p own wrk in
  locked (fu s) = deposit /\ tbl_sum (vest (fu s)) = deposit /\
  forall e, epoch <= e ->
    vested_sum (vest (fu s)) e = vested_sum (new_schedule epoch deposit p REWARD_SPEC) e.
Proof. exact init_locks_deposit. Qed.

(* table_sum_is_locked_funds + solvency (check_balance_invariants) after every operation of every
   history, accepted or rejected, whatever the nested calls answered *)
Theorem C14_table_sum_is_locked_funds_and_solvent : forall balance deposit epoch p own wrk ops,
  0 <= deposit <= balance ->
  let s := run (init balance deposit epoch p own wrk) ops in
  wf (vest (fu s)) /\ tbl_sum (vest (fu s)) = locked (fu s) /\
  0 <= pcd (fu s) /\ 0 <= ip (fu s) /\ 0 <= fee_debt (fu s) /\
  locked (fu s) + pcd (fu s) + ip (fu s) <= bal s.
Proof. exact history_invariant. Qed.

Theorem C14_invariant_preserved : forall s o, Inv s -> Inv (fst (step s o)).
Proof. exact step_inv. Qed.

(* from a state satisfying the invariant the miner itself never raises ERR_BALANCE_INVARIANTS_BROKEN
   (1000): the final check_balance_invariants of every handler always passes; a 1000 can only be
   the exit code handed back by the nested power-actor call *)
Theorem C14_balance_check_never_fails : forall s o,
  Inv s -> code (snd (step s o)) = BALANCE_INVARIANTS_BROKEN ->
  In BALANCE_INVARIANTS_BROKEN (nested_codes o).
Proof. exact balance_check_never_fails. Qed.

Theorem C14_rejected_call_changes_nothing : forall s o s' out,
  step s o = (s', out) -> code out <> 0 -> s' = s /\ out = fail (code out).
Proof. exact step_rejected_unchanged. Qed.

Theorem C14_no_early_unlock_except_penalty : forall s o s' out e,
  Inv s -> step s o = (s', out) -> code out = 0 -> at_epoch o e ->
  unvested_sum (vest (fu s')) e = unvested_sum (vest (fu s)) e + added out - drawn out /\
  0 <= added out /\
  0 <= vested out <= vested_sum (vest (fu s)) e /\
  0 <= drawn out <= fee_debt (fu s) + op_penalty o /\
  drawn out <= burnt out /\
  (may_draw o = false -> drawn out = 0) /\
  locked (fu s') = locked (fu s) + added out - vested out - drawn out.
Proof. exact no_early_unlock_except_penalty. Qed.

Theorem C14_locked_conserved : forall ops s, Inv s ->
  let '(a, v, d, b, p) := flows s ops in
  locked (fu (run s ops)) = locked (fu s) + a - v - d /\
  0 <= a /\ 0 <= v /\ 0 <= d /\ 0 <= b /\ 0 <= p /\ d <= b /\
  fee_debt (fu (run s ops)) + b = fee_debt (fu s) + sum_penalties s ops /\
  bal (run s ops) = bal s + sum_values s ops - p - b.
Proof. exact locked_conserved. Qed.

Theorem C14_rewards_lock_75_percent : forall s c e v r p upt s' out,
  Inv s -> step s (ApplyRewards c e v r p upt) = (s', out) -> code out = 0 ->
  c = REWARD_ACTOR_ID /\ added out = locked_reward r /\
  vested out = vested_sum (vest (fu s)) e /\
  unvested_sum (vest (fu s')) e = unvested_sum (vest (fu s)) e + locked_reward r - drawn out /\
  paid out = 0.
Proof. exact apply_rewards_locks. Qed.

Theorem C14_locked_reward_is_three_quarters : forall r, 0 <= r ->
  4 * locked_reward r <= 3 * r < 4 * locked_reward r + 4 /\ 0 <= locked_reward r <= r.
Proof. exact locked_reward_bounds. Qed.

Theorem C14_withdraw_bound : forall s c e v req upt s' out,
  Inv s -> step s (Withdraw c e v req upt) = (s', out) -> code out = 0 ->
  ret out = paid out /\ 0 <= paid out /\ paid out <= req /\
  paid out <= bal s + v - locked (fu s') - pcd (fu s) - ip (fu s) - fee_debt (fu s) /\
  locked (fu s') = locked (fu s) - vested_sum (vest (fu s)) e /\
  (benef s <> owner s -> paid out <= quota (term s) - used (term s)) /\
  bal s' = bal s + v - paid out - burnt out /\
  pcd (fu s') = pcd (fu s) /\ ip (fu s') = ip (fu s).
Proof. exact withdraw_bound. Qed.

Theorem C14_withdraw_payee_and_caller : forall s c e v req upt s' out,
  Inv s -> step s (Withdraw c e v req upt) = (s', out) -> code out = 0 ->
  (c = owner s \/ c = benef s) /\
  sends out = send_value (benef s) (paid out) ++ send_value BURNT_FUNDS_ACTOR_ID (burnt out) ++
              send_pledge (- vested out) /\
  (forall t m x d, In (t, m, x, d) (sends out) -> 0 < x ->
     (t = benef s /\ x = paid out) \/ (t = BURNT_FUNDS_ACTOR_ID /\ x = burnt out)).
Proof. exact withdraw_payee_and_caller. Qed.

Theorem C14_withdraw_quota_and_expiry : forall s c e v req upt s' out,
  Inv s -> step s (Withdraw c e v req upt) = (s', out) -> code out = 0 ->
  benef s <> owner s ->
  e < expiration (term s) /\ used (term s) < quota (term s) /\
  used (term s') = used (term s) + paid out /\ used (term s') <= quota (term s') /\
  quota (term s') = quota (term s) /\ expiration (term s') = expiration (term s) /\
  benef s' = benef s.
Proof. exact withdraw_quota_and_expiry. Qed.

Theorem C14_withdraw_blocked_by_early_terminations : forall s c e v req upt,
  early_term s = true -> code (snd (step s (Withdraw c e v req upt))) <> 0.
Proof. exact withdraw_blocked_by_early_terminations. Qed.

Theorem C14_withdraw_repays_debt_fully : forall s c e v req upt s' out,
  Inv s -> step s (Withdraw c e v req upt) = (s', out) -> code out = 0 ->
  fee_debt (fu s') = 0 /\ burnt out = fee_debt (fu s) /\
  fee_debt (fu s) <= bal s + v - locked (fu s') - pcd (fu s) - ip (fu s).
Proof. exact withdraw_repays_debt_fully. Qed.

(* ---- non-vacuity: a concrete history on the pinned constants ----
   miner created at epoch 1000 with a 180 attoFIL-unit deposit and 100 spare; a reward of 4000 (3000
   locked); a penalty larger than the spare funds draws unvested funds and burns them; a beneficiary
   with quota 500 is installed and withdraws; an early withdrawal pays nothing more than available *)
Definition ex_init := init 280 180 1000 700 101 102.
Definition ex_ops : list op := [
  ApplyRewards 2 1010 4000 4000 0 0;
  Withdraw 101 1011 0 5000 0;
  ApplyRewards 2 (1010 + 2880 * 30) 0 0 700 0;
  ChangeBenef 101 90000 0 (Some 103) 500 2000000;
  ChangeBenef 103 90001 0 (Some 103) 500 2000000;
  Withdraw 103 (1010 + 2880 * 200) 0 100000 0;
  Withdraw 101 (1010 + 2880 * 200) 0 100000 0;
  SetEarlyTerm true;
  Withdraw 103 (1010 + 2880 * 201) 0 1 0 ].

Example C14_nonvacuous :
  let s := run ex_init ex_ops in
  map (fun o => code (snd o)) (trace ex_init ex_ops) = [0; 0; 0; 0; 0; 0; 18; 0; 18] /\
  map (fun o => paid (snd o)) (trace ex_init ex_ops) = [0; 1100; 0; 0; 0; 500; 0; 0; 0] /\
  map (fun o => drawn (snd o)) (trace ex_init ex_ops) = [0; 0; 700; 0; 0; 0; 0; 0; 0] /\
  map (fun o => vested (snd o)) (trace ex_init ex_ops) = [0; 0; 518; 0; 0; 1962; 0; 0; 0] /\
  locked (fu s) = 0 /\ used (term s) = 500 /\ bal s = 1980 /\ fee_debt (fu s) = 0.
Proof. vm_compute. repeat split. Qed.
