(* C03 -- Collateral ledgers are exact: pledge, deposits and the network pledge total.
   Pinned statements only; every proof is `exact <lemma from Proofs/Collateral_lemmas.v>` or a
   `vm_compute` witness.  `run init ops` ranges over ALL histories of miner creation, pre-commit,
   prove-commit, replica update, rewards, penalties/repayments, withdrawals, terminations, cron callbacks
   (pre-commit expiry, sector expiry, vesting, early-termination processing) over any number of miners and any
   epoch spacing; the amounts computed by un-modelled formulas are universally quantified inputs. *)
From stdpp Require Import gmap.
From Coq Require Import ZArith List Bool.
From VF Require Import Gen.Consts Base.Corr Base.MapSum Model.Collateral Proofs.Collateral_lemmas.
Import ListNotations.
Open Scope Z_scope.

(* the vesting spec and the locked share of a reward are the ones in the source today *)
Theorem C03_reward_vesting_spec_pinned :
  REWARD_VEST_INITIAL_DELAY = 0 /\ REWARD_VEST_VEST_PERIOD = 180 * EPOCHS_IN_DAY /\
  REWARD_VEST_STEP_DURATION = EPOCHS_IN_DAY /\ REWARD_VEST_QUANTIZATION = 12 * EPOCHS_IN_HOUR /\
  LOCKED_REWARD_FACTOR_NUM = 3 /\ LOCKED_REWARD_FACTOR_DENOM = 4.
Proof. repeat split. Qed.

(* ---- the three per-miner ledgers: hold in every reachable state ---- *)
Theorem C03_ip_ledger_exact : forall ops m mi,
  miners (run init ops) !! m = Some mi -> ip mi = zsum (sectors mi) + zsum (awaiting mi).
Proof. exact ip_ledger_exact. Qed.

Theorem C03_pcd_ledger_exact : forall ops m mi,
  miners (run init ops) !! m = Some mi -> pcd mi = zsum (precommits mi).
Proof. exact pcd_ledger_exact. Qed.

Theorem C03_locked_ledger_exact : forall ops m mi,
  miners (run init ops) !! m = Some mi -> locked mi = tbl_sum (vest mi).
Proof. exact locked_ledger_exact. Qed.

Theorem C03_totals_nonneg : forall ops m mi,
  miners (run init ops) !! m = Some mi -> 0 <= ip mi /\ 0 <= pcd mi /\ 0 <= locked mi.
Proof. exact totals_nonneg. Qed.

(* a newly locked amount is spread over the schedule exactly (no attoFIL lost or created) *)
Theorem C03_schedule_exact : forall cur sum p,
  0 <= sum -> tbl_sum (new_schedule cur sum p) = sum /\ nonneg (new_schedule cur sum p).
Proof. exact new_schedule_ok. Qed.

(* ---- the network total ----
   As stated by the property (REFUTED on the faithful model, finding F1):
     network_pledge_exact : forall ops, total (run init ops) = net_sum (run init ops).
   The constructor locks the creation deposit (add_locked_funds) and nobody sends UpdatePledgeTotal(+deposit). *)
Definition F1_deposit : Z := 31999999497815982080.      (* the deposit of a fresh network, as observed *)
Definition F1_create : list op := [CreateMiner 1000 0 F1_deposit 0 0].

Theorem C03_network_pledge_exact_refuted :
  exists ops, total (run init ops) <> net_sum (run init ops).
Proof. exists F1_create. vm_compute. discriminate. Qed.

(* the true variant: the total is short by exactly the creation deposits (ghost field cdep), for ever --
   not only while they vest: every later delta is exact, so the initial shortfall is never repaired *)
Theorem C03_network_pledge_exact_modulo_deposit : forall ops,
  total (run init ops) = net_sum (run init ops) - dep_sum (run init ops).
Proof. exact network_pledge_exact_modulo_deposit. Qed.

(* network_pledge_nonneg holds in every reachable state -- but only BECAUSE update_pledge_total rejects
   the update that would make it negative (next theorem) *)
Theorem C03_network_pledge_nonneg : forall ops, 0 <= total (run init ops).
Proof. exact network_pledge_nonneg. Qed.

(* As stated by the property (REFUTED, F1):
     pledge_update_never_blocks : forall ops o, blocked (run init ops) o = false.
   Witness: fresh network, CreateMiner, two days later the owner's WithdrawBalance vests the first instalment
   and UpdatePledgeTotal(-vested) is refused with USR_ILLEGAL_STATE; the withdrawal aborts. *)
Theorem C03_pledge_update_never_blocks_refuted :
  exists ops o, blocked (run init ops) o = true.
Proof. exists F1_create, (Call 1000 (2 * 2880 + 10) 0 MWithdraw). vm_compute. reflexivity. Qed.

Theorem C03_network_pledge_nonneg_only_by_rejection :
  exists ops o d, In (d, ILLEGAL_STATE) (snd (step (run init ops) o)) /\ total (run init ops) + d < 0.
Proof.
  exists F1_create, (Call 1000 (2 * 2880 + 10) 0 MWithdraw), (-355555549975733134).
  vm_compute. split; [left; reflexivity|reflexivity].
Qed.

(* the true variants of never-blocks *)
Theorem C03_never_blocks_without_creation_deposit : forall ops o,
  dep_sum (run init ops) = 0 -> blocked (run init ops) o = false.
Proof. exact never_blocks_without_creation_deposit. Qed.

Theorem C03_never_blocks_when_others_cover : forall ops m e ext o mi,
  miners (run init ops) !! m = Some mi ->
  dep_sum (run init ops) <= net_sum (run init ops) - (ip mi + locked mi) ->
  blocked (run init ops) (Call m e ext o) = false.
Proof. exact never_blocks_when_others_cover. Qed.

(* ---- pledge is released when an early termination is PROCESSED, not when it is queued ---- *)
Theorem C03_queued_termination_keeps_pledge : forall m l m',
  move_early m l = Ok m' ->
  ip m' = ip m /\ locked m' = locked m /\
  zsum (sectors m') + zsum (awaiting m') = zsum (sectors m) + zsum (awaiting m).
Proof. exact queued_termination_keeps_pledge. Qed.

Theorem C03_processed_termination_releases_pledge : forall m e pr t m' d,
  minv m -> tx_process_early m e pr t = Ok (m', d) ->
  ip m' = ip m - (zsum (awaiting m) - zsum (awaiting m')) /\ sectors m' = sectors m /\
  d = (ip m' - ip m) + (locked m' - locked m).
Proof. exact processed_termination_releases_pledge. Qed.

(* a prove-commit batch that names a pre-committed sector twice is rejected as a whole (illegal_state):
   its deposit cannot be released twice nor its pledge added twice *)
Theorem C03_duplicate_in_prove_commit_batch_aborts : forall m s p1 p2 l1 l2 l3 r,
  tx_prove_commit m (l1 ++ (s, p1) :: l2 ++ (s, p2) :: l3) = Ok r -> False.
Proof. exact duplicate_prove_commit_aborts. Qed.

(* ---- roll-back ---- *)
Theorem C03_rejected_call_changes_nothing : forall st m e ext o st' c s,
  call st m e ext o = (st', c, s) -> c <> 0 -> st' = st.
Proof. exact rejected_call_changes_nothing. Qed.

(* cron: every callback of a tick runs against the claims as they were before the tick; a failed callback is
   rolled back (previous theorem); afterwards the power actor clears the claim bit of the failed miners and
   changes nothing else *)
Theorem C03_failed_cron_only_drops_claim : forall failed ms k,
  drop_claims ms failed !! k =
  match ms !! k with
  | Some mi => Some (if bool_decide (k ∈ failed) then set_claim mi false else mi)
  | None => None
  end.
Proof. exact failed_cron_only_drops_claim. Qed.

(* ---- non-vacuity: two miners; onboarding, reward, pre-commit expiry, termination, expiry ---- *)
Definition ex_ops : list op :=
  [CreateMiner 1000 0 0 (-1234) 0; CreateMiner 1001 0 F1_deposit 77 0;
   Call 1000 5 0 (MPreCommit [(1%N, 100); (2%N, 100); (3%N, 100)]);
   Call 1000 200 0 (MProveCommit [(1%N, 5000); (2%N, 6000)]);
   Call 1000 300 0 (MApplyRewards 1000000 0);
   Tick 3000 [(1000%N, 0, MCronDeadline [3%N] [] [] 0 [] 0)];
   Call 1000 3100 0 (MTerminate [1%N] [] 0);
   Call 1000 3101 0 MWithdraw;
   Tick 3102 [(1000%N, 0, MCronEarly [1%N] 700)];
   Call 1000 (2 * 2880 + 10) 0 MWithdraw;
   Tick (3 * 2880) [(1000%N, 0, MCronDeadline [] [2%N] [] 0 [] 0)]].

Example C03_nonvacuous :
  map (fun o => firstn 6 o) (Corr.observe stepo init ex_ops) =
  [[1; 0; 0; 0; 1000; 1];                      (* miner 1000, no deposit *)
   [1; 0; 0; 0; 1000; 1];                      (* miner 1001 with a deposit: total stays 0 *)
   [1; 0; 0; 0; 1000; 1];                      (* pre-commit: no pledge message *)
   [1; 0; 1; 11000; 0; 11000];                 (* prove-commit: +11000 *)
   [1; 0; 1; 750000; 0; 761000];               (* reward: 75% locked, +750000 *)
   [1; 0; 0; 761000; 1000; 1];                 (* cron: pre-commit 3 expires, nothing vests yet *)
   [1; 0; 0; 761000; 1000; 1];                 (* terminate, queued: pledge NOT released *)
   [1; 18; 0; 761000; 1000; 1];                (* withdraw forbidden while terminations are pending *)
   [1; 0; 1; -5700; 0; 755300];                (* processed: -5000 pledge, -700 unvested funds for the fee *)
   [1; 0; 1; -5414; 0; 749886];                (* withdraw vests what is due after 2 days *)
   [1; 0; 1; -10166; 0; 739720]].              (* sector 2 expires on time (-6000) and an instalment vests *)
Proof. vm_compute. reflexivity. Qed.
