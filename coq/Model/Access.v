(* C11 -- caller access control of the built-in actors.  Definitions only (no proofs).

   * semantics of the four validate_immediate_caller_* primitives (`denote`) over an arbitrary
     address assignment (`env`) and caller (`caller`);
   * `restrict_internal_api` and the dispatch rule of actor_dispatch! / actor_dispatch_unrestricted!
     (`dispatch`), over the GENERATED table Gen.Dispatch.actors;
   * the hand-written designated-caller SPECIFICATION (`spec_table` / `designated`), written from
     the protocol's intent (doc comments of the methods, FIPs, the Go specs-actors), not from the guards;
   * the concrete "matrix world" used by the exhaustive correspondence check (`expected`). *)
From Coq Require Import ZArith List String Bool.
From VF Require Import Gen.Consts Base.Corr Base.AccessTypes Gen.Dispatch.
Import ListNotations.
Open Scope string_scope.
Open Scope Z_scope.
Open Scope list_scope.

(* ------------------------------------------------------------------------------------------ *)
(* callers and address assignments                                                            *)
(* ------------------------------------------------------------------------------------------ *)
Inductive code_kind :=
| NoCode                       (* get_actor_code_cid(caller) = None *)
| NonBuiltin                   (* code that is not one of the built-in actor types *)
| Builtin (t : atype).

Record caller := {
  c_addr : Z;                  (* the caller's ID address *)
  c_code : code_kind;
  c_ns : option Z              (* namespace of the caller's delegated (f4) address, if any *)
}.

(* what the symbolic sources denote in the current state / for the current parameters *)
Record env := {
  e_receiver : Z;
  e_origin : Z;
  e_state : src -> list Z
}.

Definition zmem (x : Z) (l : list Z) : bool := existsb (Z.eqb x) l.

Definition src_addrs (e : env) (s : src) : list Z :=
  match s with
  | S_System => [SYSTEM_ACTOR_ID] | S_Init => [INIT_ACTOR_ID] | S_Reward => [REWARD_ACTOR_ID]
  | S_Cron => [CRON_ACTOR_ID] | S_Power => [STORAGE_POWER_ACTOR_ID]
  | S_Market => [STORAGE_MARKET_ACTOR_ID] | S_Verifreg => [VERIFIED_REGISTRY_ACTOR_ID]
  | S_Datacap => [DATACAP_TOKEN_ACTOR_ID] | S_Eam => [EAM_ACTOR_ID] | S_Burnt => [BURNT_FUNDS_ACTOR_ID]
  | S_Receiver => [e_receiver e]
  | S_Origin => [e_origin e]
  | _ => e_state e s
  end.

(* ------------------------------------------------------------------------------------------ *)
(* semantics of the guards (the four primitives + the explicit gates)                          *)
(* ------------------------------------------------------------------------------------------ *)
Definition has_type (c : caller) (t : atype) : bool :=
  match c_code c with Builtin t' => atype_eqb t' t | _ => false end.
Definition has_ns (c : caller) (n : Z) : bool :=
  match c_ns c with Some n' => Z.eqb n' n | None => false end.
Definition from_src (e : env) (c : caller) (s : src) : bool := zmem (c_addr c) (src_addrs e s).

Fixpoint denote (e : env) (g : guard) (c : caller) : bool :=
  match g with
  | AcceptAny => true
  | IsAddrs l => existsb (from_src e c) l          (* validate_immediate_caller_is *)
  | IsType l => existsb (has_type c) l             (* validate_immediate_caller_type *)
  | Namespace l => existsb (has_ns c) l            (* validate_immediate_caller_namespace *)
  | Branching g1 g2 => denote e g1 c || denote e g2 c
  | Manual g' => denote e g' c
  | Both g1 g2 => denote e g1 c && denote e g2 c
  end.

(* ------------------------------------------------------------------------------------------ *)
(* caller classes (the language of the specification)                                          *)
(* ------------------------------------------------------------------------------------------ *)
Inductive class :=
| C_Any                        (* every caller *)
| C_Src (s : src)              (* the caller is one of the addresses denoted by s *)
| C_Type (t : atype)           (* the caller's code is the built-in type t *)
| C_Ns (n : Z)                 (* the caller has a delegated address in namespace n *)
| C_And (a b : class)
| C_NonBuiltin | C_NoCode.     (* never designated; used by internal_api_closed *)

(* the names used by the property statement *)
Definition System := C_Src S_System.       Definition Init := C_Src S_Init.
Definition Reward := C_Src S_Reward.       Definition Cron := C_Src S_Cron.
Definition Power := C_Src S_Power.         Definition Market := C_Src S_Market.
Definition Verifreg := C_Src S_Verifreg.   Definition Datacap := C_Src S_Datacap.
Definition Eam := C_Src S_Eam.
Definition Self := C_Src S_Receiver.       Definition Origin := C_Src S_Origin.
Definition Owner := C_Src S_MinerOwner.    Definition Worker := C_Src S_MinerWorker.
Definition Control := C_Src S_MinerControls.
Definition Beneficiary := C_Src S_MinerBeneficiary.
Definition PendingOwner := C_Src S_PendingOwner.
Definition Nominee := C_Src S_Nominee.
Definition Signer := C_Src S_Signers.
Definition ChannelFrom := C_Src (S_Field "from").
Definition ChannelTo := C_Src (S_Field "to").
Definition RootKey := C_Src (S_Field "root_key").
Definition Governor := C_Src (S_Field "governor").
Definition Verifier := C_Src S_Verifiers.
Definition EscrowMinerOwner := C_Src S_EscrowMinerOwner.   (* owner of the miner whose escrow is withdrawn *)
Definition EscrowMinerWorker := C_Src S_EscrowMinerWorker.
Definition EscrowClient := C_Src S_EscrowSelf.             (* the (non-miner) party itself *)
Definition ProviderController := C_Src S_ProviderControllers.
Definition MinerActor := C_Type T_Miner.   Definition Account := C_Type T_Account.
Definition Multisig := C_Type T_Multisig.  Definition Paych := C_Type T_Paych.
Definition EvmContract := C_Type T_Evm.    Definition EthAccount := C_Type T_EthAccount.
Definition Placeholder := C_Type T_Placeholder.
Definition InitActor := C_Type T_Init.
Definition TopLevel (t : atype) := C_And Origin (C_Type t).  (* the message originator, of type t *)

Fixpoint in_class (e : env) (c : caller) (cl : class) : bool :=
  match cl with
  | C_Any => true
  | C_Src s => from_src e c s
  | C_Type t => has_type c t
  | C_Ns n => has_ns c n
  | C_And a b => in_class e c a && in_class e c b
  | C_NonBuiltin => match c_code c with NonBuiltin => true | _ => false end
  | C_NoCode => match c_code c with NoCode => true | _ => false end
  end.

(* the classes a guard lets through (syntactic) *)
Fixpoint guard_classes (g : guard) : list class :=
  match g with
  | AcceptAny => [C_Any]
  | IsAddrs l => map C_Src l
  | IsType l => map C_Type l
  | Namespace l => map C_Ns l
  | Branching g1 g2 => guard_classes g1 ++ guard_classes g2
  | Manual g' => guard_classes g'
  | Both g1 g2 => map (fun p => C_And (fst p) (snd p)) (list_prod (guard_classes g1) (guard_classes g2))
  end.

Fixpoint class_eqb (a b : class) : bool :=
  match a, b with
  | C_Any, C_Any | C_NonBuiltin, C_NonBuiltin | C_NoCode, C_NoCode => true
  | C_Src s, C_Src t => src_eqb s t
  | C_Type s, C_Type t => atype_eqb s t
  | C_Ns n, C_Ns m => Z.eqb n m
  | C_And a1 a2, C_And b1 b2 => class_eqb a1 b1 && class_eqb a2 b2
  | _, _ => false
  end.
Definition class_mem (a : class) (l : list class) : bool := existsb (class_eqb a) l.
Definition class_incl (l1 l2 : list class) : bool := forallb (fun a => class_mem a l2) l1.
Definition class_set_eqb (l1 l2 : list class) : bool := class_incl l1 l2 && class_incl l2 l1.

(* ------------------------------------------------------------------------------------------ *)
(* dispatch                                                                                    *)
(* ------------------------------------------------------------------------------------------ *)
Inductive outcome :=
| Passed          (* caller accepted; the body runs (it may still fail for other reasons) *)
| RejGuard        (* rejected by a validate_immediate_caller_* primitive *)
| Unhandled       (* no such method: unhandled_message *)
| RejInternal     (* rejected by restrict_internal_api *)
| RejManual.      (* rejected by the explicit caller gate that follows the primitive *)

Definition outcome_code (o : outcome) : Z :=
  match o with Passed => 0 | RejGuard => 1 | Unhandled => 2 | RejInternal => 3 | RejManual => 4 end.
Definition rejected (o : outcome) : bool :=
  match o with RejGuard | RejInternal | RejManual => true | _ => false end.

Fixpoint guard_outcome (e : env) (g : guard) (c : caller) : outcome :=
  match g with
  | Manual g' => if denote e g' c then Passed else RejManual
  | Both g1 g2 =>
      match guard_outcome e g1 c with
      | Passed => if denote e g2 c then Passed else RejManual
      | o => o
      end
  | _ => if denote e g c then Passed else RejGuard
  end.

(* runtime/src/builtin/shared.rs restrict_internal_api: callers without code, with non-built-in
   code, or EVM contracts may not call methods below FIRST_EXPORTED_METHOD_NUMBER *)
Definition external_caller (c : caller) : bool :=
  match c_code c with NoCode | NonBuiltin | Builtin T_Evm => true | _ => false end.
Definition restrict_internal_api (m : Z) (c : caller) : bool :=   (* true = allowed *)
  (FIRST_EXPORTED_METHOD_NUMBER <=? m) || negb (external_caller c).

Definition find_row (a : actor_info) (m : Z) : option row :=
  find (fun r => Z.eqb (r_num r) m) (a_rows a).

(* method 0 (METHOD_SEND) is a bare value transfer: the VM never hands it to actor code *)
Definition dispatch (a : actor_info) (e : env) (m : Z) (c : caller) : outcome :=
  if m =? 0 then Passed
  else if negb (a_has_dispatch a) then Unhandled
  else if a_restricted a && negb (restrict_internal_api m c) then RejInternal
  else match find_row a m with
       | Some r => guard_outcome e (r_guard r) c
       | None =>
           match a_fallback a with
           | Some f => if m <? f_from f then Unhandled else guard_outcome e (f_guard f) c
           | None => Unhandled
           end
       end.

(* a call: the body runs only when the caller was accepted; every other outcome leaves the state
   as it was (the VM rolls the invocation back) *)
Definition call {St : Type} (body : St -> St) (a : actor_info) (e : env) (m : Z) (c : caller)
  (st : St) : St * outcome :=
  match dispatch a e m c with
  | Passed => (body st, Passed)
  | o => (st, o)
  end.

Definition find_actor (n : string) : option actor_info :=
  find (fun a => String.eqb (a_name a) n) actors.

(* ------------------------------------------------------------------------------------------ *)
(* SPECIFICATION: who may call what (hand-written; one row per Method enum variant)             *)
(* ------------------------------------------------------------------------------------------ *)
Definition Anyone := [C_Any].
Definition OwnerWorkerControl := [Owner; Worker; Control].
Definition fallback_name := "<fallback>".

Definition spec_table : list (string * string * list class) := [
  (* account: constructed by the VM on first send; everything else is public *)
  ("account", "Constructor", [System]);
  ("account", "PubkeyAddress", Anyone);
  ("account", "AuthenticateMessageExported", Anyone);
  ("account", fallback_name, Anyone);
  (* cron: genesis construction and the per-epoch implicit message, both from the system actor *)
  ("cron", "Constructor", [System]);
  ("cron", "EpochTick", [System]);
  (* datacap token: minting/destroying is reserved to the governor (the verified registry);
     holder operations are open (the token library checks balances/allowances of the caller) *)
  ("datacap", "Constructor", [System]);
  ("datacap", "MintExported", [Governor]);
  ("datacap", "DestroyExported", [Governor]);
  ("datacap", "NameExported", Anyone);
  ("datacap", "SymbolExported", Anyone);
  ("datacap", "GranularityExported", Anyone);
  ("datacap", "TotalSupplyExported", Anyone);
  ("datacap", "BalanceExported", Anyone);
  ("datacap", "TransferExported", Anyone);
  ("datacap", "TransferFromExported", Anyone);
  ("datacap", "IncreaseAllowanceExported", Anyone);
  ("datacap", "DecreaseAllowanceExported", Anyone);
  ("datacap", "RevokeAllowanceExported", Anyone);
  ("datacap", "BurnExported", Anyone);
  ("datacap", "BurnFromExported", Anyone);
  ("datacap", "AllowanceExported", Anyone);
  (* eam: CREATE/CREATE2 are for EVM contracts only; CreateExternal for top-level (originating)
     native or Ethereum accounts only *)
  ("eam", "Constructor", [System]);
  ("eam", "Create", [EvmContract]);
  ("eam", "Create2", [EvmContract]);
  ("eam", "CreateExternal", [TopLevel T_Account; TopLevel T_EthAccount]);
  (* ethaccount *)
  ("ethaccount", "Constructor", [System]);
  ("ethaccount", fallback_name, Anyone);
  (* evm contract: constructed through init (Exec4 from the EAM), resurrected by the EAM,
     delegate-invocation only by the contract itself, storage inspection only off-chain (system) *)
  ("evm", "Constructor", [Init]);
  ("evm", "Resurrect", [Eam]);
  ("evm", "GetBytecode", Anyone);
  ("evm", "GetBytecodeHash", Anyone);
  ("evm", "GetStorageAt", [System]);
  ("evm", "InvokeContractDelegate", [Self]);
  ("evm", "InvokeContract", Anyone);
  ("evm", fallback_name, Anyone);
  (* init *)
  ("init", "Constructor", [System]);
  ("init", "Exec", Anyone);
  ("init", "Exec4", [Eam]);
  (* market *)
  ("market", "Constructor", [System]);
  ("market", "AddBalance", Anyone);
  ("market", "AddBalanceExported", Anyone);
  ("market", "WithdrawBalance", [EscrowMinerOwner; EscrowMinerWorker; EscrowClient]);
  ("market", "WithdrawBalanceExported", [EscrowMinerOwner; EscrowMinerWorker; EscrowClient]);
  ("market", "PublishStorageDeals", [ProviderController]);
  ("market", "PublishStorageDealsExported", [ProviderController]);
  ("market", "VerifyDealsForActivation", [MinerActor]);
  ("market", "BatchActivateDeals", [MinerActor]);
  ("market", "OnMinerSectorsTerminate", [MinerActor]);
  ("market", "CronTick", [Cron]);
  ("market", "GetBalanceExported", Anyone);
  ("market", "GetDealDataCommitmentExported", Anyone);
  ("market", "GetDealClientExported", Anyone);
  ("market", "GetDealProviderExported", Anyone);
  ("market", "GetDealLabelExported", Anyone);
  ("market", "GetDealTermExported", Anyone);
  ("market", "GetDealTotalPriceExported", Anyone);
  ("market", "GetDealClientCollateralExported", Anyone);
  ("market", "GetDealProviderCollateralExported", Anyone);
  ("market", "GetDealVerifiedExported", Anyone);
  ("market", "GetDealActivationExported", Anyone);
  ("market", "GetDealSectorExported", Anyone);
  ("market", "SettleDealPaymentsExported", Anyone);
  ("market", "SectorContentChangedExported", [MinerActor]);
  (* miner *)
  ("miner", "Constructor", [Init]);
  ("miner", "ControlAddresses", Anyone);
  ("miner", "ChangeWorkerAddress", [Owner]);
  ("miner", "ChangeWorkerAddressExported", [Owner]);
  ("miner", "ChangePeerID", OwnerWorkerControl);
  ("miner", "ChangePeerIDExported", OwnerWorkerControl);
  ("miner", "SubmitWindowedPoSt", OwnerWorkerControl);
  ("miner", "TerminateSectors", OwnerWorkerControl);
  ("miner", "DeclareFaults", OwnerWorkerControl);
  ("miner", "DeclareFaultsRecovered", OwnerWorkerControl);
  ("miner", "OnDeferredCronEvent", [Power]);
  ("miner", "CheckSectorProven", Anyone);
  ("miner", "ApplyRewards", [Reward]);
  ("miner", "ReportConsensusFault", Anyone);
  ("miner", "WithdrawBalance", [Owner; Beneficiary]);
  ("miner", "WithdrawBalanceExported", [Owner; Beneficiary]);
  ("miner", "InternalSectorSetupForPreseal", [System]);
  ("miner", "ChangeMultiaddrs", OwnerWorkerControl);
  ("miner", "ChangeMultiaddrsExported", OwnerWorkerControl);
  ("miner", "CompactPartitions", OwnerWorkerControl);
  ("miner", "CompactSectorNumbers", OwnerWorkerControl);
  ("miner", "ConfirmChangeWorkerAddress", [Owner]);
  ("miner", "ConfirmChangeWorkerAddressExported", [Owner]);
  ("miner", "RepayDebt", OwnerWorkerControl);
  ("miner", "RepayDebtExported", OwnerWorkerControl);
  ("miner", "ChangeOwnerAddress", [Owner; PendingOwner]);
  ("miner", "ChangeOwnerAddressExported", [Owner; PendingOwner]);
  ("miner", "DisputeWindowedPoSt", Anyone);
  ("miner", "PreCommitSectorBatch2", OwnerWorkerControl);
  ("miner", "ChangeBeneficiary", [Owner; Beneficiary; Nominee]);
  ("miner", "ChangeBeneficiaryExported", [Owner; Beneficiary; Nominee]);
  ("miner", "GetBeneficiary", Anyone);
  ("miner", "GetBeneficiaryExported", Anyone);
  ("miner", "ExtendSectorExpiration2", OwnerWorkerControl);
  ("miner", "GetOwnerExported", Anyone);
  ("miner", "IsControllingAddressExported", Anyone);
  ("miner", "GetSectorSizeExported", Anyone);
  ("miner", "GetAvailableBalanceExported", Anyone);
  ("miner", "GetVestingFundsExported", Anyone);
  ("miner", "GetPeerIDExported", Anyone);
  ("miner", "GetMultiaddrsExported", Anyone);
  ("miner", "ProveCommitSectors3", OwnerWorkerControl);
  ("miner", "ProveReplicaUpdates3", OwnerWorkerControl);
  ("miner", "ProveCommitSectorsNI", OwnerWorkerControl);
  ("miner", "MaxTerminationFeeExported", Anyone);
  ("miner", "InitialPledgeExported", Anyone);
  ("miner", "GenerateSectorLocationExported", Anyone);
  ("miner", "ValidateSectorStatusExported", Anyone);
  ("miner", "GetNominalSectorExpirationExported", Anyone);
  (* multisig: transactions are driven by signers; the configuration only by the wallet itself
     (i.e. through an approved transaction) *)
  ("multisig", "Constructor", [Init]);
  ("multisig", "Propose", [Signer]);
  ("multisig", "Approve", [Signer]);
  ("multisig", "Cancel", [Signer]);
  ("multisig", "AddSigner", [Self]);
  ("multisig", "RemoveSigner", [Self]);
  ("multisig", "SwapSigner", [Self]);
  ("multisig", "ChangeNumApprovalsThreshold", [Self]);
  ("multisig", "LockBalance", [Self]);
  ("multisig", "UniversalReceiverHook", Anyone);
  ("multisig", fallback_name, Anyone);
  (* payment channel: created through init; operated by its two parties only *)
  ("paych", "Constructor", [InitActor]);
  ("paych", "UpdateChannelState", [ChannelFrom; ChannelTo]);
  ("paych", "Settle", [ChannelFrom; ChannelTo]);
  ("paych", "Collect", [ChannelFrom; ChannelTo]);
  (* power *)
  ("power", "Constructor", [System]);
  ("power", "CreateMiner", Anyone);
  ("power", "CreateMinerExported", Anyone);
  ("power", "UpdateClaimedPower", [MinerActor]);
  ("power", "EnrollCronEvent", [MinerActor]);
  ("power", "OnEpochTickEnd", [Cron]);
  ("power", "UpdatePledgeTotal", [MinerActor]);
  ("power", "CurrentTotalPower", Anyone);
  ("power", "NetworkRawPowerExported", Anyone);
  ("power", "MinerRawPowerExported", Anyone);
  ("power", "MinerCountExported", Anyone);
  ("power", "MinerConsensusCountExported", Anyone);
  ("power", "MinerPowerExported", Anyone);
  (* reward *)
  ("reward", "Constructor", [System]);
  ("reward", "AwardBlockReward", [System]);
  ("reward", "ThisEpochReward", Anyone);
  ("reward", "UpdateNetworkKPI", [Power]);
  (* system *)
  ("system", "Constructor", [System]);
  (* verified registry *)
  ("verifreg", "Constructor", [System]);
  ("verifreg", "AddVerifier", [RootKey]);
  ("verifreg", "RemoveVerifier", [RootKey]);
  ("verifreg", "AddVerifiedClient", [Verifier]);
  ("verifreg", "AddVerifiedClientExported", [Verifier]);
  ("verifreg", "RemoveVerifiedClientDataCap", [RootKey]);
  ("verifreg", "RemoveExpiredAllocations", Anyone);
  ("verifreg", "RemoveExpiredAllocationsExported", Anyone);
  ("verifreg", "ClaimAllocations", [MinerActor]);
  ("verifreg", "GetClaims", Anyone);
  ("verifreg", "GetClaimsExported", Anyone);
  ("verifreg", "ExtendClaimTerms", Anyone);
  ("verifreg", "ExtendClaimTermsExported", Anyone);
  ("verifreg", "RemoveExpiredClaims", Anyone);
  ("verifreg", "RemoveExpiredClaimsExported", Anyone);
  ("verifreg", "UniversalReceiverHook", [Datacap])
].

Definition designated (actor method : string) : list class :=
  match find (fun x => String.eqb (fst (fst x)) actor && String.eqb (snd (fst x)) method) spec_table with
  | Some x => snd x
  | None => []            (* nobody: a method without a specification row matches no guard *)
  end.

(* actors that are allowed to expose internal method numbers to EVM / non-built-in callers,
   and the actors with a fallback handler (and from which number on it accepts) *)
Definition spec_unrestricted : list string := ["eam"; "evm"].
Definition spec_fallbacks : list (string * Z) :=
  [("account", FIRST_EXPORTED_METHOD_NUMBER); ("ethaccount", FIRST_EXPORTED_METHOD_NUMBER);
   ("evm", 1024); ("multisig", FIRST_EXPORTED_METHOD_NUMBER)].
(* accept-any handlers whose body nevertheless looks at the caller's identity (reviewed: the
   caller is used as the subject of the operation -- token holder/operator, reporter, creator --
   or checked per item, not as a gate for the whole call) *)
Definition spec_caller_reading_public : list (string * string) :=
  [("datacap", "transfer"); ("datacap", "transfer_from"); ("datacap", "increase_allowance");
   ("datacap", "decrease_allowance"); ("datacap", "revoke_allowance"); ("datacap", "burn");
   ("datacap", "burn_from"); ("evm", "invoke_contract"); ("init", "exec");
   ("miner", "report_consensus_fault"); ("miner", "dispute_windowed_post");
   ("verifreg", "extend_claim_terms")].

(* ------------------------------------------------------------------------------------------ *)
(* boolean checkers over the generated table (the theorems are `... = true` lifted)             *)
(* ------------------------------------------------------------------------------------------ *)
Definition row_matches_spec (a : actor_info) (r : row) : bool :=
  class_set_eqb (guard_classes (r_guard r)) (designated (a_name a) (r_name r)).
Definition fallback_matches_spec (a : actor_info) : bool :=
  match a_fallback a with
  | Some f => class_set_eqb (guard_classes (f_guard f)) (designated (a_name a) fallback_name)
  | None => match designated (a_name a) fallback_name with [] => true | _ => false end
  end.
Definition actor_matches_spec (a : actor_info) : bool :=
  forallb (row_matches_spec a) (a_rows a) && fallback_matches_spec a.
(* no stale specification rows *)
Definition spec_row_in_table (x : string * string * list class) : bool :=
  let '(an, mn, _) := x in
  match find_actor an with
  | Some a => if String.eqb mn fallback_name then match a_fallback a with Some _ => true | None => false end
              else existsb (fun r => String.eqb (r_name r) mn) (a_rows a)
  | None => false
  end.

Definition count_num (n : Z) (l : list row) : nat := List.length (filter (fun r => Z.eqb (r_num r) n) l).
Fixpoint nodupb_z (l : list Z) : bool :=
  match l with [] => true | x :: r => negb (zmem x r) && nodupb_z r end.
Fixpoint nodupb_s (l : list string) : bool :=
  match l with [] => true | x :: r => negb (existsb (String.eqb x) r) && nodupb_s r end.
Definition enum_nums (a : actor_info) : list Z := map (fun x => snd (fst x)) (a_enum a).

(* distinct functions containing validate sites, with their site counts *)
Fixpoint site_fns (l : list (string * Z)) (acc : list (string * Z)) : list (string * Z) :=
  match l with
  | [] => acc
  | (f, n) :: r => if existsb (fun y => String.eqb (fst y) f) acc then site_fns r acc else site_fns r ((f, n) :: acc)
  end.
Definition actor_site_total (a : actor_info) : Z :=
  let l := map (fun r => (r_site_fn r, r_sites r)) (a_rows a)
           ++ match a_fallback a with Some f => [(f_site_fn f, f_sites f)] | None => [] end in
  fold_right (fun x s => snd x + s) 0 (site_fns l []).

Definition actor_complete (a : actor_info) : bool :=
  (* every Method enum number has exactly one dispatch row, and every row is an enum variant *)
  forallb (fun n => Nat.eqb (count_num n (a_rows a)) 1) (enum_nums a)
  && forallb (fun r => existsb (fun x => String.eqb (fst (fst x)) (r_name r) && Z.eqb (snd (fst x)) (r_num r)) (a_enum a)) (a_rows a)
  && nodupb_z (enum_nums a)
  && nodupb_s (map (fun x => fst (fst x)) (a_enum a))
  (* every handler validates: at least one call site on every row (and on the fallback);
     no row claims method number 0 *)
  && forallb (fun r => (1 <=? r_sites r) && (0 <? r_num r)) (a_rows a)
  && match a_fallback a with Some f => 1 <=? f_sites f | None => true end
  (* no validate call site of the file outside the functions reached from the dispatch table *)
  && Z.eqb (actor_site_total a) (a_file_sites a)
  (* actors without dispatch have no methods at all *)
  && (a_has_dispatch a || match a_rows a, a_fallback a with [], None => true | _, _ => false end)
  (* exported numbers are in the FRC-42 range, plain numbers below it *)
  && forallb (fun x => match snd x with
                       | Some _ => FIRST_EXPORTED_METHOD_NUMBER <=? snd (fst x)
                       | None => snd (fst x) <? FIRST_EXPORTED_METHOD_NUMBER
                       end) (a_enum a).

Definition unrestricted_actors : list string :=
  map a_name (filter (fun a => negb (a_restricted a)) actors).
Definition fallback_actors : list (string * Z) :=
  flat_map (fun a => match a_fallback a with Some f => [(a_name a, f_from f)] | None => [] end) actors.
Definition str_pair_eqb (x y : string * string) := String.eqb (fst x) (fst y) && String.eqb (snd x) (snd y).
Definition caller_reading_public : list (string * string) :=
  let all := flat_map (fun a => flat_map (fun r =>
               match r_guard r with
               | AcceptAny => if r_reads_caller r then [(a_name a, r_site_fn r)] else []
               | _ => []
               end) (a_rows a)) actors in
  fold_right (fun x acc => if existsb (str_pair_eqb x) acc then acc else x :: acc) [] all.

(* ------------------------------------------------------------------------------------------ *)
(* the matrix world of the exhaustive correspondence check                                     *)
(* ------------------------------------------------------------------------------------------ *)
(* one representative caller per class; the harness (harness/src/bin/access.rs) builds a real
   world with exactly this shape and asserts it (owner of the target miner = the Owner
   representative, ...). Addresses here are abstract: only their equalities matter. *)
Inductive rep :=
| R_System | R_Init | R_Reward | R_Cron | R_Power | R_Market | R_Verifreg | R_Datacap | R_Eam | R_Burnt
| R_Miner         (* another miner actor (not the target) *)
| R_Account       (* an account without any role *)
| R_Multisig      (* another multisig *)
| R_Paych         (* another payment channel *)
| R_Evm           (* another EVM contract *)
| R_EthAccount | R_Placeholder
| R_NonBuiltin    (* an actor whose code is not a built-in *)
| R_Self          (* the target actor itself *)
| R_Owner | R_Worker | R_Control | R_Beneficiary | R_PendingOwner | R_Nominee   (* of the target miner *)
| R_Signer        (* of the target multisig *)
| R_ChannelFrom | R_ChannelTo                                                   (* of the target paych *)
| R_RootKey       (* the verified registry's root multisig *)
| R_Verifier | R_Client
| R_OriginAccount | R_OriginEthAccount | R_OriginMultisig   (* callers that are also the origin *)
| R_Stranger.     (* a BLS account without any role *)

Definition rep_index (r : rep) : Z :=
  match r with
  | R_System => 0 | R_Init => 1 | R_Reward => 2 | R_Cron => 3 | R_Power => 4 | R_Market => 5
  | R_Verifreg => 6 | R_Datacap => 7 | R_Eam => 8 | R_Burnt => 9 | R_Miner => 10 | R_Account => 11
  | R_Multisig => 12 | R_Paych => 13 | R_Evm => 14 | R_EthAccount => 15 | R_Placeholder => 16
  | R_NonBuiltin => 17 | R_Self => 18 | R_Owner => 19 | R_Worker => 20 | R_Control => 21
  | R_Beneficiary => 22 | R_PendingOwner => 23 | R_Nominee => 24 | R_Signer => 25
  | R_ChannelFrom => 26 | R_ChannelTo => 27 | R_RootKey => 28 | R_Verifier => 29 | R_Client => 30
  | R_OriginAccount => 31 | R_OriginEthAccount => 32 | R_OriginMultisig => 33 | R_Stranger => 34
  end.

(* the target instance of each actor type: (address, type) *)
Definition target (actor : string) : Z * atype :=
  if String.eqb actor "system" then (SYSTEM_ACTOR_ID, T_System)
  else if String.eqb actor "init" then (INIT_ACTOR_ID, T_Init)
  else if String.eqb actor "reward" then (REWARD_ACTOR_ID, T_Reward)
  else if String.eqb actor "cron" then (CRON_ACTOR_ID, T_Cron)
  else if String.eqb actor "power" then (STORAGE_POWER_ACTOR_ID, T_Power)
  else if String.eqb actor "market" then (STORAGE_MARKET_ACTOR_ID, T_Market)
  else if String.eqb actor "verifreg" then (VERIFIED_REGISTRY_ACTOR_ID, T_Verifreg)
  else if String.eqb actor "datacap" then (DATACAP_TOKEN_ACTOR_ID, T_Datacap)
  else if String.eqb actor "eam" then (EAM_ACTOR_ID, T_Eam)
  else if String.eqb actor "account" then (2001, T_Account)
  else if String.eqb actor "ethaccount" then (2002, T_EthAccount)
  else if String.eqb actor "evm" then (2003, T_Evm)
  else if String.eqb actor "miner" then (2004, T_Miner)
  else if String.eqb actor "multisig" then (2005, T_Multisig)
  else if String.eqb actor "paych" then (2006, T_Paych)
  else (2007, T_Placeholder).

Definition f4 := Some EAM_ACTOR_ID.
Definition rep_caller (actor : string) (r : rep) : caller :=
  let mk a t ns := {| c_addr := a; c_code := Builtin t; c_ns := ns |} in
  match r with
  | R_System => mk SYSTEM_ACTOR_ID T_System None
  | R_Init => mk INIT_ACTOR_ID T_Init None
  | R_Reward => mk REWARD_ACTOR_ID T_Reward None
  | R_Cron => mk CRON_ACTOR_ID T_Cron None
  | R_Power => mk STORAGE_POWER_ACTOR_ID T_Power None
  | R_Market => mk STORAGE_MARKET_ACTOR_ID T_Market None
  | R_Verifreg => mk VERIFIED_REGISTRY_ACTOR_ID T_Verifreg None
  | R_Datacap => mk DATACAP_TOKEN_ACTOR_ID T_Datacap None
  | R_Eam => mk EAM_ACTOR_ID T_Eam None
  | R_Burnt => mk BURNT_FUNDS_ACTOR_ID T_Account None
  | R_Miner => mk 1010 T_Miner None
  | R_Account => mk 1011 T_Account None
  | R_Multisig => mk 1012 T_Multisig None
  | R_Paych => mk 1013 T_Paych None
  | R_Evm => mk 1014 T_Evm f4
  | R_EthAccount => mk 1015 T_EthAccount f4
  | R_Placeholder => mk 1016 T_Placeholder f4
  | R_NonBuiltin => {| c_addr := 1017; c_code := NonBuiltin; c_ns := None |}
  | R_Self => let '(a, t) := target actor in
              mk a t (match t with T_Evm | T_EthAccount | T_Placeholder => f4 | _ => None end)
  | R_Owner => mk 1019 T_Account None
  | R_Worker => mk 1020 T_Account None
  | R_Control => mk 1021 T_Account None
  | R_Beneficiary => mk 1022 T_Account None
  | R_PendingOwner => mk 1023 T_Account None
  | R_Nominee => mk 1024 T_Account None
  | R_Signer => mk 1025 T_Account None
  | R_ChannelFrom => mk 1026 T_Account None
  | R_ChannelTo => mk 1027 T_Account None
  | R_RootKey => mk 1028 T_Multisig None
  | R_Verifier => mk 1029 T_Account None
  | R_Client => mk 1030 T_Account None
  | R_OriginAccount => mk 1031 T_Account None
  | R_OriginEthAccount => mk 1032 T_EthAccount f4
  | R_OriginMultisig => mk 1033 T_Multisig None
  | R_Stranger => mk 1034 T_Account None
  end.

Definition addr_of (r : rep) : Z := c_addr (rep_caller "" r).

(* state-relative sources in the prepared world. `variant` selects the parameter set:
   market variant 0 = the escrow party named by the parameters is the target miner,
   market variant 1 = it is the client account. *)
Definition world_state (actor : string) (variant : Z) (s : src) : list Z :=
  if String.eqb actor "miner" then
    match s with
    | S_MinerOwner => [addr_of R_Owner] | S_MinerWorker => [addr_of R_Worker]
    | S_MinerControls => [addr_of R_Control] | S_MinerBeneficiary => [addr_of R_Beneficiary]
    | S_PendingOwner => [addr_of R_PendingOwner] | S_Nominee => [addr_of R_Nominee]
    | _ => []
    end
  else if String.eqb actor "market" then
    match s with
    | S_EscrowMinerOwner => if variant =? 0 then [addr_of R_Owner] else []
    | S_EscrowMinerWorker => if variant =? 0 then [addr_of R_Worker] else []
    | S_EscrowSelf => if variant =? 0 then [] else [addr_of R_Client]
    | S_ProviderControllers => [addr_of R_Owner; addr_of R_Worker; addr_of R_Control]
    | _ => []
    end
  else if String.eqb actor "multisig" then
    match s with S_Signers => [addr_of R_Signer] | _ => [] end
  else if String.eqb actor "paych" then
    match s with
    | S_Field f => if String.eqb f "from" then [addr_of R_ChannelFrom]
                   else if String.eqb f "to" then [addr_of R_ChannelTo] else []
    | _ => []
    end
  else if String.eqb actor "verifreg" then
    match s with
    | S_Field f => if String.eqb f "root_key" then [addr_of R_RootKey] else []
    | S_Verifiers => [addr_of R_Verifier]
    | _ => []
    end
  else if String.eqb actor "datacap" then
    match s with
    | S_Field f => if String.eqb f "governor" then [VERIFIED_REGISTRY_ACTOR_ID] else []
    | _ => []
    end
  else [].

Definition default_origin : Z := 999.
Definition world_env (actor : string) (variant : Z) (r : rep) : env :=
  {| e_receiver := fst (target actor);
     e_origin := match r with
                 | R_OriginAccount | R_OriginEthAccount | R_OriginMultisig => addr_of r
                 | _ => default_origin
                 end;
     e_state := world_state actor variant |}.

Definition expected (actor : string) (variant m : Z) (r : rep) : outcome :=
  match find_actor actor with
  | Some a => dispatch a (world_env actor variant r) m (rep_caller actor r)
  | None => Unhandled
  end.

(* ---- correspondence-check plumbing: one history per (actor, representative) ---- *)
Inductive op :=
| Call (variant m : Z) (r : rep)          (* obs: [outcome code] *)
| EnumIs (variant_name : string) (n : Z)  (* the compiled Rust enum says Method::<name> = n; obs [1] *)
| Covered (nums : list Z).                (* the method numbers the harness drives; obs [1] *)

Definition step (actor : string) (o : op) : string * list Z :=
  (actor,
   match o with
   | Call v m r => [outcome_code (expected actor v m r)]
   | EnumIs nm n =>
       match find_actor actor with
       | Some a => [b2z (existsb (fun x => String.eqb (fst (fst x)) nm && Z.eqb (snd (fst x)) n) (a_enum a))]
       | None => [0]
       end
   | Covered nums =>
       match find_actor actor with
       | Some a => [b2z (forallb (fun n => zmem n nums) (enum_nums a)
                        && Nat.eqb (List.length nums) (List.length (enum_nums a)))]
       | None => [0]
       end
   end).

Definition check_case := @Corr.check string op step.
