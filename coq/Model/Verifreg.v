(* Executable model of the verified registry (actors/verifreg/src/{lib,state,expiration}.rs) joined
   with the DataCap token actor (actors/datacap/src/lib.rs wrapping frc46_token: balances, supply,
   allowances, receiver hook with roll-back).  One `step` = one top-level message; a failing message
   leaves the state unchanged (VM roll-back).  Definitions only.

   Actor ids are Z.  The static `world` says which ids are account actors (they accept the FRC-46
   receiver hook and authenticate signatures), which are miner actors (no receiver hook: exit 22), and
   which multisig is the registry's root key (accepts the hook).  Any other id is treated as "no actor
   at that id".  Singleton actors are never used as verifier/client/provider parameters. *)
From stdpp Require Import gmap.
From Coq Require Import ZArith List Bool.
From VF Require Import Gen.Consts Gen.VerifregConsts Base.Corr.
Import ListNotations.
Open Scope Z_scope.

(* ---------- exit codes ---------- *)
Definition OK := 0.
Definition ILLEGAL_ARGUMENT := 16.
Definition NOT_FOUND := 17.
Definition FORBIDDEN := 18.
Definition INSUFFICIENT_FUNDS := 19.
Definition ILLEGAL_STATE := 20.
Definition SERIALIZATION := 21.
Definition UNHANDLED_MESSAGE := 22.
Definition ASSERTION_FAILED := 24.
(* what a send to an id without an actor answers on the harness VM (the production FVM reports the
   NotFound syscall error, which the runtime turns into USR_UNSPECIFIED = 23); the theorems only use
   that it is not OK *)
Definition NO_ACTOR := 24.

Definition VR := VERIFIED_REGISTRY_ACTOR_ID.
Definition MARKET := STORAGE_MARKET_ACTOR_ID.

(* ---------- result monad ---------- *)
Inductive R (A : Type) := Ok (a : A) | Err (c : Z).
Arguments Ok {A} a.
Arguments Err {A} c.
Definition rbind {A B} (r : R A) (f : A -> R B) : R B :=
  match r with Ok a => f a | Err c => Err c end.
Notation "'let?' x ':=' r 'in' k" := (rbind r (fun x => k))
  (at level 200, x name, r at level 100, k at level 200, right associativity).

(* ---------- data ---------- *)
Record alloc := { a_client : Z; a_provider : Z; a_data : Z; a_size : Z;
                  a_tmin : Z; a_tmax : Z; a_exp : Z }.
Record claim := { c_provider : Z; c_client : Z; c_data : Z; c_size : Z;
                  c_tmin : Z; c_tmax : Z; c_tstart : Z; c_sector : Z }.

Record token := { bal : gmap Z Z; supply : Z; allow : gmap (Z * Z) Z;   (* allow: (owner, operator) *)
                  minted : Z; burnt : Z }.                              (* ghost totals *)
Record registry := { verifiers : gmap Z Z; proposals : gmap (Z * Z) Z;  (* proposals: (verifier, client) *)
                     allocs : gmap (Z * Z) alloc;                       (* (client, id) *)
                     claims : gmap (Z * Z) claim;                       (* (provider, id) *)
                     next_id : Z }.
Record world := { root : Z; accts : list Z; miners : list Z }.
Record state := { wld : world; tok : token; reg : registry }.

Definition init (w : world) : state :=
  {| wld := w;
     tok := {| bal := ∅; supply := 0; allow := ∅; minted := 0; burnt := 0 |};
     reg := {| verifiers := ∅; proposals := ∅; allocs := ∅; claims := ∅; next_id := 1 |} |}.

Definition set_tok (st : state) (t : token) : state := {| wld := wld st; tok := t; reg := reg st |}.
Definition set_reg (st : state) (r : registry) : state := {| wld := wld st; tok := tok st; reg := r |}.

Definition mem (x : Z) (l : list Z) : bool := existsb (Z.eqb x) l.
Definition is_acct (w : world) (x : Z) := mem x (accts w).
Definition is_miner (w : world) (x : Z) := mem x (miners w).
Definition exists_ (w : world) (x : Z) := is_acct w x || is_miner w x || (x =? root w).

(* exit code of the FRC-46 receiver hook (method "Receive") sent to a non-registry actor *)
Definition hook_code (w : world) (target : Z) : Z :=
  if is_acct w target || (target =? root w) then OK
  else if is_miner w target then UNHANDLED_MESSAGE
  else NO_ACTOR.

(* events emitted by the registry (emit.rs), by kind and id *)
Inductive event :=
| EvVerifierBalance (v : Z)
| EvAlloc (id : Z)
| EvAllocRemoved (id : Z)
| EvClaim (id : Z)
| EvClaimUpdated (id : Z)
| EvClaimRemoved (id : Z).

Record out := { code : Z; ret : list Z; evs : list event }.
Definition fail (c : Z) : out := {| code := c; ret := []; evs := [] |}.

(* ---------- frc46_token state primitives (token/state.rs) ---------- *)
Definition balance_of (t : token) (id : Z) : Z := default 0 (bal t !! id).
Definition allowance_of (t : token) (owner operator : Z) : Z := default 0 (allow t !! (owner, operator)).

Definition set_or_delete {K} `{Countable K} (m : gmap K Z) (k : K) (v : Z) : gmap K Z :=
  if v =? 0 then delete k m else <[ k := v ]> m.

(* change_balance_by *)
Definition change_balance (b : gmap Z Z) (id delta : Z) : option (gmap Z Z) :=
  if delta =? 0 then Some b else
  let nb := default 0 (b !! id) + delta in
  if nb <? 0 then None else Some (set_or_delete b id nb).

(* make_transfer *)
Definition make_transfer (b : gmap Z Z) (from to amount : Z) : option (gmap Z Z) :=
  if from =? to then (if default 0 (b !! from) <? amount then None else Some b)
  else match change_balance b from (- amount) with
       | None => None
       | Some b1 => change_balance b1 to amount
       end.

(* validate_amount_with_granularity *)
Definition valid_amount (a : Z) : bool := (0 <=? a) && (a mod DATACAP_GRANULARITY =? 0).

(* change_allowance_by *)
Definition change_allowance (al : gmap (Z * Z) Z) (owner operator delta : Z) : gmap (Z * Z) Z :=
  if delta =? 0 then al else
  set_or_delete al (owner, operator) (Z.max (default 0 (al !! (owner, operator)) + delta) 0).

(* attempt_use_allowance *)
Definition use_allowance (al : gmap (Z * Z) Z) (operator owner amount : Z) : option (gmap (Z * Z) Z) :=
  let cur := default 0 (al !! (owner, operator)) in
  if ((cur =? 0) && negb (operator =? owner)) || (cur <? amount) then None
  else Some (change_allowance al owner operator (- amount)).

(* ---------- frc46_token library calls (token/mod.rs), without the receiver hook ---------- *)
Definition tk_mint (t : token) (to amount : Z) (operators : list Z) : R token :=
  if negb (valid_amount amount) then Err ILLEGAL_ARGUMENT else
  match change_balance (bal t) to amount with
  | None => Err INSUFFICIENT_FUNDS
  | Some b =>
      if supply t + amount <? 0 then Err ILLEGAL_STATE else
      Ok {| bal := b; supply := supply t + amount;
            allow := fold_left (fun al o => <[ (to, o) := INFINITE_ALLOWANCE ]> al) operators (allow t);
            minted := minted t + amount; burnt := burnt t |}
  end.

Definition tk_burn (t : token) (owner amount : Z) : R token :=
  if negb (valid_amount amount) then Err ILLEGAL_ARGUMENT else
  match change_balance (bal t) owner (- amount) with
  | None => Err INSUFFICIENT_FUNDS
  | Some b =>
      if supply t - amount <? 0 then Err ILLEGAL_STATE else
      Ok {| bal := b; supply := supply t - amount; allow := allow t;
            minted := minted t; burnt := burnt t + amount |}
  end.

Definition tk_burn_from (t : token) (operator owner amount : Z) : R token :=
  if negb (valid_amount amount) then Err ILLEGAL_ARGUMENT else
  if operator =? owner then Err ILLEGAL_ARGUMENT else
  match use_allowance (allow t) operator owner amount with
  | None => Err INSUFFICIENT_FUNDS
  | Some al =>
      match change_balance (bal t) owner (- amount) with
      | None => Err INSUFFICIENT_FUNDS
      | Some b =>
          if supply t - amount <? 0 then Err ILLEGAL_STATE else
          Ok {| bal := b; supply := supply t - amount; allow := al;
                minted := minted t; burnt := burnt t + amount |}
      end
  end.

Definition tk_transfer (t : token) (from to amount : Z) : R token :=
  if negb (valid_amount amount) then Err ILLEGAL_ARGUMENT else
  match make_transfer (bal t) from to amount with
  | None => Err INSUFFICIENT_FUNDS
  | Some b => Ok {| bal := b; supply := supply t; allow := allow t;
                    minted := minted t; burnt := burnt t |}
  end.

Definition tk_transfer_from (t : token) (operator from to amount : Z) : R token :=
  if negb (valid_amount amount) then Err ILLEGAL_ARGUMENT else
  if operator =? from then Err ILLEGAL_ARGUMENT else
  match use_allowance (allow t) operator from amount with
  | None => Err INSUFFICIENT_FUNDS
  | Some al =>
      match make_transfer (bal t) from to amount with
      | None => Err INSUFFICIENT_FUNDS
      | Some b => Ok {| bal := b; supply := supply t; allow := al;
                        minted := minted t; burnt := burnt t |}
      end
  end.

Definition tk_set_allow (t : token) (al : gmap (Z * Z) Z) : token :=
  {| bal := bal t; supply := supply t; allow := al; minted := minted t; burnt := burnt t |}.

(* whole DataCap units <-> token units (datacap_to_tokens / tokens_to_datacap) *)
Definition dc2tok (a : Z) : Z := a * TOKEN_PRECISION.
Definition tok2dc (t : Z) : Z := t / TOKEN_PRECISION.

(* ---------- the registry's receiver hook (universal_receiver_hook) ---------- *)
Record areq := { rq_provider : Z; rq_data : Z; rq_size : Z; rq_tmin : Z; rq_tmax : Z; rq_exp : Z }.
Record ereq := { ex_provider : Z; ex_claim : Z; ex_tmax : Z }.
Inductive payload := PMalformed | PReqs (ars : list areq) (ers : list ereq).

(* validate_new_allocation + check_miner_id *)
Definition valid_areq (w : world) (epoch : Z) (r : areq) : bool :=
  negb (rq_size r <? MINIMUM_VERIFIED_ALLOCATION_SIZE) &&
  negb (rq_tmin r <? MINIMUM_VERIFIED_ALLOCATION_TERM) &&
  negb (MAXIMUM_VERIFIED_ALLOCATION_TERM <? rq_tmax r) &&
  negb (rq_tmax r <? rq_tmin r) &&
  negb (rq_exp r <? epoch) &&
  negb (epoch + MAXIMUM_VERIFIED_ALLOCATION_EXPIRATION <? rq_exp r) &&
  is_miner w (rq_provider r).

(* validate_claim_extension *)
Definition check_extension (epoch : Z) (r : ereq) (c : claim) : Z :=
  if (epoch + MAXIMUM_VERIFIED_ALLOCATION_TERM) - c_tstart c <? ex_tmax r then ILLEGAL_ARGUMENT else
  if ex_tmax r <=? c_tmax c then ILLEGAL_ARGUMENT else
  if c_tstart c + c_tmax c <? epoch then FORBIDDEN else OK.

Definition with_tmax (c : claim) (tm : Z) : claim :=
  {| c_provider := c_provider c; c_client := c_client c; c_data := c_data c; c_size := c_size c;
     c_tmin := c_tmin c; c_tmax := tm; c_tstart := c_tstart c; c_sector := c_sector c |}.

(* the loop over reqs.extensions: every request is validated against the claims table as it was
   before the message; returns the updated claims (id, claim) in request order *)
Fixpoint check_extensions (cl : gmap (Z * Z) claim) (epoch : Z) (ers : list ereq)
  : R (list (Z * claim)) :=
  match ers with
  | [] => Ok []
  | r :: rest =>
      match cl !! (ex_provider r, ex_claim r) with
      | None => Err NOT_FOUND
      | Some c =>
          let k := check_extension epoch r c in
          if negb (k =? OK) then Err k else
          let? more := check_extensions cl epoch rest in
          Ok ((ex_claim r, with_tmax c (ex_tmax r)) :: more)
      end
  end.

Definition mk_alloc (client : Z) (r : areq) : alloc :=
  {| a_client := client; a_provider := rq_provider r; a_data := rq_data r; a_size := rq_size r;
     a_tmin := rq_tmin r; a_tmax := rq_tmax r; a_exp := rq_exp r |}.

(* State::insert_allocations: sequential ids from `first` *)
Fixpoint insert_allocs (al : gmap (Z * Z) alloc) (client first : Z) (ars : list areq)
  : gmap (Z * Z) alloc :=
  match ars with
  | [] => al
  | r :: rest => insert_allocs (<[ (client, first) := mk_alloc client r ]> al) client (first + 1) rest
  end.

Fixpoint seqZ (first : Z) (n : nat) : list Z :=
  match n with O => [] | S k => first :: seqZ (first + 1) k end.

(* State::put_claims: stored under the claim's own provider *)
Definition put_claims (cl : gmap (Z * Z) claim) (ups : list (Z * claim)) : gmap (Z * Z) claim :=
  fold_left (fun m '(id, c) => <[ (c_provider c, id) := c ]> m) ups cl.

Definition sumZ (l : list Z) : Z := fold_right Z.add 0 l.

(* runs after the token actor has already moved `amount` from `from` to the registry *)
Definition receiver_hook (st : state) (epoch from amount : Z) (p : payload)
  : R (state * list Z * list event) :=
  match p with
  | PMalformed => Err SERIALIZATION
  | PReqs ars ers =>
      if negb (forallb (valid_areq (wld st) epoch) ars) then Err ILLEGAL_ARGUMENT else
      let? ups := check_extensions (claims (reg st)) epoch ers in
      let alloc_total := sumZ (map rq_size ars) in
      let ext_total := sumZ (map (fun '(_, c) => c_size c) ups) in
      if negb (alloc_total + ext_total =? tok2dc amount) then Err ILLEGAL_ARGUMENT else
      let? t1 := (if ext_total =? 0 then Ok (tok st) else tk_burn (tok st) VR (dc2tok ext_total)) in
      let r := reg st in
      let n := length ars in
      let ids := seqZ (next_id r) n in
      let r' := {| verifiers := verifiers r; proposals := proposals r;
                   allocs := insert_allocs (allocs r) from (next_id r) ars;
                   claims := put_claims (claims r) ups;
                   next_id := next_id r + Z.of_nat n |} in
      Ok ({| wld := wld st; tok := t1; reg := r' |}, ids,
          map EvAlloc ids ++ map (fun '(id, _) => EvClaimUpdated id) ups)
  end.

(* ---------- datacap actor: Transfer / TransferFrom (with the hook and its roll-back) ---------- *)
(* returns the new state, the hook's return (new allocation ids) and the registry events *)
Definition deliver (st : state) (epoch from to amount : Z) (p : payload)
  : R (state * list Z * list event) :=
  if to =? VR then receiver_hook st epoch from amount p
  else let c := hook_code (wld st) to in
       if c =? OK then Ok (st, [], []) else Err c.

Definition dc_transfer (st : state) (epoch from to amount : Z) (p : payload)
  : R (state * list Z * list event) :=
  if negb ((to =? VR) || (from =? VR)) then Err FORBIDDEN else
  let? t1 := tk_transfer (tok st) from to amount in
  deliver (set_tok st t1) epoch from to amount p.

Definition dc_transfer_from (st : state) (epoch operator from to amount : Z) (p : payload)
  : R (state * list Z * list event) :=
  if negb (to =? VR) then Err FORBIDDEN else
  let? t1 := tk_transfer_from (tok st) operator from to amount in
  deliver (set_tok st t1) epoch from to amount p.

(* ---------- registry methods ---------- *)
Definition put_verifier (r : registry) (v cap : Z) : registry :=
  {| verifiers := <[ v := cap ]> (verifiers r); proposals := proposals r; allocs := allocs r;
     claims := claims r; next_id := next_id r |}.

Definition add_verifier (st : state) (caller addr allowance : Z) : R (state * list Z * list event) :=
  if allowance <? MINIMUM_VERIFIED_ALLOCATION_SIZE then Err ILLEGAL_ARGUMENT else
  if negb (exists_ (wld st) addr) then Err NOT_FOUND else
  if negb (caller =? root (wld st)) then Err FORBIDDEN else
  if addr =? root (wld st) then Err ILLEGAL_ARGUMENT else
  if 0 <? tok2dc (balance_of (tok st) addr) then Err ILLEGAL_ARGUMENT else
  Ok (set_reg st (put_verifier (reg st) addr allowance), [], [EvVerifierBalance addr]).

Definition remove_verifier (st : state) (caller addr : Z) : R (state * list Z * list event) :=
  if negb (caller =? root (wld st)) then Err FORBIDDEN else
  match verifiers (reg st) !! addr with
  | None => Err ILLEGAL_ARGUMENT
  | Some _ =>
      let r := reg st in
      Ok (set_reg st {| verifiers := delete addr (verifiers r); proposals := proposals r;
                        allocs := allocs r; claims := claims r; next_id := next_id r |},
          [], [EvVerifierBalance addr])
  end.

Definition add_verified_client (st : state) (caller addr allowance : Z)
  : R (state * list Z * list event) :=
  if allowance <? MINIMUM_VERIFIED_ALLOCATION_SIZE then Err ILLEGAL_ARGUMENT else
  if negb (exists_ (wld st) addr) then Err NOT_FOUND else
  if addr =? root (wld st) then Err ILLEGAL_ARGUMENT else
  match verifiers (reg st) !! caller with
  | None => Err NOT_FOUND
  | Some cap =>
      match verifiers (reg st) !! addr with
      | Some _ => Err ILLEGAL_ARGUMENT
      | None =>
          if cap <? allowance then Err ILLEGAL_ARGUMENT else
          let r' := put_verifier (reg st) caller (cap - allowance) in
          (* datacap Mint: governor only (the caller is the registry), then the receiver hook *)
          let? t1 := tk_mint (tok st) addr (dc2tok allowance) [MARKET] in
          let c := hook_code (wld st) addr in
          if negb (c =? OK) then Err c else
          Ok ({| wld := wld st; tok := t1; reg := r' |}, [], [EvVerifierBalance caller])
      end
  end.

(* a removal proposal signed by `signer` over (client, amount, proposal id) *)
Record sigspec := { ss_signer : Z; ss_pid : Z; ss_amount : Z; ss_client : Z }.

Definition proposal_id (r : registry) (v c : Z) : Z := default 0 (proposals r !! (v, c)).

(* AuthenticateMessage sent to the verifier: account actors check the signature, miners do not
   implement the method *)
Definition auth_code (w : world) (v : Z) (s : sigspec) (pid amount client : Z) : Z :=
  if is_acct w v then
    (if (ss_signer s =? v) && (ss_pid s =? pid) && (ss_amount s =? amount) && (ss_client s =? client)
     then OK else ILLEGAL_ARGUMENT)
  else UNHANDLED_MESSAGE.

Definition remove_data_cap (st : state) (caller client amount v1 : Z) (s1 : sigspec)
    (v2 : Z) (s2 : sigspec) : R (state * list Z * list event) :=
  if negb (exists_ (wld st) v1) then Err NOT_FOUND else
  if negb (exists_ (wld st) v2) then Err NOT_FOUND else
  if v1 =? v2 then Err ILLEGAL_ARGUMENT else
  if negb (caller =? root (wld st)) then Err FORBIDDEN else
  if client =? VR then Err ILLEGAL_ARGUMENT else
  match verifiers (reg st) !! v1, verifiers (reg st) !! v2 with
  | None, _ => Err NOT_FOUND
  | _, None => Err NOT_FOUND
  | Some _, Some _ =>
      let r := reg st in
      let id1 := proposal_id r v1 client in
      let id2 := proposal_id r v2 client in
      let r' := {| verifiers := verifiers r;
                   proposals := <[ (v2, client) := id2 + 1 ]> (<[ (v1, client) := id1 + 1 ]> (proposals r));
                   allocs := allocs r; claims := claims r; next_id := next_id r |} in
      let k1 := auth_code (wld st) v1 s1 id1 amount client in
      if negb (k1 =? OK) then Err k1 else
      let k2 := auth_code (wld st) v2 s2 id2 amount client in
      if negb (k2 =? OK) then Err k2 else
      let burnt_dc := Z.min (tok2dc (balance_of (tok st) client)) amount in
      let? t1 := (if burnt_dc =? 0 then Ok (tok st) else tk_burn (tok st) client (dc2tok burnt_dc)) in
      Ok ({| wld := wld st; tok := t1; reg := r' |}, [client; burnt_dc], [])
  end.

(* ---- claim_allocations ---- *)
Record aclaim := { ac_client : Z; ac_id : Z; ac_data : Z; ac_size : Z }.
Record sgroup := { sg_sector : Z; sg_expiry : Z; sg_claims : list aclaim }.

Definition can_claim_alloc (c : aclaim) (provider : Z) (a : alloc) (epoch expiry : Z) : bool :=
  let life := expiry - epoch in
  (provider =? a_provider a) && (ac_client c =? a_client a) && (ac_data c =? a_data a) &&
  (ac_size c =? a_size a) && (epoch <=? a_exp a) && (a_tmin a <=? life) && (life <=? a_tmax a).

Definition mk_claim (provider epoch sector : Z) (a : alloc) : claim :=
  {| c_provider := provider; c_client := a_client a; c_data := a_data a; c_size := a_size a;
     c_tmin := a_tmin a; c_tmax := a_tmax a; c_tstart := epoch; c_sector := sector |}.

(* first loop of a sector group: all lookups and checks, no state change; Err = the group's fail code *)
Fixpoint group_new_claims (al : gmap (Z * Z) alloc) (provider epoch sector expiry : Z)
    (cs : list aclaim) : R (list (Z * claim)) :=
  match cs with
  | [] => Ok []
  | c :: rest =>
      match al !! (ac_client c, ac_id c) with
      | None => Err NOT_FOUND
      | Some a =>
          if negb (can_claim_alloc c provider a epoch expiry) then Err FORBIDDEN else
          let? more := group_new_claims al provider epoch sector expiry rest in
          Ok ((ac_id c, mk_claim provider epoch sector a) :: more)
      end
  end.

(* second loop: put_if_absent + remove allocation; Err = abort of the whole message *)
Fixpoint apply_new_claims (cl : gmap (Z * Z) claim) (al : gmap (Z * Z) alloc) (provider : Z)
    (news : list (Z * claim)) (space : Z) (ev : list event)
  : R (gmap (Z * Z) claim * gmap (Z * Z) alloc * Z * list event) :=
  match news with
  | [] => Ok (cl, al, space, ev)
  | (id, c) :: rest =>
      match cl !! (provider, id) with
      | Some _ => Err ILLEGAL_ARGUMENT
      | None =>
          apply_new_claims (<[ (provider, id) := c ]> cl) (delete (c_client c, id) al) provider rest
                           (space + c_size c) (ev ++ [EvClaim id])
      end
  end.

Record claim_acc := { ca_claims : gmap (Z * Z) claim; ca_allocs : gmap (Z * Z) alloc;
                      ca_codes : list Z; ca_spaces : list Z; ca_total : Z; ca_evs : list event }.

Fixpoint process_groups (provider epoch : Z) (gs : list sgroup) (acc : claim_acc) : R claim_acc :=
  match gs with
  | [] => Ok acc
  | g :: rest =>
      match group_new_claims (ca_allocs acc) provider epoch (sg_sector g) (sg_expiry g) (sg_claims g) with
      | Err k =>
          process_groups provider epoch rest
            {| ca_claims := ca_claims acc; ca_allocs := ca_allocs acc; ca_codes := ca_codes acc ++ [k];
               ca_spaces := ca_spaces acc; ca_total := ca_total acc; ca_evs := ca_evs acc |}
      | Ok news =>
          let? tup1 :=
             apply_new_claims (ca_claims acc) (ca_allocs acc) provider news 0 (ca_evs acc) in
          let '(cl, al, space, ev) := tup1 in
          process_groups provider epoch rest
            {| ca_claims := cl; ca_allocs := al; ca_codes := ca_codes acc ++ [OK];
               ca_spaces := ca_spaces acc ++ [space]; ca_total := ca_total acc + space; ca_evs := ev |}
      end
  end.

Definition enc_list (l : list Z) : list Z := Z.of_nat (length l) :: l.

Definition claim_allocations (st : state) (epoch caller : Z) (gs : list sgroup) (aon : bool)
  : R (state * list Z * list event) :=
  if negb (is_miner (wld st) caller) then Err FORBIDDEN else
  match gs with
  | [] => Err ILLEGAL_ARGUMENT
  | _ =>
      let r := reg st in
      let? acc := process_groups caller epoch gs
                    {| ca_claims := claims r; ca_allocs := allocs r; ca_codes := []; ca_spaces := [];
                       ca_total := 0; ca_evs := [] |} in
      if aon && existsb (fun k => negb (k =? OK)) (ca_codes acc) then Err ILLEGAL_ARGUMENT else
      let? t1 := (if ca_total acc =? 0 then Ok (tok st)
                  else tk_burn (tok st) VR (dc2tok (ca_total acc))) in
      Ok ({| wld := wld st; tok := t1;
             reg := {| verifiers := verifiers r; proposals := proposals r; allocs := ca_allocs acc;
                       claims := ca_claims acc; next_id := next_id r |} |},
          enc_list (ca_codes acc) ++ enc_list (ca_spaces acc), ca_evs acc)
  end.

(* ---- expiration.rs ---- *)
Fixpoint insert_sortedZ (x : Z) (l : list Z) : list Z :=
  match l with [] => [x] | y :: r => if x <=? y then x :: l else y :: insert_sortedZ x r end.
Definition sortZ (l : list Z) : list Z := fold_right insert_sortedZ [] l.

(* find_expired: ids of `owner`'s records with epoch >= expiration; the implementation returns them
   in HAMT order, the model (and the harness, for this variant only) in increasing order *)
Definition find_expired {A} (expiry : A -> Z) (m : gmap (Z * Z) A) (owner epoch : Z) : list Z :=
  sortZ (omap (fun '(o, id, x) => if (o =? owner) && (expiry x <=? epoch) then Some id else None)
              (map_to_list m)).

(* check_expired: per-candidate result code *)
Definition check_expired {A} (expiry : A -> Z) (m : gmap (Z * Z) A) (owner epoch : Z) (ids : list Z)
  : list Z :=
  map (fun id => match m !! (owner, id) with
                 | None => NOT_FOUND
                 | Some x => if expiry x <=? epoch then OK else FORBIDDEN
                 end) ids.

Fixpoint successes (ids codes : list Z) : list Z :=
  match ids, codes with
  | id :: r, k :: ks => if k =? OK then id :: successes r ks else successes r ks
  | _, _ => []
  end.

Definition claim_expiration (c : claim) : Z := c_tstart c + c_tmax c.

(* the removal loop; None = `.unwrap()` on a missing record = panic = abort with exit 24 *)
Fixpoint remove_all {A} (m : gmap (Z * Z) A) (owner : Z) (ids : list Z) (acc : list A)
  : option (gmap (Z * Z) A * list A) :=
  match ids with
  | [] => Some (m, acc)
  | id :: rest =>
      match m !! (owner, id) with
      | None => None
      | Some x => remove_all (delete (owner, id) m) owner rest (acc ++ [x])
      end
  end.

Definition remove_expired_allocations (st : state) (epoch client : Z) (ids : list Z)
  : R (state * list Z * list event) :=
  let r := reg st in
  let '(considered, codes) :=
     match ids with
     | [] => let f := find_expired a_exp (allocs r) client epoch in (f, map (fun _ => OK) f)
     | _ => (ids, check_expired a_exp (allocs r) client epoch ids)
     end in
  let to_remove := successes considered codes in
  match remove_all (allocs r) client to_remove [] with
  | None => Err ASSERTION_FAILED
  | Some (al, removed) =>
      let recovered := sumZ (map a_size removed) in
      let st1 := set_reg st {| verifiers := verifiers r; proposals := proposals r; allocs := al;
                               claims := claims r; next_id := next_id r |} in
      (* transfer(rt, params.client, &recovered): always sent, even for a zero amount *)
      let? tup2 := dc_transfer st1 epoch VR client (dc2tok recovered) PMalformed in
      let '(st2, _, _) := tup2 in
      Ok (st2, enc_list considered ++ codes ++ [recovered], map EvAllocRemoved to_remove)
  end.

Definition remove_expired_claims (st : state) (epoch provider : Z) (ids : list Z)
  : R (state * list Z * list event) :=
  let r := reg st in
  let '(considered, codes) :=
     match ids with
     | [] => let f := find_expired claim_expiration (claims r) provider epoch in (f, map (fun _ => OK) f)
     | _ => (ids, check_expired claim_expiration (claims r) provider epoch ids)
     end in
  let to_remove := successes considered codes in
  match remove_all (claims r) provider to_remove [] with
  | None => Err ASSERTION_FAILED
  | Some (cl, _) =>
      Ok (set_reg st {| verifiers := verifiers r; proposals := proposals r; allocs := allocs r;
                        claims := cl; next_id := next_id r |},
          enc_list considered ++ codes, map EvClaimRemoved to_remove)
  end.

(* ---- extend_claim_terms: sequential, each term sees the previous updates ---- *)
Fixpoint extend_terms (cl : gmap (Z * Z) claim) (caller : Z) (terms : list (Z * Z * Z))
    (codes : list Z) (ev : list event) : gmap (Z * Z) claim * list Z * list event :=
  match terms with
  | [] => (cl, codes, ev)
  | (provider, id, tmax) :: rest =>
      if MAXIMUM_VERIFIED_ALLOCATION_TERM <? tmax
      then extend_terms cl caller rest (codes ++ [ILLEGAL_ARGUMENT]) ev else
      match cl !! (provider, id) with
      | None => extend_terms cl caller rest (codes ++ [NOT_FOUND]) ev
      | Some c =>
          if negb (c_client c =? caller) then extend_terms cl caller rest (codes ++ [FORBIDDEN]) ev else
          if tmax <? c_tmax c then extend_terms cl caller rest (codes ++ [ILLEGAL_ARGUMENT]) ev else
          extend_terms (<[ (provider, id) := with_tmax c tmax ]> cl) caller rest (codes ++ [OK])
                       (ev ++ [EvClaimUpdated id])
      end
  end.

Definition extend_claim_terms (st : state) (caller : Z) (terms : list (Z * Z * Z))
  : R (state * list Z * list event) :=
  let r := reg st in
  let '(cl, codes, ev) := extend_terms (claims r) caller terms [] [] in
  Ok (set_reg st {| verifiers := verifiers r; proposals := proposals r; allocs := allocs r;
                    claims := cl; next_id := next_id r |}, enc_list codes, ev).

Definition enc_claim (c : claim) : list Z :=
  [c_provider c; c_client c; c_data c; c_size c; c_tmin c; c_tmax c; c_tstart c; c_sector c].

Definition get_claims (st : state) (provider : Z) (ids : list Z) : R (state * list Z * list event) :=
  let found := map (fun id => claims (reg st) !! (provider, id)) ids in
  Ok (st, enc_list (map (fun o => match o with None => NOT_FOUND | Some _ => OK end) found)
          ++ flat_map (fun o => match o with None => [] | Some c => enc_claim c end) found, []).

(* ---------- operations = top-level messages ---------- *)
Inductive op :=
| AddVerifier (caller addr allowance : Z)
| RemoveVerifier (caller addr : Z)
| AddClient (caller addr allowance : Z)
| RemoveDataCap (caller client amount v1 : Z) (s1 : sigspec) (v2 : Z) (s2 : sigspec)
| Transfer (epoch caller to amount : Z) (p : payload)
| TransferFrom (epoch caller from to amount : Z) (p : payload)
| ClaimAllocs (epoch caller : Z) (gs : list sgroup) (aon : bool)
| RemoveExpAllocs (epoch caller client : Z) (ids : list Z)
| RemoveExpClaims (epoch caller provider : Z) (ids : list Z)
| ExtendTerms (caller : Z) (terms : list (Z * Z * Z))
| GetClaims (caller provider : Z) (ids : list Z)
| Burn (caller amount : Z)
| BurnFrom (caller owner amount : Z)
| IncAllowance (caller operator delta : Z)
| DecAllowance (caller operator delta : Z)
| RevokeAllowance (caller operator : Z).

Definition exec (st : state) (o : op) : R (state * list Z * list event) :=
  match o with
  | AddVerifier c a al => add_verifier st c a al
  | RemoveVerifier c a => remove_verifier st c a
  | AddClient c a al => add_verified_client st c a al
  | RemoveDataCap c cl am v1 s1 v2 s2 => remove_data_cap st c cl am v1 s1 v2 s2
  | Transfer e c to am p =>
      let? tup3 := dc_transfer st e c to am p in
      let '(st', ids, ev) := tup3 in
      (* transfer_return reads the balances from the state the actor loaded BEFORE calling the
         receiver hook: a burn made by the hook (claim extensions) is not reflected *)
      let t1 := match tk_transfer (tok st) c to am with Ok t => t | Err _ => tok st end in
      Ok (st', [balance_of t1 c; balance_of t1 to] ++ enc_list ids, ev)
  | TransferFrom e c from to am p =>
      let? tup4 := dc_transfer_from st e c from to am p in
      let '(st', ids, ev) := tup4 in
      let t1 := match tk_transfer_from (tok st) c from to am with Ok t => t | Err _ => tok st end in
      Ok (st', [balance_of t1 from; balance_of t1 to; allowance_of t1 from c] ++ enc_list ids, ev)
  | ClaimAllocs e c gs aon => claim_allocations st e c gs aon
  | RemoveExpAllocs e _ cl ids => remove_expired_allocations st e cl ids
  | RemoveExpClaims e _ p ids => remove_expired_claims st e p ids
  | ExtendTerms c ts => extend_claim_terms st c ts
  | GetClaims _ p ids => get_claims st p ids
  | Burn c am =>
      let? t := tk_burn (tok st) c am in Ok (set_tok st t, [balance_of t c], [])
  | BurnFrom c owner am =>
      let? t := tk_burn_from (tok st) c owner am in
      Ok (set_tok st t, [balance_of t owner; allowance_of t owner c], [])
  | IncAllowance c o d =>
      if d <? 0 then Err ILLEGAL_ARGUMENT else
      let t := tk_set_allow (tok st) (change_allowance (allow (tok st)) c o d) in
      Ok (set_tok st t, [allowance_of t c o], [])
  | DecAllowance c o d =>
      if d <? 0 then Err ILLEGAL_ARGUMENT else
      let t := tk_set_allow (tok st) (change_allowance (allow (tok st)) c o (- d)) in
      Ok (set_tok st t, [allowance_of t c o], [])
  | RevokeAllowance c o =>
      let t := tk_set_allow (tok st) (delete (c, o) (allow (tok st))) in
      Ok (set_tok st t, [allowance_of (tok st) c o], [])
  end.

Definition step (st : state) (o : op) : state * out :=
  match exec st o with
  | Ok (st', r, ev) => (st', {| code := OK; ret := r; evs := ev |})
  | Err c => (st, fail c)
  end.

Definition run (st : state) (ops : list op) : state := fold_left (fun s o => fst (step s o)) ops st.

(* ---------- observation encoding ---------- *)
Definition zz_leb (a b : Z * Z) : bool :=
  (fst a <? fst b) || ((fst a =? fst b) && (snd a <=? snd b)).

Section Sorted.
  Context {K A : Type} (leb : K -> K -> bool).
  Fixpoint ins_sorted (x : K * A) (l : list (K * A)) : list (K * A) :=
    match l with
    | [] => [x]
    | y :: r => if leb (fst x) (fst y) then x :: l else y :: ins_sorted x r
    end.
  Definition sort_by (l : list (K * A)) : list (K * A) := fold_right ins_sorted [] l.
End Sorted.

Definition sortedZ {A} (m : gmap Z A) : list (Z * A) := sort_by Z.leb (map_to_list m).
Definition sortedZZ {A} (m : gmap (Z * Z) A) : list (Z * Z * A) := sort_by zz_leb (map_to_list m).

Definition enc_event (e : event) : list Z :=
  match e with
  | EvVerifierBalance v => [1; v]
  | EvAlloc i => [2; i]
  | EvAllocRemoved i => [3; i]
  | EvClaim i => [4; i]
  | EvClaimUpdated i => [5; i]
  | EvClaimRemoved i => [6; i]
  end.

Definition enc_alloc (a : alloc) : list Z :=
  [a_client a; a_provider a; a_data a; a_size a; a_tmin a; a_tmax a; a_exp a].

Definition obs_state (st : state) : list Z :=
  let t := tok st in let r := reg st in
  [supply t] ++
  enc_list (flat_map (fun '(k, v) => [k; v]) (sortedZ (bal t))) ++
  enc_list (flat_map (fun '(o, p, v) => [o; p; v]) (sortedZZ (allow t))) ++
  enc_list (flat_map (fun '(k, v) => [k; v]) (sortedZ (verifiers r))) ++
  enc_list (flat_map (fun '(v, c, i) => [v; c; i]) (sortedZZ (proposals r))) ++
  [next_id r] ++
  enc_list (flat_map (fun '(c, i, a) => [c; i] ++ enc_alloc a) (sortedZZ (allocs r))) ++
  enc_list (flat_map (fun '(p, i, c) => [p; i] ++ enc_claim c) (sortedZZ (claims r))).

Definition obs (st : state) (o : out) : list Z :=
  [code o] ++ enc_list (ret o) ++ enc_list (flat_map enc_event (evs o)) ++ obs_state st.

Definition stepo (st : state) (o : op) : state * list Z :=
  let '(st', r) := step st o in (st', obs st' r).

Definition check_case := @Corr.check state op stepo.
