(* Executable model of the Ethereum Address Manager (actors/eam/src/lib.rs), of the part of the EVM
   actor that decides contract identities (actors/evm/src/lib.rs constructor / resurrect / is_dead,
   interpreter/system.rs nonce + flush/reload, interpreter/instructions/lifecycle.rs CREATE/CREATE2/
   SELFDESTRUCT), of Power.CreateMiner's use of Init.Exec, and of one top-level message of the
   harness VM.  Definitions only.

   keccak256 is a Section variable.  The bytes that are hashed are computed here, byte by byte:
   `rlp_addr_nonce` transcribes what rlp::RlpStream produces for
   `begin_list(2).append(&&from.0[..]).append(&nonce)`, `create2_preimage` is
   0xff ‖ from ‖ salt ‖ keccak(initcode).

   EVM contracts are the harness's hand-assembled ones; their initcode is described by `icode`
   (what the constructor does) and their runtime code by `rcode` (Init.v). *)
From stdpp Require Import gmap.
From Coq Require Import ZArith NArith List Bool Uint63.
From VF Require Import Gen.Consts Gen.Identity Base.Corr Model.Init.
Import ListNotations.
Open Scope Z_scope.

(* ---------------------------------------------------------------------------------------------- *)
(* bytes *)

(* u64::to_be_bytes restricted to the low k bytes *)
Fixpoint be_fix (k : nat) (n : Z) : list Z :=
  match k with
  | O => []
  | S k' => be_fix k' (n / 256) ++ [n mod 256]
  end.
Fixpoint strip0 (l : list Z) : list Z :=
  match l with
  | 0 :: r => strip0 r
  | _ => l
  end.
(* rlp impl_encodable_for_u!(u64): to_be_bytes()[leading_zeros/8 ..] *)
Definition be_min (n : Z) : list Z := strip0 (be_fix 8 n).

(* BasicEncoder::encode_value for at most 55 bytes *)
Definition rlp_str (b : list Z) : list Z :=
  match b with
  | [] => [128]
  | [x] => if x <? 128 then [x] else [129; x]
  | _ => (128 + Z.of_nat (length b)) :: b
  end.
(* insert_list_payload for a payload of at most 55 bytes *)
Definition rlp_list (payload : list Z) : list Z := (192 + Z.of_nat (length payload)) :: payload.

Definition rlp_addr_nonce (from : list Z) (nonce : Z) : list Z :=
  rlp_list (rlp_str from ++ rlp_str (be_min nonce)).

Definition create2_preimage (from salt codehash : list Z) : list Z :=
  [255] ++ from ++ salt ++ codehash.

(* hash_20: rt.hash(Keccak256, data)[12..32] *)
Definition last20 (digest : list Z) : list Z := skipn 12 digest.

(* EthAddress::from_id *)
Definition eth_of_id (i : N) : list Z := 255 :: repeat 0 11 ++ be_fix 8 (Z.of_N i).
Definition zero20 : list Z := repeat 0 20.

(* ---------------------------------------------------------------------------------------------- *)
(* reserved ranges (actors/evm/shared/src/address.rs) and can_assign_address *)
Definition all_zero (l : list Z) : bool := forallb (Z.eqb 0) l.
Definition is_null (a : list Z) : bool := all_zero a.
Definition is_precompile (a : list Z) : bool :=
  match a with
  | prefix :: rest =>
      existsb (Z.eqb prefix) PRECOMPILE_PREFIXES && all_zero (firstn (Z.to_nat PRECOMPILE_ZERO_MIDDLE) rest)
  | [] => false
  end.
Definition is_id (a : list Z) : bool :=
  match a with
  | prefix :: rest => (prefix =? ID_MASK_PREFIX) && all_zero (firstn (Z.to_nat (ID_MASK_ZERO_UNTIL - 1)) rest)
  | [] => false
  end.
Definition can_assign (a : list Z) : bool :=
  (negb ASSIGN_REJECTS_PRECOMPILE || negb (is_precompile a))
  && (negb ASSIGN_REJECTS_ID || negb (is_id a))
  && (negb ASSIGN_REJECTS_NULL || negb (is_null a)).

(* the 20-byte Ethereum address behind a delegated address of the EAM namespace *)
Inductive eth_lookup := EL_ok (a : list Z) | EL_badlen | EL_none.
Definition eth_of_deleg (d : option addr) : eth_lookup :=
  match d with
  | Some (4 :: ns :: sub) =>
      if ns =? EAM_ACTOR_ID then (if (length sub =? 20)%nat then EL_ok sub else EL_badlen) else EL_none
  | _ => EL_none
  end.

(* ---------------------------------------------------------------------------------------------- *)
(* contracts of the harness *)
Inductive icode :=
| IC_empty                      (* empty initcode: a contract without code *)
| IC_kill                       (* returns the "killable" runtime *)
| IC_factory                    (* returns the factory runtime *)
| IC_revert                     (* constructor REVERTs *)
| IC_ef                         (* constructor returns code starting with 0xEF (EIP-3541: rejected) *)
| IC_ctor_kill                  (* constructor SELFDESTRUCTs *)
| IC_ctor_create (child : icode). (* constructor CREATEs `child`, then returns the killable runtime *)

Inductive cmd :=
| K_empty                       (* empty calldata *)
| K_kill                        (* calldata 0x80: SELFDESTRUCT (killable and factory runtimes) *)
| K_fac (flags : Z) (salt codehash : list Z) (child : icode).
(* factory flags: 1 CREATE2 instead of CREATE; 2 create twice; 4 REVERT at the end;
   8 between the two creations CALL the first child with calldata 0x80; 16 first creation carries an
   endowment larger than the balance *)

Inductive ret :=
| Ret_none
| Ret_exec (id : N) (robust : addr)
| Ret_eam (id : N) (robust : option addr) (eth : list Z)
| Ret_fac (a1 a2 : list Z).

Definition get_evm (w : world) (i : N) : option evm_st :=
  match actors w !! i with Some a => a_evm a | None => None end.
Definition set_evm (w : world) (i : N) (e : evm_st) : world :=
  match actors w !! i with
  | Some a => set_actor w i {| a_code := a_code a; a_deleg := a_deleg a; a_evm := Some e |}
  | None => w
  end.
Definition with_nonce (e : evm_st) (n : Z) : evm_st := {| e_nonce := n; e_tomb := e_tomb e; e_rt := e_rt e |}.
Definition with_tomb (e : evm_st) (t : option (N * Z)) : evm_st := {| e_nonce := e_nonce e; e_tomb := t; e_rt := e_rt e |}.
Definition with_rt (e : evm_st) (r : rcode) : evm_st := {| e_nonce := e_nonce e; e_tomb := e_tomb e; e_rt := r |}.
Definition fresh_evm : evm_st := {| e_nonce := EVM_INITIAL_NONCE; e_tomb := None; e_rt := R_none |}.

Definition cur_tomb (mc : mctx) : N * Z := (m_origin mc, m_seq mc).
(* actors/evm/src/lib.rs is_dead *)
Definition is_dead (mc : mctx) (e : evm_st) : bool :=
  match e_tomb e with
  | Some (o, s) => negb ((o =? m_origin mc)%N && (s =? m_seq mc))
  | None => false
  end.

Section WithKeccak.
  Variable keccak : list Z -> list Z.

  (* a contract body: initialize_evm_contract on a fresh System for the actor `self` *)
  Definition body_t := N -> world -> nctx -> nctx * res world.

  (* EvmContractActor::constructor (sent by init) *)
  Definition evm_constructor (body : body_t) : ctor_t := fun id w nc =>
    match actors w !! id with
    | None => (nc, Err SYS_INVALID_RECEIVER)
    | Some a =>
        match a_evm a with
        | Some _ => (nc, Err ILLEGAL_STATE)                (* System::create: state root not empty *)
        | None =>
            match eth_of_deleg (a_deleg a) with
            | EL_ok _ => body id w nc
            | EL_badlen => (nc, Err USR_ASSERTION_FAILED)
            | EL_none => (nc, Err FORBIDDEN)               (* contract doesn't have an eth address *)
            end
        end
    end.

  (* EvmContractActor::resurrect (sent by the EAM) *)
  Definition evm_resurrect (body : body_t) (mc : mctx) : ctor_t := fun id w nc =>
    match actors w !! id with
    | None => (nc, Err SYS_INVALID_RECEIVER)
    | Some a =>
        match a_evm a with
        | None => (nc, Err 21)
        | Some e =>
            if negb (is_dead mc e) then (nc, Err FORBIDDEN)   (* can only resurrect a dead contract *)
            else match eth_of_deleg (a_deleg a) with
                 | EL_ok _ => body id w nc
                 | EL_badlen => (nc, Err USR_ASSERTION_FAILED)
                 | EL_none => (nc, Err FORBIDDEN)
                 end
        end
    end.

  (* eam create_actor *)
  Definition eam_create_actor (body : body_t) (mc : mctx) (w : world) (nc : nctx) (new_addr : list Z)
    : nctx * res (world * ret) :=
    if EAM_GUARDS_RESERVED_FIRST && negb (can_assign new_addr) then (nc, Err FORBIDDEN) else
    let via_exec4 :=
      match init_exec4 (evm_constructor body) mc w nc EAM_ID new_addr C_Evm with
      | (nc', Err e) => (nc', Err (checked e))
      | (nc', Ok (w', (id, robust))) => (nc', Ok (w', Ret_eam id (Some robust) new_addr))
      end in
    match amap w !! f4 EAM_ID new_addr with
    | None => via_exec4
    | Some id =>
        match actors w !! id with
        | None => (nc, Err USR_ASSERTION_FAILED)
        | Some a =>
            if code_eqb (a_code a) C_Evm then
              match evm_resurrect body mc id w nc with
              | (nc', Err e) => (nc', Err (checked e))
              | (nc', Ok w') => (nc', Ok (w', Ret_eam id None new_addr))
              end
            else if is_placeholder (a_code a) then via_exec4
            else (nc, Err FORBIDDEN)
        end
    end.

  (* EamActor::create / create2 : callable by EVM actors only *)
  Definition eam_caller_eth (w : world) (caller : N) : res (list Z) :=
    match actors w !! caller with
    | None => Err SYS_ASSERTION_FAILED
    | Some ca =>
        if negb (code_eqb (a_code ca) C_Evm) then Err SYS_ASSERTION_FAILED   (* vvm: caller type *)
        else match eth_of_deleg (a_deleg ca) with
             | EL_ok a => Ok a
             | _ => Err FORBIDDEN
             end
    end.

  Definition create_address (from : list Z) (nonce : Z) : list Z := last20 (keccak (rlp_addr_nonce from nonce)).
  Definition create2_address (from salt codehash : list Z) : list Z :=
    last20 (keccak (create2_preimage from salt codehash)).

  Definition eam_create (body : body_t) (mc : mctx) (w : world) (nc : nctx) (caller : N) (nonce : Z)
    : nctx * res (world * ret) :=
    match eam_caller_eth w caller with
    | Err e => (nc, Err e)
    | Ok from =>
        eam_create_actor body mc w (logp nc (rlp_addr_nonce from nonce)) (create_address from nonce)
    end.

  Definition eam_create2 (body : body_t) (mc : mctx) (w : world) (nc : nctx) (caller : N)
      (salt codehash : list Z) : nctx * res (world * ret) :=
    match eam_caller_eth w caller with
    | Err e => (nc, Err e)
    | Ok from =>
        eam_create_actor body mc w (logp nc (create2_preimage from salt codehash))
          (create2_address from salt codehash)
    end.

  (* EamActor::create_external; `key` is what the account actor answers to PubkeyAddress *)
  Definition eam_create_external (body : body_t) (mc : mctx) (w : world) (nc : nctx) (caller : N)
      (key : addr) : nctx * res (world * ret) :=
    if negb (caller =? m_origin mc)%N then (nc, Err FORBIDDEN) else
    match actors w !! caller with
    | None => (nc, Err USR_ASSERTION_FAILED)
    | Some ca =>
        let stable :=
          match a_code ca with
          | C_Account => Ok (last20 (keccak key))
          | C_EthAccount => match eth_of_deleg (a_deleg ca) with EL_ok a => Ok a | _ => Err FORBIDDEN end
          | _ => Err FORBIDDEN
          end in
        match stable with
        | Err e => (nc, Err e)
        | Ok st =>
            eam_create_actor body mc w (logp nc (rlp_addr_nonce st (m_seq mc))) (create_address st (m_seq mc))
        end
    end.

  (* lifecycle.rs create_common, seen from the creating contract `self` whose in-memory state is `e`:
     returns the world, the in-memory state afterwards and the word pushed on the stack *)
  Definition do_create (child : body_t) (mc : mctx) (w : world) (nc : nctx) (self : N) (e : evm_st)
      (use2 : bool) (salt codehash : list Z) (big_endowment : bool)
    : nctx * (world * evm_st * list Z) :=
    if big_endowment then (nc, (w, e, zero20)) else          (* checked before the nonce is touched *)
    let e_sent := with_nonce e (e_nonce e + 1) in            (* system.increment_nonce() *)
    let w1 := set_evm w self e_sent in                      (* System::send_raw flushes first *)
    let '(nc', r) :=
      if use2 then eam_create2 child mc w1 nc self salt codehash
      else eam_create child mc w1 nc self (e_nonce e) in    (* CreateParams.nonce = the old nonce *)
    match r with
    | Ok (w2, Ret_eam _ _ eth) =>
        (nc', (w2, match get_evm w2 self with Some x => x | None => e_sent end, eth))   (* reload *)
    | Ok (w2, _) => (nc', (w2, e_sent, zero20))
    | Err _ => (nc', (w1, e_sent, zero20))                 (* the child's failure is swallowed *)
    end.

  (* initialize_evm_contract: the constructor bodies of the harness's initcodes *)
  Fixpoint init_body (ic : icode) (mc : mctx) : body_t := fun self w nc =>
    match ic with
    | IC_empty => (nc, Ok (set_evm w self fresh_evm))
    | IC_kill => (nc, Ok (set_evm w self (with_rt fresh_evm R_kill)))
    | IC_factory => (nc, Ok (set_evm w self (with_rt fresh_evm R_factory)))
    | IC_revert => (nc, Err EVM_CONTRACT_REVERTED)
    | IC_ef => (nc, Err ILLEGAL_ARGUMENT)
    | IC_ctor_kill => (nc, Ok (set_evm w self (with_tomb fresh_evm (Some (cur_tomb mc)))))
    | IC_ctor_create child =>
        let '(nc', (w', e', _)) := do_create (init_body child mc) mc w nc self fresh_evm false [] [] false in
        (nc', Ok (set_evm w' self (with_rt e' R_kill)))
    end.

  (* a CALL with calldata 0x80 from a running contract: the callee self-destructs if it can *)
  Definition call_kill (mc : mctx) (w : world) (target : N) : world :=
    match get_evm w target with
    | Some e =>
        if is_dead mc e then w else
        match e_rt e with
        | R_none => w
        | _ => set_evm w target (with_tomb e (Some (cur_tomb mc)))
        end
    | None => w
    end.

  Definition flag (flags : Z) (bit : Z) : bool := Z.testbit flags bit.

  Definition run_factory (mc : mctx) (w : world) (nc : nctx) (self : N) (e : evm_st)
      (flags : Z) (salt codehash : list Z) (child : icode) : nctx * res (world * ret) :=
    let body := init_body child mc in
    let '(nc1, (w1, e1, a1)) := do_create body mc w nc self e (flag flags 0) salt codehash (flag flags 4) in
    let '(nc2, (w2, e2, a2)) :=
      if flag flags 1 then
        let w1' :=
          if flag flags 3 && negb (all_zero a1) then
            match amap w1 !! f4 EAM_ID a1 with Some cid => call_kill mc w1 cid | None => w1 end
          else w1 in
        let e1' := match get_evm w1' self with Some x => x | None => e1 end in
        do_create body mc w1' nc1 self e1' (flag flags 0) salt codehash false
      else (nc1, (w1, e1, zero20)) in
    if flag flags 2 then (nc2, Err EVM_CONTRACT_REVERTED)
    else (nc2, Ok (set_evm w2 self e2, Ret_fac a1 a2)).

  (* EvmContractActor::invoke_contract on the harness's contracts *)
  Definition UNMODELLED := 999.
  Definition evm_invoke (mc : mctx) (w : world) (nc : nctx) (target : N) (k : cmd)
    : nctx * res (world * ret) :=
    match actors w !! target with
    | None => (nc, Err SYS_INVALID_RECEIVER)
    | Some a =>
        if negb (code_eqb (a_code a) C_Evm) then (nc, Err UNMODELLED) else
        match a_evm a with
        | None => (nc, Err UNMODELLED)
        | Some e =>
            if is_dead mc e then (nc, Ok (w, Ret_none)) else
            match e_rt e, k with
            | R_none, _ => (nc, Ok (w, Ret_none))
            | _, K_empty => (nc, Ok (w, Ret_none))
            | R_kill, _ | R_factory, K_kill =>
                (nc, Ok (set_evm w target (with_tomb e (Some (cur_tomb mc))), Ret_none))
            | R_factory, K_fac flags salt ch child => run_factory mc w nc target e flags salt ch child
            end
        end
    end.

  (* ------------------------------------------------------------------------------------------ *)
  (* one top-level message *)
  Record hdr := { h_from : N; h_seq : Z; h_robusts : list addr }.
  Definition mctx_of (h : hdr) : mctx :=
    {| m_origin := h_from h; m_seq := h_seq h;
       m_robust := fun n => nth (N.to_nat n) (h_robusts h) [] |}.

  Inductive ctor_spec := CS_evm (ic : icode) | CS_oracle (exit : Z).

  Inductive op :=
  | Send (h : hdr) (d : dest)
  | Exec (h : hdr) (c : code) (ctor : Z)
  | CreateMiner (h : hdr) (ctor : Z)
  | Exec4 (h : hdr) (sub : list Z) (c : code) (cs : ctor_spec)
  | EamCreate (h : hdr) (nonce : Z) (ic : icode)
  | EamCreate2 (h : hdr) (salt codehash : list Z) (ic : icode)
  | EamCreateExternal (h : hdr) (key : addr) (ic : icode)
  | Invoke (h : hdr) (target : N) (k : cmd)
  | Dump.

  Definition hdr_of (o : op) : option hdr :=
    match o with
    | Send h _ | Exec h _ _ | CreateMiner h _ | Exec4 h _ _ _ | EamCreate h _ _ | EamCreate2 h _ _ _
    | EamCreateExternal h _ _ | Invoke h _ _ => Some h
    | Dump => None
    end.

  (* Vvm::execute_message: a placeholder that sends a message becomes an EthAccount for good *)
  Definition pre_msg (w : world) (from : N) : world :=
    match actors w !! from with
    | Some a =>
        if is_placeholder (a_code a)
        then set_actor w from {| a_code := C_EthAccount; a_deleg := a_deleg a; a_evm := a_evm a |}
        else w
    | None => w
    end.

  Definition ctor_of (cs : ctor_spec) (mc : mctx) : ctor_t :=
    match cs with
    | CS_evm ic => evm_constructor (init_body ic mc)
    | CS_oracle z => oracle_ctor z
    end.

  Definition wrap_exec (x : nctx * res (world * (N * addr))) : nctx * res (world * ret) :=
    match x with
    | (nc, Ok (w, (id, r))) => (nc, Ok (w, Ret_exec id r))
    | (nc, Err e) => (nc, Err e)
    end.

  Definition run_op (mc : mctx) (w : world) (o : op) : nctx * res (world * ret) :=
    match o with
    | Send h d =>
        match resolve_target w nctx0 d with
        | (nc, Ok (w', _)) => (nc, Ok (w', Ret_none))
        | (nc, Err e) => (nc, Err e)
        end
    | Exec h c ctor => wrap_exec (init_exec (oracle_ctor ctor) mc w nctx0 (h_from h) c)
    | CreateMiner h ctor =>
        match init_exec (oracle_ctor ctor) mc w nctx0 POWER_ID C_Miner with
        | (nc, Ok (w', (id, r))) => (nc, Ok (w', Ret_exec id r))
        | (nc, Err e) => (nc, Err (checked e))
        end
    | Exec4 h sub c cs => wrap_exec (init_exec4 (ctor_of cs mc) mc w nctx0 (h_from h) sub c)
    | EamCreate h nonce ic => eam_create (init_body ic mc) mc w nctx0 (h_from h) nonce
    | EamCreate2 h salt ch ic => eam_create2 (init_body ic mc) mc w nctx0 (h_from h) salt ch
    | EamCreateExternal h key ic => eam_create_external (init_body ic mc) mc w nctx0 (h_from h) key
    | Invoke h target k => evm_invoke mc w nctx0 target k
    | Dump => (nctx0, Ok (w, Ret_none))
    end.

  (* the committed state after the message, what survives roll-back, and the result *)
  Definition step (w : world) (o : op) : world * nctx * res ret :=
    match hdr_of o with
    | None => (w, nctx0, Ok Ret_none)
    | Some h =>
        let w0 := pre_msg w (h_from h) in
        match run_op (mctx_of h) w0 o with
        | (nc, Ok (w', r)) => (w', nc, Ok r)
        | (nc, Err e) => (w0, nc, Err e)
        end
    end.

  Definition run (w : world) (ops : list op) : world := fold_left (fun w o => fst (fst (step w o))) ops w.
End WithKeccak.

(* ---------------------------------------------------------------------------------------------- *)
(* observation encoding *)
(* a byte string is observed as its length followed by its 7-byte big-endian limbs (each < 2^56, so
   the case files can carry them as primitive-integer literals, which Coq reads quickly) *)
Definition be_val (l : list Z) : Z := fold_left (fun a b => a * 256 + b) l 0.
Fixpoint chunks7 (fuel : nat) (l : list Z) : list (list Z) :=
  match fuel with
  | O => []
  | S f => match l with [] => [] | _ => firstn 7 l :: chunks7 f (skipn 7 l) end
  end.
Definition enc_bytes (l : list Z) : list Z := Z.of_nat (length l) :: map be_val (chunks7 (length l) l).
(* byte-string literals of the case files: length and limbs *)
Fixpoint B (len : nat) (l : list int) : list Z :=
  match l with
  | [] => []
  | [x] => be_fix len (Uint63.to_Z x)
  | x :: r => be_fix 7 (Uint63.to_Z x) ++ B (len - 7) r
  end.
Definition enc_obytes (o : option (list Z)) : list Z :=
  match o with None => [0] | Some l => 1 :: enc_bytes l end.

Definition enc_ret (r : ret) : list Z :=
  match r with
  | Ret_none => [0]
  | Ret_exec id rb => [1; Z.of_N id] ++ enc_bytes rb
  | Ret_eam id rb eth => [2; Z.of_N id] ++ enc_obytes rb ++ enc_bytes eth
  | Ret_fac a1 a2 => [3] ++ enc_bytes a1 ++ enc_bytes a2
  end.

Definition rcode_tag (r : rcode) : Z := match r with R_none => 0 | R_kill => 1 | R_factory => 2 end.
Definition enc_evm (o : option evm_st) : list Z :=
  match o with
  | None => [0]
  | Some e =>
      [1; e_nonce e] ++ (match e_tomb e with None => [0] | Some (o, s) => [1; Z.of_N o; s] end) ++ [rcode_tag (e_rt e)]
  end.
Definition enc_actor (x : N * actor) : list Z :=
  let '(i, a) := x in [Z.of_N i; code_tag (a_code a)] ++ enc_obytes (a_deleg a) ++ enc_evm (a_evm a).
Definition enc_amap_entry (x : addr * N) : list Z := let '(a, i) := x in Z.of_N i :: enc_bytes a.

Definition evm_eqb (x y : evm_st) : bool := zlist_eqb (enc_evm (Some x)) (enc_evm (Some y)).
Definition actor_eqb (x y : actor) : bool := zlist_eqb (enc_actor (0%N, x)) (enc_actor (0%N, y)).

(* entries of w' that are new or different with respect to w *)
Definition amap_delta (w w' : world) : list (addr * N) :=
  filter (fun '(a, i) => match amap w !! a with Some j => negb (j =? i)%N | None => true end)
         (sorted_amap (amap w')).
Definition actors_delta (w w' : world) : list (N * actor) :=
  filter (fun '(i, a) => match actors w !! i with Some b => negb (actor_eqb a b) | None => true end)
         (sorted_actors (actors w')).

Definition enc_list {X} (f : X -> list Z) (l : list X) : list Z := Z.of_nat (length l) :: flat_map f l.

Definition empty_world : world := {| amap := ∅; next_id := 0%N; actors := ∅ |}.

Definition obs (w w' : world) (nc : nctx) (r : res ret) : list Z :=
  (match r with Ok x => 0 :: enc_ret x | Err e => [e; 0] end)
  ++ [Z.of_N (next_id w')]
  ++ enc_list enc_amap_entry (amap_delta w w')
  ++ enc_list enc_actor (actors_delta w w')
  ++ enc_list enc_bytes (rev (n_log nc)).

(* ---------------------------------------------------------------------------------------------- *)
(* running against the implementation: keccak is the table of (pre-image, digest) pairs recorded
   from the real hash primitive during the history *)
Definition ktable := list (list Z * list Z).
Definition tbl_keccak (t : ktable) (pre : list Z) : list Z :=
  match find (fun '(p, _) => zlist_eqb p pre) t with
  | Some (_, d) => d
  | None => []
  end.

Definition cstate : Type := ktable * world.
Definition stepo (s : cstate) (o : op) : cstate * list Z :=
  let '(t, w) := s in
  let '(w', nc, r) := step (tbl_keccak t) w o in
  match o with
  | Dump => ((t, w'), obs empty_world w' nc r)
  | _ => ((t, w'), obs w w' nc r)
  end.

(* the implementation's observations arrive as primitive integers *)
Definition check_case (s : cstate) (steps : list (op * list int)) :=
  @Corr.check cstate op stepo s (map (fun '(o, e) => (o, map Uint63.to_Z e)) steps).

(* building worlds from literals *)
Definition mk_actor (c : code) (d : option addr) (e : option evm_st) : actor :=
  {| a_code := c; a_deleg := d; a_evm := e |}.
Definition mk_world (am : list (addr * N)) (nid : N) (acts : list (N * actor)) : world :=
  {| amap := list_to_map am; next_id := nid; actors := list_to_map acts |}.
