(* Executable model of the epoch cron, three levels of dispatch:
     (1) actors/cron/src/lib.rs     epoch_tick: iterate the entries, tolerate the failure of each;
     (2) actors/power/src/{lib,state}.rs   enroll_cron_event / append_cron_event (epoch >= 0 check, first_cron_epoch
         lowered by an enrolment in the past), on_epoch_tick_end -> process_deferred_cron_events (all epochs
         first_cron_epoch ..= now, events of miners without a claim skipped, claim of a miner whose callback
         fails deleted, miner_count decremented once per FAILED CALLBACK);
     (3) actors/miner/src/{lib,state,deadlines,deadline_info,quantize}.rs   the miner's schedule state
         (proving_period_start, current_deadline, deadline_cron_active, number of sectors waiting in the
         early-termination queues, obligations (pre_commit_deposits, initial_pledge, locked_funds)) with the
         constructor (NO enrolment), the pre-commit-triggered enrolment, handle_proving_deadline,
         process_early_terminations, terminate_sectors' early-termination scheduling.
   External behaviour is an input of the operation: the obligations a transaction leaves behind, the
   number of sectors advance_deadline terminates early, and the failure of every nested send.
   Definitions only (no proofs). *)
From stdpp Require Import gmap.
From Coq Require Import ZArith List Bool.
From VF Require Import Gen.Consts Gen.CronConsts Base.Corr.
Import ListNotations.
Open Scope Z_scope.

Definition PERIOD : Z := WPOST_PROVING_PERIOD.
Definition WINDOW : Z := WPOST_CHALLENGE_WINDOW.
Definition NDL : Z := WPOST_PERIOD_DEADLINES.
Definition PD : Z := CRON_EVENT_PROVING_DEADLINE.
Definition ET : Z := CRON_EVENT_PROCESS_EARLY_TERMINATIONS.

(* ---------- deadline arithmetic (Rust `/` and `%` truncate: Z.quot / Z.rem) ---------- *)

(* QuantSpec::quantize_up / quantize_down (actors/miner/src/quantize.rs) *)
Definition quantize_up (unit offset e : Z) : Z :=
  let off := Z.rem offset unit in
  let r := Z.rem (e - off) unit in
  let q := Z.quot (e - off) unit in
  if (r =? 0) || (e - off <? 0) then unit * q + off else unit * (q + 1) + off.

Definition quantize_down (unit offset e : Z) : Z :=
  let n := quantize_up unit offset e in
  if e =? n then n else n - unit.

(* new_deadline_info_from_offset_and_epoch: period start and index of the deadline containing e *)
Definition dl_period_start (pps e : Z) : Z := quantize_down PERIOD pps e.
Definition dl_index (pps e : Z) : Z := Z.quot (e - dl_period_start pps e) WINDOW.
(* DeadlineInfo::last() of that deadline: open + window - 1 *)
Definition dl_last (pps e : Z) : Z := dl_period_start pps e + dl_index pps e * WINDOW + WINDOW - 1.

(* current_proving_period_start / current_deadline_index of the constructor; `offset` is the hash-derived
   offset in [0, PERIOD) *)
Definition ctor_period_start (e offset : Z) : Z :=
  let cm := Z.rem e PERIOD in
  let progress := if offset <=? cm then cm - offset else PERIOD - (offset - cm) in
  e - progress.
Definition ctor_deadline_index (e pps : Z) : Z := Z.quot (e - pps) WINDOW.

(* ---------- state ---------- *)

Record miner := {
  m_pps : Z;          (* proving_period_start *)
  m_dl : Z;           (* current_deadline *)
  m_active : bool;    (* deadline_cron_active *)
  m_et : Z;           (* sectors waiting in the early-termination queues (early_terminations non-empty iff > 0) *)
  m_pcd : Z; m_ip : Z; m_locked : Z;   (* pre_commit_deposits, initial_pledge, locked_funds *)
  m_pre : bool;       (* ghost: has pre-committed at least once *)
}.

Record state := {
  now : Z;                          (* the current epoch *)
  first_cron : Z;                   (* power: first_cron_epoch *)
  queue : gmap Z (list (Z * Z));    (* power: cron_event_queue, epoch -> (miner, event kind) in append order *)
  claims : gset Z;                  (* power: miners with a claim *)
  miner_count : Z;                  (* power: miner_count *)
  miners : gmap Z miner;
  budget : Z;                       (* policy.addressed_sectors_max: sectors popped per process_early_terminations *)
}.

Definition init (e0 fc bud : Z) : state :=
  {| now := e0; first_cron := fc; queue := ∅; claims := ∅; miner_count := 0; miners := ∅; budget := bud |}.

Definition obl := (Z * Z * Z)%type.
Definition obl_nz (o : obl) : bool :=
  let '(a, b, c) := o in negb (a =? 0) || negb (b =? 0) || negb (c =? 0).
Definition m_obl (mi : miner) : obl := (m_pcd mi, m_ip mi, m_locked mi).

Definition with_miners (st : state) (ms : gmap Z miner) : state :=
  {| now := now st; first_cron := first_cron st; queue := queue st; claims := claims st;
     miner_count := miner_count st; miners := ms; budget := budget st |}.
Definition put_miner (st : state) (id : Z) (mi : miner) : state := with_miners st (<[id := mi]> (miners st)).
Definition with_queue (st : state) (fc : Z) (q : gmap Z (list (Z * Z))) : state :=
  {| now := now st; first_cron := fc; queue := q; claims := claims st;
     miner_count := miner_count st; miners := miners st; budget := budget st |}.
Definition with_claims (st : state) (cl : gset Z) (mc : Z) : state :=
  {| now := now st; first_cron := first_cron st; queue := queue st; claims := cl;
     miner_count := mc; miners := miners st; budget := budget st |}.
Definition with_now (st : state) (e : Z) : state :=
  {| now := e; first_cron := first_cron st; queue := queue st; claims := claims st;
     miner_count := miner_count st; miners := miners st; budget := budget st |}.

Definition set_sched (mi : miner) (pps dl : Z) (act : bool) : miner :=
  {| m_pps := pps; m_dl := dl; m_active := act; m_et := m_et mi;
     m_pcd := m_pcd mi; m_ip := m_ip mi; m_locked := m_locked mi; m_pre := m_pre mi |}.
Definition set_et (mi : miner) (et : Z) : miner :=
  {| m_pps := m_pps mi; m_dl := m_dl mi; m_active := m_active mi; m_et := et;
     m_pcd := m_pcd mi; m_ip := m_ip mi; m_locked := m_locked mi; m_pre := m_pre mi |}.
Definition set_obl (mi : miner) (o : obl) : miner :=
  let '(a, b, c) := o in
  {| m_pps := m_pps mi; m_dl := m_dl mi; m_active := m_active mi; m_et := m_et mi;
     m_pcd := a; m_ip := b; m_locked := c; m_pre := m_pre mi |}.
Definition set_pre (mi : miner) : miner :=
  {| m_pps := m_pps mi; m_dl := m_dl mi; m_active := true; m_et := m_et mi;
     m_pcd := m_pcd mi; m_ip := m_ip mi; m_locked := m_locked mi; m_pre := true |}.

(* ---------- level 2: the power actor's deferred-event queue ---------- *)

Definition evs (q : gmap Z (list (Z * Z))) (k : Z) : list (Z * Z) := default [] (q !! k).

(* enroll_cron_event + append_cron_event; None = rejected (illegal_argument) *)
Definition enroll (st : state) (id kind epoch : Z) : option state :=
  if epoch <? 0 then None else
  Some (with_queue st (Z.min epoch (first_cron st))
          (<[epoch := evs (queue st) epoch ++ [(id, kind)]]> (queue st))).

(* ---------- level 3: the miner's callbacks ---------- *)

(* inputs of one OnDeferredCronEvent callback *)
Record cb_in := {
  ci_obl : obl;        (* obligations at the end of the callback's first state transaction
                          (handle_proving_deadline's, or process_early_terminations' for an ET callback) *)
  ci_new_et : Z;       (* sectors advance_deadline moved to the early-termination queue (faulty too long) *)
  ci_obl_et : obl;     (* obligations after the process_early_terminations transaction run INSIDE a
                          proving-deadline callback (used only when it runs) *)
  f_tx : bool;         (* a state transaction of the callback returns an error *)
  f_power : bool;      (* UpdateClaimedPower rejected *)
  f_burn : bool;       (* the burn send fails *)
  f_pledge : bool;     (* UpdatePledgeTotal rejected (finding F1: negative network pledge total) *)
  f_enroll : bool;     (* an EnrollCronEvent send fails *)
  f_deals : bool;      (* OnMinerSectorsTerminate fails: TOLERATED in cron context *)
  f_balance : bool;    (* check_balance_invariants fails (ERR_BALANCE_INVARIANTS_BROKEN) *)
}.

(* the failure sources that abort a callback wherever they occur *)
Definition ci_hard_fail (ci : cb_in) : bool :=
  f_tx ci || f_power ci || f_burn ci || f_pledge ci || f_balance ci.

(* State::advance_deadline, schedule part: new (proving_period_start, current_deadline) *)
Definition advance (mi : miner) (e : Z) : Z * Z :=
  let q := dl_period_start (m_pps mi) e in
  if e <? q then (m_pps mi, m_dl mi) else      (* !period_started: nothing happens *)
  let nd := Z.rem (dl_index (m_pps mi) e + 1) NDL in
  ((if nd =? 0 then q + PERIOD else m_pps mi), nd).

(* process_early_terminations on miner record mi (already stored in st under id), followed by
   schedule_early_termination_work when sectors remain *)
Definition process_et (st : state) (id : Z) (mi : miner) (o : obl) (fail_enroll must_schedule : bool)
  : option state :=
  let popped := Z.min (m_et mi) (budget st) in
  let et' := m_et mi - popped in
  let st1 := put_miner st id (set_obl (set_et mi et') o) in
  if (0 <? et') && must_schedule then
    (if fail_enroll then None else enroll st1 id ET (now st + 1))
  else Some st1.

(* handle_proving_deadline *)
Definition cb_pd (st : state) (id : Z) (mi : miner) (ci : cb_in) : option state :=
  let e := now st in
  if ci_hard_fail ci then None else
  let had := 0 <? m_et mi in
  let '(pps', dl') := advance mi e in
  let et1 := m_et mi + Z.max 0 (ci_new_et ci) in
  let cont := obl_nz (ci_obl ci) in                       (* continue_deadline_cron *)
  let mi1 := set_obl (set_et (set_sched mi pps' dl' (if cont then m_active mi else false)) et1) (ci_obl ci) in
  let st1 := put_miner st id mi1 in
  match (if cont then (if f_enroll ci then None else enroll st1 id PD (dl_last pps' (e + 1)))
         else Some st1) with
  | None => None
  | Some st2 =>
      if negb had && (0 <? et1) then process_et st2 id mi1 (ci_obl_et ci) (f_enroll ci) true
      else Some st2
  end.

(* the CRON_EVENT_PROCESS_EARLY_TERMINATIONS branch of on_deferred_cron_event *)
Definition cb_et (st : state) (id : Z) (mi : miner) (ci : cb_in) : option state :=
  if ci_hard_fail ci then None else
  if 0 <? m_et mi then process_et st id mi (ci_obl ci) (f_enroll ci) true
  else Some st.

(* on_deferred_cron_event; None = the callback failed (all its effects are rolled back) *)
Definition callback (st : state) (id kind : Z) (ci : cb_in) : option state :=
  match miners st !! id with
  | None => None
  | Some mi =>
      if kind =? PD then cb_pd st id mi ci
      else if kind =? ET then cb_et st id mi ci
      else if ci_hard_fail ci then None else Some st    (* unknown event type: logged, ignored *)
  end.

Definition default_ci (st : state) (id : Z) : cb_in :=
  let o := match miners st !! id with Some mi => m_obl mi | None => (0, 0, 0) end in
  {| ci_obl := o; ci_new_et := 0; ci_obl_et := o; f_tx := false; f_power := false; f_burn := false;
     f_pledge := false; f_enroll := false; f_deals := false; f_balance := false |}.

(* ---------- level 2: process_deferred_cron_events ---------- *)

Definition due_epochs (first e : Z) : list Z :=
  map (fun i => first + Z.of_nat i) (seq 0 (Z.to_nat (e - first + 1))).

Definition has_claim (cl : gset Z) (x : Z * Z) : bool := bool_decide (fst x ∈ cl).

(* first transaction: gather the events of claim holders, clear the epochs *)
Fixpoint collect (q : gmap Z (list (Z * Z))) (cl : gset Z) (eps : list Z)
  : list (Z * Z) * gmap Z (list (Z * Z)) :=
  match eps with
  | [] => ([], q)
  | ep :: r =>
      let here := List.filter (has_claim cl) (evs q ep) in
      let '(more, q') := collect (delete ep q) cl r in
      (here ++ more, q')
  end.

(* the callback loop: returns the state, the miners whose callback failed (one entry per failure), and
   the log (miner, kind, failed?) in dispatch order *)
Fixpoint run_cbs (st : state) (evl : list (Z * Z)) (cis : list cb_in)
  : state * list Z * list (Z * Z * Z) :=
  match evl with
  | [] => (st, [], [])
  | (id, kind) :: rest =>
      let ci := match cis with c :: _ => c | [] => default_ci st id end in
      let r := callback st id kind ci in
      let st1 := match r with Some s => s | None => st end in
      let ok := match r with Some _ => true | None => false end in
      let '(st2, failed, log) := run_cbs st1 rest (tl cis) in
      (st2, (if ok then failed else id :: failed), (id, kind, b2z (negb ok)) :: log)
  end.

(* second transaction: delete_claim for every failed callback; `miner_count -= 1` is executed for every
   entry, also when the claim is already gone (delete_claim returns Ok for a missing claim) *)
Fixpoint delete_claims (st : state) (failed : list Z) : state :=
  match failed with
  | [] => st
  | id :: r => delete_claims (with_claims st (claims st ∖ {[id]}) (miner_count st - 1)) r
  end.

(* inputs of one EpochTick *)
Record tick_in := {
  t_entry_fail : bool;    (* the cron actor's send to the power actor fails outright *)
  t_reward_fail : bool;   (* power: ThisEpochReward fails -> OnEpochTickEnd aborts *)
  t_kpi_fail : bool;      (* power: UpdateNetworkKPI fails -> OnEpochTickEnd aborts, everything rolled back *)
  t_market_fail : bool;   (* the market's CronTick fails (tolerated by the cron actor) *)
  t_cbs : list cb_in;     (* one per dispatched callback, in dispatch order *)
}.

Definition on_epoch_tick_end (st : state) (ti : tick_in) : state * list (Z * Z * Z) :=
  if t_reward_fail ti then (st, []) else
  let e := now st in
  let '(evl, q') := collect (queue st) (claims st) (due_epochs (first_cron st) e) in
  let st1 := with_queue st (e + 1) q' in
  let '(st2, failed, log) := run_cbs st1 evl (t_cbs ti) in
  let st3 := delete_claims st2 failed in
  if t_kpi_fail ti then (st, log) else (st3, log).

(* ---------- level 1: the cron actor ---------- *)

Inductive entry := EPower | EMarket.
Definition cron_entries : list entry := [EPower; EMarket].

(* one entry; the bool says whether the entry's send failed (tolerated) *)
Definition run_entry (st : state) (ti : tick_in) (en : entry) : state * list (Z * Z * Z) * bool :=
  match en with
  | EPower =>
      if t_entry_fail ti then (st, [], true) else
      let '(st', log) := on_epoch_tick_end st ti in
      (st', log, t_reward_fail ti || t_kpi_fail ti)
  | EMarket => (st, [], t_market_fail ti)   (* the market's deal schedule is outside this model *)
  end.

(* epoch_tick: exit code 0 whatever the entries do *)
Definition epoch_tick (st : state) (ti : tick_in) : state * Z * list (Z * Z * Z) :=
  let '(st', log) :=
    fold_left (fun '(s, lg) en => let '(s', lg', _) := run_entry s ti en in (s', lg ++ lg'))
              cron_entries (st, []) in
  (st', 0, log).

(* ---------- operations ---------- *)

Inductive op :=
| CreateMiner (id offset locked : Z)              (* Power::CreateMiner; offset = hash-derived period offset *)
| PreCommit (id : Z) (o : obl) (fail_enroll : bool)   (* a pre-commit: adds obligations, starts the cron when inactive *)
| SetObl (id : Z) (o : obl)                       (* any other message that changes the obligations *)
| Terminate (id n : Z) (o : obl) (fail_enroll : bool) (* TerminateSectors of n live sectors *)
| EnrolET (id epoch : Z)                          (* EnrollCronEvent(epoch, ProcessEarlyTerminations) sent by miner id *)
| Tick (ti : tick_in)                             (* Cron::EpochTick at the current epoch, then the epoch advances *)
| Skip (n : Z)                                    (* n epochs pass WITHOUT a tick (excluded by the theorems) *)
| Nop.                                            (* a message that failed / is irrelevant: nothing changes *)

Definition create_miner (st : state) (id offset locked : Z) : state * Z :=
  match miners st !! id with
  | Some _ => (st, 1)
  | None =>
      let e := now st in
      let pps := ctor_period_start e offset in
      if e <? pps then (st, 1) else
      let dl := ctor_deadline_index e pps in
      if NDL <=? dl then (st, 1) else
      let mi := {| m_pps := pps; m_dl := dl; m_active := false; m_et := 0;
                   m_pcd := 0; m_ip := 0; m_locked := locked; m_pre := false |} in
      (* NO enrolment although locked > 0: finding F2 *)
      (with_claims (put_miner st id mi) (claims st ∪ {[id]}) (miner_count st + 1), 0)
  end.

Definition pre_commit (st : state) (id : Z) (o : obl) (fail_enroll : bool) : state * Z :=
  match miners st !! id with
  | None => (st, 1)
  | Some mi =>
      let st1 := put_miner st id (set_obl (set_pre mi) o) in
      if m_active mi then (st1, 0) else
      if fail_enroll then (st, 1) else
      match enroll st1 id PD (dl_last (m_pps mi) (now st)) with
      | None => (st, 1)
      | Some st2 => (st2, 0)
      end
  end.

Definition set_obligations (st : state) (id : Z) (o : obl) : state * Z :=
  match miners st !! id with
  | None => (st, 1)
  | Some mi => (put_miner st id (set_obl mi o), 0)
  end.

Definition terminate (st : state) (id n : Z) (o : obl) (fail_enroll : bool) : state * Z :=
  match miners st !! id with
  | None => (st, 1)
  | Some mi =>
      let had := 0 <? m_et mi in
      let mi1 := set_et mi (m_et mi + Z.max 0 n) in
      match process_et (put_miner st id mi1) id mi1 o fail_enroll (negb had) with
      | None => (st, 1)
      | Some st' => (st', 0)
      end
  end.

Definition enrol_et (st : state) (id epoch : Z) : state * Z :=
  match miners st !! id with
  | None => (st, 1)
  | Some _ => match enroll st id ET epoch with None => (st, 1) | Some st' => (st', 0) end
  end.

Definition step (st : state) (o : op) : state * Z * list (Z * Z * Z) :=
  match o with
  | CreateMiner id off l => let '(s, c) := create_miner st id off l in (s, c, [])
  | PreCommit id ob f => let '(s, c) := pre_commit st id ob f in (s, c, [])
  | SetObl id ob => let '(s, c) := set_obligations st id ob in (s, c, [])
  | Terminate id n ob f => let '(s, c) := terminate st id n ob f in (s, c, [])
  | EnrolET id ep => let '(s, c) := enrol_et st id ep in (s, c, [])
  | Tick ti => let '(s, c, lg) := epoch_tick st ti in (with_now s (now s + 1), c, lg)
  | Skip n => (with_now st (now st + Z.max 0 n), 0, [])
  | Nop => (st, 0, [])
  end.

Definition run (st : state) (ops : list op) : state := fold_left (fun s o => fst (fst (step s o))) ops st.

(* ---------- observation encoding for the correspondence check ---------- *)

Fixpoint insert_z (x : Z) (l : list Z) : list Z :=
  match l with
  | [] => [x]
  | y :: r => if x <=? y then x :: l else y :: insert_z x r
  end.
Definition sort_z (l : list Z) : list Z := fold_right insert_z [] l.

Definition enc_events (l : list (Z * Z)) : list Z := flat_map (fun '(m, k) => [m; k]) l.
Definition nonempty {A} (l : list A) : bool := match l with [] => false | _ => true end.

Definition obs (st : state) (code : Z) (log : list (Z * Z * Z)) : list Z :=
  let cl := sort_z (elements (claims st)) in
  let q := queue st in
  let ks := sort_z (List.filter (fun k => nonempty (evs q k)) (map fst (map_to_list q))) in
  let ms := sort_z (map fst (map_to_list (miners st))) in
  [code; now st; first_cron st; miner_count st] ++
  (Z.of_nat (length cl) :: cl) ++
  (Z.of_nat (length ks) ::
     flat_map (fun k => k :: Z.of_nat (length (evs q k)) :: enc_events (evs q k)) ks) ++
  flat_map (fun id => match miners st !! id with
                      | Some mi => [id; m_pps mi; m_dl mi; b2z (m_active mi); m_et mi]
                      | None => [] end) ms ++
  (Z.of_nat (length log) :: flat_map (fun '(m, k, f) => [m; k; f]) log).

Definition stepo (st : state) (o : op) : state * list Z :=
  let '(st', c, lg) := step st o in (st', obs st' c lg).

Definition check_case := @Corr.check state op stepo.

(* ---------- boolean monitors (the properties' predicates, for witnesses and the harness' mirror) ---------- *)

Fixpoint cnt (x : Z * Z) (l : list (Z * Z)) : Z :=
  match l with
  | [] => 0
  | y :: r => (if (fst x =? fst y) && (snd x =? snd y) then 1 else 0) + cnt x r
  end.

(* total number of pending events (id, kind) *)
Definition pending (st : state) (id kind : Z) : Z :=
  fold_right Z.add 0 (map (fun '(_, l) => cnt (id, kind) l) (map_to_list (queue st))).

(* the recorded (proving_period_start, current_deadline) is the deadline containing epoch e *)
Definition recorded_ok (mi : miner) (e : Z) : bool :=
  (m_pps mi =? dl_period_start (m_pps mi) e) && (m_dl mi =? dl_index (m_pps mi) e).

(* a miner with obligations has an active deadline cron *)
Definition obligations_covered (mi : miner) : bool := negb (obl_nz (m_obl mi)) || m_active mi.
