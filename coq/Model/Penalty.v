(* C15 -- executable model of the PENALTY side of the miner actor.  Definitions only.

   Part 1  actors/miner/src/monies.rs + policy.rs closed forms, exactly over Z
           (expected_reward_for_power and the smoothing filters are INPUTS `r`; everything built on top
           of them -- min / max / caps / floor divisions / TERMINATION_LIFETIME_CAP -- is transcribed).
   Part 2  actors/miner/src/state.rs   apply_penalty, repay_partial_debt_in_priority_order, repay_debts,
                                       get_unlocked_balance, get_available_balance, check_balance_invariants
           actors/miner/src/lib.rs     burn_funds, notify_pledge_changed, repay_debts_or_abort and the
                                       penalised handlers: handle_proving_deadline (penalty part),
                                       process_early_terminations, terminate_sectors (funds part),
                                       dispute_windowed_post, report_consensus_fault, apply_rewards,
                                       repay_debt, on_deferred_cron_event
   Part 3  the debt gate: every handler that calls repay_debts_or_abort (withdraw_balance,
           pre_commit_sector_batch_inner, declare_faults_recovered, prove_commit_sectors_ni).

   Conventions.
   * The funds state is (balance, locked_funds, pre_commit_deposits, initial_pledge, fee_debt) plus
     consensus_fault_elapsed.  The vesting table is ABSTRACT: each operation carries `v`, the amount in
     the table whose vesting epoch has passed at the operation's epoch (0 <= v <= locked_funds); the
     table unlocks `v` plus, when fee debt is drawn from not-yet-vested funds, up to the rest of
     locked_funds (unlock_vested_and_unvested_funds: vested first, then the soonest-vesting entries).
   * Sector bookkeeping (which power is faulty, which sectors expire or terminate) is NOT modelled: what
     it hands to the penalty code is an input of the operation (deposits of expired pre-commits, the
     expected-reward projections r, per-sector pledge and age, pledge released by on-time expirations),
     as are the exit codes of its validations (`pre`, `chk`: 0 = passed).
   * Nested sends: the operation carries the list of reply codes of the handler's direct sends in call
     order (missing = 0 = ok).  A failed send transfers nothing.  Every send is recorded.
   * A failing handler changes nothing (VM roll-back). *)
From Coq Require Import ZArith List Bool String.
From VF Require Import Gen.Consts Gen.PenaltyConsts Gen.Gated Base.Corr.
Import ListNotations.
Open Scope Z_scope.

(* ============================================================================================ *)
(* Part 1: closed forms                                                                          *)
(* ============================================================================================ *)

(* FF(t) = BR(t, CONTINUED_FAULT_PROJECTION_PERIOD); r is that projection *)
Definition pledge_penalty_for_continued_fault (r : Z) : Z := r.
(* SP(t) = BR(t, TERMINATION_PENALTY_LOWER_BOUND_PROJECTIONS_PERIOD) *)
Definition pledge_penalty_for_termination_lower_bound (r : Z) : Z := r.

Definition simple_termination_fee (ip : Z) : Z :=
  (ip * TERM_FEE_PLEDGE_MULTIPLE_NUM) / TERM_FEE_PLEDGE_MULTIPLE_DENOM.
Definition duration_termination_fee (ip age : Z) : Z :=
  (age * simple_termination_fee ip) / (TERMINATION_LIFETIME_CAP * EPOCHS_IN_DAY).
Definition minimum_fee_abs (ip : Z) : Z :=
  (ip * TERM_FEE_MIN_PLEDGE_MULTIPLE_NUM) / TERM_FEE_MIN_PLEDGE_MULTIPLE_DENOM.
Definition minimum_fee_ff (fault_fee : Z) : Z :=
  (fault_fee * TERM_FEE_MAX_FAULT_FEE_MULTIPLE_NUM) / TERM_FEE_MAX_FAULT_FEE_MULTIPLE_DENOM.

Definition pledge_penalty_for_termination (ip age fault_fee : Z) : Z :=
  let base := Z.min (simple_termination_fee ip) (duration_termination_fee ip age) in
  Z.max base (Z.max (minimum_fee_abs ip) (minimum_fee_ff fault_fee)).

(* r = BR(t, INVALID_WINDOW_POST_PROJECTION_PERIOD) *)
Definition pledge_penalty_for_invalid_windowpost (r : Z) : Z := r + BASE_PENALTY_FOR_DISPUTED_WINDOW_POST.
Definition reward_for_disputed_window_post : Z := BASE_REWARD_FOR_DISPUTED_WINDOW_POST.

Definition consensus_fault_penalty (epoch_reward : Z) : Z :=
  (epoch_reward * CONSENSUS_FAULT_FACTOR) / EXPECTED_LEADERS_PER_EPOCH.
Definition reward_for_consensus_slash_report (epoch_reward : Z) : Z :=
  epoch_reward / (EXPECTED_LEADERS_PER_EPOCH * CONSENSUS_FAULT_REPORTER_DEFAULT_SHARE).

Definition locked_reward_from_reward (reward : Z) : Z :=
  (reward * LOCKED_REWARD_FACTOR_NUM) / LOCKED_REWARD_FACTOR_DENOM.

(* detail::expected_reward_for_power_clamped_at_atto_fil, on the projection r *)
Definition clamped_at_atto_fil (r : Z) : Z := if r <=? 0 then 1 else r.
Definition pre_commit_deposit_for_power (r : Z) : Z := clamped_at_atto_fil r.

(* policy.rs daily_proof_fee_payable *)
Definition daily_proof_fee_payable (daily_fee day_reward : Z) : Z :=
  Z.min (day_reward / DAILY_FEE_BLOCK_REWARD_CAP_DENOM) daily_fee.

(* ---- formula-level operations (harness part (a): the real pub functions on the same inputs) ---- *)
Inductive fop :=
| FTermination (ip age fault_fee : Z)
| FInvalidPost (r period : Z)          (* period = the projection period the harness used for r *)
| FContinuedFault (r period : Z)
| FTermLowerBound (r period : Z)
| FConsensus (epoch_reward : Z)
| FLockedReward (reward : Z)
| FClamp (r : Z)
| FDailyPayable (daily_fee day_reward : Z)
| FConsts.

Definition feval (o : fop) : list Z :=
  match o with
  | FTermination ip age ff => [pledge_penalty_for_termination ip age ff]
  | FInvalidPost r p =>
      [pledge_penalty_for_invalid_windowpost r; b2z (p =? INVALID_WINDOW_POST_PROJECTION_PERIOD)]
  | FContinuedFault r p =>
      [pledge_penalty_for_continued_fault r; b2z (p =? CONTINUED_FAULT_PROJECTION_PERIOD)]
  | FTermLowerBound r p =>
      [pledge_penalty_for_termination_lower_bound r;
       b2z (p =? TERMINATION_PENALTY_LOWER_BOUND_PROJECTIONS_PERIOD)]
  | FConsensus e => [consensus_fault_penalty e; reward_for_consensus_slash_report e]
  | FLockedReward r => [locked_reward_from_reward r]
  | FClamp r => [clamped_at_atto_fil r]
  | FDailyPayable f d => [daily_proof_fee_payable f d]
  | FConsts =>
      [TERM_FEE_PLEDGE_MULTIPLE_NUM; TERM_FEE_PLEDGE_MULTIPLE_DENOM;
       TERM_FEE_MIN_PLEDGE_MULTIPLE_NUM; TERM_FEE_MIN_PLEDGE_MULTIPLE_DENOM;
       TERM_FEE_MAX_FAULT_FEE_MULTIPLE_NUM; TERM_FEE_MAX_FAULT_FEE_MULTIPLE_DENOM;
       TERMINATION_LIFETIME_CAP; EPOCHS_IN_DAY; CONTINUED_FAULT_PROJECTION_PERIOD;
       CONSENSUS_FAULT_REPORTER_DEFAULT_SHARE; EXPECTED_LEADERS_PER_EPOCH;
       BASE_REWARD_FOR_DISPUTED_WINDOW_POST; BASE_PENALTY_FOR_DISPUTED_WINDOW_POST;
       CONSENSUS_FAULT_INELIGIBILITY_DURATION; DAILY_FEE_BLOCK_REWARD_CAP_DENOM;
       BURNT_FUNDS_ACTOR_ID; STORAGE_POWER_ACTOR_ID; REWARD_ACTOR_ID; STORAGE_MARKET_ACTOR_ID;
       UPDATE_CLAIMED_POWER_METHOD; ENROLL_CRON_EVENT_METHOD; UPDATE_PLEDGE_TOTAL_METHOD;
       CURRENT_TOTAL_POWER_METHOD; THIS_EPOCH_REWARD_METHOD; ON_MINER_SECTORS_TERMINATE_METHOD;
       VERIFY_DEALS_FOR_ACTIVATION_METHOD; ERR_BALANCE_INVARIANTS_BROKEN]
  end.

Definition fstepo (u : unit) (o : fop) : unit * list Z := (u, feval o).
Definition fcheck_case := @Corr.check unit fop fstepo.

(* ============================================================================================ *)
(* Part 2: penalty accounting                                                                     *)
(* ============================================================================================ *)

Inductive res (A : Type) := Ok (a : A) | Err (c : Z).
Arguments Ok {A} a.
Arguments Err {A} c.
Definition bind {A B} (r : res A) (f : A -> res B) : res B :=
  match r with Ok a => f a | Err c => Err c end.

Definition EOK := 0.
Definition ILLEGAL_ARGUMENT := 16.
Definition FORBIDDEN := 18.
Definition INSUFFICIENT_FUNDS := 19.
Definition ILLEGAL_STATE := 20.
Definition METHOD_SEND := 0.

Record state := {
  bal : Z;        (* the miner actor's balance *)
  locked : Z;     (* locked_funds (= sum of the vesting table) *)
  pcd : Z;        (* pre_commit_deposits *)
  ip : Z;         (* initial_pledge *)
  fee_debt : Z;
  cfe : Z;        (* info.consensus_fault_elapsed *)
}.

Definition mk (b l p i f c : Z) : state :=
  {| bal := b; locked := l; pcd := p; ip := i; fee_debt := f; cfe := c |}.
Definition set_bal (s : state) (x : Z) := mk x (locked s) (pcd s) (ip s) (fee_debt s) (cfe s).
Definition set_locked (s : state) (x : Z) := mk (bal s) x (pcd s) (ip s) (fee_debt s) (cfe s).
Definition set_pcd (s : state) (x : Z) := mk (bal s) (locked s) x (ip s) (fee_debt s) (cfe s).
Definition set_ip (s : state) (x : Z) := mk (bal s) (locked s) (pcd s) x (fee_debt s) (cfe s).
Definition set_fee_debt (s : state) (x : Z) := mk (bal s) (locked s) (pcd s) (ip s) x (cfe s).
Definition set_cfe (s : state) (x : Z) := mk (bal s) (locked s) (pcd s) (ip s) (fee_debt s) x.

(* get_unlocked_balance before its sign check *)
Definition unlocked (s : state) : Z := bal s - locked s - pcd s - ip s.

Definition check_balance_invariants (s : state) : bool :=
  (0 <=? pcd s) && (0 <=? locked s) && (0 <=? ip s) && (0 <=? fee_debt s) &&
  (pcd s + locked s + ip s <=? bal s).

(* state.rs repay_partial_debt_in_priority_order, with the abstract vesting table:
   returns (state, to_burn, total_unlocked, vested amount still in the table afterwards) *)
Definition s_repay_partial (s : state) (v : Z) : res (state * Z * Z * Z) :=
  let target := fee_debt s in
  let '(unv, total, vrem) :=
    if (target =? 0) || (locked s =? 0) then (0, 0, v)
    else let u := Z.min target (locked s - v) in (u, v + u, 0) in
  let l1 := locked s - total in
  if l1 <? 0 then Err ILLEGAL_STATE else
  if fee_debt s <? unv then Err ILLEGAL_STATE else
  let s1 := set_locked s l1 in
  let ub := unlocked s1 in
  if ub <? 0 then Err ILLEGAL_STATE else
  let to_burn := Z.min ub (fee_debt s1) in
  Ok (set_fee_debt s1 (fee_debt s1 - to_burn), to_burn, total, vrem).

(* state.rs repay_debts: returns (state, fee to burn) *)
Definition s_repay_debts (s : state) : res (state * Z) :=
  let ub := unlocked s in
  if ub <? 0 then Err ILLEGAL_STATE else
  if ub <? fee_debt s then Err INSUFFICIENT_FUNDS else
  Ok (set_fee_debt s 0, fee_debt s).

(* state.rs unlock_vested_funds with `v` vested in the table: returns (state, newly vested) *)
Definition s_unlock_vested (s : state) (v : Z) : res (state * Z) :=
  if locked s =? 0 then Ok (s, 0) else
  let l1 := locked s - v in
  if l1 <? 0 then Err ILLEGAL_STATE else Ok (set_locked s l1, v).

(* ---- execution context of one handler invocation ---- *)
Definition sendrec := (Z * Z * Z * Z * Z)%type.     (* to, method, value, argument, reply code *)

Record ex := {
  st : state;
  rp : list Z;              (* replies not yet consumed *)
  lg : list sendrec;        (* sends made, in call order *)
  xcharged : Z;             (* sum of the penalties applied (apply_penalty) *)
  xburnt : Z;               (* value successfully sent to the burnt-funds actor *)
  xpaid : Z;                (* value successfully sent to the reporter *)
  xout : Z;                 (* value successfully sent to anybody else (withdrawal payee) *)
}.

Definition ex0 (s : state) (replies : list Z) : ex :=
  {| st := s; rp := replies; lg := []; xcharged := 0; xburnt := 0; xpaid := 0; xout := 0 |}.
Definition with_st (x : ex) (s : state) : ex :=
  {| st := s; rp := rp x; lg := lg x; xcharged := xcharged x; xburnt := xburnt x; xpaid := xpaid x;
     xout := xout x |}.
Definition add_charged (x : ex) (a : Z) : ex :=
  {| st := st x; rp := rp x; lg := lg x; xcharged := xcharged x + a; xburnt := xburnt x;
     xpaid := xpaid x; xout := xout x |}.
Definition add_burnt (x : ex) (a : Z) : ex :=
  {| st := st x; rp := rp x; lg := lg x; xcharged := xcharged x; xburnt := xburnt x + a;
     xpaid := xpaid x; xout := xout x |}.
Definition add_paid (x : ex) (a : Z) : ex :=
  {| st := st x; rp := rp x; lg := lg x; xcharged := xcharged x; xburnt := xburnt x;
     xpaid := xpaid x + a; xout := xout x |}.
Definition add_out (x : ex) (a : Z) : ex :=
  {| st := st x; rp := rp x; lg := lg x; xcharged := xcharged x; xburnt := xburnt x;
     xpaid := xpaid x; xout := xout x + a |}.

(* rt.send: consumes one reply; a successful send moves `value` out of the balance *)
Definition xsend (x : ex) (to_ m value arg : Z) : ex * Z :=
  let '(r, rest) := match rp x with [] => (0, []) | r :: t => (r, t) end in
  let s := st x in
  let s' := if r =? 0 then set_bal s (bal s - value) else s in
  ({| st := s'; rp := rest; lg := lg x ++ [(to_, m, value, arg, r)]; xcharged := xcharged x;
      xburnt := xburnt x; xpaid := xpaid x; xout := xout x |}, r).

(* extract_send_result(..)? : a failed send aborts the handler with the callee's exit code *)
Definition call (x : ex) (to_ m value arg : Z) : res ex :=
  let '(x', r) := xsend x to_ m value arg in if r =? 0 then Ok x' else Err r.

Definition burn_funds (x : ex) (amount : Z) : res ex :=
  if 0 <? amount then
    bind (call x BURNT_FUNDS_ACTOR_ID METHOD_SEND amount 0) (fun x' => Ok (add_burnt x' amount))
  else Ok x.
Definition notify_pledge_changed (x : ex) (delta : Z) : res ex :=
  if delta =? 0 then Ok x else call x STORAGE_POWER_ACTOR_ID UPDATE_PLEDGE_TOTAL_METHOD 0 delta.
Definition request_update_power (x : ex) (nonzero : bool) : res ex :=
  if nonzero then call x STORAGE_POWER_ACTOR_ID UPDATE_CLAIMED_POWER_METHOD 0 0 else Ok x.
Definition enroll_cron_event (x : ex) : res ex :=
  call x STORAGE_POWER_ACTOR_ID ENROLL_CRON_EVENT_METHOD 0 0.
Definition request_epoch_reward (x : ex) : res ex :=
  call x REWARD_ACTOR_ID THIS_EPOCH_REWARD_METHOD 0 0.
Definition request_total_power (x : ex) : res ex :=
  call x STORAGE_POWER_ACTOR_ID CURRENT_TOTAL_POWER_METHOD 0 0.

Definition finish (x : ex) : res ex :=
  if check_balance_invariants (st x) then Ok x else Err ERR_BALANCE_INVARIANTS_BROKEN.

Definition x_apply_penalty (x : ex) (p : Z) : res ex :=
  if p <? 0 then Err ILLEGAL_STATE
  else Ok (add_charged (with_st x (set_fee_debt (st x) (fee_debt (st x) + p))) p).

(* returns (ex, to_burn, total_unlocked, vested left in the table) *)
Definition x_repay_partial (x : ex) (v : Z) : res (ex * Z * Z * Z) :=
  bind (s_repay_partial (st x) v) (fun '(s', tb, total, vrem) => Ok (with_st x s', tb, total, vrem)).

Definition guard {A} (c : Z) (k : res A) : res A := if c =? 0 then k else Err c.

(* ---- apply_rewards ---- *)
Definition h_apply_rewards (x : ex) (caller reward penalty v : Z) : res ex :=
  if reward <? 0 then Err ILLEGAL_ARGUMENT else
  if penalty <? 0 then Err ILLEGAL_ARGUMENT else
  if negb (caller =? REWARD_ACTOR_ID) then Err FORBIDDEN else
  let s := st x in
  let lock := locked_reward_from_reward reward in
  let ub := unlocked s in
  if ub <? 0 then Err ILLEGAL_STATE else
  if ub <? lock then Err INSUFFICIENT_FUNDS else
  (* add_locked_funds: unlocks what has vested, then locks the new amount *)
  let l1 := locked s - v in
  if l1 <? 0 then Err ILLEGAL_STATE else
  let x1 := with_st x (set_locked s (l1 + lock)) in
  bind (x_apply_penalty x1 penalty) (fun x2 =>
  bind (x_repay_partial x2 0) (fun '(x3, to_burn, total, _) =>
  bind (notify_pledge_changed x3 (lock - v - total)) (fun x4 =>
  bind (burn_funds x4 to_burn) finish))).

(* ---- report_consensus_fault ----
   fault = what verify_consensus_fault answers: None, or Some (target is this miner?, fault epoch) *)
Definition h_report_fault (x : ex) (reporter epoch : Z) (fault : option (bool * Z)) (epoch_reward v : Z)
  : res ex :=
  match fault with
  | None => Err ILLEGAL_ARGUMENT
  | Some (target_ok, fe) =>
    if negb target_ok then Err ILLEGAL_ARGUMENT else
    if epoch - fe <=? 0 then Err ILLEGAL_ARGUMENT else
    bind (request_epoch_reward x) (fun x1 =>
    let fault_penalty := consensus_fault_penalty epoch_reward in
    let slasher_reward := reward_for_consensus_slash_report epoch_reward in
    if fe <? cfe (st x1) then Err FORBIDDEN else
    bind (x_apply_penalty x1 fault_penalty) (fun x2 =>
    bind (x_repay_partial x2 v) (fun '(x3, burn0, total, _) =>
    (* clamp reward at funds burnt *)
    let reward_amount := Z.min burn0 slasher_reward in
    let burn_amount := burn0 - reward_amount in
    let x4 := with_st x3 (set_cfe (st x3) (epoch + CONSENSUS_FAULT_INELIGIBILITY_DURATION)) in
    (* the reporter send is made unconditionally and its failure is TOLERATED: a reward that could
       not be sent is burnt with the rest *)
    let '(x5, r) := xsend x4 reporter METHOD_SEND reward_amount 0 in
    let '(x6, burn_amount') :=
      if r =? 0 then (add_paid x5 reward_amount, burn_amount) else (x5, burn_amount + reward_amount) in
    bind (burn_funds x6 burn_amount') (fun x7 =>
    bind (notify_pledge_changed x7 (- total)) finish))))
  end.

(* ---- dispute_windowed_post ----
   pre: parameter check before any send; chk: window / proof-index / "post was valid" checks inside the
   transaction; r_invalid = BR(penalised power, INVALID_WINDOW_POST_PROJECTION_PERIOD) *)
Definition h_dispute (x : ex) (reporter pre chk r_invalid v : Z) (pwr : bool) : res ex :=
  guard pre (
  bind (request_epoch_reward x) (fun x1 =>
  bind (request_total_power x1) (fun x2 =>
  guard chk (
  let penalty_base := pledge_penalty_for_invalid_windowpost r_invalid in
  let reward_target := reward_for_disputed_window_post in
  bind (x_apply_penalty x2 (penalty_base + reward_target)) (fun x3 =>
  bind (x_repay_partial x3 v) (fun '(x4, tb, total, _) =>
  let to_reward := Z.min tb reward_target in
  let to_burn := tb - to_reward in
  bind (request_update_power x4 pwr) (fun x5 =>
  let '(x6, to_burn') :=
    if to_reward =? 0 then (x5, to_burn) else
    let '(x6, r) := xsend x5 reporter METHOD_SEND to_reward 0 in
    if r =? 0 then (add_paid x6 to_reward, to_burn) else (x6, to_burn + to_reward) in
  bind (burn_funds x6 to_burn') (fun x7 =>
  bind (notify_pledge_changed x7 (- total)) finish)))))))).

(* ---- process_early_terminations ---- *)
Record tsector := { ts_ip : Z; ts_age : Z; ts_ff : Z }.   (* initial pledge, age, FF projection r *)
Record eterm := {
  et_sectors : list tsector;   (* what pop_early_terminations returned *)
  et_v : Z;                    (* vested amount in the table when the debt is repaid *)
  et_deals : bool;             (* some terminated sector carried deals: OnMinerSectorsTerminate is sent *)
  et_more : bool;              (* more terminations remain queued *)
}.

Definition term_fee (t : tsector) : Z :=
  pledge_penalty_for_termination (ts_ip t) (ts_age t) (pledge_penalty_for_continued_fault (ts_ff t)).
Definition total_term_fee (l : list tsector) : Z := fold_right (fun t a => term_fee t + a) 0 l.
Definition total_term_ip (l : list tsector) : Z := fold_right (fun t a => ts_ip t + a) 0 l.

(* tolerate_deals: request_terminate_deals swallows a failure when the message originates from cron *)
Definition h_early_term (x : ex) (et : eterm) (tolerate_deals : bool) : res ex :=
  match et_sectors et with
  | [] => Ok x
  | _ =>
    let tot_ip := total_term_ip (et_sectors et) in
    bind (x_apply_penalty x (total_term_fee (et_sectors et))) (fun x1 =>
    let ip1 := ip (st x1) - tot_ip in
    if ip1 <? 0 then Err ILLEGAL_STATE else
    bind (x_repay_partial (with_st x1 (set_ip (st x1) ip1)) (et_v et)) (fun '(x2, tb, total, _) =>
    bind (burn_funds x2 tb) (fun x3 =>
    bind (notify_pledge_changed x3 (- tot_ip - total)) (fun x4 =>
    if et_deals et then
      let '(x5, r) := xsend x4 STORAGE_MARKET_ACTOR_ID ON_MINER_SECTORS_TERMINATE_METHOD 0 0 in
      if (r =? 0) || tolerate_deals then Ok x5 else Err r
    else Ok x4))))
  end.

(* ---- handle_proving_deadline ----
   dep: deposits of the pre-commits that expired; ff = BR(previously faulty power, continued-fault period);
   dfee: the deadline's daily fee, rday = BR(live power, one day); ip_rel: pledge of sectors expiring on
   time; pwr: power delta non-zero; chain: the early terminations processed in the same call (when the
   deadline produced the first pending ones) *)
Definition h_deadline (x : ex) (dep ff dfee rday ip_rel v : Z) (pwr : bool) (chain : option eterm)
  (sys_origin : bool) : res ex :=
  let s := st x in
  let pcd1 := pcd s - dep in
  if pcd1 <? 0 then Err ILLEGAL_STATE else
  bind (x_apply_penalty (with_st x (set_pcd s pcd1)) dep) (fun x1 =>
  let ip1 := ip (st x1) - ip_rel in
  if ip1 <? 0 then Err ILLEGAL_STATE else
  bind (x_apply_penalty (with_st x1 (set_ip (st x1) ip1)) (pledge_penalty_for_continued_fault ff)) (fun x2 =>
  bind (if 0 <? dfee then x_apply_penalty x2 (daily_proof_fee_payable dfee rday) else Ok x2) (fun x3 =>
  bind (x_repay_partial x3 v) (fun '(x4, tb, total, vrem) =>
  bind (s_unlock_vested (st x4) vrem) (fun '(s5, newly) =>
  let x5 := with_st x4 s5 in
  let continue_cron := negb (pcd s5 =? 0) || negb (ip s5 =? 0) || negb (locked s5 =? 0) in
  bind (request_update_power x5 pwr) (fun x6 =>
  bind (burn_funds x6 tb) (fun x7 =>
  bind (notify_pledge_changed x7 (- ip_rel - total - newly)) (fun x8 =>
  bind (if continue_cron then enroll_cron_event x8 else Ok x8) (fun x9 =>
  match chain with
  | None => Ok x9
  | Some et =>
      bind (h_early_term x9 et sys_origin) (fun x10 =>
      if et_more et then enroll_cron_event x10 else Ok x10)
  end))))))))).

(* on_deferred_cron_event; kind 0 = proving deadline, 1 = process early terminations, else unknown *)
Inductive cron_event :=
| CronDeadline (dep ff dfee rday ip_rel v : Z) (pwr : bool) (chain : option eterm)
| CronEarlyTerm (et : eterm)
| CronUnknown.

Definition h_cron (x : ex) (caller : Z) (ev : cron_event) (sys_origin : bool) : res ex :=
  if negb (caller =? STORAGE_POWER_ACTOR_ID) then Err FORBIDDEN else
  bind (match ev with
        | CronDeadline dep ff dfee rday ip_rel v pwr chain =>
            h_deadline x dep ff dfee rday ip_rel v pwr chain sys_origin
        | CronEarlyTerm et =>
            bind (h_early_term x et sys_origin) (fun x1 =>
            if et_more et then enroll_cron_event x1 else Ok x1)
        | CronUnknown => Ok x
        end) finish.

(* ---- terminate_sectors (chk: parameter / caller / deadline-mutability checks, all before any send) ---- *)
Definition h_terminate (x : ex) (chk : Z) (pwr had_early : bool) (et : eterm) : res ex :=
  guard chk (
  bind (request_epoch_reward x) (fun x1 =>
  bind (request_total_power x1) (fun x2 =>
  bind (h_early_term x2 et false) (fun x3 =>
  bind (if et_more et && negb had_early then enroll_cron_event x3 else Ok x3) (fun x4 =>
  bind (finish x4) (fun x5 =>
  request_update_power x5 pwr)))))).

(* ---- repay_debt ---- *)
Definition h_repay_debt (x : ex) (chk v : Z) : res ex :=
  guard chk (
  bind (x_repay_partial x v) (fun '(x1, tb, total, _) =>
  bind (notify_pledge_changed x1 (- total)) (fun x2 =>
  bind (burn_funds x2 tb) finish))).

(* ============================================================================================ *)
(* Part 3: the debt gate                                                                          *)
(* ============================================================================================ *)

(* repay_debts_or_abort: returns the fee to burn *)
Definition x_repay_debts_or_abort (x : ex) : res (ex * Z) :=
  bind (s_repay_debts (st x)) (fun '(s', fee) => Ok (with_st x s', fee)).

(* withdraw_balance.  quota: None when beneficiary = owner, else Some (term.available(epoch)) *)
Definition h_withdraw (x : ex) (caller_ok early : bool) (requested : Z) (quota : option Z) (payee v : Z)
  : res ex :=
  if requested <? 0 then Err ILLEGAL_ARGUMENT else
  if negb caller_ok then Err FORBIDDEN else
  if early then Err FORBIDDEN else
  bind (s_unlock_vested (st x) v) (fun '(s1, newly) =>
  let ub := unlocked s1 in
  if ub <? 0 then Err ILLEGAL_STATE else
  let avail := ub - fee_debt s1 in
  bind (x_repay_debts_or_abort (with_st x s1)) (fun '(x2, fee) =>
  let amt := Z.min avail requested in
  if amt <? 0 then Err ILLEGAL_STATE else
  bind (match quota with
        | None => Ok amt
        | Some q => if q =? 0 then Err FORBIDDEN else Ok (Z.min amt q)
        end) (fun amt' =>
  bind (if 0 <? amt' then bind (call x2 payee METHOD_SEND amt' 0) (fun x3 => Ok (add_out x3 amt'))
        else Ok x2) (fun x3 =>
  bind (burn_funds x3 fee) (fun x4 =>
  bind (notify_pledge_changed x4 (- newly)) finish))))).

(* pre_commit_sector_batch_inner.  pre: per-sector parameter checks (before any send);
   chk1: caller validation; chk2: per-sector checks inside the transaction; dep: total deposit required *)
Definition h_precommit (x : ex) (epoch pre chk1 chk2 dep : Z) (deals needs_cron : bool) : res ex :=
  guard pre (
  bind (request_epoch_reward x) (fun x1 =>
  bind (request_total_power x1) (fun x2 =>
  bind (if deals then call x2 STORAGE_MARKET_ACTOR_ID VERIFY_DEALS_FOR_ACTIVATION_METHOD 0 0 else Ok x2)
       (fun x3 =>
  let ub := unlocked (st x3) in
  if ub <? 0 then Err ILLEGAL_STATE else
  let avail := ub - fee_debt (st x3) in
  bind (x_repay_debts_or_abort x3) (fun '(x4, fee) =>
  guard chk1 (
  if epoch <=? cfe (st x4) then Err FORBIDDEN else
  guard chk2 (
  if avail <? dep then Err INSUFFICIENT_FUNDS else
  let pcd1 := pcd (st x4) + dep in
  if pcd1 <? 0 then Err ILLEGAL_STATE else
  bind (burn_funds (with_st x4 (set_pcd (st x4) pcd1)) fee) (fun x5 =>
  bind (finish x5) (fun x6 =>
  if needs_cron then enroll_cron_event x6 else Ok x6))))))))).

(* declare_faults_recovered.  pre: parameter checks; the gate is the FIRST thing in the transaction *)
Definition h_declare_recovered (x : ex) (epoch pre chk1 chk2 : Z) : res ex :=
  guard pre (
  bind (x_repay_debts_or_abort x) (fun '(x1, fee) =>
  guard chk1 (
  if epoch <=? cfe (st x1) then Err FORBIDDEN else
  guard chk2 (
  bind (burn_funds x1 fee) finish)))).

(* prove_commit_sectors_ni.  pre: every validation before the two queries; chk: bookkeeping inside the
   transaction; pledge: total initial pledge of the new sectors *)
Definition h_prove_commit_ni (x : ex) (pre chk pledge : Z) (needs_cron : bool) : res ex :=
  guard pre (
  bind (request_epoch_reward x) (fun x1 =>
  bind (request_total_power x1) (fun x2 =>
  let ub := unlocked (st x2) in
  if ub <? 0 then Err ILLEGAL_STATE else
  if ub <? pledge then Err INSUFFICIENT_FUNDS else
  guard chk (
  let ip1 := ip (st x2) + pledge in
  if ip1 <? 0 then Err ILLEGAL_STATE else
  bind (x_repay_debts_or_abort (with_st x2 (set_ip (st x2) ip1))) (fun '(x3, fee) =>
  bind (burn_funds x3 fee) (fun x4 =>
  bind (notify_pledge_changed x4 pledge) (fun x5 =>
  bind (finish x5) (fun x6 =>
  if needs_cron then enroll_cron_event x6 else Ok x6)))))))).

(* ============================================================================================ *)
(* operations = handler invocations on the miner actor                                            *)
(* ============================================================================================ *)
Inductive op :=
(* penalised events *)
| ApplyRewards (caller value reward penalty v : Z) (replies : list Z)
| ReportFault (reporter epoch : Z) (fault : option (bool * Z)) (epoch_reward v : Z) (replies : list Z)
| Dispute (reporter pre chk r_invalid v : Z) (pwr : bool) (replies : list Z)
| Cron (caller : Z) (ev : cron_event) (sys_origin : bool) (replies : list Z)
| Terminate (chk : Z) (pwr had_early : bool) (et : eterm) (replies : list Z)
(* debt repayment *)
| RepayDebt (chk v : Z) (replies : list Z)
(* gated handlers *)
| Withdraw (caller_ok early : bool) (requested : Z) (quota : option Z) (payee v : Z) (replies : list Z)
| PreCommit (epoch pre chk1 chk2 dep : Z) (deals needs_cron : bool) (replies : list Z)
| DeclareRecovered (epoch pre chk1 chk2 : Z) (replies : list Z)
| ProveCommitNI (pre chk pledge : Z) (needs_cron : bool) (replies : list Z)
(* everything else: what a successful un-modelled method did to the ledger (it cannot touch fee_debt or
   locked_funds), accepted when the balance invariants hold afterwards *)
| Other (dbal dpcd dip : Z).

(* value received with the message (credited before the handler runs, rolled back on failure) *)
Definition op_value (o : op) : Z := match o with ApplyRewards _ value _ _ _ _ => value | _ => 0 end.

Definition handle (s : state) (o : op) : res ex :=
  match o with
  | ApplyRewards caller value reward penalty v rps =>
      if value <? 0 then Err ILLEGAL_ARGUMENT else
      h_apply_rewards (ex0 (set_bal s (bal s + value)) rps) caller reward penalty v
  | ReportFault reporter epoch fault er v rps => h_report_fault (ex0 s rps) reporter epoch fault er v
  | Dispute reporter pre chk r v pwr rps => h_dispute (ex0 s rps) reporter pre chk r v pwr
  | Cron caller ev sys rps => h_cron (ex0 s rps) caller ev sys
  | Terminate chk pwr had et rps => h_terminate (ex0 s rps) chk pwr had et
  | RepayDebt chk v rps => h_repay_debt (ex0 s rps) chk v
  | Withdraw cok early req q payee v rps => h_withdraw (ex0 s rps) cok early req q payee v
  | PreCommit e pre c1 c2 dep deals nc rps => h_precommit (ex0 s rps) e pre c1 c2 dep deals nc
  | DeclareRecovered e pre c1 c2 rps => h_declare_recovered (ex0 s rps) e pre c1 c2
  | ProveCommitNI pre chk pl nc rps => h_prove_commit_ni (ex0 s rps) pre chk pl nc
  | Other dbal dpcd dip =>
      let s' := mk (bal s + dbal) (locked s) (pcd s + dpcd) (ip s + dip) (fee_debt s) (cfe s) in
      finish (ex0 s' [])
  end.

Record outcome := {
  code : Z;
  charged : Z;         (* total of the penalties applied by this invocation *)
  burnt : Z;           (* sent to the burnt-funds actor *)
  reporter_paid : Z;   (* sent to the reporter *)
  paid_out : Z;        (* sent to the withdrawal payee *)
  sends : list sendrec;
}.

Definition fail (c : Z) : outcome :=
  {| code := c; charged := 0; burnt := 0; reporter_paid := 0; paid_out := 0; sends := [] |}.
Definition outcome_of (x : ex) : outcome :=
  {| code := EOK; charged := xcharged x; burnt := xburnt x; reporter_paid := xpaid x;
     paid_out := xout x; sends := lg x |}.

Definition step (s : state) (o : op) : state * outcome :=
  match handle s o with
  | Ok x => (st x, outcome_of x)
  | Err c => (s, fail c)
  end.

Definition run (s : state) (ops : list op) : state := fold_left (fun s o => fst (step s o)) ops s.

(* the gated handlers, by the name the translator finds in lib.rs *)
Definition gated_name (o : op) : option string :=
  match o with
  | Withdraw _ _ _ _ _ _ _ => Some "withdraw_balance"%string
  | PreCommit _ _ _ _ _ _ _ _ => Some "pre_commit_sector_batch_inner"%string
  | DeclareRecovered _ _ _ _ _ => Some "declare_faults_recovered"%string
  | ProveCommitNI _ _ _ _ _ => Some "prove_commit_sectors_ni"%string
  | _ => None
  end.

(* the penalised handlers, by the lib.rs function that calls apply_penalty *)
Definition penalised_name (o : op) : list string :=
  match o with
  | ApplyRewards _ _ _ _ _ _ => ["apply_rewards"%string]
  | ReportFault _ _ _ _ _ _ => ["report_consensus_fault"%string]
  | Dispute _ _ _ _ _ _ _ => ["dispute_windowed_post"%string]
  | Cron _ _ _ _ => ["handle_proving_deadline"%string; "process_early_terminations"%string]
  | Terminate _ _ _ _ _ => ["process_early_terminations"%string]
  | _ => []
  end.

(* ---- observation encoding ----
   the fifth slot of an outcome is the implementation's accounting discrepancy
   fee_debt + charged - fee_debt' - burnt - reporter_paid, which the model says is 0 *)
Definition enc_sends (l : list sendrec) : list Z :=
  Z.of_nat (List.length l) :: flat_map (fun '(t, m, v, a, r) => [t; m; v; a; r]) l.
Definition enc_outcome (o : outcome) : list Z :=
  [code o; charged o; burnt o; reporter_paid o; 0; paid_out o] ++ enc_sends (sends o).
Definition enc_state (s : state) : list Z := [bal s; locked s; pcd s; ip s; fee_debt s; cfe s].

(* one correspondence step = one top-level message = the invocations it made on the miner actor that
   were not rolled back by a failing ancestor, in call order *)
Fixpoint run_msg (s : state) (invs : list op) : state * list Z :=
  match invs with
  | [] => (s, [])
  | o :: rest =>
      let '(s1, out) := step s o in
      let '(s2, l) := run_msg s1 rest in (s2, enc_outcome out ++ l)
  end.

Definition stepo (s : state) (invs : list op) : state * list Z :=
  let '(s', l) := run_msg s invs in (s', l ++ enc_state s').

Definition check_case := @Corr.check state (list op) stepo.

(* ---- boolean monitors (the per-event predicates of the property) ---- *)
Definition accounting_b (s : state) (s' : state) (o : outcome) : bool :=
  fee_debt s' + burnt o + reporter_paid o =? fee_debt s + charged o.
