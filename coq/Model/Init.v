(* Executable model of the init actor (actors/init/src/{lib.rs,state.rs}) together with the VM-side
   actor table it works against (harness/src/vvm_messaging.rs: create_actor, resolve_target's
   auto-creation of accounts and placeholders, new_actor_address).  Definitions only.

   Addresses are the BYTES of `Address::to_bytes()` (protocol byte ++ payload), so the keys of the
   address map are literally the keys of the real HAMT:
     1 ++ 20 bytes   secp256k1 key address          2 ++ 20 bytes   actor ("robust") address
     3 ++ 48 bytes   BLS key address                4 ++ varint(namespace) ++ subaddress   delegated
   ID addresses never occur as keys; destinations are `D_id i | D_addr bytes`.

   What survives a roll-back: the per-message counter behind `new_actor_address` and the record of the
   bytes given to keccak live in `nctx`, which every function threads through even when it fails;
   everything else (`world`) is discarded by the caller on `Err`, exactly like the VM's roll-back. *)
From stdpp Require Import gmap.
From Coq Require Import ZArith NArith List Bool.
From VF Require Import Gen.Consts Gen.Identity Base.Corr.
Import ListNotations.
Open Scope Z_scope.

Definition addr := list Z.

(* ---- exit codes (fvm_shared::error::ExitCode) ---- *)
Definition SYS_INVALID_RECEIVER := 5.
Definition SYS_ASSERTION_FAILED := 10.
Definition ILLEGAL_ARGUMENT := 16.
Definition FORBIDDEN := 18.
Definition ILLEGAL_STATE := 20.
Definition UNHANDLED_MESSAGE := 22.
Definition USR_ASSERTION_FAILED := 24.
Definition EVM_CONTRACT_REVERTED := 33.

(* ActorError::checked, applied by extract_send_result to a callee's exit code *)
Definition checked (c : Z) : Z :=
  if (c =? 11) || (c =? 4) || (c =? 9) then 23           (* missing return / illegal instruction / illegal exit code *)
  else if c <? 16 then USR_ASSERTION_FAILED else c.

(* ---- builtin actor types ---- *)
Inductive code :=
| C_System | C_Init | C_Cron | C_Account | C_Power | C_Miner | C_Market | C_Paych | C_Multisig
| C_Reward | C_Verifreg | C_Datacap | C_Placeholder | C_Evm | C_Eam | C_EthAccount
| C_Unknown.   (* a code CID that is not a builtin actor *)

Definition code_tag (c : code) : Z :=
  match c with
  | C_System => TY_System | C_Init => TY_Init | C_Cron => TY_Cron | C_Account => TY_Account
  | C_Power => TY_Power | C_Miner => TY_Miner | C_Market => TY_Market | C_Paych => TY_PaymentChannel
  | C_Multisig => TY_Multisig | C_Reward => TY_Reward | C_Verifreg => TY_VerifiedRegistry
  | C_Datacap => TY_DataCap | C_Placeholder => TY_Placeholder | C_Evm => TY_EVM | C_Eam => TY_EAM
  | C_EthAccount => TY_EthAccount | C_Unknown => 0
  end.
Definition code_eqb (a b : code) : bool := code_tag a =? code_tag b.
Definition is_placeholder (c : code) : bool := code_eqb c C_Placeholder.

(* runtime/src/test_utils.rs NON_SINGLETON_CODES: what Runtime::create_actor accepts *)
Definition creatable (c : code) : bool :=
  match c with
  | C_Account | C_Paych | C_Multisig | C_Miner | C_Placeholder | C_Evm | C_EthAccount => true
  | _ => false
  end.

(* ---- the world ---- *)
(* behaviour of a deployed EVM contract's runtime code (the harness deploys three kinds) *)
Inductive rcode := R_none | R_kill | R_factory.

Record evm_st := {
  e_nonce : Z;
  e_tomb : option (N * Z);     (* tombstone: (origin, message nonce) of the self-destructing message *)
  e_rt : rcode;
}.

Record actor := {
  a_code : code;
  a_deleg : option addr;       (* ActorState.delegated_address *)
  a_evm : option evm_st;       (* EVM contract state, None while the state root is EMPTY_ARR_CID *)
}.

Record world := {
  amap : gmap addr N;          (* init actor: address_map *)
  next_id : N;                 (* init actor: next_id *)
  actors : gmap N actor;       (* the VM's state tree *)
}.

Definition set_actor (w : world) (i : N) (a : actor) : world :=
  {| amap := amap w; next_id := next_id w; actors := <[ i := a ]> (actors w) |}.

Inductive res (A : Type) := Ok (a : A) | Err (c : Z).
Arguments Ok {A} a.
Arguments Err {A} c.

Record nctx := {
  n_cnt : N;                   (* TopCtx.new_actor_addr_count: actors created by this message so far *)
  n_log : list (list Z);       (* address pre-images given to keccak so far, newest first *)
}.
Definition nctx0 : nctx := {| n_cnt := 0%N; n_log := [] |}.
Definition bump (nc : nctx) : nctx := {| n_cnt := (n_cnt nc + 1)%N; n_log := n_log nc |}.
Definition logp (nc : nctx) (p : list Z) : nctx := {| n_cnt := n_cnt nc; n_log := p :: n_log nc |}.

(* per-message context *)
Record mctx := {
  m_origin : N;
  m_seq : Z;                   (* rt.message().nonce(): the origin's call sequence number *)
  m_robust : N -> addr;        (* new_actor_address() as a function of the creation counter *)
}.

(* ---- State::map_addresses_to_id (actors/init/src/state.rs) ---- *)
Definition map_addresses_to_id (w : world) (robust : addr) (deleg : option addr)
  : res (world * N * bool) :=
  let '(m1, nid, id, existing) :=
    match deleg with
    | Some d =>
        match amap w !! d with
        | Some i => (amap w, next_id w, i, true)
        | None => (<[ d := next_id w ]> (amap w), (next_id w + 1)%N, next_id w, false)
        end
    | None => (amap w, (next_id w + 1)%N, next_id w, false)
    end in
  match m1 !! robust with
  | Some _ => Err FORBIDDEN              (* set_if_absent: robust address already allocated *)
  | None => Ok ({| amap := <[ robust := id ]> m1; next_id := nid; actors := actors w |}, id, existing)
  end.

(* ---- Runtime::create_actor (vvm_messaging.rs) ---- *)
Definition vm_create_actor (w : world) (c : code) (id : N) (deleg : option addr) : res world :=
  if negb (creatable c) then Err SYS_ASSERTION_FAILED else
  match actors w !! id with
  | None => Ok (set_actor w id {| a_code := c; a_deleg := deleg; a_evm := None |})
  | Some a =>
      if is_placeholder (a_code a)
      then Ok (set_actor w id {| a_code := c; a_deleg := a_deleg a; a_evm := a_evm a |})
      else Err FORBIDDEN
  end.

(* ---- delegated addresses ---- *)
Fixpoint varint_enc (fuel : nat) (n : Z) : list Z :=
  match fuel with
  | O => []
  | S f => if n <? 128 then [n] else (n mod 128 + 128) :: varint_enc f (n / 128)
  end.
Definition f4 (ns : N) (sub : list Z) : addr := 4 :: varint_enc 10 (Z.of_N ns) ++ sub.

Fixpoint varint_dec (fuel : nat) (l : list Z) (mul acc : Z) : option Z :=
  match fuel, l with
  | S f, b :: r => if b <? 128 then Some (acc + b * mul) else varint_dec f r (mul * 128) (acc + (b - 128) * mul)
  | _, _ => None
  end.
Definition deleg_ns (a : addr) : option N :=
  match a with
  | 4 :: r => option_map Z.to_N (varint_dec 10 r 1 0)
  | _ => None
  end.
Definition MAX_SUBADDRESS_LEN := 54.

(* ---- destinations and InvocationCtx::resolve_target ---- *)
Inductive dest := D_id (i : N) | D_addr (a : addr).
Definition resolve (w : world) (d : dest) : option N :=
  match d with D_id i => Some i | D_addr a => amap w !! a end.

Definition resolve_target (w : world) (nc : nctx) (d : dest) : nctx * res (world * N) :=
  let found := match resolve w d with
               | Some i => match actors w !! i with Some _ => Some i | None => None end
               | None => None
               end in
  match found with
  | Some i => (nc, Ok (w, i))
  | None =>
      match d with
      | D_id _ => (nc, Err SYS_INVALID_RECEIVER)
      | D_addr a =>
          let kind :=                      (* Some true: account, Some false: placeholder *)
            match a with
            | 1 :: _ | 3 :: _ => Some true
            | 4 :: _ => match deleg_ns a with
                        | Some ns => match actors w !! ns with Some _ => Some false | None => None end
                        | None => None
                        end
            | _ => None
            end in
          match kind with
          | None => (nc, Err SYS_INVALID_RECEIVER)
          | Some is_account =>
              match map_addresses_to_id w a None with
              | Err e => (nc, Err e)
              | Ok (w1, id, _) =>
                  let r := if is_account then vm_create_actor w1 C_Account id None
                           else vm_create_actor w1 C_Placeholder id (Some a) in
                  match r with
                  | Err e => (nc, Err e)
                  | Ok w2 => (bump nc, Ok (w2, id))
                  end
              end
          end
      end
  end.

(* ---- init actor: can_exec / Exec / Exec4 (actors/init/src/lib.rs) ---- *)
Definition can_exec (caller_code exec_code : code) : bool :=
  existsb (Z.eqb (code_tag exec_code)) CAN_EXEC_ANY
  || existsb (fun '(e, c) => (code_tag exec_code =? e) && (code_tag caller_code =? c)) CAN_EXEC_IF_CALLER.

(* a constructor: runs on the freshly created actor `id`; may itself create actors *)
Definition ctor_t := N -> world -> nctx -> nctx * res world.
Definition oracle_ctor (exit : Z) : ctor_t :=
  fun _ w nc => if exit =? 0 then (nc, Ok w) else (nc, Err exit).

Definition init_exec (ctor : ctor_t) (mc : mctx) (w : world) (nc : nctx) (caller : N) (c : code)
  : nctx * res (world * (N * addr)) :=
  match actors w !! caller with
  | None => (nc, Err ILLEGAL_STATE)
  | Some ca =>
      if EXEC_GUARDED_BY_CAN_EXEC && negb (can_exec (a_code ca) c) then (nc, Err FORBIDDEN) else
      let robust := m_robust mc (n_cnt nc) in
      match map_addresses_to_id w robust None with
      | Err e => (nc, Err e)
      | Ok (w1, id, existing) =>
          if existing then (nc, Err FORBIDDEN) else
          match vm_create_actor w1 c id None with
          | Err e => (nc, Err e)
          | Ok w2 =>
              match ctor id w2 (bump nc) with
              | (nc3, Err e) => (nc3, Err (checked e))
              | (nc3, Ok w3) => (nc3, Ok (w3, (id, robust)))
              end
          end
      end
  end.

Definition EAM_ID : N := Z.to_N EAM_ACTOR_ID.
Definition POWER_ID : N := Z.to_N STORAGE_POWER_ACTOR_ID.

Definition init_exec4 (ctor : ctor_t) (mc : mctx) (w : world) (nc : nctx) (caller : N)
    (sub : list Z) (c : code) : nctx * res (world * (N * addr)) :=
  if EXEC4_CALLER_IS_EAM && negb (caller =? EAM_ID)%N then (nc, Err FORBIDDEN) else
  if MAX_SUBADDRESS_LEN <? Z.of_nat (length sub) then (nc, Err ILLEGAL_ARGUMENT) else
  let d := f4 caller sub in
  let robust := m_robust mc (n_cnt nc) in
  match map_addresses_to_id w robust (Some d) with
  | Err e => (nc, Err e)
  | Ok (w1, id, existing) =>
      let over_ok :=
        if existing then
          match actors w1 !! id with
          | None => false                                  (* cannot redeploy a deleted actor *)
          | Some a => is_placeholder (a_code a)            (* only over a placeholder *)
          end
        else true in
      if negb over_ok then (nc, Err FORBIDDEN) else
      match vm_create_actor w1 c id (Some d) with
      | Err e => (nc, Err e)
      | Ok w2 =>
          match ctor id w2 (bump nc) with
          | (nc3, Err e) => (nc3, Err (checked e))
          | (nc3, Ok w3) => (nc3, Ok (w3, (id, robust)))
          end
      end
  end.

(* ---- canonical orderings for observations ---- *)
Fixpoint lex_leb (a b : list Z) : bool :=
  match a, b with
  | [], _ => true
  | _ :: _, [] => false
  | x :: a', y :: b' => if x <? y then true else if y <? x then false else lex_leb a' b'
  end.

Section Sort.
  Context {X : Type} (leb : X -> X -> bool).
  Fixpoint ins_sorted (x : X) (l : list X) : list X :=
    match l with
    | [] => [x]
    | y :: r => if leb x y then x :: l else y :: ins_sorted x r
    end.
  Definition isort (l : list X) : list X := fold_right ins_sorted [] l.
End Sort.

Definition amap_entry_leb (x y : addr * N) : bool :=
  if (snd x <? snd y)%N then true else if (snd y <? snd x)%N then false else lex_leb (fst x) (fst y).
Definition sorted_amap (m : gmap addr N) : list (addr * N) := isort amap_entry_leb (map_to_list m).
Definition actor_entry_leb (x y : N * actor) : bool := (fst x <=? fst y)%N.
Definition sorted_actors (m : gmap N actor) : list (N * actor) := isort actor_entry_leb (map_to_list m).
