(* Executable model of the FEVM interpreter (actors/evm/src/interpreter): execution.rs (Machine::execute /
   step, jump table), instructions/mod.rs (the def_* macro zoo and its stack discipline, read through the
   GENERATED table Gen.Opcodes), stack.rs, memory.rs, bytecode.rs (jump-destination analysis),
   instructions/{memory,control,storage,call,hash,log_event,lifecycle,context,ext,state}.rs and the mapping of
   outcomes to exit codes in actors/evm/src/lib.rs.

   The machine is parametrised by a [word_ops] (Model/EvmSpec.v): the arithmetic / comparison / bitwise
   instructions are whatever that record says.  Everything the interpreter obtains from outside the
   contract (hashes, context values, other actors' code and balances, results of calls / creates /
   transfers) is an input: the [env] record and the oracle stream [m_ext].

   Definitions only.  Stack: list Z with the TOP AT THE HEAD.  Memory: sparse byte map + size in bytes. *)
From stdpp Require Import gmap.
From Coq Require Import ZArith List Bool.
From VF Require Import Gen.Consts Gen.Opcodes Base.Corr Model.EvmSpec.
Import ListNotations.
Open Scope Z_scope.

(* ---------- constants ---------- *)
Definition U32_MAX : Z := 2 ^ 32 - 1.
Definition USR_ILLEGAL_ARGUMENT : Z := 16.
Definition USR_READ_ONLY : Z := 25.          (* fvm_shared ExitCode::USR_READ_ONLY; ActorError::read_only *)
Definition EC_MODEL : Z := -1.               (* "the generated table does not fit the model": never produced
                                                for a table that passes Proofs.table_ok *)
Definition ADDR_MASK : Z := 2 ^ 160.

Definition wrapW (x : Z) : Z := x mod W.

(* ---------- Z-indexed list helpers ---------- *)
Definition zlen {A} (l : list A) : Z := Z.of_nat (length l).

Fixpoint znth (l : list Z) (i : Z) : Z :=
  match l with
  | [] => 0
  | x :: r => if i =? 0 then x else znth r (i - 1)
  end.

Fixpoint zdrop (n : Z) (l : list Z) : list Z :=
  match l with
  | [] => []
  | x :: r => if n <=? 0 then l else zdrop (n - 1) r
  end.

Fixpoint ztake (n : Z) (l : list Z) : list Z :=
  match l with
  | [] => []
  | x :: r => if n <=? 0 then [] else x :: ztake (n - 1) r
  end.

Fixpoint zseq_nat (start : Z) (n : nat) : list Z :=
  match n with O => [] | S k => start :: zseq_nat (start + 1) k end.
Definition zseq (start n : Z) : list Z := zseq_nat start (Z.to_nat n).

Definition byte_at (code : list Z) (i : Z) : Z := (znth code i) mod 256.

Definition be_to_Z (bs : list Z) : Z := fold_left (fun acc b => 256 * acc + b) bs 0.
Fixpoint Z_to_be_rev (n : nat) (v : Z) : list Z :=
  match n with O => [] | S k => Z.land v 255 :: Z_to_be_rev k (Z.shiftr v 8) end.   (* = v mod 256, v / 256 *)
Definition Z_to_be (n : nat) (v : Z) : list Z := rev (Z_to_be_rev n v).

(* ---------- memory (interpreter/memory.rs, instructions/memory.rs) ---------- *)
Definition mem_get (m : gmap Z Z) (i : Z) : Z :=
  match m !! i with Some b => b mod 256 | None => 0 end.
Definition mem_read (m : gmap Z Z) (off n : Z) : list Z := map (mem_get m) (zseq off n).
Fixpoint mem_write (m : gmap Z Z) (off : Z) (bs : list Z) : gmap Z Z :=
  match bs with
  | [] => m
  | b :: r => mem_write (<[ off := b mod 256 ]> m) (off + 1) r
  end.
Definition in_rng (lo n k : Z) : bool := (lo <=? k) && (k <? lo + n).
(* zero a range without enumerating it (ranges may be gigabytes; the map is small) *)
Definition mem_zero (m : gmap Z Z) (off n : Z) : gmap Z Z :=
  list_to_map (List.filter (fun kv : Z * Z => negb (in_rng off n (fst kv))) (map_to_list m)).
(* memmove semantics of slice::copy_within *)
Definition mem_move (m : gmap Z Z) (dst src n : Z) : gmap Z Z :=
  let moved := List.filter (fun kv : Z * Z => in_rng src n (fst kv)) (map_to_list m) in
  fold_left (fun acc (kv : Z * Z) => <[ fst kv - src + dst := snd kv ]> acc) moved (mem_zero m dst n).

Definition align32 (x : Z) : Z := ((x + 31) / 32) * 32.
(* Memory::grow *)
Definition grow (msize new_size : Z) : Z := if new_size <=? msize then msize else align32 new_size.

Inductive region := RegNone | RegSome (off size : Z).
(* get_memory_region: None = EVM_CONTRACT_ILLEGAL_MEMORY_ACCESS; otherwise the region and the new
   memory size.  Order of the checks as in the code: size -> u32, size = 0, offset -> u32, checked_add. *)
Definition mem_region (msize off size : Z) : option (region * Z) :=
  if U32_MAX <? size then None else
  if size =? 0 then Some (RegNone, msize) else
  if U32_MAX <? off then None else
  if U32_MAX <? off + size then None else
  Some (RegSome off size, grow msize (off + size)).

(* ---------- machine state ---------- *)
(* results of the operations performed by OTHER actors, consumed in order by CALL / DELEGATECALL /
   STATICCALL / CREATE / CREATE2 / SELFDESTRUCT:
   xr_ok  : SELFDESTRUCT: the transfer to the beneficiary succeeded;
   xr_val : CALL family: non-zero = success flag; CREATE family: the new address (0 = failure);
   xr_ret : the new return-data buffer *)
Record ext_res := { xr_ok : bool; xr_val : Z; xr_ret : list Z }.
Definition xr_default : ext_res := {| xr_ok := true; xr_val := 0; xr_ret := [] |}.

(* what the execution asked the outside world to do, newest first *)
Inductive ext_ev :=
| EvCall (kind : Z) (dst value : Z) (input : list Z)      (* 0 CALL, 1 DELEGATECALL, 2 STATICCALL *)
| EvCreate (two : bool) (value salt : Z) (init : list Z)
| EvSelfdestruct (beneficiary : Z)
| EvLog (topics : list Z) (data : list Z).

(* is this request a side effect that a static context must not produce? *)
Definition is_effect (e : ext_ev) : bool :=
  match e with EvCall _ _ v _ => 0 <? v | _ => true end.

Record mstate := {
  m_pc : Z;
  m_stack : list Z;
  m_mem : gmap Z Z;
  m_msize : Z;
  m_storage : gmap Z Z;
  m_transient : gmap Z Z;
  m_retdata : list Z;
  m_balance : Z;
  m_ext : list ext_res;
  m_log : list ext_ev;
}.

Definition set_pc (p : Z) (s : mstate) : mstate :=
  {| m_pc := p; m_stack := m_stack s; m_mem := m_mem s; m_msize := m_msize s; m_storage := m_storage s;
     m_transient := m_transient s; m_retdata := m_retdata s; m_balance := m_balance s; m_ext := m_ext s; m_log := m_log s |}.
Definition set_stack (st : list Z) (s : mstate) : mstate :=
  {| m_pc := m_pc s; m_stack := st; m_mem := m_mem s; m_msize := m_msize s; m_storage := m_storage s;
     m_transient := m_transient s; m_retdata := m_retdata s; m_balance := m_balance s; m_ext := m_ext s; m_log := m_log s |}.
Definition set_mem (m : gmap Z Z) (sz : Z) (s : mstate) : mstate :=
  {| m_pc := m_pc s; m_stack := m_stack s; m_mem := m; m_msize := sz; m_storage := m_storage s;
     m_transient := m_transient s; m_retdata := m_retdata s; m_balance := m_balance s; m_ext := m_ext s; m_log := m_log s |}.
Definition set_storage (st : gmap Z Z) (s : mstate) : mstate :=
  {| m_pc := m_pc s; m_stack := m_stack s; m_mem := m_mem s; m_msize := m_msize s; m_storage := st;
     m_transient := m_transient s; m_retdata := m_retdata s; m_balance := m_balance s; m_ext := m_ext s; m_log := m_log s |}.
Definition set_transient (st : gmap Z Z) (s : mstate) : mstate :=
  {| m_pc := m_pc s; m_stack := m_stack s; m_mem := m_mem s; m_msize := m_msize s; m_storage := m_storage s;
     m_transient := st; m_retdata := m_retdata s; m_balance := m_balance s; m_ext := m_ext s; m_log := m_log s |}.
(* the part of the state an external operation changes *)
Definition set_ext (ret : list Z) (bal : Z) (ext : list ext_res) (lg : list ext_ev) (s : mstate) : mstate :=
  {| m_pc := m_pc s; m_stack := m_stack s; m_mem := m_mem s; m_msize := m_msize s; m_storage := m_storage s;
     m_transient := m_transient s; m_retdata := ret; m_balance := bal; m_ext := ext; m_log := lg |}.

Definition init_state (storage : gmap Z Z) (balance : Z) (ext : list ext_res) : mstate :=
  {| m_pc := 0; m_stack := []; m_mem := ∅; m_msize := 0; m_storage := storage; m_transient := ∅;
     m_retdata := []; m_balance := balance; m_ext := ext; m_log := [] |}.

(* ---------- environment of one execution ---------- *)
Record env := {
  e_code : list Z;
  e_calldata : list Z;
  e_readonly : bool;                 (* System.readonly *)
  e_keccak : list Z -> Z;            (* rt.hash_64(Keccak256, .) *)
  e_ctx : instr -> Z;                (* ADDRESS ORIGIN CALLER CALLVALUE GASPRICE COINBASE TIMESTAMP NUMBER
                                        PREVRANDAO GASLIMIT CHAINID BASEFEE GAS *)
  e_keyed : instr -> Z -> Z;         (* BALANCE EXTCODESIZE EXTCODEHASH (of a 160-bit address) BLOCKHASH *)
  e_extcode : Z -> list Z;           (* code seen by EXTCODECOPY *)
  e_canon : Z -> Z;                  (* canonical form of a 160-bit address: the 0xff.. form of the ID of an
                                        actor that has an Ethereum address is mapped to that address
                                        (rt.resolve_address / lookup_delegated_address); identity otherwise *)
  e_acct_kind : Z -> Z;              (* ext::get_contract_type of a 160-bit address:
                                        0 account / not found, 1 EVM contract, 2 other native actor *)
}.

(* an environment with trivial oracles, for examples (new oracle fields get their default here, so that
   users of the model do not have to spell the record out) *)
Definition default_env (code calldata : list Z) : env :=
  {| e_code := code; e_calldata := calldata; e_readonly := false; e_keccak := fun _ => 0;
     e_ctx := fun _ => 0; e_keyed := fun _ _ => 0; e_extcode := fun _ => []; e_canon := fun a => a;
     e_acct_kind := fun _ => 0 |}.

Inductive outcome := Return (data : list Z) | Revert (data : list Z) | Failure (code : Z).

(* what an instruction's implementation function yields *)
Inductive sem_res :=
| SemPush (v : Z) (s : mstate)
| SemNone (s : mstate)
| SemJump (pc : Z) (s : mstate)
| SemExit (o : outcome) (s : mstate)
| SemFail (c : Z) (s : mstate).   (* the state at the failure: the requests already made stay visible *)

Inductive step_res := SNext (s : mstate) | SHalt (o : outcome) (s : mstate).

(* ---------- jump-destination analysis (interpreter/bytecode.rs, Bytecode::new) ---------- *)
Definition B_JUMPDEST : Z := instr_byte I_JUMPDEST.
Definition B_PUSH1 : Z := instr_byte I_PUSH1.
Definition B_PUSH32 : Z := instr_byte I_PUSH32.

(* [skip] = number of push-data bytes still to be skipped *)
Fixpoint analyse (code : list Z) (skip : nat) : list bool :=
  match code with
  | [] => []
  | b :: rest =>
      match skip with
      | S k => false :: analyse rest k
      | O =>
          let b := b mod 256 in
          if b =? B_JUMPDEST then true :: analyse rest O
          else if (B_PUSH1 <=? b) && (b <=? B_PUSH32) then false :: analyse rest (Z.to_nat (b - B_PUSH1 + 1))
          else false :: analyse rest O
      end
  end.

Fixpoint znth_b (l : list bool) (i : Z) : bool :=
  match l with
  | [] => false
  | x :: r => if i =? 0 then x else znth_b r (i - 1)
  end.

(* Bytecode::valid_jump_destination *)
Definition valid_jumpdest (code : list Z) (i : Z) : bool := (0 <=? i) && znth_b (analyse code O) i.

(* ---------- the machine ---------- *)
Section Machine.
  Variable ops : word_ops.
  Variable E : env.

  Definition code := e_code E.
  Definition codelen : Z := zlen code.

  Definition bin (f : Z -> Z -> Z) (args : list Z) (s : mstate) : sem_res :=
    match args with [a; b] => SemPush (f a b) s | _ => SemFail EC_MODEL s end.
  Definition un (f : Z -> Z) (args : list Z) (s : mstate) : sem_res :=
    match args with [a] => SemPush (f a) s | _ => SemFail EC_MODEL s end.
  Definition tern (f : Z -> Z -> Z -> Z) (args : list Z) (s : mstate) : sem_res :=
    match args with [a; b; c] => SemPush (f a b c) s | _ => SemFail EC_MODEL s end.
  Definition nullary (v : Z) (args : list Z) (s : mstate) : sem_res :=
    match args with [] => SemPush (wrapW v) s | _ => SemFail EC_MODEL s end.

  Definition ILLEGAL_MEM := EVM_CONTRACT_ILLEGAL_MEMORY_ACCESS.

  (* copy_to_memory (instructions/memory.rs) *)
  Definition copy_to_memory (s : mstate) (dest size data_off : Z) (data : list Z) (zero_fill : bool)
    : option mstate :=
    match mem_region (m_msize s) dest size with
    | None => None
    | Some (RegNone, sz) => Some (set_mem (m_mem s) sz s)
    | Some (RegSome off n, sz) =>
        let dl := zlen data in
        let doff := if data_off <? dl then data_off else dl in
        let cs := if n <? dl - doff then n else dl - doff in
        let m1 := mem_write (m_mem s) off (ztake cs (zdrop doff data)) in
        let m2 := if zero_fill && (cs <? n) then
                    mem_write (mem_zero (m_mem s) (off + cs) (n - cs)) off (ztake cs (zdrop doff data))
                  else m1 in
        Some (set_mem m2 sz s)
    end.

  (* bytes of a region (after the region check) *)
  Definition region_bytes (m : gmap Z Z) (r : region) : list Z :=
    match r with RegNone => [] | RegSome off n => mem_read m off n end.

  (* precompiles::is_reserved_precompile_address on the low 160 bits *)
  Definition is_reserved_precompile (dst : Z) : bool :=
    let a := dst mod ADDR_MASK in
    (a =? 256) ||
    (let prefix := a / 2 ^ 152 in let index := a mod 256 in let middle := (a / 256) mod 2 ^ 144 in
     ((prefix =? 0) || (prefix =? 254)) && (middle =? 0) && (0 <? index)).

  Definition next_ext (s : mstate) : ext_res * list ext_res :=
    match m_ext s with [] => (xr_default, []) | r :: rest => (r, rest) end.

  (* call_generic (instructions/call.rs); kind: 0 CALL, 1 DELEGATECALL, 2 STATICCALL.
     Where the result comes from:
     - reserved precompile address: the precompile's result (next oracle entry; no message is sent);
     - CALL / STATICCALL: always a message to dst (next oracle entry);
     - DELEGATECALL: decided by the type of dst: an EVM contract runs its code in our context (next
       oracle entry), an account or a missing actor "succeeds" with no data, any other native actor
       "fails" with no data -- no message is sent in the last two cases. *)
  Definition do_call (kind : Z) (dst value ioff isz ooff osz : Z) (s : mstate) : sem_res :=
    if e_readonly E && (0 <? value) then SemFail USR_READ_ONLY s else
    match mem_region (m_msize s) ioff isz with
    | None => SemFail ILLEGAL_MEM s
    | Some (reg, sz) =>
        let input := region_bytes (m_mem s) reg in
        let dst160 := e_canon E (dst mod ADDR_MASK) in
        let pre := is_reserved_precompile dst in
        let sends := pre || negb (kind =? 1) || (e_acct_kind E dst160 =? 1) in
        let '(r, rest) :=
          if sends then next_ext s
          else ({| xr_ok := true; xr_val := (if e_acct_kind E dst160 =? 2 then 0 else 1); xr_ret := [] |}, m_ext s) in
        let ok := negb (xr_val r =? 0) in
        (* a successful value transfer to somebody else leaves the contract's balance *)
        let bal := if ok && (kind =? 0) then m_balance s - value else m_balance s in
        let lg := if sends && negb pre then EvCall kind dst160 value input :: m_log s else m_log s in
        let s1 := set_ext (xr_ret r) bal rest lg (set_mem (m_mem s) sz s) in
        match copy_to_memory s1 ooff osz 0 (xr_ret r) false with
        | None => SemFail ILLEGAL_MEM s1
        | Some s2 => SemPush (if ok then 1 else 0) s2
        end
    end.

  (* create / create2 / create_common (instructions/lifecycle.rs) *)
  Definition do_create (two : bool) (value off size salt : Z) (s : mstate) : sem_res :=
    if e_readonly E then SemFail USR_READ_ONLY s else
    match mem_region (m_msize s) off size with
    | None => SemFail ILLEGAL_MEM s
    | Some (reg, sz) =>
        let init := region_bytes (m_mem s) reg in
        let s0 := set_mem (m_mem s) sz s in
        if m_balance s <? value then
          (* endowment exceeds the balance: no send, nonce untouched, return data cleared *)
          SemPush 0 (set_ext [] (m_balance s) (m_ext s) (m_log s) s0)
        else
          let '(r, rest) := next_ext s in
          let addr := xr_val r mod ADDR_MASK in
          let bal := if addr =? 0 then m_balance s else m_balance s - value in
          SemPush addr (set_ext (xr_ret r) bal rest (EvCreate two value salt init :: m_log s) s0)
    end.

  Definition do_log (ntopics : nat) (args : list Z) (s : mstate) : sem_res :=
    match args with
    | off :: size :: topics =>
        if negb (Nat.eqb (length topics) ntopics) then SemFail EC_MODEL s else
        if e_readonly E then SemFail USR_READ_ONLY s else
        match mem_region (m_msize s) off size with
        | None => SemFail ILLEGAL_MEM s
        | Some (reg, sz) =>
            SemNone (set_ext (m_retdata s) (m_balance s) (m_ext s)
                             (EvLog topics (region_bytes (m_mem s) reg) :: m_log s)
                             (set_mem (m_mem s) sz s))
        end
    | _ => SemFail EC_MODEL s
    end.

  Definition do_exit (revert : bool) (off size : Z) (s : mstate) : sem_res :=
    match mem_region (m_msize s) off size with
    | None => SemFail ILLEGAL_MEM s
    | Some (reg, sz) =>
        let data := region_bytes (m_mem s) reg in
        SemExit (if revert then Revert data else Return data) (set_mem (m_mem s) sz s)
    end.

  (* control::jump / jumpi *)
  Definition do_jump (dest : Z) (s : mstate) : sem_res :=
    if valid_jumpdest code dest then SemJump (dest + 1) s else SemFail EVM_CONTRACT_BAD_JUMPDEST s.

  Definition store_set (m : gmap Z Z) (k v : Z) : gmap Z Z :=
    if v =? 0 then delete k m else <[ k := v ]> m.
  Definition store_get (m : gmap Z Z) (k : Z) : Z :=
    match m !! k with Some v => wrapW v | None => 0 end.

  (* the implementation function of every instruction except PUSHn / DUPn / SWAPn / POP, which operate
     on the stack directly (def_push!, def_stackop!) and are handled in [exec_row].
     [args]: the popped operands, FIRST = former top of the stack.  [s]: the state with the operands
     already removed.  The functions never touch m_stack nor m_pc. *)
  Definition sem (i : instr) (args : list Z) (s : mstate) : sem_res :=
    match i with
    (* arithmetic.rs / boolean.rs / bitwise.rs, through the word_ops *)
    | I_ADD => bin (w_add ops) args s | I_MUL => bin (w_mul ops) args s | I_SUB => bin (w_sub ops) args s
    | I_DIV => bin (w_div ops) args s | I_SDIV => bin (w_sdiv ops) args s
    | I_MOD => bin (w_mod ops) args s | I_SMOD => bin (w_smod ops) args s
    | I_ADDMOD => tern (w_addmod ops) args s | I_MULMOD => tern (w_mulmod ops) args s
    | I_EXP => bin (w_exp ops) args s | I_SIGNEXTEND => bin (w_signextend ops) args s
    | I_LT => bin (w_lt ops) args s | I_GT => bin (w_gt ops) args s
    | I_SLT => bin (w_slt ops) args s | I_SGT => bin (w_sgt ops) args s
    | I_EQ => bin (w_eq ops) args s | I_ISZERO => un (w_iszero ops) args s
    | I_AND => bin (w_and ops) args s | I_OR => bin (w_or ops) args s | I_XOR => bin (w_xor ops) args s
    | I_NOT => un (w_not ops) args s | I_BYTE => bin (w_byte ops) args s
    | I_SHL => bin (w_shl ops) args s | I_SHR => bin (w_shr ops) args s | I_SAR => bin (w_sar ops) args s
    | I_CLZ => un (w_clz ops) args s
    (* hash.rs *)
    | I_KECCAK256 =>
        match args with
        | [off; size] =>
            match mem_region (m_msize s) off size with
            | None => SemFail ILLEGAL_MEM s
            | Some (reg, sz) =>
                SemPush (wrapW (e_keccak E (region_bytes (m_mem s) reg))) (set_mem (m_mem s) sz s)
            end
        | _ => SemFail EC_MODEL s
        end
    (* context.rs / state.rs: values supplied by the environment *)
    | I_ADDRESS | I_ORIGIN | I_CALLER | I_CALLVALUE | I_GASPRICE | I_COINBASE | I_TIMESTAMP | I_NUMBER
    | I_PREVRANDAO | I_GASLIMIT | I_CHAINID | I_BASEFEE | I_GAS => nullary (e_ctx E i) args s
    | I_SELFBALANCE => nullary (m_balance s) args s
    | I_BALANCE | I_EXTCODESIZE | I_EXTCODEHASH =>
        match args with [a] => SemPush (wrapW (e_keyed E i (e_canon E (a mod ADDR_MASK)))) s | _ => SemFail EC_MODEL s end
    | I_BLOCKHASH =>
        match args with [a] => SemPush (wrapW (e_keyed E i a)) s | _ => SemFail EC_MODEL s end
    | I_EXTCODECOPY =>
        match args with
        | [a; dest; doff; size] =>
            match copy_to_memory s dest size doff (e_extcode E (e_canon E (a mod ADDR_MASK))) true with
            | None => SemFail ILLEGAL_MEM s | Some s' => SemNone s' end
        | _ => SemFail EC_MODEL s
        end
    (* call.rs: call data and code *)
    | I_CALLDATALOAD =>
        match args with
        | [idx] => SemPush (be_to_Z (map (fun k => byte_at (e_calldata E) (idx + k)) (zseq 0 32))) s
        | _ => SemFail EC_MODEL s
        end
    | I_CALLDATASIZE => nullary (zlen (e_calldata E)) args s
    | I_CALLDATACOPY =>
        match args with
        | [dest; doff; size] =>
            match copy_to_memory s dest size doff (map (fun b => b mod 256) (e_calldata E)) true with
            | None => SemFail ILLEGAL_MEM s | Some s' => SemNone s' end
        | _ => SemFail EC_MODEL s
        end
    | I_CODESIZE => nullary codelen args s
    | I_CODECOPY =>
        match args with
        | [dest; doff; size] =>
            match copy_to_memory s dest size doff (map (fun b => b mod 256) code) true with
            | None => SemFail ILLEGAL_MEM s | Some s' => SemNone s' end
        | _ => SemFail EC_MODEL s
        end
    (* control.rs: return data *)
    | I_RETURNDATASIZE => nullary (zlen (m_retdata s)) args s
    | I_RETURNDATACOPY =>
        match args with
        | [dest; src; size] =>
            match mem_region (m_msize s) dest size with
            | None => SemFail ILLEGAL_MEM s
            | Some (reg, sz) =>
                let rl := zlen (m_retdata s) in
                if rl <? src then SemFail ILLEGAL_MEM s else
                let n := match reg with RegNone => 0 | RegSome _ n => n end in
                if rl <? src + n then SemFail ILLEGAL_MEM s else
                match reg with
                | RegNone => SemNone (set_mem (m_mem s) sz s)
                | RegSome off n => SemNone (set_mem (mem_write (m_mem s) off (ztake n (zdrop src (m_retdata s)))) sz s)
                end
            end
        | _ => SemFail EC_MODEL s
        end
    (* instructions/memory.rs *)
    | I_MLOAD =>
        match args with
        | [idx] =>
            match mem_region (m_msize s) idx 32 with
            | Some (RegSome off n, sz) => SemPush (be_to_Z (mem_read (m_mem s) off 32)) (set_mem (m_mem s) sz s)
            | _ => SemFail ILLEGAL_MEM s
            end
        | _ => SemFail EC_MODEL s
        end
    | I_MSTORE =>
        match args with
        | [idx; v] =>
            match mem_region (m_msize s) idx 32 with
            | Some (RegSome off n, sz) => SemNone (set_mem (mem_write (m_mem s) off (Z_to_be 32 v)) sz s)
            | _ => SemFail ILLEGAL_MEM s
            end
        | _ => SemFail EC_MODEL s
        end
    | I_MSTORE8 =>
        match args with
        | [idx; v] =>
            match mem_region (m_msize s) idx 1 with
            | Some (RegSome off n, sz) => SemNone (set_mem (mem_write (m_mem s) off [v mod 256]) sz s)
            | _ => SemFail ILLEGAL_MEM s
            end
        | _ => SemFail EC_MODEL s
        end
    | I_MSIZE => nullary (m_msize s) args s
    | I_MCOPY =>
        match args with
        | [dest; src; size] =>
            if size =? 0 then SemNone s else
            (* copy_within_memory: source region first, then destination region *)
            match mem_region (m_msize s) src size with
            | Some (RegSome soff n, sz1) =>
                match mem_region sz1 dest size with
                | Some (RegSome doff _, sz2) => SemNone (set_mem (mem_move (m_mem s) doff soff n) sz2 s)
                | _ => SemFail ILLEGAL_MEM s
                end
            | _ => SemFail ILLEGAL_MEM s
            end
        | _ => SemFail EC_MODEL s
        end
    (* storage.rs *)
    | I_SLOAD => match args with [k] => SemPush (store_get (m_storage s) k) s | _ => SemFail EC_MODEL s end
    | I_TLOAD => match args with [k] => SemPush (store_get (m_transient s) k) s | _ => SemFail EC_MODEL s end
    | I_SSTORE =>
        match args with
        | [k; v] => if e_readonly E then SemFail USR_READ_ONLY s
                    else SemNone (set_storage (store_set (m_storage s) k v) s)
        | _ => SemFail EC_MODEL s
        end
    | I_TSTORE =>
        match args with
        | [k; v] => if e_readonly E then SemFail USR_READ_ONLY s
                    else SemNone (set_transient (store_set (m_transient s) k v) s)
        | _ => SemFail EC_MODEL s
        end
    (* control.rs *)
    | I_JUMPDEST => match args with [] => SemNone s | _ => SemFail EC_MODEL s end
    | I_INVALID => match args with [] => SemFail EVM_CONTRACT_INVALID_INSTRUCTION s | _ => SemFail EC_MODEL s end
    | I_STOP => match args with [] => SemExit (Return []) s | _ => SemFail EC_MODEL s end
    | I_RETURN => match args with [off; size] => do_exit false off size s | _ => SemFail EC_MODEL s end
    | I_REVERT => match args with [off; size] => do_exit true off size s | _ => SemFail EC_MODEL s end
    | I_JUMP => match args with [dest] => do_jump dest s | _ => SemFail EC_MODEL s end
    | I_JUMPI =>
        match args with
        | [dest; test] => if test =? 0 then SemJump (m_pc s + 1) s else do_jump dest s
        | _ => SemFail EC_MODEL s
        end
    | I_PC => match args with [] => SemPush (wrapW (m_pc s)) s | _ => SemFail EC_MODEL s end
    (* log_event.rs *)
    | I_LOG0 => do_log 0 args s | I_LOG1 => do_log 1 args s | I_LOG2 => do_log 2 args s
    | I_LOG3 => do_log 3 args s | I_LOG4 => do_log 4 args s
    (* call.rs: calls *)
    | I_CALL =>
        match args with
        | [gas; dst; value; ioff; isz; ooff; osz] => do_call 0 dst value ioff isz ooff osz s
        | _ => SemFail EC_MODEL s
        end
    | I_DELEGATECALL =>
        match args with
        | [gas; dst; ioff; isz; ooff; osz] => do_call 1 dst 0 ioff isz ooff osz s
        | _ => SemFail EC_MODEL s
        end
    | I_STATICCALL =>
        match args with
        | [gas; dst; ioff; isz; ooff; osz] => do_call 2 dst 0 ioff isz ooff osz s
        | _ => SemFail EC_MODEL s
        end
    (* lifecycle.rs *)
    | I_CREATE => match args with [v; off; size] => do_create false v off size 0 s | _ => SemFail EC_MODEL s end
    | I_CREATE2 => match args with [v; off; size; salt] => do_create true v off size salt s | _ => SemFail EC_MODEL s end
    | I_SELFDESTRUCT =>
        match args with
        | [b] =>
            if e_readonly E then SemFail USR_READ_ONLY s else
            let '(r, rest) := next_ext s in
            if xr_ok r then
              SemExit (Return []) (set_ext (m_retdata s) 0 rest (EvSelfdestruct (e_canon E (b mod ADDR_MASK)) :: m_log s) s)
            else SemFail EVM_CONTRACT_SELFDESTRUCT_FAILED s
        | _ => SemFail EC_MODEL s
        end
    (* handled by exec_row *)
    | _ => SemFail EC_MODEL s
    end.

  (* ---- the stack discipline of the macro the instruction is defined with (stack.rs) ---- *)
  Definition UNDERFLOW := EVM_CONTRACT_STACK_UNDERFLOW.
  Definition OVERFLOW := EVM_CONTRACT_STACK_OVERFLOW.

  (* pop_many::<S> / ensure_one / nothing, according to the macro arm *)
  Definition take_operands (r : oprow) (stk : list Z) : Z + (list Z * list Z) :=
    match op_pre r with
    | PrePopMany =>
        if zlen stk <? op_pops r then inl UNDERFLOW
        else inr (firstn (Z.to_nat (op_pops r)) stk, skipn (Z.to_nat (op_pops r)) stk)
    | PreEnsureOne => if STACK_SIZE <=? zlen stk then inl OVERFLOW else inr ([], stk)
    | PreEnsureIgnored | PreDelegated | PreNone => inr ([], stk)
    end.

  Definition fail (c : Z) (s : mstate) : step_res := SHalt (Failure c) s.

  (* Stack::push *)
  Definition push_checked (v : Z) (s : mstate) : option mstate :=
    if STACK_SIZE <=? zlen (m_stack s) then None else Some (set_stack (v :: m_stack s) s).

  (* instructions/stack.rs: dup::<N> (Stack::dup), swap::<N> (Stack::swap_top), pop (Stack::drop) *)
  Definition exec_stackop (r : oprow) (s : mstate) : step_res :=
    let stk := m_stack s in
    let n := op_arg r in
    let adv s' := SNext (set_pc (m_pc s + 1) s') in
    match op_instr r with
    | I_POP => match stk with [] => fail UNDERFLOW s | _ :: rest => adv (set_stack rest s) end
    | I_DUP1 | I_DUP2 | I_DUP3 | I_DUP4 | I_DUP5 | I_DUP6 | I_DUP7 | I_DUP8 | I_DUP9 | I_DUP10 | I_DUP11
    | I_DUP12 | I_DUP13 | I_DUP14 | I_DUP15 | I_DUP16 =>
        if n <=? 0 then fail EC_MODEL s else        (* Stack::dup asserts i > 0 *)
        if STACK_SIZE <=? zlen stk then fail OVERFLOW s
        else if zlen stk <? n then fail UNDERFLOW s
        else adv (set_stack (nth (Z.to_nat (n - 1)) stk 0 :: stk) s)
    | I_SWAP1 | I_SWAP2 | I_SWAP3 | I_SWAP4 | I_SWAP5 | I_SWAP6 | I_SWAP7 | I_SWAP8 | I_SWAP9 | I_SWAP10
    | I_SWAP11 | I_SWAP12 | I_SWAP13 | I_SWAP14 | I_SWAP15 | I_SWAP16 =>
        if n <? 0 then fail EC_MODEL s else
        if zlen stk <=? n then fail UNDERFLOW s
        else match stk with
             | [] => fail UNDERFLOW s
             | top :: rest =>
                 let k := Z.to_nat (n - 1) in
                 if n =? 0 then adv s else
                 adv (set_stack (nth k rest 0 :: firstn k rest ++ top :: skipn (S k) rest) s)
             end
    | _ => fail EC_MODEL s
    end.

  (* def_push!: pc += 1; push::<N>(stack, &bytecode[pc..]) -- bytes past the end of the code read as 0;
     pc += N *)
  Definition exec_push (r : oprow) (s : mstate) : step_res :=
    let n := op_arg r in
    if (n <? 0) || (32 <? n) then fail EC_MODEL s else
    let pc1 := m_pc s + 1 in
    let v := be_to_Z (map (fun k => byte_at code (pc1 + k)) (zseq 0 n)) in
    match push_checked v s with
    | None => fail OVERFLOW s
    | Some s' => SNext (set_pc (pc1 + n) s')
    end.

  (* every other macro: take the operands as the macro arm does, run the implementation function, put
     the result back as the macro arm does *)
  Definition exec_generic (r : oprow) (s : mstate) : step_res :=
    match take_operands r (m_stack s) with
    | inl c => fail c s
    | inr (args, stk') =>
        match sem (op_instr r) args (set_stack stk' s) with
        | SemFail c s' => fail c s'   (* the operands are already gone (pop_many) *)
        | SemExit o s' => match op_pc r with PcEnd => SHalt o s' | _ => fail EC_MODEL s end
        | SemJump p s' => match op_pc r with PcJump => SNext (set_pc p s') | _ => fail EC_MODEL s end
        | SemNone s' =>
            match op_post r, op_pc r with
            | PostNone, PcNext => SNext (set_pc (m_pc s + 1) s')
            | _, _ => fail EC_MODEL s
            end
        | SemPush v s' =>
            match op_pc r with
            | PcNext =>
                match op_post r with
                | PostPushUnchecked => SNext (set_pc (m_pc s + 1) (set_stack (v :: m_stack s') s'))
                | PostPushChecked =>
                    match push_checked v s' with
                    | None => fail OVERFLOW s
                    | Some s'' => SNext (set_pc (m_pc s + 1) s'')
                    end
                | _ => fail EC_MODEL s
                end
            | _ => fail EC_MODEL s
            end
        end
    end.

  Definition exec_row (r : oprow) (s : mstate) : step_res :=
    match op_kind r with
    | KStackop => exec_stackop r s
    | KPush => exec_push r s
    | _ => exec_generic r s
    end.

  Definition lookup_row (b : Z) : option oprow := find (fun r => op_byte r =? b) opcode_table.

  (* Machine::step: fetch bytecode[pc], dispatch through the jump table; bytes without an entry hit the
     UNDEFINED handler *)
  Definition step (s : mstate) : step_res :=
    match lookup_row (byte_at code (m_pc s)) with
    | None => fail EVM_CONTRACT_UNDEFINED_INSTRUCTION s
    | Some r => exec_row r s
    end.

  Inductive run_res := Done (o : outcome) (s : mstate) | OutOfFuel (s : mstate).

  (* Machine::execute: `while pc < len { step }`; falling off the end is Output::default() = Return [].
     [fuel] bounds the number of steps and stands for gas: running out of it is a distinct result. *)
  Fixpoint run (fuel : nat) (s : mstate) : run_res :=
    if codelen <=? m_pc s then Done (Return []) s else
    match fuel with
    | O => OutOfFuel s
    | S f =>
        match step s with
        | SNext s' => run f s'
        | SHalt o s' => Done o s'
        end
    end.
End Machine.

(* ---------- one invocation of a contract, as the actor's methods wrap it (lib.rs) ---------- *)
(* exit code of invoke_contract: Return -> 0, Revert -> EVM_CONTRACT_REVERTED, Failure c -> c *)
Definition exit_code_of (o : outcome) : Z :=
  match o with Return _ => 0 | Revert _ => EVM_CONTRACT_REVERTED | Failure c => c end.
Definition data_of (o : outcome) : list Z :=
  match o with Return d | Revert d => d | Failure _ => [] end.

(* ================= correspondence-check plumbing ================= *)
Fixpoint assoc (k : Z) (l : list (Z * Z)) : Z :=
  match l with [] => 0 | (k', v) :: r => if k =? k' then v else assoc k r end.
Fixpoint assoc_l (k : list Z) (l : list (list Z * Z)) : Z :=
  match l with [] => 0 | (k', v) :: r => if zlist_eqb k k' then v else assoc_l k r end.

(* what the harness knows about another account: address, balance, code size, code hash, code *)
Record acct := { ac_addr : Z; ac_kind : Z; ac_balance : Z; ac_size : Z; ac_hash : Z; ac_code : list Z }.
Fixpoint find_acct (a : Z) (l : list acct) : option acct :=
  match l with [] => None | x :: r => if ac_addr x =? a then Some x else find_acct a r end.

Record call_in := {
  ci_calldata : list Z;
  ci_balance : Z;                        (* the contract's balance when execution starts *)
  ci_ctx : list (Z * Z);                 (* opcode byte -> value of the context getter *)
  ci_keccak : list (list Z * Z);         (* pre-image -> digest, recorded from the real hash primitive *)
  ci_accts : list acct;
  ci_canon : list (Z * Z);               (* 0xff.. ID form -> Ethereum address, for the actors the run touched *)
  ci_self_hash : Z;                      (* keccak of the contract's own code (0: no code yet) *)
  ci_blockhash : list (Z * Z);
  ci_ext : list ext_res;
}.

Definition self_acct (code : list Z) (c : call_in) : list acct :=
  if ci_self_hash c =? 0 then [] else
  [ {| ac_addr := assoc 48 (ci_ctx c); ac_kind := 1; ac_balance := ci_balance c; ac_size := zlen code;
       ac_hash := ci_self_hash c; ac_code := code |} ].
Definition mk_env (code : list Z) (ro : bool) (c0 : call_in) : env :=
  let c := {| ci_calldata := ci_calldata c0; ci_balance := ci_balance c0; ci_ctx := ci_ctx c0;
              ci_keccak := ci_keccak c0; ci_accts := self_acct code c0 ++ ci_accts c0;
              ci_canon := ci_canon c0; ci_self_hash := ci_self_hash c0; ci_blockhash := ci_blockhash c0; ci_ext := ci_ext c0 |} in
  {| e_code := code; e_calldata := ci_calldata c; e_readonly := ro;
     e_keccak := fun bs => assoc_l bs (ci_keccak c);
     e_ctx := fun i => assoc (instr_byte i) (ci_ctx c);
     e_keyed := fun i a =>
       match i with
       | I_BLOCKHASH => assoc a (ci_blockhash c)
       | I_BALANCE => match find_acct a (ci_accts c) with Some x => ac_balance x | None => 0 end
       | I_EXTCODESIZE => match find_acct a (ci_accts c) with Some x => ac_size x | None => 0 end
       | I_EXTCODEHASH => match find_acct a (ci_accts c) with Some x => ac_hash x | None => 0 end
       | _ => 0
       end;
     e_extcode := fun a => match find_acct a (ci_accts c) with Some x => ac_code x | None => [] end;
     e_canon := fun a => match List.find (fun kv : Z * Z => fst kv =? a) (ci_canon c) with Some kv => snd kv | None => a end;
     e_acct_kind := fun a => match find_acct a (ci_accts c) with Some x => ac_kind x | None => 0 end |}.

(* 2^n steps without building a unary number: run_pow n s = run (2^n) s (Proofs.run_pow_spec) *)
Fixpoint run_pow (ops : word_ops) (E : env) (n : nat) (s : mstate) : run_res :=
  match n with
  | O => run ops E 1 s
  | S k => match run_pow ops E k s with
           | OutOfFuel s' => run_pow ops E k s'
           | r => r
           end
  end.
Definition FUEL_LOG2 : nat := 19.     (* 524288 steps *)

(* a byte string written as (length, big-endian value): two tokens instead of a long list literal *)
Definition bz (len v : Z) : list Z := Z_to_be (Z.to_nat len) v.
(* ... or as (length, 32-byte big-endian words, the last one zero-padded on the right): Coq parses
   short number literals much faster than long ones *)
Definition bw (len : Z) (words : list Z) : list Z := ztake len (flat_map (Z_to_be 32) words).
Fixpoint chunks32 (fuel : nat) (bs : list Z) : list Z :=
  match fuel with
  | O => []
  | S f =>
      match bs with
      | [] => []
      | _ => let c := firstn 32 bs in
             be_to_Z (c ++ repeat 0 (32 - length c)) :: chunks32 f (skipn 32 bs)
      end
  end.

(* the harness VM's configuration (harness/src/vvm*.rs, harness/src/bin/evm_prog.rs) *)
Definition VM_EPOCH : Z := 100000.
Definition VM_RANDAO : Z := be_to_Z [1;2;3;4;5;6;7;8;9;10;11;12;13;14;15;16;17;18;19;20;21;22;23;24;25;26;27;28;29;30;31;32].
Definition VM_TIPSET_HASH : Z := be_to_Z [102;97;107;101;116;105;112;115;101;116].   (* "faketipset" *)
Definition HASH_EMPTY : Z := 0xc5d2460186f7233c927e7db2dcc703c0e500b653ca82273b7bfad8045d85a470.
Definition HASH_NATIVE : Z := 0xbcc90f2d6dada5b18e155c17a1c0a55920aae94f39857d39d0d8ed07ae8f228b.
Definition ECHO_CODE : list Z := [54; 95; 95; 55; 54; 95; 243].
Definition REVERTER_CODE : list Z := [54; 95; 95; 55; 54; 95; 253].
Definition id_eth (id : Z) : Z := 255 * 2 ^ 152 + id.

(* compact constructor used by the harness.  origin: the sending account (0xff.. form of its id);
   extra: accounts beyond the standard ones (the contract itself) *)
Definition mkci (calldata : list Z) (balance address origin caller value origin_balance echo reverter : Z)
  (echo_hash reverter_hash : Z) (keccak : list (list Z * Z)) (self_hash : Z) (canon : list (Z * Z))
  (ext : list ext_res) : call_in :=
  {| ci_calldata := calldata; ci_balance := balance;
     ci_ctx := [(48, address); (50, origin); (51, caller); (52, value); (58, 0); (65, 0); (66, 0);
                (67, VM_EPOCH); (68, VM_RANDAO); (69, 10000000000); (70, 0); (72, 0); (90, 2 ^ 32 - 1)];
     ci_keccak := keccak;
     ci_self_hash := self_hash; ci_canon := canon;
     ci_accts :=
       [ {| ac_addr := origin; ac_kind := 0; ac_balance := origin_balance; ac_size := 0; ac_hash := HASH_EMPTY; ac_code := [] |};
         {| ac_addr := id_eth 1; ac_kind := 2; ac_balance := 0; ac_size := 1; ac_hash := HASH_NATIVE; ac_code := [254] |};
         {| ac_addr := echo; ac_kind := 1; ac_balance := 0; ac_size := 7; ac_hash := echo_hash; ac_code := ECHO_CODE |};
         {| ac_addr := reverter; ac_kind := 1; ac_balance := 0; ac_size := 7; ac_hash := reverter_hash; ac_code := REVERTER_CODE |} ];
     ci_blockhash := [(VM_EPOCH - 1, VM_TIPSET_HASH); (VM_EPOCH - 256, VM_TIPSET_HASH)];
     ci_ext := ext |}.
(* run-length notation used by the harness when it prints byte strings *)
Definition rep (b n : Z) : list Z := repeat b (Z.to_nat n).

(* the contract as the correspondence check sees it between messages *)
Record cstate := { cs_code : list Z; cs_storage : gmap Z Z; cs_alive : bool }.
Definition cs_init : cstate := {| cs_code := []; cs_storage := ∅; cs_alive := false |}.

Inductive cop :=
| Deploy (initcode : list Z) (c : call_in)        (* EAM CreateExternal: run the init code *)
| Invoke (c : call_in)                            (* InvokeContract from an account *)
| InvokeStatic (c : call_in).                     (* the same beneath STATICCALL *)

(* canonical encodings *)
Fixpoint insert_kv (x : Z * Z) (l : list (Z * Z)) : list (Z * Z) :=
  match l with
  | [] => [x]
  | y :: r => if fst x <=? fst y then x :: l else y :: insert_kv x r
  end.
Definition sorted_kv (m : gmap Z Z) : list (Z * Z) := fold_right insert_kv [] (map_to_list m).
Definition enc_map (m : gmap Z Z) : list Z :=
  let l := sorted_kv m in zlen l :: flat_map (fun kv : Z * Z => [fst kv; snd kv]) l.
Definition enc_bytes (bs : list Z) : list Z := zlen bs :: chunks32 (length bs) bs.
(* the harness sees messages (calls, creates, the selfdestruct transfer) and events as two separate
   ordered lists, and cannot tell a CALL from a STATICCALL message *)
Definition enc_ev (e : ext_ev) : list Z :=
  match e with
  | EvCall kind dst v input => [1; (if kind =? 1 then 1 else 0); dst; v] ++ enc_bytes input
  | EvCreate two v salt init => [2; b2z two; v; salt] ++ enc_bytes init
  | EvSelfdestruct b => [3; b]
  | EvLog topics data => [4] ++ (zlen topics :: topics) ++ enc_bytes data
  end.
Definition is_log (e : ext_ev) : bool := match e with EvLog _ _ => true | _ => false end.
Definition enc_log (l : list ext_ev) : list Z :=
  let msgs := List.filter (fun e => negb (is_log e)) (rev l) in
  let logs := List.filter is_log (rev l) in
  (zlen msgs :: flat_map enc_ev msgs) ++ (zlen logs :: flat_map enc_ev logs).

Definition has_selfdestruct (l : list ext_ev) : bool :=
  existsb (fun e => match e with EvSelfdestruct _ => true | _ => false end) l.

(* observation: exit code, returned / revert data, final storage, final transient storage (only of a
   successful run), the requests made to the outside world in order *)
Definition obs_run (o : outcome) (storage transient : gmap Z Z) (lg : list ext_ev) : list Z :=
  [exit_code_of o] ++ enc_bytes (data_of o) ++ enc_map storage ++ enc_map transient ++ enc_log lg.
Definition OBS_OUT_OF_FUEL : list Z := [-2].

Definition cstepo (st : cstate) (o : cop) : cstate * list Z :=
  match o with
  | Deploy initcode c =>
      let E := mk_env initcode false c in
      match run_pow spec_ops E FUEL_LOG2 (init_state ∅ (ci_balance c) (ci_ext c)) with
      | OutOfFuel _ => (st, OBS_OUT_OF_FUEL)
      | Done out s =>
          match out with
          | Return d =>
              (* System::set_bytecode: size limit and EIP-3541 *)
              if (MAX_CODE_SIZE <? zlen d) || (match d with b :: _ => b =? 239 | [] => false end) then
                (st, obs_run (Failure USR_ILLEGAL_ARGUMENT) ∅ ∅ (m_log s))
              else
                ({| cs_code := d; cs_storage := m_storage s; cs_alive := negb (has_selfdestruct (m_log s)) |},
                 obs_run out (m_storage s) (m_transient s) (m_log s))
          | _ => (st, obs_run out ∅ ∅ (m_log s))
          end
      end
  | Invoke c =>
      if negb (cs_alive st) || (match cs_code st with [] => true | _ => false end) then
        (st, obs_run (Return []) (cs_storage st) ∅ [] ++ [0; 0])
      else
      let E := mk_env (cs_code st) false c in
      match run_pow spec_ops E FUEL_LOG2 (init_state (cs_storage st) (ci_balance c) (ci_ext c)) with
      | OutOfFuel _ => (st, OBS_OUT_OF_FUEL)
      | Done out s =>
          (* stack depth at halt; memory size at halt unless the run failed (a failing instruction
             may have grown the memory part-way) *)
          let tail := [zlen (m_stack s); match out with Failure _ => 0 | _ => m_msize s end] in
          match out with
          | Return _ =>
              ({| cs_code := cs_code st; cs_storage := m_storage s;
                  cs_alive := negb (has_selfdestruct (m_log s)) |},
               obs_run out (m_storage s) (m_transient s) (m_log s) ++ tail)
          | _ => (st, obs_run out (cs_storage st) ∅ (m_log s) ++ tail)
          end
      end
  | InvokeStatic c =>
      if negb (cs_alive st) || (match cs_code st with [] => true | _ => false end) then
        (st, [1] ++ enc_bytes [] ++ enc_log [])
      else
      let E := mk_env (cs_code st) true c in
      match run_pow spec_ops E FUEL_LOG2 (init_state (cs_storage st) (ci_balance c) (ci_ext c)) with
      | OutOfFuel _ => (st, OBS_OUT_OF_FUEL)
      | Done out s =>
          (* what a STATICCALLing caller sees: success flag and return data; storage cannot change *)
          (st, [match out with Return _ => 1 | _ => 0 end] ++ enc_bytes (data_of out) ++ enc_log (m_log s))
      end
  end.

Definition check_case := @Corr.check cstate cop cstepo.
