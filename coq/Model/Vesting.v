(* Executable model of actors/miner/src/vesting_state.rs (VestingFunds: head/tail table,
   add_locked_funds, unlock_vested_funds, unlock_vested_and_unvested_funds) and of
   actors/miner/src/quantize.rs (QuantSpec::quantize_up).  Definitions only.

   Representation: the RAW table `head :: tail` as a list of (epoch, amount); `[]` is
   `VestingFunds(None)`.  The head may carry a zero amount (drawn down by the fast path of
   unlock_vested_and_unvested_funds); `load` is what `VestingFunds::load` returns (zero head dropped). *)
From Coq Require Import ZArith List Bool.
From VF Require Import Gen.Consts Base.Corr.
Import ListNotations.
Open Scope Z_scope.

Record vspec := { initial_delay : Z; vest_period : Z; step_duration : Z; quantization : Z }.

(* actors/miner/src/policy.rs REWARD_VESTING_SPEC, from the generated constants *)
Definition REWARD_SPEC : vspec :=
  {| initial_delay := REWARD_VEST_INITIAL_DELAY; vest_period := REWARD_VEST_VEST_PERIOD;
     step_duration := REWARD_VEST_STEP_DURATION; quantization := REWARD_VEST_QUANTIZATION |}.

Notation fund := (Z * Z)%type (only parsing).      (* (epoch, amount) *)
Definition table := list fund.

(* QuantSpec { unit, offset }.quantize_up(e): Rust `%` and `/` on i64 truncate (Z.rem / Z.quot) *)
Definition quantize_up (unit offset e : Z) : Z :=
  let off := Z.rem offset unit in
  let r := Z.rem (e - off) unit in
  let q := Z.quot (e - off) unit in
  if (r =? 0) || (e - off <? 0) then unit * q + off else unit * (q + 1) + off.

(* VestingFunds::load *)
Definition load (t : table) : table :=
  match t with
  | [] => []
  | (e, a) :: tl => if 0 <? a then t else tl
  end.

(* take_vested: peeking_take_while (epoch < current) then sum; returns (sum, remaining iterator) *)
Fixpoint take_vested (cur : Z) (l : table) : Z * table :=
  match l with
  | [] => (0, [])
  | (e, a) :: tl =>
      if e <? cur then let '(s, r) := take_vested cur tl in (a + s, r) else (0, l)
  end.

(* the `iter::from_fn` schedule generator of add_locked_funds; `fuel` bounds the number of entries
   (see sched_fuel; Proofs/Vesting_lemmas.v shows it is never exhausted for step > 0) *)
Fixpoint gen_new (fuel : nat) (sum vbegin period step unit offset vested_so_far epoch : Z) : table :=
  match fuel with
  | O => []
  | S f =>
      if sum <=? vested_so_far then [] else
      let epoch' := epoch + step in
      let ve := quantize_up unit offset epoch' in
      let elapsed := ve - vbegin in
      let target := if elapsed <? period then (sum * elapsed) / period else sum in
      (ve, target - vested_so_far) :: gen_new f sum vbegin period step unit offset target epoch'
  end.

Definition sched_fuel (sp : vspec) : nat :=
  Z.to_nat (Z.max 0 (vest_period sp / step_duration sp) + 2).

Definition new_schedule (cur sum pps : Z) (sp : vspec) : table :=
  let vbegin := cur + initial_delay sp in
  gen_new (sched_fuel sp) sum vbegin (vest_period sp) (step_duration sp) (quantization sp) pps 0 vbegin.

(* itertools merge_join_by on the epoch + the EitherOrBoth map of add_locked_funds *)
Fixpoint merge (a : table) : table -> table :=
  fix go (b : table) : table :=
    match a, b with
    | [], _ => b
    | _, [] => a
    | (ea, xa) :: a', (eb, xb) :: b' =>
        if ea <? eb then (ea, xa) :: merge a' b
        else if eb <? ea then (eb, xb) :: go b'
        else (ea, xa + xb) :: merge a' b'
    end.

(* returns (new table, unlocked) *)
Definition add_locked_funds (t : table) (cur sum pps : Z) (sp : vspec) : table * Z :=
  let '(unl, rest) := take_vested cur (merge (load t) (new_schedule cur sum pps sp)) in
  (rest, unl).

Definition unlock_vested_funds (t : table) (cur : Z) : table * Z :=
  match t with
  | [] => ([], 0)
  | (he, _) :: _ =>
      if he <? cur then let '(unl, rest) := take_vested cur (load t) in (rest, unl) else (t, 0)
  end.

(* the slow-path loop: returns (remaining, vested, unvested) *)
Fixpoint slow_unlock (cur target vested unvested : Z) (l : table) : table * Z * Z :=
  match l with
  | [] => ([], vested, unvested)
  | (e, a) :: tl =>
      if e <? cur then slow_unlock cur target (vested + a) unvested tl
      else if a <? target then slow_unlock cur (target - a) vested (unvested + a) tl
      else ((e, a - target) :: tl, vested, unvested + target)
  end.

(* returns (new table, vested, unvested) *)
Definition unlock_vested_and_unvested_funds (t : table) (cur target : Z) : table * Z * Z :=
  match t with
  | [] => ([], 0, 0)
  | (he, ha) :: tl =>
      if (cur <=? he) && (target <=? ha) then ((he, ha - target) :: tl, 0, target)
      else slow_unlock cur target 0 0 (load t)
  end.

(* ---- sums used by the theorems and the observation ---- *)
Definition tbl_sum (t : table) : Z := fold_right (fun '(_, a) s => a + s) 0 t.
(* amount with epoch < e : what unlock_vested_funds(e) hands out on a sorted table *)
Definition vested_sum (t : table) (e : Z) : Z :=
  fold_right (fun '(ep, a) s => (if ep <? e then a else 0) + s) 0 t.
Definition unvested_sum (t : table) (e : Z) : Z :=
  fold_right (fun '(ep, a) s => (if ep <? e then 0 else a) + s) 0 t.

(* ---- observation encoding ---- *)
(* position-weighted checksum of the whole raw table (weights 1000003 i^2 + i, i = 1, 2, ...) *)
Fixpoint wsum (i : Z) (t : table) : Z :=
  match t with
  | [] => 0
  | (e, a) :: tl => (i * i * 1000003 + i) * (a + 7919 * e) + wsum (i + 1) tl
  end.
Definition tbl_hash (t : table) : Z := wsum 1 t.
Definition flat_tbl (t : table) : list Z := flat_map (fun '(e, a) => [e; a]) t.
(* length, sum, weighted checksum of the whole raw table, the first 8 raw entries verbatim
   (the whole table when it is that short), and the length of what `load` returns *)
Definition tbl_obs (t : table) : list Z :=
  [Z.of_nat (length t); tbl_sum t; tbl_hash t; Z.of_nat (length (load t))] ++ flat_tbl (firstn 8 t).

Inductive op :=
| VAdd (cur sum pps : Z) (sp : vspec)
| VUnlock (cur : Z)
| VUnlockBoth (cur target : Z).

Definition step (t : table) (o : op) : table * list Z :=
  match o with
  | VAdd cur sum pps sp => let '(t', u) := add_locked_funds t cur sum pps sp in (t', [u])
  | VUnlock cur => let '(t', u) := unlock_vested_funds t cur in (t', [u])
  | VUnlockBoth cur target =>
      let '(t', v, u) := unlock_vested_and_unvested_funds t cur target in (t', [v; u])
  end.

Definition stepo (t : table) (o : op) : table * list Z :=
  let '(t', r) := step t o in (t', r ++ tbl_obs t').

Definition check_case := @Corr.check table op stepo.
