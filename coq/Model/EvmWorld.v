(* C19 -- multi-contract EVM world: scripted call trees under two semantics.

   (i)  ABSTRACT SPEC (`a*`): what Ethereum says.  One world (storage of every contract, one transient
        map per top-level message, balances, events); a failing/reverting call restores the snapshot
        of everything and the caller continues; DELEGATECALL runs the callee's script in the caller's
        context; SELFDESTRUCT pays at once and takes effect when the top-level message ends.
   (ii) CONCRETE SYSTEM PROTOCOL (`c*`): transcription of actors/evm/src/interpreter/system.rs
        (`System`: slots / transient_slots / nonce / tombstone / saved_state_root / readonly;
        set_storage, flush, reload, send_raw, mark_selfdestructed, increment_nonce), of
        actors/evm/src/lib.rs (load / is_dead / resurrect / invoke_contract / invoke_contract_delegate /
        constructor), of the call and lifecycle instructions, and of the VM's per-send roll-back of
        persisted actor state.  Every activation owns its own cache; persisted state is per contract.

   Both run the same `script`s.  Observations: the read log returned by the top-level activation
   (every SLoad/TLoad/Env value in order, the status of every call followed by the callee's returned
   log), the exit code, and after the message the storage / nonce / code id / liveness of every
   contract, all balances and the events of the message.

   Definitions only (proofs: Proofs/EvmWorld_lemmas.v). *)
From stdpp Require Import gmap.
From Coq Require Import ZArith List Bool.
From VF Require Import Base.Corr.
Import ListNotations.
Open Scope Z_scope.

(* ------------------------------------------------------------------------------------------ *)
(* Syntax                                                                                      *)
(* ------------------------------------------------------------------------------------------ *)
Definition addr := Z.

Inductive ckind := KCall | KStatic | KDelegate.

Inductive action :=
| SStore (k v : Z)
| SLoad (k : Z)
| TStore (k v : Z)
| TLoad (k : Z)
| Log (tag : Z)
| Env (what : Z)              (* 0 CALLER, 1 CALLVALUE, 2 ADDRESS, 3 SELFBALANCE: appended to the log *)
| Call (kind : ckind) (target : addr) (entry : Z) (value : Z) (propagate : bool)
                              (* propagate = true: the caller REVERTs when the call fails *)
| Create (tmpl : Z) (value : Z)
| Create2 (salt tmpl : Z) (value : Z)
| SelfDestruct (beneficiary : addr)
| Revert
| Return.

Definition script := list action.

(* code of a contract = its entry points (selected by the first calldata byte) *)
Definition code := list script.

(* a deployable template: constructor script, runtime entry points, code id *)
Record tmpl := { t_ctor : script; t_code : code; t_id : Z }.

(* static environment of a case: templates, the address oracles (keccak is not modelled: the
   harness computes the CREATE / CREATE2 addresses and passes them as tables), the 160-bit word of
   every address (what CALLER / ADDRESS push), and the list of observed addresses *)
Record env := {
  e_tmpls : list tmpl;
  e_create2 : list (addr * Z * Z * addr);    (* (creator, salt, tmpl) -> new address *)
  e_create : list (addr * Z * addr);         (* (creator, nonce) -> new address *)
  e_word : list (addr * Z);
  e_universe : list addr;
  e_eoas : list addr;                        (* plain accounts: calls to them succeed and do nothing *)
}.

Fixpoint assoc3 (l : list (addr * Z * Z * addr)) (a s t : Z) : option addr :=
  match l with
  | [] => None
  | (a', s', t', r) :: l' => if (a =? a') && (s =? s') && (t =? t') then Some r else assoc3 l' a s t
  end.
Fixpoint assoc2 (l : list (addr * Z * addr)) (a n : Z) : option addr :=
  match l with
  | [] => None
  | (a', n', r) :: l' => if (a =? a') && (n =? n') then Some r else assoc2 l' a n
  end.
Fixpoint assoc1 (l : list (addr * Z)) (a : Z) : Z :=
  match l with
  | [] => 0
  | (a', r) :: l' => if a =? a' then r else assoc1 l' a
  end.

Definition lookup_entry {X} (c : list X) (e : Z) : option X :=
  if e <? 0 then None else nth_error c (Z.to_nat e).

(* exit codes (real FVM numbers) *)
Definition OK := 0.
Definition SYS_INSUFFICIENT_FUNDS := 6.
Definition USR_FORBIDDEN := 18.
Definition USR_READ_ONLY := 25.
Definition EVM_CONTRACT_REVERTED := 33.
Definition USR_UNHANDLED_MESSAGE := 22.
Definition DEPTH := 99.      (* model class: fuel (call depth) exhausted *)

(* activation context *)
Record ctx := { self : addr; caller : addr; callvalue : Z; ro : bool }.

Inductive outcome :=
| ORet (log : list Z)
| ORevert (log : list Z)
| OFail (code : Z).          (* abort with an exit code, no return data *)

(* what an activation asks the VM to run *)
Inductive req :=
| RCall (from to : addr) (value entry : Z) (ro : bool)   (* CALL / STATICCALL / top-level message *)
| RDelegate (c : ctx) (codefrom : addr) (entry : Z)      (* DELEGATECALL: InvokeContractDelegate on self *)
| RCreate (creator newaddr : addr) (value : Z) (t : Z).  (* EAM Create/Create2 -> constructor / Resurrect *)

(* result of a request: exit code (0 = success) and return data *)
Definition res := (Z * list Z)%type.

Definition set_slot (m : gmap Z Z) (k v : Z) : gmap Z Z :=
  if v =? 0 then delete k m else <[ k := v ]> m.
Definition get_slot (m : gmap Z Z) (k : Z) : Z := default 0 (m !! k).

Definition getb (b : gmap addr Z) (a : addr) : Z := default 0 (b !! a).
Definition move (b : gmap addr Z) (from to : addr) (v : Z) : gmap addr Z :=
  if v =? 0 then b else
  let b1 := <[ from := getb b from - v ]> b in <[ to := getb b1 to + v ]> b1.

(* ------------------------------------------------------------------------------------------ *)
(* (i) Abstract specification                                                                  *)
(* ------------------------------------------------------------------------------------------ *)
Record contract := {
  c_storage : gmap Z Z;
  c_code : code;
  c_codeid : Z;
  c_nonce : Z;
  c_tomb : bool;     (* SELFDESTRUCTed during the current top-level message *)
  c_dead : bool;     (* destroyed by an earlier message: behaves as an empty account, may be re-created *)
}.

Record world := {
  w_contracts : gmap addr contract;
  w_transient : gmap (addr * Z) Z;
  w_bal : gmap addr Z;
  w_events : list (addr * Z);
}.

Definition fresh_contract : contract :=
  {| c_storage := ∅; c_code := []; c_codeid := 0; c_nonce := 1; c_tomb := false; c_dead := false |}.
Definition dead_contract : contract :=
  {| c_storage := ∅; c_code := []; c_codeid := 0; c_nonce := 0; c_tomb := false; c_dead := true |}.

Definition upd_contract (w : world) (a : addr) (f : contract -> contract) : world :=
  match w_contracts w !! a with
  | None => w
  | Some c => {| w_contracts := <[ a := f c ]> (w_contracts w); w_transient := w_transient w;
                 w_bal := w_bal w; w_events := w_events w |}
  end.
Definition put_contract (w : world) (a : addr) (c : contract) : world :=
  {| w_contracts := <[ a := c ]> (w_contracts w); w_transient := w_transient w;
     w_bal := w_bal w; w_events := w_events w |}.

Definition a_sload (w : world) (a : addr) (k : Z) : Z :=
  match w_contracts w !! a with Some c => get_slot (c_storage c) k | None => 0 end.
Definition a_sstore (w : world) (a : addr) (k v : Z) : world :=
  upd_contract w a (fun c => {| c_storage := set_slot (c_storage c) k v; c_code := c_code c;
    c_codeid := c_codeid c; c_nonce := c_nonce c; c_tomb := c_tomb c; c_dead := c_dead c |}).
Definition a_tload (w : world) (a : addr) (k : Z) : Z := default 0 (w_transient w !! (a, k)).
Definition a_tstore (w : world) (a : addr) (k v : Z) : world :=
  {| w_contracts := w_contracts w;
     w_transient := if v =? 0 then delete (a, k) (w_transient w) else <[ (a, k) := v ]> (w_transient w);
     w_bal := w_bal w; w_events := w_events w |}.
Definition a_log (w : world) (a : addr) (t : Z) : world :=
  {| w_contracts := w_contracts w; w_transient := w_transient w; w_bal := w_bal w;
     w_events := w_events w ++ [(a, t)] |}.
Definition a_move (w : world) (from to : addr) (v : Z) : world :=
  {| w_contracts := w_contracts w; w_transient := w_transient w; w_bal := move (w_bal w) from to v;
     w_events := w_events w |}.
Definition a_nonce (w : world) (a : addr) : Z :=
  match w_contracts w !! a with Some c => c_nonce c | None => 0 end.
Definition a_bump (w : world) (a : addr) : world :=
  upd_contract w a (fun c => {| c_storage := c_storage c; c_code := c_code c;
    c_codeid := c_codeid c; c_nonce := c_nonce c + 1; c_tomb := c_tomb c; c_dead := c_dead c |}).
Definition a_tomb (w : world) (a : addr) : world :=
  upd_contract w a (fun c => {| c_storage := c_storage c; c_code := c_code c;
    c_codeid := c_codeid c; c_nonce := c_nonce c; c_tomb := true; c_dead := c_dead c |}).
Definition a_setcode (w : world) (a : addr) (cd : code) (id : Z) : world :=
  upd_contract w a (fun c => {| c_storage := c_storage c; c_code := cd;
    c_codeid := id; c_nonce := c_nonce c; c_tomb := c_tomb c; c_dead := c_dead c |}).

Definition env_value (E : env) (c : ctx) (bal : Z) (what : Z) : Z :=
  if what =? 0 then assoc1 (e_word E) (caller c)
  else if what =? 1 then callvalue c
  else if what =? 2 then assoc1 (e_word E) (self c)
  else bal.

Definition create_addr (E : env) (a : action) (creator nonce : Z) : option addr :=
  match a with
  | Create _ _ => assoc2 (e_create E) creator nonce
  | Create2 salt t _ => assoc3 (e_create2 E) creator salt t
  | _ => None
  end.

Section ARun.
  Variable E : env.
  Variable invoke : req -> world -> world * res.

  Fixpoint arun (c : ctx) (s : script) (w : world) (log : list Z) : world * outcome :=
    match s with
    | [] => (w, ORet log)
    | a :: rest =>
      match a with
      | SStore k v =>
          if ro c then (w, OFail USR_READ_ONLY) else arun c rest (a_sstore w (self c) k v) log
      | SLoad k => arun c rest w (log ++ [a_sload w (self c) k])
      | TStore k v =>
          if ro c then (w, OFail USR_READ_ONLY) else arun c rest (a_tstore w (self c) k v) log
      | TLoad k => arun c rest w (log ++ [a_tload w (self c) k])
      | Log t =>
          if ro c then (w, OFail USR_READ_ONLY) else arun c rest (a_log w (self c) t) log
      | Env what => arun c rest w (log ++ [env_value E c (getb (w_bal w) (self c)) what])
      | Call kind tgt entry value prop =>
          if match kind with KCall => ro c && (0 <? value) | _ => false end
          then (w, OFail USR_READ_ONLY) else
          let '(w', (code, data)) :=
            match kind with
            | KCall => invoke (RCall (self c) tgt value entry (ro c)) w
            | KStatic => invoke (RCall (self c) tgt 0 entry true) w
            | KDelegate =>
                (* only a live contract has code to borrow; anything else: success, nothing happens *)
                match w_contracts w !! tgt with
                | None => (w, (OK, []))
                | Some ct => if c_dead ct then (w, (OK, [])) else invoke (RDelegate c tgt entry) w
                end
            end in
          let st := code =? 0 in
          let log' := log ++ [b2z st] ++ data in
          if negb st && prop then (w', ORevert log') else arun c rest w' log'
      | Create t value | Create2 _ t value =>
          if ro c then (w, OFail USR_READ_ONLY) else
          if getb (w_bal w) (self c) <? value then arun c rest w (log ++ [0]) else
          let w1 := a_bump w (self c) in
          match create_addr E a (self c) (a_nonce w (self c)) with
          | None => arun c rest w1 (log ++ [0])
          | Some na =>
              let '(w', (code, _)) := invoke (RCreate (self c) na value t) w1 in
              arun c rest w' (log ++ [b2z (code =? 0)])
          end
      | SelfDestruct b =>
          if ro c then (w, OFail USR_READ_ONLY) else
          (a_tomb (a_move w (self c) b (getb (w_bal w) (self c))) (self c), ORet [])
      | Revert => (w, ORevert log)
      | Return => (w, ORet log)
      end
    end.
End ARun.

(* outcome of a callee activation seen by the VM: success keeps the new world, anything else
   restores the world of before the call (snapshot of everything) *)
Definition a_finish (w0 : world) (r : world * outcome) : world * res :=
  match r with
  | (w', ORet l) => (w', (OK, l))
  | (_, ORevert l) => (w0, (EVM_CONTRACT_REVERTED, l))
  | (_, OFail c) => (w0, (c, []))
  end.

Fixpoint ainvoke (E : env) (fuel : nat) (r : req) (w : world) : world * res :=
  match fuel with
  | O => (w, (DEPTH, []))
  | S f =>
    match r with
    | RCall from to value entry rdo =>
        if (value <? 0) || (getb (w_bal w) from <? value) then (w, (SYS_INSUFFICIENT_FUNDS, [])) else
        if rdo && (0 <? value) then (w, (USR_READ_ONLY, [])) else
        let w1 := a_move w from to value in
        match w_contracts w1 !! to with
        | None =>
            (* an account accepts the call; an address without actor (or a placeholder) refuses the
               InvokeContract method on this platform: the call fails and the transfer is undone *)
            if existsb (Z.eqb to) (e_eoas E) then (w1, (OK, [])) else (w, (USR_UNHANDLED_MESSAGE, []))
        | Some ct =>
            if c_dead ct then (w1, (OK, [])) else
            match lookup_entry (c_code ct) entry with
            | None => (w1, (OK, []))
            | Some s =>
                a_finish w (arun E (ainvoke E f)
                                 {| self := to; caller := from; callvalue := value; ro := rdo |} s w1 [])
            end
        end
    | RDelegate c tgt entry =>
        match w_contracts w !! tgt with
        | None => (w, (OK, []))
        | Some ct =>
            if c_dead ct then (w, (OK, [])) else
            match lookup_entry (c_code ct) entry with
            | None => (w, (OK, []))
            | Some s => a_finish w (arun E (ainvoke E f) c s w [])
            end
        end
    | RCreate creator na value t =>
        match lookup_entry (e_tmpls E) t with
        | None => (w, (USR_FORBIDDEN, []))
        | Some tm =>
            if match w_contracts w !! na with Some ct => negb (c_dead ct) | None => false end
            then (w, (USR_FORBIDDEN, [])) else
            let w1 := put_contract (a_move w creator na value) na fresh_contract in
            match arun E (ainvoke E f)
                       {| self := na; caller := creator; callvalue := value; ro := false |}
                       (t_ctor tm) w1 [] with
            | (w2, ORet _) => (a_setcode w2 na (t_code tm) (t_id tm), (OK, []))
            | (_, ORevert l) => (w, (EVM_CONTRACT_REVERTED, l))
            | (_, OFail c) => (w, (c, []))
            end
        end
    end
  end.

(* end of a top-level message: transient storage is dropped, self-destructed contracts become dead *)
Definition a_finalize (w : world) : world :=
  {| w_contracts := (fun c => if c_tomb c then dead_contract else c) <$> w_contracts w;
     w_transient := ∅; w_bal := w_bal w; w_events := w_events w |}.

(* one top-level message: (sender, target, entry, value) *)
Record msg := { m_from : addr; m_to : addr; m_entry : Z; m_value : Z }.

Definition a_begin (w : world) : world :=
  {| w_contracts := w_contracts w; w_transient := w_transient w; w_bal := w_bal w; w_events := [] |}.

Definition amsg (E : env) (fuel : nat) (w : world) (m : msg) : world * res :=
  let '(w1, r) := ainvoke E fuel (RCall (m_from m) (m_to m) (m_value m) (m_entry m) false) (a_begin w) in
  (a_finalize w1, r).

(* ---- observation encoding ---- *)
Fixpoint insert_sorted (x : Z * Z) (l : list (Z * Z)) : list (Z * Z) :=
  match l with
  | [] => [x]
  | y :: r => if fst x <=? fst y then x :: l else y :: insert_sorted x r
  end.
Definition sorted_slots (m : gmap Z Z) : list (Z * Z) := fold_right insert_sorted [] (map_to_list m).
Definition enc_slots (m : gmap Z Z) : list Z :=
  let l := sorted_slots m in Z.of_nat (length l) :: flat_map (fun '(k, v) => [k; v]) l.

(* per observed address: status (0 no contract, 1 live, 2 dead), code id, nonce, storage, balance *)
Definition a_obs_addr (w : world) (a : addr) : list Z :=
  match w_contracts w !! a with
  | None => [0; 0; 0; 0]
  | Some c => if c_dead c then [2; 0; 0; 0]
              else [1; c_codeid c; c_nonce c] ++ enc_slots (c_storage c)
  end ++ [getb (w_bal w) a].

(* the harness VM records events per invocation, not in global emission order: compare as a multiset *)
Fixpoint insert_ev (x : Z * Z) (l : list (Z * Z)) : list (Z * Z) :=
  match l with
  | [] => [x]
  | y :: r => if (fst x <? fst y) || ((fst x =? fst y) && (snd x <=? snd y)) then x :: l
              else y :: insert_ev x r
  end.
Definition enc_events (l : list (addr * Z)) : list Z :=
  Z.of_nat (length l) :: flat_map (fun '(a, t) => [a; t]) (fold_right insert_ev [] l).

Definition a_obs (E : env) (w : world) (r : res) : list Z :=
  [fst r; Z.of_nat (length (snd r))] ++ snd r ++
  flat_map (a_obs_addr w) (e_universe E) ++ enc_events (w_events w).

Definition FUEL : nat := 64%nat.


(* ------------------------------------------------------------------------------------------ *)
(* (ii) Concrete System protocol (actors/evm/src/interpreter/system.rs, src/lib.rs)            *)
(* ------------------------------------------------------------------------------------------ *)
(* identity of a top-level message: (origin actor id, origin's nonce).  TransientDataLifespan and
   Tombstone are both this pair. *)
Definition mid := (Z * Z)%type.
Definition mid_eqb (x y : mid) : bool := (fst x =? fst y) && (snd x =? snd y).

#[global] Instance ckind_eq_dec : EqDecision ckind.
Proof. solve_decision. Defined.
#[global] Instance action_eq_dec : EqDecision action.
Proof. solve_decision. Defined.

(* state.rs `State` (persisted, one per contract).  A state root CID is identified with the content
   it addresses: KAMT/CBOR encodings are canonical, so equal CIDs <-> equal contents. *)
Record pstate := {
  p_slots : gmap Z Z;                       (* contract_state *)
  p_tdata : option (gmap Z Z * mid);        (* transient_data: (transient_data_state, lifespan) *)
  p_nonce : Z;
  p_tomb : option mid;                      (* tombstone *)
  p_code : code;                            (* bytecode (entry points) *)
  p_codeid : Z;
}.
#[global] Instance pstate_eq_dec : EqDecision pstate.
Proof. solve_decision. Defined.

(* what the VM keeps: actor state roots, balances, the events of the current message *)
Record cworld := {
  cw_states : gmap addr pstate;
  cw_bal : gmap addr Z;
  cw_events : list (addr * Z);
}.

(* `System`: the per-activation cache *)
Record system := {
  s_slots : gmap Z Z;
  s_tslots : gmap Z Z;
  s_nonce : Z;
  s_tomb : option mid;
  s_saved : option pstate;                  (* saved_state_root; None = dirty *)
  s_ro : bool;                              (* readonly *)
  s_code : option (code * Z);               (* bytecode; None before the first set_bytecode *)
}.

(* lib.rs is_dead: has a tombstone that is not from the current message *)
Definition is_dead (m : mid) (ps : pstate) : bool :=
  match p_tomb ps with Some t => negb (mid_eqb t m) | None => false end.

(* System::new *)
Definition new_system (rdo : bool) : system :=
  {| s_slots := ∅; s_tslots := ∅; s_nonce := 1; s_tomb := None; s_saved := None; s_ro := rdo;
     s_code := None |}.

(* the lifespan check of System::load / System::reload *)
Definition tslots_of (m : mid) (td : option (gmap Z Z * mid)) : gmap Z Z :=
  match td with Some (t, l) => if mid_eqb l m then t else ∅ | None => ∅ end.

(* System::load *)
Definition sys_load (m : mid) (rdo : bool) (ps : pstate) : system :=
  if is_dead m ps then new_system true else
  {| s_slots := p_slots ps; s_tslots := tslots_of m (p_tdata ps); s_nonce := p_nonce ps;
     s_tomb := p_tomb ps; s_saved := Some ps; s_ro := rdo; s_code := Some (p_code ps, p_codeid ps) |}.

Definition map_is_empty (t : gmap Z Z) : bool :=
  match map_to_list t with [] => true | _ => false end.

(* the State that System::flush writes *)
Definition sys_state (m : mid) (s : system) : pstate :=
  {| p_slots := s_slots s;
     p_tdata := if map_is_empty (s_tslots s) then None else Some (s_tslots s, m);
     p_nonce := s_nonce s; p_tomb := s_tomb s;
     p_code := match s_code s with Some (cd, _) => cd | None => [] end;
     p_codeid := match s_code s with Some (_, i) => i | None => 0 end |}.

Definition cw_put (cw : cworld) (a : addr) (ps : pstate) : cworld :=
  {| cw_states := <[ a := ps ]> (cw_states cw); cw_bal := cw_bal cw; cw_events := cw_events cw |}.
Definition cw_move (cw : cworld) (from to : addr) (v : Z) : cworld :=
  {| cw_states := cw_states cw; cw_bal := move (cw_bal cw) from to v; cw_events := cw_events cw |}.
Definition cw_log (cw : cworld) (a : addr) (t : Z) : cworld :=
  {| cw_states := cw_states cw; cw_bal := cw_bal cw; cw_events := cw_events cw ++ [(a, t)] |}.

Definition sys_set_saved (s : system) (sv : option pstate) : system :=
  {| s_slots := s_slots s; s_tslots := s_tslots s; s_nonce := s_nonce s; s_tomb := s_tomb s;
     s_saved := sv; s_ro := s_ro s; s_code := s_code s |}.

(* System::flush: no-op when clean; refused when read-only and dirty; otherwise writes the State and
   records the new root (missing bytecode is first set to the empty bytecode) *)
Definition sys_flush (m : mid) (a : addr) (cw : cworld) (s : system) : option (cworld * system) :=
  match s_saved s with
  | Some _ => Some (cw, s)
  | None =>
      if s_ro s then None else
      let s1 := {| s_slots := s_slots s; s_tslots := s_tslots s; s_nonce := s_nonce s;
                   s_tomb := s_tomb s; s_saved := None; s_ro := s_ro s;
                   s_code := match s_code s with Some x => Some x | None => Some ([], 0) end |} in
      let ps := sys_state m s1 in
      Some (cw_put cw a ps, sys_set_saved s1 (Some ps))
  end.

(* System::reload: nothing when read-only or when the root did not move *)
Definition sys_reload (m : mid) (a : addr) (cw : cworld) (s : system) : system :=
  if s_ro s then s else
  match cw_states cw !! a with
  | None => s
  | Some root =>
      if bool_decide (s_saved s = Some root) then s else
      {| s_slots := p_slots root; s_tslots := tslots_of m (p_tdata root); s_nonce := p_nonce root;
         s_tomb := p_tomb root; s_saved := Some root; s_ro := s_ro s;
         s_code := Some (p_code root, p_codeid root) |}
  end.

(* set_storage / set_transient_storage: `changed` exactly as the code computes it *)
Definition slot_changed (t : gmap Z Z) (k v : Z) : bool :=
  match t !! k with
  | Some old => if v =? 0 then true else negb (old =? v)
  | None => negb (v =? 0)
  end.
Definition sys_sstore (s : system) (k v : Z) : system :=
  {| s_slots := set_slot (s_slots s) k v; s_tslots := s_tslots s; s_nonce := s_nonce s;
     s_tomb := s_tomb s; s_saved := if slot_changed (s_slots s) k v then None else s_saved s;
     s_ro := s_ro s; s_code := s_code s |}.
Definition sys_tstore (s : system) (k v : Z) : system :=
  {| s_slots := s_slots s; s_tslots := set_slot (s_tslots s) k v; s_nonce := s_nonce s;
     s_tomb := s_tomb s; s_saved := if slot_changed (s_tslots s) k v then None else s_saved s;
     s_ro := s_ro s; s_code := s_code s |}.
(* increment_nonce *)
Definition sys_bump (s : system) : system :=
  {| s_slots := s_slots s; s_tslots := s_tslots s; s_nonce := s_nonce s + 1; s_tomb := s_tomb s;
     s_saved := None; s_ro := s_ro s; s_code := s_code s |}.
(* mark_selfdestructed *)
Definition sys_mark (m : mid) (s : system) : system :=
  {| s_slots := s_slots s; s_tslots := s_tslots s; s_nonce := s_nonce s; s_tomb := Some m;
     s_saved := None; s_ro := s_ro s; s_code := s_code s |}.
(* set_bytecode *)
Definition sys_setcode (s : system) (cd : code) (id : Z) : system :=
  {| s_slots := s_slots s; s_tslots := s_tslots s; s_nonce := s_nonce s; s_tomb := s_tomb s;
     s_saved := None; s_ro := s_ro s; s_code := Some (cd, id) |}.

Section CRun.
  Variable E : env.
  Variable m : mid.
  Variable invoke : req -> cworld -> cworld * res.

  (* System::send_raw / send: flush, the VM runs the callee, reload after success only.
     Returns None when the flush is refused (the activation then aborts with USR_FORBIDDEN). *)
  Definition c_send (a : addr) (r : req) (cw : cworld) (s : system)
    : option (cworld * system * res) :=
    match sys_flush m a cw s with
    | None => None
    | Some (cw1, s1) =>
        let '(cw2, (code, data)) := invoke r cw1 in
        Some (cw2, (if code =? 0 then sys_reload m a cw2 s1 else s1), (code, data))
    end.

  Fixpoint crun (c : ctx) (scr : script) (cw : cworld) (s : system) (log : list Z)
    : cworld * system * outcome :=
    match scr with
    | [] => (cw, s, ORet log)
    | a :: rest =>
      match a with
      | SStore k v =>
          if s_ro s then (cw, s, OFail USR_READ_ONLY) else crun c rest cw (sys_sstore s k v) log
      | SLoad k => crun c rest cw s (log ++ [get_slot (s_slots s) k])
      | TStore k v =>
          if s_ro s then (cw, s, OFail USR_READ_ONLY) else crun c rest cw (sys_tstore s k v) log
      | TLoad k => crun c rest cw s (log ++ [get_slot (s_tslots s) k])
      | Log t =>
          if s_ro s then (cw, s, OFail USR_READ_ONLY) else crun c rest (cw_log cw (self c) t) s log
      | Env what => crun c rest cw s (log ++ [env_value E c (getb (cw_bal cw) (self c)) what])
      | Call kind tgt entry value prop =>
          if match kind with KCall => s_ro s && (0 <? value) | _ => false end
          then (cw, s, OFail USR_READ_ONLY) else
          let sent :=
            match kind with
            | KCall => c_send (self c) (RCall (self c) tgt value entry (ro c)) cw s
            | KStatic => c_send (self c) (RCall (self c) tgt 0 entry true) cw s
            | KDelegate =>
                (* get_contract_type: only an EVM actor is asked for its bytecode *)
                (* (the running actor is an EVM actor even before its first flush) *)
                if negb ((tgt =? self c) || bool_decide (is_Some (cw_states cw !! tgt)))
                then Some (cw, s, (OK, [])) else
                    (* get_evm_bytecode_cid: system.send(GetBytecode, READ_ONLY): flush + reload *)
                    match sys_flush m (self c) cw s with
                    | None => None
                    | Some (cw1, s1) =>
                        let s1' := sys_reload m (self c) cw1 s1 in
                        match cw_states cw1 !! tgt with
                        | Some tps =>
                            if is_dead m tps then Some (cw1, s1', (OK, []))   (* BytecodeReturn None *)
                            else c_send (self c) (RDelegate c tgt entry) cw1 s1'
                        | None => Some (cw1, s1', (OK, []))
                        end
                    end
            end in
          match sent with
          | None => (cw, s, OFail USR_FORBIDDEN)
          | Some (cw', s', (code, data)) =>
              let st := code =? 0 in
              let log' := log ++ [b2z st] ++ data in
              if negb st && prop then (cw', s', ORevert log') else crun c rest cw' s' log'
          end
      | Create t value | Create2 _ t value =>
          if s_ro s then (cw, s, OFail USR_READ_ONLY) else
          if getb (cw_bal cw) (self c) <? value then crun c rest cw s (log ++ [0]) else
          let s1 := sys_bump s in
          match create_addr E a (self c) (s_nonce s) with
          | None => crun c rest cw s1 (log ++ [0])
          | Some na =>
              match c_send (self c) (RCreate (self c) na value t) cw s1 with
              | None => (cw, s, OFail USR_FORBIDDEN)
              | Some (cw', s', (code, _)) => crun c rest cw' s' (log ++ [b2z (code =? 0)])
              end
          end
      | SelfDestruct b =>
          if s_ro s then (cw, s, OFail USR_READ_ONLY) else
          (* rt.send_simple(beneficiary, METHOD_SEND, balance): no flush, no reload *)
          (cw_move cw (self c) b (getb (cw_bal cw) (self c)), sys_mark m s, ORet [])
      | Revert => (cw, s, ORevert log)
      | Return => (cw, s, ORet log)
      end
    end.
End CRun.

(* invoke_contract_inner's tail: Return -> flush (an error aborts); the VM rolls the persisted
   world back to `cw0` on any non-zero exit *)
Definition c_finish (m : mid) (cw0 : cworld) (a : addr) (r : cworld * system * outcome)
  : cworld * res :=
  match r with
  | (cw', s', ORet l) =>
      match sys_flush m a cw' s' with
      | Some (cw'', _) => (cw'', (OK, l))
      | None => (cw0, (USR_FORBIDDEN, []))
      end
  | (_, _, ORevert l) => (cw0, (EVM_CONTRACT_REVERTED, l))
  | (_, _, OFail c) => (cw0, (c, []))
  end.

Fixpoint cinvoke (E : env) (m : mid) (fuel : nat) (r : req) (cw : cworld) : cworld * res :=
  match fuel with
  | O => (cw, (DEPTH, []))
  | S f =>
    match r with
    | RCall from to value entry rdo =>
        if (value <? 0) || (getb (cw_bal cw) from <? value) then (cw, (SYS_INSUFFICIENT_FUNDS, [])) else
        if rdo && (0 <? value) then (cw, (USR_READ_ONLY, [])) else
        let cw1 := cw_move cw from to value in
        match cw_states cw1 !! to with
        | None =>
            if existsb (Z.eqb to) (e_eoas E) then (cw1, (OK, [])) else (cw, (USR_UNHANDLED_MESSAGE, []))
        | Some ps =>
            (* invoke_contract: System::load; no bytecode (dead) -> return at once *)
            let s := sys_load m rdo ps in
            match s_code s with
            | None => (cw1, (OK, []))
            | Some (cd, _) =>
                match lookup_entry cd entry with
                | None => (cw1, (OK, []))
                | Some scr =>
                    c_finish m cw to
                      (crun E m (cinvoke E m f)
                            {| self := to; caller := from; callvalue := value; ro := rdo |} scr cw1 s [])
                end
            end
        end
    | RDelegate c tgt entry =>
        (* invoke_contract_delegate on the calling actor itself, with the target's bytecode *)
        match cw_states cw !! tgt with
        | None => (cw, (OK, []))
        | Some tps =>
            if is_dead m tps then (cw, (OK, [])) else
            match lookup_entry (p_code tps) entry with
            | None => (cw, (OK, []))
            | Some scr =>
                match cw_states cw !! self c with
                | None => (cw, (USR_FORBIDDEN, []))
                | Some ps =>
                    c_finish m cw (self c)
                      (crun E m (cinvoke E m f) c scr cw (sys_load m (ro c) ps) [])
                end
            end
        end
    | RCreate creator na value t =>
        (* EAM create_actor: Resurrect an existing dead EVM actor, else Exec4 + constructor *)
        match lookup_entry (e_tmpls E) t with
        | None => (cw, (USR_FORBIDDEN, []))
        | Some tm =>
            if match cw_states cw !! na with Some ps => negb (is_dead m ps) | None => false end
            then (cw, (USR_FORBIDDEN, [])) else
            let cw1 := cw_move cw creator na value in
            match crun E m (cinvoke E m f)
                       {| self := na; caller := creator; callvalue := value; ro := false |}
                       (t_ctor tm) cw1 (new_system false) [] with
            | (cw2, s2, ORet _) =>
                match sys_flush m na cw2 (sys_setcode s2 (t_code tm) (t_id tm)) with
                | Some (cw3, _) => (cw3, (OK, []))
                | None => (cw, (USR_FORBIDDEN, []))
                end
            | (_, _, ORevert l) => (cw, (EVM_CONTRACT_REVERTED, l))
            | (_, _, OFail c) => (cw, (c, []))
            end
        end
    end
  end.

(* the VM's top-level state: persisted world + the sequence number (nonce) of every account *)
Record cstate := { cs_world : cworld; cs_seq : gmap addr Z }.

Definition cw_begin (cw : cworld) : cworld :=
  {| cw_states := cw_states cw; cw_bal := cw_bal cw; cw_events := [] |}.

Definition cmsg (E : env) (fuel : nat) (cs : cstate) (ms : msg) : cstate * res :=
  let n := default 0 (cs_seq cs !! m_from ms) in
  let '(cw1, r) := cinvoke E (m_from ms, n) fuel
                     (RCall (m_from ms) (m_to ms) (m_value ms) (m_entry ms) false)
                     (cw_begin (cs_world cs)) in
  ({| cs_world := cw1; cs_seq := <[ m_from ms := n + 1 ]> (cs_seq cs) |}, r).

(* after a message every tombstone is stale: a contract with a tombstone is dead *)
Definition c_obs_addr (cw : cworld) (a : addr) : list Z :=
  match cw_states cw !! a with
  | None => [0; 0; 0; 0]
  | Some ps => match p_tomb ps with
               | Some _ => [2; 0; 0; 0]
               | None => [1; p_codeid ps; p_nonce ps] ++ enc_slots (p_slots ps)
               end
  end ++ [getb (cw_bal cw) a].

Definition c_obs (E : env) (cw : cworld) (r : res) : list Z :=
  [fst r; Z.of_nat (length (snd r))] ++ snd r ++
  flat_map (c_obs_addr cw) (e_universe E) ++ enc_events (cw_events cw).

Definition mk_pstate (cd : code) (id : Z) : pstate :=
  {| p_slots := ∅; p_tdata := None; p_nonce := 1; p_tomb := None; p_code := cd; p_codeid := id |}.
Definition mk_cworld (cs : list (addr * code)) (bals : list (addr * Z)) : cworld :=
  {| cw_states := list_to_map (map (fun '(a, cd) => (a, mk_pstate cd a)) cs);
     cw_bal := list_to_map bals; cw_events := [] |}.

(* runs of message sequences: the observations *)
Fixpoint a_observe (E : env) (fuel : nat) (w : world) (ms : list msg) : list (list Z) :=
  match ms with
  | [] => []
  | x :: rest => let '(w', r) := amsg E fuel w x in a_obs E w' r :: a_observe E fuel w' rest
  end.
Fixpoint c_observe (E : env) (fuel : nat) (cs : cstate) (ms : list msg) : list (list Z) :=
  match ms with
  | [] => []
  | x :: rest => let '(cs', r) := cmsg E fuel cs x in
                 c_obs E (cs_world cs') r :: c_observe E fuel cs' rest
  end.

(* initial world builder used by the case files: contracts (addr, code), balances *)
Definition mk_contract (cd : code) (id : Z) : contract :=
  {| c_storage := ∅; c_code := cd; c_codeid := id; c_nonce := 1; c_tomb := false; c_dead := false |}.
Definition mk_world (cs : list (addr * code)) (bals : list (addr * Z)) : world :=
  {| w_contracts := list_to_map (map (fun '(a, cd) => (a, mk_contract cd a)) cs);
     w_transient := ∅; w_bal := list_to_map bals; w_events := [] |}.
(* the case files run BOTH semantics on the implementation's messages: the observation compared with
   the implementation is the abstract specification's; a trailing 1 records that the concrete
   protocol model produced exactly the same observation on this step (the harness always expects 1) *)
Record bstate := { bs_env : env; bs_a : world; bs_c : cstate }.
Definition bstepo (st : bstate) (x : msg) : bstate * list Z :=
  let '(w', r) := amsg (bs_env st) FUEL (bs_a st) x in
  let '(cs', rc) := cmsg (bs_env st) FUEL (bs_c st) x in
  let oa := a_obs (bs_env st) w' r in
  let oc := c_obs (bs_env st) (cs_world cs') rc in
  ({| bs_env := bs_env st; bs_a := w'; bs_c := cs' |}, oa ++ [b2z (zlist_eqb oa oc)]).
Definition mk_state (E : env) (cs : list (addr * code)) (bals : list (addr * Z)) : bstate :=
  {| bs_env := E; bs_a := mk_world cs bals;
     bs_c := {| cs_world := mk_cworld cs bals; cs_seq := ∅ |} |}.

Definition check_case := @Corr.check bstate msg bstepo.
