(* Executable model of actors/multisig/src/{lib.rs,state.rs} inside a WORLD of wallets and accounts,
   with real re-entrancy: an executed transaction may call a multisig method of the same or another
   wallet, which may in turn execute a transaction, ...  Definitions only.

   Structure (mirrors the code):
   * every multisig method does all its state work first and performs AT MOST ONE send, as its very
     last action, and returns Ok whatever that send answers.  `wallet_method` is therefore a PURE
     function of one wallet (state, balance, epoch, caller) that returns an `outcome`:
        Fail code | Done st' ret | Send st' id txn kind
     ("commit st', then send txn, wrap its exit code and return value into the Propose/Approve return");
   * `vm_send` is the VM: value transfer, dispatch on the receiver, roll-back of everything on failure,
     and it runs the final send of a wallet method through `sd` (open recursion);
   * `send fuel` ties the knot; fuel = call depth, exhaustion = the inner send fails (code 10);
   * `step` executes one top-level message (from an account) or the creation of a wallet through
     the init actor (the constructor's validations). *)
From stdpp Require Import gmap.
From Coq Require Import ZArith NArith List Bool.
From VF Require Import Gen.Consts Base.Corr.
Import ListNotations.
Open Scope Z_scope.

(* ---------------------------------------------------------------------------------------------- *)
(* operations *)

(* An address ARGUMENT of an administrative method: the actor it resolves to, and whether it was given
   as that actor's public-key address instead of its ID address.  resolve_to_actor_id maps both forms
   to the same ID, so the methods only ever see `a_id`; the flag is kept because equality of payloads
   must be equality of the serialised bytes (proposal hash, what is stored in a pending transaction).
   Key addresses of actors that do not exist yet (which would create an account) are not modelled. *)
Record addr := { a_id : N; a_key : bool }.
Definition mk_addr (n : N) (k : bool) : addr := {| a_id := n; a_key := k |}.

Inductive op :=
| Propose (to : N) (value : Z) (p : payload)
| Approve (id : Z) (h : hasharg)
| Cancel (id : Z) (h : hasharg)
| AddSigner (a : addr) (inc : bool)
| RemoveSigner (a : addr) (dec : bool)
| SwapSigner (a b : addr)
| ChangeThreshold (n : Z)
| LockBalance (start dur amt : Z)
with payload :=
| PSend                    (* method 0: plain value transfer *)
| POpaque (code : Z)       (* a call whose exit code does not depend on the modelled state: 0 = accepted *)
| PCall (o : op)           (* a call of a multisig method *)
with hasharg :=
| HNone                    (* empty proposal hash *)
| HBad                     (* non-empty bytes that are the hash of nothing *)
| HOf (req : option N) (to : N) (value : Z) (p : payload).  (* the hash of exactly this pre-image *)

Record txn := { t_to : N; t_value : Z; t_payload : payload; t_approved : list N }.

Record wallet := {
  signers : list N;
  threshold : Z;
  next_id : Z;
  pending : gmap Z txn;
  init_bal : Z;
  start_epoch : Z;
  unlock_dur : Z;
}.

(* Propose / Approve return values *)
Inductive ret :=
| RNone
| RProp (id : Z) (applied : bool) (code : Z) (r : ret)
| RAppr (applied : bool) (code : Z) (r : ret).

(* ghost record of a send made by a wallet: the transaction as sent, the wallet state and balance at
   that instant (after the delete, before the transfer), the epoch *)
Record event := { ev_w : N; ev_id : Z; ev_txn : txn; ev_st : wallet; ev_bal : Z; ev_epoch : Z }.

Record world := {
  wallets : gmap N wallet;
  bals : gmap N Z;         (* every existing actor (wallets and accounts) has an entry *)
  next_actor : N;          (* the init actor's next id *)
  log : list event;
}.

(* exit codes *)
Definition OK := 0.
Definition SYS_INVALID_RECEIVER := 5.
Definition SYS_INSUFFICIENT_FUNDS := 6.
Definition SYS_ASSERTION_FAILED := 10.
Definition ILLEGAL_ARGUMENT := 16.
Definition NOT_FOUND := 17.
Definition FORBIDDEN := 18.
Definition INSUFFICIENT_FUNDS := 19.
Definition ILLEGAL_STATE := 20.
Definition UNHANDLED_MESSAGE := 22.
Definition NOT_AN_ACCOUNT := 98.   (* harness class: top-level messages originate from accounts *)

(* ---------------------------------------------------------------------------------------------- *)
(* structural equality of payloads (stands for equality of the hashed bytes) *)

Definition optN_eqb (a b : option N) : bool :=
  match a, b with
  | None, None => true
  | Some x, Some y => N.eqb x y
  | _, _ => false
  end.

Definition addr_eqb (a b : addr) : bool := N.eqb (a_id a) (a_id b) && Bool.eqb (a_key a) (a_key b).

Fixpoint op_eqb (a b : op) {struct a} : bool :=
  match a, b with
  | Propose t v p, Propose t' v' p' => N.eqb t t' && (v =? v') && payload_eqb p p'
  | Approve i h, Approve i' h' => (i =? i') && hash_eqb h h'
  | Cancel i h, Cancel i' h' => (i =? i') && hash_eqb h h'
  | AddSigner x i, AddSigner x' i' => addr_eqb x x' && Bool.eqb i i'
  | RemoveSigner x d, RemoveSigner x' d' => addr_eqb x x' && Bool.eqb d d'
  | SwapSigner x y, SwapSigner x' y' => addr_eqb x x' && addr_eqb y y'
  | ChangeThreshold n, ChangeThreshold n' => n =? n'
  | LockBalance s d m, LockBalance s' d' m' => (s =? s') && (d =? d') && (m =? m')
  | _, _ => false
  end
with payload_eqb (a b : payload) {struct a} : bool :=
  match a, b with
  | PSend, PSend => true
  | POpaque c, POpaque c' => c =? c'
  | PCall o, PCall o' => op_eqb o o'
  | _, _ => false
  end
with hash_eqb (a b : hasharg) {struct a} : bool :=
  match a, b with
  | HNone, HNone => true
  | HBad, HBad => true
  | HOf r t v p, HOf r' t' v' p' => optN_eqb r r' && N.eqb t t' && (v =? v') && payload_eqb p p'
  | _, _ => false
  end.

(* ---------------------------------------------------------------------------------------------- *)
(* state.rs *)

Definition mem (a : N) (l : list N) : bool := existsb (N.eqb a) l.
Definition remove_addr (a : N) (l : list N) : list N := List.filter (fun x => negb (N.eqb x a)) l.
Definition len {A} (l : list A) : Z := Z.of_nat (length l).

Definition is_signer (st : wallet) (a : N) : bool := mem a (signers st).

Definition set_pending (st : wallet) (p : gmap Z txn) : wallet :=
  {| signers := signers st; threshold := threshold st; next_id := next_id st; pending := p;
     init_bal := init_bal st; start_epoch := start_epoch st; unlock_dur := unlock_dur st |}.
Definition set_next_id (st : wallet) (n : Z) : wallet :=
  {| signers := signers st; threshold := threshold st; next_id := n; pending := pending st;
     init_bal := init_bal st; start_epoch := start_epoch st; unlock_dur := unlock_dur st |}.
Definition set_signers (st : wallet) (sg : list N) (th : Z) : wallet :=
  {| signers := sg; threshold := th; next_id := next_id st; pending := pending st;
     init_bal := init_bal st; start_epoch := start_epoch st; unlock_dur := unlock_dur st |}.
Definition set_locked (st : wallet) (start dur amt : Z) : wallet :=
  {| signers := signers st; threshold := threshold st; next_id := next_id st; pending := pending st;
     init_bal := amt; start_epoch := start; unlock_dur := dur |}.
Definition set_approved (t : txn) (ap : list N) : txn :=
  {| t_to := t_to t; t_value := t_value t; t_payload := t_payload t; t_approved := ap |}.

(* ceil(a / d) for d > 0 (BigInt::div_ceil) *)
Definition div_ceil (a d : Z) : Z := - ((- a) / d).

Definition amount_locked (st : wallet) (elapsed : Z) : Z :=
  if unlock_dur st <=? elapsed then 0 else
  if elapsed <=? 0 then init_bal st else
  div_ceil (init_bal st * (unlock_dur st - elapsed)) (unlock_dur st).

(* None = Ok *)
Definition check_available (st : wallet) (bal amount epoch : Z) : option Z :=
  if amount <? 0 then Some ILLEGAL_ARGUMENT else
  if bal <? amount then Some INSUFFICIENT_FUNDS else
  if amount =? 0 then None else
  if bal - amount <? amount_locked st (epoch - start_epoch st) then Some INSUFFICIENT_FUNDS else None.

(* purge_approvals: transactions that `a` approved lose that approval; left without any, they go *)
Definition purge_txn (a : N) (t : txn) : option txn :=
  if mem a (t_approved t) then
    match remove_addr a (t_approved t) with
    | [] => None
    | ap => Some (set_approved t ap)
    end
  else Some t.
Definition purge_approvals (st : wallet) (a : N) : wallet := set_pending st (omap (purge_txn a) (pending st)).

(* compute_proposal_hash(txn) == proposal_hash, for a non-empty proposal_hash *)
Definition hash_matches (h : hasharg) (t : txn) : bool :=
  match h with
  | HNone => false
  | HBad => false
  | HOf r to v p =>
      optN_eqb r (head (t_approved t)) && N.eqb to (t_to t) && (v =? t_value t) && payload_eqb p (t_payload t)
  end.
Definition hash_empty (h : hasharg) : bool := match h with HNone => true | _ => false end.

(* ---------------------------------------------------------------------------------------------- *)
(* lib.rs: the methods, up to their final send *)

Inductive kind := KProp (id : Z) | KAppr.

Inductive outcome :=
| Fail (code : Z)
| Done (st' : wallet) (r : ret)
| Send (st' : wallet) (id : Z) (t : txn) (k : kind).

Definition mk_ret (k : kind) (applied : bool) (code : Z) (r : ret) : ret :=
  match k with
  | KProp id => RProp id applied code r
  | KAppr => RAppr applied code r
  end.

Inductive xres := XFail (c : Z) | XNotApplied | XSend (cur' : wallet).

(* execute_transaction_if_approved, up to the send.  `clone` is the `st: &State` argument (the state
   cloned inside the preceding rt.transaction); `cur` is the state the next rt.transaction re-reads.
   No send happens between the clone and this point, so callers pass the same value twice. *)
Definition exec_if_approved (clone cur : wallet) (bal e : Z) (id : Z) (t : txn) : xres :=
  if threshold clone <=? len (t_approved t) then
    match check_available clone bal (t_value t) e with
    | Some c => XFail c
    | None => XSend (set_pending cur (delete id (pending cur)))   (* delete BEFORE the send *)
    end
  else XNotApplied.

Definition approve_transaction (cur : wallet) (bal e : Z) (caller : N) (id : Z) (t : txn) (k : kind)
  : outcome :=
  if mem caller (t_approved t) then Fail FORBIDDEN else
  let t' := set_approved t (t_approved t ++ [caller]) in
  let cur' := set_pending cur (<[ id := t' ]> (pending cur)) in
  match exec_if_approved cur' cur' bal e id t' with
  | XFail c => Fail c
  | XNotApplied => Done cur' (mk_ret k false OK RNone)
  | XSend cur'' => Send cur'' id t' k
  end.

Definition propose (cur : wallet) (bal e : Z) (caller : N) (to : N) (value : Z) (p : payload) : outcome :=
  if value <? 0 then Fail ILLEGAL_ARGUMENT else
  if negb (is_signer cur caller) then Fail FORBIDDEN else
  let id := next_id cur in
  let t := {| t_to := to; t_value := value; t_payload := p; t_approved := [] |} in
  let cur1 := set_pending (set_next_id cur (id + 1)) (<[ id := t ]> (pending cur)) in
  approve_transaction cur1 bal e caller id t (KProp id).

Definition approve (cur : wallet) (bal e : Z) (caller : N) (id : Z) (h : hasharg) : outcome :=
  if negb (is_signer cur caller) then Fail FORBIDDEN else
  match pending cur !! id with
  | None => Fail NOT_FOUND
  | Some t =>
      if negb (hash_empty h) && negb (hash_matches h t) then Fail ILLEGAL_ARGUMENT else
      (* a transaction that already meets the threshold is executed WITHOUT recording this approver *)
      match exec_if_approved cur cur bal e id t with
      | XFail c => Fail c
      | XSend cur' => Send cur' id t KAppr
      | XNotApplied => approve_transaction cur bal e caller id t KAppr
      end
  end.

Definition cancel (cur : wallet) (caller : N) (id : Z) (h : hasharg) : outcome :=
  if negb (is_signer cur caller) then Fail FORBIDDEN else
  match pending cur !! id with
  | None => Fail NOT_FOUND
  | Some t =>
      if negb (optN_eqb (head (t_approved t)) (Some caller)) then Fail FORBIDDEN else
      if negb (hash_empty h) && negb (hash_matches h t) then Fail ILLEGAL_STATE else
      Done (set_pending cur (delete id (pending cur))) RNone
  end.

Definition add_signer (cur : wallet) (caller self : N) (ex : N -> bool) (a : N) (inc : bool) : outcome :=
  if negb (N.eqb caller self) then Fail FORBIDDEN else
  if negb (ex a) then Fail NOT_FOUND else
  if SIGNERS_MAX <=? len (signers cur) then Fail FORBIDDEN else
  if is_signer cur a then Fail FORBIDDEN else
  Done (set_signers cur (signers cur ++ [a]) (if inc then threshold cur + 1 else threshold cur)) RNone.

Definition remove_signer (cur : wallet) (caller self : N) (a : N) (dec : bool) : outcome :=
  if negb (N.eqb caller self) then Fail FORBIDDEN else
  if negb (is_signer cur a) then Fail FORBIDDEN else
  if len (signers cur) =? 1 then Fail FORBIDDEN else
  if negb dec && (len (signers cur) - 1 <? threshold cur) then Fail ILLEGAL_ARGUMENT else
  if dec && (threshold cur <? 2) then Fail ILLEGAL_ARGUMENT else
  let th := if dec then threshold cur - 1 else threshold cur in
  let st1 := purge_approvals cur a in
  Done (set_signers st1 (remove_addr a (signers cur)) th) RNone.

Definition swap_signer (cur : wallet) (caller self : N) (ex : N -> bool) (a b : N) : outcome :=
  if negb (N.eqb caller self) then Fail FORBIDDEN else
  if negb (ex b) then Fail NOT_FOUND else
  if negb (is_signer cur a) then Fail FORBIDDEN else
  if is_signer cur b then Fail ILLEGAL_ARGUMENT else
  let st1 := set_signers cur (remove_addr a (signers cur) ++ [b]) (threshold cur) in
  Done (purge_approvals st1 a) RNone.

Definition change_threshold (cur : wallet) (caller self : N) (n : Z) : outcome :=
  if negb (N.eqb caller self) then Fail FORBIDDEN else
  if (n <=? 0) || (len (signers cur) <? n) then Fail ILLEGAL_ARGUMENT else
  Done (set_signers cur (signers cur) n) RNone.

Definition lock_balance (cur : wallet) (caller self : N) (start dur amt : Z) : outcome :=
  if negb (N.eqb caller self) then Fail FORBIDDEN else
  if dur <=? 0 then Fail ILLEGAL_ARGUMENT else
  if amt <? 0 then Fail ILLEGAL_ARGUMENT else
  if negb (unlock_dur cur =? 0) then Fail FORBIDDEN else
  Done (set_locked cur start dur amt) RNone.

(* one method invocation on wallet `self` (state `cur`, balance `bal` including the value received) *)
Definition wallet_method (cur : wallet) (bal e : Z) (caller self : N) (ex : N -> bool) (o : op) : outcome :=
  match o with
  | Propose to v p => propose cur bal e caller to v p
  | Approve id h => approve cur bal e caller id h
  | Cancel id h => cancel cur caller id h
  | AddSigner a inc => add_signer cur caller self ex (a_id a) inc
  | RemoveSigner a dec => remove_signer cur caller self (a_id a) dec
  | SwapSigner a b => swap_signer cur caller self ex (a_id a) (a_id b)
  | ChangeThreshold n => change_threshold cur caller self n
  | LockBalance s d m => lock_balance cur caller self s d m
  end.

(* the constructor (called by the init actor; `value` = value received) *)
Fixpoint has_dup (l : list N) : bool :=
  match l with
  | [] => false
  | x :: r => mem x r || has_dup r
  end.
(* the resolve loop: first failure in order, a missing actor (17) or a duplicate (16) *)
Fixpoint ctor_signers (ex : N -> bool) (seen : list N) (l : list N) : option Z :=
  match l with
  | [] => None
  | x :: r =>
      if negb (ex x) then Some NOT_FOUND else
      if mem x seen then Some ILLEGAL_ARGUMENT else ctor_signers ex (x :: seen) r
  end.

Definition construct (ex : N -> bool) (sg : list N) (th dur start value : Z) : (Z + wallet)%type :=
  if len sg =? 0 then inl ILLEGAL_ARGUMENT else
  if SIGNERS_MAX <? len sg then inl ILLEGAL_ARGUMENT else
  match ctor_signers ex [] sg with
  | Some c => inl c
  | None =>
      if len sg <? th then inl ILLEGAL_ARGUMENT else
      if th <? 1 then inl ILLEGAL_ARGUMENT else
      if dur <? 0 then inl ILLEGAL_ARGUMENT else
      let st := {| signers := sg; threshold := th; next_id := 0; pending := ∅;
                   init_bal := 0; start_epoch := 0; unlock_dur := 0 |} in
      inr (if dur =? 0 then st else set_locked st start dur value)
  end.

(* ---------------------------------------------------------------------------------------------- *)
(* the VM *)

Definition exists_b (W : world) (a : N) : bool := match bals W !! a with Some _ => true | None => false end.
Definition balance (W : world) (a : N) : Z := match bals W !! a with Some b => b | None => 0 end.

Definition set_wallet (W : world) (w : N) (st : wallet) : world :=
  {| wallets := <[ w := st ]> (wallets W); bals := bals W; next_actor := next_actor W; log := log W |}.
Definition set_bals (W : world) (b : gmap N Z) : world :=
  {| wallets := wallets W; bals := b; next_actor := next_actor W; log := log W |}.
Definition add_log (W : world) (ev : event) : world :=
  {| wallets := wallets W; bals := bals W; next_actor := next_actor W; log := log W ++ [ev] |}.

(* debit first, then credit (so that a self-send is neutral) *)
Definition transfer (W : world) (from to : N) (v : Z) : world :=
  let b1 := <[ from := balance W from - v ]> (bals W) in
  let cur := match b1 !! to with Some x => x | None => 0 end in
  set_bals W (<[ to := cur + v ]> b1).

(* extract_send_result -> ActorError::checked: what a caller reports for a failed send.  System exit
   codes are not passed through: 4, 9, 11 become USR_UNSPECIFIED (23), the others USR_ASSERTION_FAILED *)
Definition checked_code (c : Z) : Z :=
  if c =? 0 then 0 else
  if (c =? 11) || (c =? 4) || (c =? 9) then 23 else
  if c <? 16 then 24 else c.

Definition sender_t := world -> N -> N -> Z -> payload -> world * (Z * ret).

Definition is_propose (o : op) : bool := match o with Propose _ _ _ => true | _ => false end.

Definition vm_send (sd : sender_t) (e : Z) (W : world) (from to : N) (value : Z) (p : payload)
  : world * (Z * ret) :=
  let fail (c : Z) := (W, (c, RNone)) in
  if negb (value =? 0) && (value <? 0) then fail SYS_ASSERTION_FAILED else
  if negb (value =? 0) && (balance W from <? value) then fail SYS_INSUFFICIENT_FUNDS else
  if negb (exists_b W to) then fail SYS_INVALID_RECEIVER else
  let W1 := transfer W from to value in
  match p with
  | PSend => (W1, (OK, RNone))
  | POpaque c => if c =? 0 then (W1, (OK, RNone)) else fail c
  | PCall o =>
      match wallets W1 !! to with
      | None =>
          (* an account: method 2 is PubkeyAddress (takes no parameters -> 16), 3..9 do not exist *)
          fail (if is_propose o then ILLEGAL_ARGUMENT else UNHANDLED_MESSAGE)
      | Some cur =>
          match wallet_method cur (balance W1 to) e from to (exists_b W1) o with
          | Fail c => fail c
          | Done st' r => (set_wallet W1 to st', (OK, r))
          | Send st' id t k =>
              let W2 := set_wallet W1 to st' in
              let W3 := add_log W2 {| ev_w := to; ev_id := id; ev_txn := t; ev_st := st';
                                      ev_bal := balance W2 to; ev_epoch := e |} in
              let '(W4, (code, r)) := sd W3 to (t_to t) (t_value t) (t_payload t) in
              (W4, (OK, mk_ret k true (checked_code code) r))   (* Ok whatever the inner send answered *)
          end
      end
  end.

(* fuel = remaining call depth; at 0 the send fails like at the VM's recursion limit *)
Fixpoint send (fuel : nat) (e : Z) : sender_t :=
  match fuel with
  | O => fun W _ _ _ _ => (W, (SYS_ASSERTION_FAILED, RNone))
  | S f => vm_send (send f e) e
  end.

(* ---------------------------------------------------------------------------------------------- *)
(* top-level operations *)

Inductive top :=
| Msg (e : Z) (from to : N) (value : Z) (p : payload)
| Create (e : Z) (from : N) (sg : list N) (th dur start value : Z).

Definition is_account (W : world) (a : N) : bool :=
  exists_b W a && match wallets W !! a with None => true | Some _ => false end.

Definition create (W : world) (from : N) (sg : list N) (th dur start value : Z) : world * (Z * ret) :=
  if negb (value =? 0) && (value <? 0) then (W, (SYS_ASSERTION_FAILED, RNone)) else
  if negb (value =? 0) && (balance W from <? value) then (W, (SYS_INSUFFICIENT_FUNDS, RNone)) else
  (* the init actor has already created the new actor when its constructor runs *)
  match construct (fun a => exists_b W a || N.eqb a (next_actor W)) sg th dur start value with
  | inl c => (W, (c, RNone))
  | inr st =>
      let id := next_actor W in
      let b := <[ id := value ]> (<[ from := balance W from - value ]> (bals W)) in
      ({| wallets := <[ id := st ]> (wallets W); bals := b; next_actor := N.succ id; log := log W |},
       (OK, RNone))
  end.

Definition step (fuel : nat) (W : world) (o : top) : world * (Z * ret) :=
  match o with
  | Msg e from to v p =>
      if is_account W from then send fuel e W from to v p else (W, (NOT_AN_ACCOUNT, RNone))
  | Create e from sg th dur start v =>
      if is_account W from then create W from sg th dur start v else (W, (NOT_AN_ACCOUNT, RNone))
  end.

(* the world before any wallet exists: accounts with their balances *)
Definition init_world (accts : list (N * Z)) (next : N) : world :=
  {| wallets := ∅; bals := list_to_map accts; next_actor := next; log := [] |}.

(* ---------------------------------------------------------------------------------------------- *)
(* observation encoding *)

Definition zN (n : N) : Z := Z.of_N n.

Fixpoint enc_op (o : op) : list Z :=
  match o with
  | Propose t v p => [1; zN t; v] ++ enc_payload p
  | Approve i h => [2; i] ++ enc_hash h
  | Cancel i h => [3; i] ++ enc_hash h
  | AddSigner a i => [4; zN (a_id a); b2z (a_key a); b2z i]
  | RemoveSigner a d => [5; zN (a_id a); b2z (a_key a); b2z d]
  | SwapSigner a b => [6; zN (a_id a); b2z (a_key a); zN (a_id b); b2z (a_key b)]
  | ChangeThreshold n => [7; n]
  | LockBalance s d m => [8; s; d; m]
  end
with enc_payload (p : payload) : list Z :=
  match p with
  | PSend => [0]
  | POpaque c => [1; c]
  | PCall o => 2 :: enc_op o
  end
with enc_hash (h : hasharg) : list Z :=
  match h with
  | HNone => [0]
  | HBad => [1]
  | HOf r t v p => [2] ++ match r with None => [0] | Some x => [1; zN x] end ++ [zN t; v] ++ enc_payload p
  end.

Fixpoint enc_ret (r : ret) : list Z :=
  match r with
  | RNone => [0]
  | RProp id a c r' => [1; id; b2z a; c] ++ enc_ret r'
  | RAppr a c r' => [2; b2z a; c] ++ enc_ret r'
  end.

Section Sorted.
  Context {K V : Type} (key : K -> Z).
  Fixpoint insert_sorted (x : K * V) (l : list (K * V)) : list (K * V) :=
    match l with
    | [] => [x]
    | y :: r => if key (fst x) <=? key (fst y) then x :: l else y :: insert_sorted x r
    end.
  Definition sort_by_key (l : list (K * V)) : list (K * V) := fold_right insert_sorted [] l.
End Sorted.

Definition enc_txn (it : Z * txn) : list Z :=
  let '(id, t) := it in
  [id; zN (t_to t); t_value t] ++ enc_payload (t_payload t) ++
  [len (t_approved t)] ++ map zN (t_approved t).

Definition enc_wallet (W : world) (it : N * wallet) : list Z :=
  let '(w, st) := it in
  let ptx := sort_by_key (fun z : Z => z) (map_to_list (pending st)) in
  [zN w; balance W w; len (signers st)] ++ map zN (signers st) ++
  [threshold st; next_id st; init_bal st; start_epoch st; unlock_dur st; len ptx] ++
  flat_map enc_txn ptx.

Definition enc_world (W : world) : list Z :=
  let ws := sort_by_key zN (map_to_list (wallets W)) in
  let accts := List.filter (fun it : N * Z => match wallets W !! fst it with None => true | Some _ => false end)
                 (sort_by_key zN (map_to_list (bals W))) in
  [zN (next_actor W); len ws] ++ flat_map (enc_wallet W) ws ++
  flat_map (fun it : N * Z => [zN (fst it); snd it]) accts.

Definition obs (W : world) (code : Z) (r : ret) : list Z := [code] ++ enc_ret r ++ enc_world W.

Definition stepo (fuel : nat) (W : world) (o : top) : world * list Z :=
  let '(W', (c, r)) := step fuel W o in (W', obs W' c r).

(* the depth the correspondence check runs with; the harness reports the deepest real call chain and
   the check fails if it ever reaches this bound *)
Definition CHECK_FUEL : nat := 64.
Definition check_case := @Corr.check world top (stepo CHECK_FUEL).

(* ---------------------------------------------------------------------------------------------- *)
(* boolean monitors (for witnesses) *)

Definition quorum_b (ev : event) : bool :=
  (1 <=? threshold (ev_st ev)) && (threshold (ev_st ev) <=? len (t_approved (ev_txn ev))) &&
  forallb (fun a => mem a (signers (ev_st ev))) (t_approved (ev_txn ev)) &&
  negb (has_dup (t_approved (ev_txn ev))).
