(* The invariants of C04 / C02 at partition level (definitions only; proofs in Proofs/).
   PartInv is DESIGN.md §4.C04's invariant: nesting and disjointness of the five bitfields, the four
   power memos equal to recomputed sums, and the expiration-queue invariant relative to the
   partition's faults. *)
From Coq Require Import ZArith List Bool.
From stdpp Require Import gmap.
From VF Require Import Base.SetSum Model.Partition.
Import ListNotations.
Open Scope Z_scope.

(* per-sector quantities read from the miner's sector table (0 for an absent sector) *)
Definition tget (tbl : gmap N sector) (f : sector -> Z) (n : N) : Z :=
  match tbl !! n with Some s => f s | None => 0 end.
Definition spow (tbl : gmap N sector) (X : gset N) : pp :=
  PP (ssum (tget tbl s_raw) X) (ssum (tget tbl s_qa) X).
Definition spledge (tbl : gmap N sector) (X : gset N) : Z := ssum (tget tbl s_pledge) X.
Definition sfee (tbl : gmap N sector) (X : gset N) : Z := ssum (tget tbl s_fee) X.

Definition es_all (es : expset) : gset N := on_time es ∪ early es.

Definition sector_ok (s : sector) (n : N) : Prop :=
  s_num s = n /\ 0 <= s_raw s /\ 0 <= s_qa s /\ 0 <= s_pledge s /\ 0 <= s_fee s.
(* every sector of X has a well-formed entry in the table *)
Definition TblOk (tbl : gmap N sector) (X : gset N) : Prop :=
  forall n, n ∈ X -> exists s, tbl !! n = Some s /\ sector_ok s n.

(* the table is keyed by sector number (Sectors::store does that) *)
Definition tbl_keyed (tbl : gmap N sector) : Prop := forall n s, tbl !! n = Some s -> s_num s = n.

(* one entry of the expiration queue, relative to the fault set F *)
Record ExpSetInv (qs : quant) (tbl : gmap N sector) (F : gset N) (k : Z) (es : expset) : Prop := {
  ei_quant : quant_up qs k = k;
  ei_key_nonneg : 0 <= k;
  ei_nonempty : es_all es <> ∅;
  ei_disj : on_time es ## early es;
  ei_early_faulty : early es ⊆ F;
  ei_ot_at : forall n, n ∈ on_time es ->
             exists s, tbl !! n = Some s /\ quant_up qs (s_exp s) = k;
  ei_ea_at : forall n, n ∈ early es ->
             exists s, tbl !! n = Some s /\ k < quant_up qs (s_exp s);
  ei_pledge : on_time_pledge es = spledge tbl (on_time es);
  ei_active : active_power es = spow tbl (on_time es ∖ F);
  ei_faulty : faulty_power es = spow tbl ((on_time es ∩ F) ∪ early es);
  ei_fee : fee_deduction es = sfee tbl (es_all es) }.

(* the queue: every entry exact, entries pairwise disjoint, together they hold exactly L *)
Record QInv (qs : quant) (tbl : gmap N sector) (F L : gset N) (q : queue) : Prop := {
  qi_entry : forall k es, q !! k = Some es -> ExpSetInv qs tbl F k es;
  qi_disj : forall k1 k2 es1 es2, k1 <> k2 -> q !! k1 = Some es1 -> q !! k2 = Some es2 ->
            es_all es1 ## es_all es2;
  qi_cover : forall n, n ∈ L <-> exists k es, q !! k = Some es /\ n ∈ es_all es }.

(* the early-termination queue holds terminated sectors only, each at most once *)
Record ETInv (T : gset N) (et : bfqueue) : Prop := {
  et_entry : forall k X, et !! k = Some X -> 0 <= k /\ X <> ∅ /\ X ⊆ T;
  et_disj : forall k1 k2 X1 X2, k1 <> k2 -> et !! k1 = Some X1 -> et !! k2 = Some X2 -> X1 ## X2 }.

Record PartInv (qs : quant) (tbl : gmap N sector) (p : partition) : Prop := {
  pi_unit : 0 < q_unit qs;
  pi_keyed : tbl_keyed tbl;
  pi_tbl : TblOk tbl (live_sectors p);
  (* nesting and exclusion of the bitfields *)
  pi_rec_faults : recoveries p ⊆ faults p;
  pi_faults_sectors : faults p ⊆ sectors p;
  pi_unproven_sectors : unproven p ⊆ sectors p;
  pi_terminated_sectors : terminated p ⊆ sectors p;
  pi_unproven_faults : unproven p ## faults p;
  pi_unproven_terminated : unproven p ## terminated p;
  pi_faults_terminated : faults p ## terminated p;
  (* memoised power = recomputed *)
  pi_live_power : live_power p = spow tbl (live_sectors p);
  pi_unproven_power : unproven_power p = spow tbl (unproven p);
  pi_faulty_power : p_faulty_power p = spow tbl (faults p);
  pi_recovering_power : recovering_power p = spow tbl (recoveries p);
  (* expiration queue, relative to the partition's faults, covering exactly the live sectors *)
  pi_queue : QInv qs tbl (faults p) (live_sectors p) (expirations p);
  pi_et : ETInv (terminated p) (early_terminated p) }.

Definition StInv (st : state) : Prop := PartInv (st_q st) (st_tbl st) (st_part st).

(* what the callers of the partition guarantee about the sector infos they pass in *)
Definition op_wf (st : state) (o : op) : Prop :=
  match o with
  | AddSectors _ secs =>
      NoDup (map s_num secs) /\ Forall (fun s => sector_ok s (s_num s)) secs
  | ReplaceSectors old new =>
      NoDup (map s_num new) /\ Forall (fun s => sector_ok s (s_num s)) new /\
      (forall s, s ∈ new -> s_num s ∈ (list_to_set old : gset N) \/ s_num s ∉ sectors (st_part st))
  | _ => True
  end.

(* power the network credits for this partition: proven, not faulty, not terminated sectors *)
Definition credited (tbl : gmap N sector) (p : partition) : pp := spow tbl (active_sectors p).

(* boolean form of PartInv's set/memo part for concrete witnesses (Examples) *)
Definition sum_over (tbl : gmap N sector) (X : gset N) : pp :=
  sum_pow (omap (fun n => tbl !! n) (sorted X)).
Definition part_memos_b (tbl : gmap N sector) (p : partition) : bool :=
  pp_eqb (live_power p) (sum_over tbl (live_sectors p))
  && pp_eqb (unproven_power p) (sum_over tbl (unproven p))
  && pp_eqb (p_faulty_power p) (sum_over tbl (faults p))
  && pp_eqb (recovering_power p) (sum_over tbl (recoveries p)).

(* ---------- histories ---------- *)
Definition next (st : state) (o : op) : state := fst (fst (step st o)).
Definition run (st : state) (ops : list op) : state := fold_left next ops st.
(* every operation's caller obligation holds at the state where it is applied *)
Fixpoint all_wf (st : state) (ops : list op) : Prop :=
  match ops with
  | [] => True
  | o :: r => op_wf st o /\ all_wf (next st o) r
  end.

(* the power delta the partition's caller forwards to the power actor for each operation
   (deadline_state.rs / lib.rs: terminate and expiry subtract the removed active power,
   sectors added unproven contribute nothing until activate_unproven) *)
Definition step_delta (st : state) (o : op) : pp :=
  let qs := st_q st in
  let tbl := st_tbl st in
  let p := st_part st in
  match o with
  | AddSectors proven secs =>
      match p_add_sectors qs p proven secs with
      | Ok (_, pw, _) => if proven then pw else pp0
      | Err _ => pp0
      end
  | RecordFaults nums fe =>
      match p_record_faults qs tbl p (lset nums) fe with Ok (_, _, d, _) => d | Err _ => pp0 end
  | DeclareFaultsRecovered _ => pp0
  | RecoverFaults =>
      match p_recover_faults qs tbl p with Ok (_, pw) => pw | Err _ => pp0 end
  | ActivateUnproven => snd (p_activate_unproven p)
  | RecordSkippedFaults fe skipped =>
      match p_record_skipped_faults qs tbl p fe (lset skipped) with
      | Ok (_, d, _, _, _) => d | Err _ => pp0 end
  | RecordMissedPost fe =>
      match p_record_missed_post qs p fe with Ok (_, d, _, _) => d | Err _ => pp0 end
  | TerminateSectors epoch nums =>
      match p_terminate_sectors qs tbl p epoch (lset nums) with
      | Ok (_, removed, _) => pp_neg (active_power removed) | Err _ => pp0 end
  | PopExpiredSectors until =>
      match p_pop_expired_sectors p until with
      | Ok (_, popped) => pp_neg (active_power popped) | Err _ => pp0 end
  | ReplaceSectors old new =>
      match load_sectors tbl (lset old) with
      | Err _ => pp0
      | Ok old_infos =>
          match p_replace_sectors qs p old_infos new with Ok (_, d, _, _) => d | Err _ => pp0 end
      end
  | RescheduleExpirations _ _ => pp0
  | PopEarlyTerminations _ => pp0
  end.

Definition st_credited (st : state) : pp := credited (st_tbl st) (st_part st).

(* boolean caller obligations, for concrete witnesses *)
Definition sector_ok_b (s : sector) : bool :=
  (0 <=? s_raw s) && (0 <=? s_qa s) && (0 <=? s_pledge s) && (0 <=? s_fee s).
Definition op_wf_b (st : state) (o : op) : bool :=
  match o with
  | AddSectors _ secs => bool_decide (NoDup (map s_num secs)) && forallb sector_ok_b secs
  | ReplaceSectors old new =>
      bool_decide (NoDup (map s_num new)) && forallb sector_ok_b new &&
      forallb (fun s => bool_decide (s_num s ∈ (list_to_set old : gset N))
                        || bool_decide (s_num s ∉ sectors (st_part st))) new
  | _ => true
  end.
Fixpoint all_wf_b (st : state) (ops : list op) : bool :=
  match ops with
  | [] => true
  | o :: r => op_wf_b st o && all_wf_b (next st o) r
  end.
