(* Executable model of actors/miner/src/{quantize,expiration_queue,bitfield_queue,partition_state}.rs:
   ExpirationSet, the quantised expiration queue, the early-termination queue and every Partition
   operation, returning the same power/pledge/fee deltas and the same error class as the code.
   Bitfields are [gset N], AMTs are [gmap Z _] (iterated in key order), the miner's Sectors AMT is
   [gmap N sector].  power_for_sector is abstracted: a sector record carries its raw and QA power.
   Definitions only. *)
From stdpp Require Import gmap.
From Coq Require Import ZArith List Bool.
From VF Require Import Base.Corr.
Import ListNotations.
Open Scope Z_scope.

(* ---------- results ---------- *)
Inductive res (A : Type) := Ok (a : A) | Err (c : Z).
Arguments Ok {A} a.
Arguments Err {A} c.
Definition rbind {A B} (r : res A) (f : A -> res B) : res B :=
  match r with Ok a => f a | Err c => Err c end.
Notation "'LET' x <- r 'IN' k" := (rbind r (fun x => k))
  (at level 200, x name, r at level 100, k at level 200, right associativity).
Notation "'LET' ' p <- r 'IN' k" := (rbind r (fun p => k))
  (at level 200, p strict pattern, r at level 100, k at level 200, right associativity).

Definition E_ARG := 16.     (* USR_ILLEGAL_ARGUMENT *)
Definition E_NOTFOUND := 17. (* USR_NOT_FOUND *)
Definition E_STATE := 20.   (* USR_ILLEGAL_STATE: what a plain anyhow error is mapped to by the callers *)

(* ---------- power pairs ---------- *)
Record pp := PP { raw : Z; qa : Z }.
Definition pp0 := PP 0 0.
Definition pp_add (a b : pp) := PP (raw a + raw b) (qa a + qa b).
Definition pp_sub (a b : pp) := PP (raw a - raw b) (qa a - qa b).
Definition pp_neg (a : pp) := PP (- raw a) (- qa a).
Definition pp_is_zero (a : pp) := (raw a =? 0) && (qa a =? 0).
Definition pp_eqb (a b : pp) := (raw a =? raw b) && (qa a =? qa b).
Definition pp_nonneg (a : pp) := (0 <=? raw a) && (0 <=? qa a).

(* ---------- sectors ---------- *)
Record sector := { s_num : N; s_exp : Z; s_raw : Z; s_qa : Z; s_pledge : Z; s_fee : Z }.
Definition s_pow (s : sector) := PP (s_raw s) (s_qa s).

Definition sum_pow (l : list sector) : pp := fold_right (fun s a => pp_add (s_pow s) a) pp0 l.
Definition sum_pledge (l : list sector) : Z := fold_right (fun s a => s_pledge s + a) 0 l.
Definition sum_fee (l : list sector) : Z := fold_right (fun s a => s_fee s + a) 0 l.
Definition nums_of (l : list sector) : gset N := list_to_set (map s_num l).

(* ---------- sorting (iteration order of bitfields and AMTs) ---------- *)
Fixpoint insN (x : N) (l : list N) : list N :=
  match l with [] => [x] | y :: r => if (x <=? y)%N then x :: l else y :: insN x r end.
Definition sortN (l : list N) : list N := fold_right insN [] l.
Definition sorted (X : gset N) : list N := sortN (elements X).

(* sorted, duplicates removed (BTreeMap keys) *)
Fixpoint insZ (x : Z) (l : list Z) : list Z :=
  match l with
  | [] => [x]
  | y :: r => if x <? y then x :: l else if x =? y then l else y :: insZ x r
  end.
Definition sortZ (l : list Z) : list Z := fold_right insZ [] l.

Definition set_empty (X : gset N) : bool := bool_decide (X = ∅).
Definition subset (X Y : gset N) : bool := bool_decide (X ⊆ Y).
Definition disjoint_b (X Y : gset N) : bool := bool_decide (X ## Y).
Definition ssize (X : gset N) : Z := Z.of_nat (size X).

(* ---------- quantisation (quantize.rs; Rust / and % truncate) ---------- *)
Record quant := { q_unit : Z; q_off : Z }.
Definition quant_up (q : quant) (e : Z) : Z :=
  let offset := Z.rem (q_off q) (q_unit q) in
  let remainder := Z.rem (e - offset) (q_unit q) in
  let quotient := Z.quot (e - offset) (q_unit q) in
  if (remainder =? 0) || (e - offset <? 0) then q_unit q * quotient + offset
  else q_unit q * (quotient + 1) + offset.
Definition NO_QUANT := {| q_unit := 1; q_off := 0 |}.

(* ---------- ExpirationSet ---------- *)
Record expset := {
  on_time : gset N; early : gset N;
  on_time_pledge : Z; active_power : pp; faulty_power : pp; fee_deduction : Z }.
Definition es_empty : expset :=
  {| on_time := ∅; early := ∅; on_time_pledge := 0; active_power := pp0; faulty_power := pp0;
     fee_deduction := 0 |}.
Definition es_is_empty (es : expset) := set_empty (on_time es) && set_empty (early es).
Definition es_len (es : expset) : Z := ssize (on_time es) + ssize (early es).
Definition es_validate (es : expset) : bool :=
  (0 <=? on_time_pledge es) && pp_nonneg (active_power es) && pp_nonneg (faulty_power es)
  && (0 <=? fee_deduction es).

Definition es_add (es : expset) (ot ea : gset N) (pledge : Z) (act flt : pp) (fee : Z) : res expset :=
  let es' := {| on_time := on_time es ∪ ot; early := early es ∪ ea;
                on_time_pledge := on_time_pledge es + pledge;
                active_power := pp_add (active_power es) act;
                faulty_power := pp_add (faulty_power es) flt;
                fee_deduction := fee_deduction es + fee |} in
  if es_validate es' then Ok es' else Err E_STATE.

Definition es_remove (es : expset) (ot ea : gset N) (pledge : Z) (act flt : pp) (fee : Z) : res expset :=
  if negb (subset ot (on_time es)) then Err E_STATE else
  if negb (subset ea (early es)) then Err E_STATE else
  let es' := {| on_time := on_time es ∖ ot; early := early es ∖ ea;
                on_time_pledge := on_time_pledge es - pledge;
                active_power := pp_sub (active_power es) act;
                faulty_power := pp_sub (faulty_power es) flt;
                fee_deduction := fee_deduction es - fee |} in
  (* the explicit underflow checks are subsumed by validate_state *)
  if es_validate es' then Ok es' else Err E_STATE.

(* ---------- the expiration queue ---------- *)
Notation queue := (gmap Z expset).
Definition qkeys {A} (q : gmap Z A) : list Z := sortZ (map fst (map_to_list q)).

(* AMT keys are u64: a negative (quantised) epoch fails the conversion *)
Definition q_may_get (q : queue) (k : Z) : res expset :=
  if k <? 0 then Err E_STATE else Ok (default es_empty (q !! k)).
Definition q_must_update (q : queue) (k : Z) (es : expset) : res queue :=
  if k <? 0 then Err E_STATE else Ok (<[k := es]> q).
Definition q_must_update_or_delete (q : queue) (k : Z) (es : expset) : res queue :=
  if k <? 0 then Err E_STATE else Ok (if es_is_empty es then delete k q else <[k := es]> q).

Definition q_add (qs : quant) (q : queue) (raw_epoch : Z) (ot ea : gset N) (act flt : pp)
    (pledge fee : Z) : res queue :=
  let k := quant_up qs raw_epoch in
  LET es <- q_may_get q k IN
  LET es' <- es_add es ot ea pledge act flt fee IN
  q_must_update q k es'.

Definition q_remove (qs : quant) (q : queue) (raw_epoch : Z) (ot ea : gset N) (act flt : pp)
    (pledge fee : Z) : res queue :=
  let k := quant_up qs raw_epoch in
  if k <? 0 then Err E_STATE else
  match q !! k with
  | None => Err E_STATE
  | Some es =>
      LET es' <- es_remove es ot ea pledge act flt fee IN
      q_must_update_or_delete q k es'
  end.

(* group_new_sectors_by_declared_expiration: groups sorted by quantised expiration *)
Definition group_new (qs : quant) (secs : list sector) : list (Z * list sector) :=
  map (fun k => (k, filter (fun s => quant_up qs (s_exp s) =? k) secs))
      (sortZ (map (fun s => quant_up qs (s_exp s)) secs)).

(* monadic folds: [foldM] visits every element (for_each); [iterM] stops when the callback
   answers false (for_each_while / iter_while_mut) *)
Fixpoint foldM {A B} (f : A -> B -> res A) (l : list B) (a : A) : res A :=
  match l with
  | [] => Ok a
  | x :: r => match f a x with Ok a' => foldM f r a' | Err c => Err c end
  end.
Fixpoint iterM {A B} (f : A -> B -> res (A * bool)) (l : list B) (a : A) : res A :=
  match l with
  | [] => Ok a
  | x :: r => match f a x with
              | Ok (a', go) => if go then iterM f r a' else Ok a'
              | Err c => Err c
              end
  end.

Definition add_group (qs : quant) (q : queue) (kg : Z * list sector) : res queue :=
  q_add qs q (fst kg) (nums_of (snd kg)) ∅ (sum_pow (snd kg)) pp0 (sum_pledge (snd kg))
        (sum_fee (snd kg)).

Definition add_active_sectors (qs : quant) (q : queue) (secs : list sector)
  : res (queue * gset N * pp * Z * Z) :=
  LET q' <- foldM (add_group qs) (group_new qs secs) q IN
  Ok (q', nums_of secs, sum_pow secs, sum_pledge secs, sum_fee secs).

(* find_sectors_by_expiration *)
Record group := {
  g_epoch : Z; g_secs : gset N; g_pow : pp; g_pledge : Z; g_fee : Z; g_es : expset }.

Definition by_number (secs : list sector) : gmap N sector :=
  fold_left (fun m s => <[s_num s := s]> m) secs ∅.
Definition lookup_all (m : gmap N sector) (l : list N) : list sector := omap (fun n => m !! n) l.

(* group_expiration_set: the wanted sectors found on time in [es] *)
Definition mk_group (m : gmap N sector) (remaining : gset N) (es : expset) (k : Z) : group :=
  let hit := on_time es ∩ remaining in
  let l := lookup_all m (sorted hit) in
  {| g_epoch := k; g_secs := hit; g_pow := sum_pow l; g_pledge := sum_pledge l;
     g_fee := sum_fee l; g_es := es |}.
Definition push_group (gs : list group) (g : group) : list group :=
  if set_empty (g_secs g) then gs else gs ++ [g].

Fixpoint ins_group (g : group) (l : list group) : list group :=
  match l with
  | [] => [g]
  | h :: r => if g_epoch g <? g_epoch h then g :: l else h :: ins_group g r
  end.
Definition sort_groups (l : list group) : list group := fold_right ins_group [] (rev l).

Definition zmem (k : Z) (l : list Z) : bool := existsb (Z.eqb k) l.

Definition find_pass1 (q : queue) (m : gmap N sector) (acc : list group * gset N) (k : Z)
  : res (list group * gset N) :=
  LET es <- q_may_get q k IN
  let g := mk_group m (snd acc) es k in
  Ok (push_group (fst acc) g, snd acc ∖ g_secs g).

Definition find_pass2 (q : queue) (m : gmap N sector) (declared : list Z)
    (acc : list group * gset N) (k : Z) : res (list group * gset N * bool) :=
  if zmem k declared then Ok (acc, true) else
  match q !! k with
  | None => Ok (acc, true)
  | Some es =>
      if negb (disjoint_b (early es) (snd acc)) then Err E_STATE else
      let g := mk_group m (snd acc) es k in
      let rem' := snd acc ∖ g_secs g in
      Ok ((push_group (fst acc) g, rem'), negb (set_empty rem'))
  end.

Definition find_sectors_by_expiration (qs : quant) (q : queue) (secs : list sector)
  : res (list group) :=
  let declared := sortZ (map (fun s => quant_up qs (s_exp s)) secs) in
  let m := by_number secs in
  (* pass 1: the declared (quantised) expirations *)
  LET acc1 <- foldM (find_pass1 q m) declared ([], nums_of secs) IN
  (* pass 2: the rest of the queue in epoch order, while sectors remain *)
  LET acc2 <- (if set_empty (snd acc1) then Ok acc1
               else iterM (find_pass2 q m declared) (qkeys q) acc1) IN
  if negb (set_empty (snd acc2)) then Err E_STATE else
  Ok (sort_groups (fst acc2)).

Definition remove_group (qs : quant) (acc : queue * gset N * pp * Z * Z) (g : group)
  : res (queue * gset N * pp * Z * Z) :=
  let '(q, ns, pw, pl, fe) := acc in
  LET q' <- q_remove qs q (g_epoch g) (g_secs g) ∅ (g_pow g) pp0 (g_pledge g) (g_fee g) IN
  Ok (q', ns ∪ g_secs g, pp_add pw (g_pow g), pl + g_pledge g, fe + g_fee g).

Definition remove_active_sectors (qs : quant) (q : queue) (secs : list sector)
  : res (queue * gset N * pp * Z * Z) :=
  LET groups <- find_sectors_by_expiration qs q secs IN
  foldM (remove_group qs) groups (q, ∅, pp0, 0, 0).

Definition q_reschedule_expirations (qs : quant) (q : queue) (new_exp : Z) (secs : list sector)
  : res queue :=
  match secs with
  | [] => Ok q
  | _ =>
    LET '(q1, ns, pw, pl, fe) <- remove_active_sectors qs q secs IN
    q_add qs q1 new_exp ns ∅ pw pp0 pl fe
  end.

(* the group's entry after its sectors turned faulty in place / after they left it *)
Definition es_faulty_in_place (es : expset) (g : group) : expset :=
  {| on_time := on_time es; early := early es; on_time_pledge := on_time_pledge es;
     active_power := pp_sub (active_power es) (g_pow g);
     faulty_power := pp_add (faulty_power es) (g_pow g);
     fee_deduction := fee_deduction es |}.
Definition es_moved_out (es : expset) (g : group) : expset :=
  {| on_time := on_time es ∖ g_secs g; early := early es;
     on_time_pledge := on_time_pledge es - g_pledge g;
     active_power := pp_sub (active_power es) (g_pow g);
     faulty_power := faulty_power es;
     fee_deduction := fee_deduction es - g_fee g |}.

Definition fault_group (nq : Z) (acc : queue * gset N * pp * pp * Z) (g : group)
  : res (queue * gset N * pp * pp * Z) :=
  let '(q, total, expiring, resched, rfee) := acc in
  if g_epoch g <=? nq then
    (* stays on time at its own (earlier) epoch; power becomes faulty *)
    let es' := es_faulty_in_place (g_es g) g in
    LET q' <- q_must_update_or_delete q (g_epoch g) es' IN
    if es_validate es' then Ok (q', total, pp_add expiring (g_pow g), resched, rfee)
    else Err E_STATE
  else
    let es' := es_moved_out (g_es g) g in
    LET q' <- q_must_update_or_delete q (g_epoch g) es' IN
    if es_validate es' then
      Ok (q', total ∪ g_secs g, expiring, pp_add resched (g_pow g), rfee + g_fee g)
    else Err E_STATE.

Definition reschedule_as_faults (qs : quant) (q : queue) (new_exp : Z) (secs : list sector)
  : res (queue * pp) :=
  LET groups <- find_sectors_by_expiration qs q secs IN
  let nq := quant_up qs new_exp in
  LET '(q1, total, expiring, resched, resched_fee) <-
    foldM (fault_group nq) groups (q, ∅, pp0, pp0, 0) IN
  LET q2 <- (if set_empty total then Ok q1
             else q_add qs q1 new_exp ∅ total pp0 resched 0 resched_fee) IN
  Ok (q2, pp_add resched expiring).

(* reschedule_all_as_faults.  The code collects the mutated sets and writes them back after the
   pass; writing each at once gives the same queue and the same (only) error class. *)
Definition es_all_faulty (es : expset) : expset :=
  {| on_time := on_time es; early := early es; on_time_pledge := on_time_pledge es;
     active_power := pp0; faulty_power := pp_add (faulty_power es) (active_power es);
     fee_deduction := fee_deduction es |}.

Definition fault_all_step (qfe : Z) (q0 : queue) (acc : queue * list Z * gset N * pp * Z) (k : Z)
  : res (queue * list Z * gset N * pp * Z) :=
  let '(q, repochs, rsecs, rpow, rfee) := acc in
  match q0 !! k with
  | None => Ok acc
  | Some es =>
    if k <=? qfe then
      let es' := es_all_faulty es in
      if es_validate es' then Ok (<[k := es']> q, repochs, rsecs, rpow, rfee) else Err E_STATE
    else
      if negb (set_empty (early es)) then Err E_STATE else
      Ok (q, repochs ++ [k], rsecs ∪ on_time es,
          pp_add (pp_add rpow (active_power es)) (faulty_power es), rfee + fee_deduction es)
  end.

Definition reschedule_all_as_faults (qs : quant) (q : queue) (fault_exp : Z) : res queue :=
  let qfe := quant_up qs fault_exp in
  LET '(q1, repochs, rsecs, rpow, rfee) <-
    foldM (fault_all_step qfe q) (qkeys q) (q, [], ∅, pp0, 0) IN
  match repochs with
  | [] => Ok q1
  | _ =>
    LET q2 <- q_add qs q1 fault_exp ∅ rsecs pp0 rpow 0 rfee IN
    Ok (fold_left (fun q k => delete k q) repochs q2)
  end.

(* iter_while_mut + the closure of reschedule_recovered.  An entry left empty is deleted at
   once (the code deletes the emptied entries after the traversal: same queue). *)
Definition recover_step (m0 : gmap N sector)
    (acc : queue * gset N * list sector * pp) (k : Z)
  : res (queue * gset N * list sector * pp * bool) :=
  let '(q, rem, resched, recovered) := acc in
  match q !! k with
  | None => Ok (acc, true)
  | Some es =>
    let hit_ot := on_time es ∩ rem in
    let l_ot := lookup_all m0 (sorted hit_ot) in
    let rem1 := rem ∖ hit_ot in
    let hit_ea := early es ∩ rem1 in
    let l_ea := lookup_all m0 (sorted hit_ea) in
    let rem2 := rem1 ∖ hit_ea in
    let es' := {| on_time := on_time es; early := early es ∖ hit_ea;
                  on_time_pledge := on_time_pledge es;
                  active_power := pp_add (active_power es) (sum_pow l_ot);
                  faulty_power := pp_sub (pp_sub (faulty_power es) (sum_pow l_ot)) (sum_pow l_ea);
                  fee_deduction := fee_deduction es - sum_fee l_ea |} in
    if negb (es_validate es') then Err E_STATE else
    Ok ((if es_is_empty es' then delete k q else <[k := es']> q), rem2, resched ++ l_ea,
        pp_add (pp_add recovered (sum_pow l_ot)) (sum_pow l_ea),
        negb (set_empty rem2))
  end.

Definition reschedule_recovered (qs : quant) (q : queue) (secs : list sector) : res (queue * pp) :=
  let m0 := by_number secs in
  LET '(q1, remaining, resched, recovered) <-
    iterM (recover_step m0) (qkeys q) (q, nums_of secs, [], pp0) IN
  if negb (set_empty remaining) then Err E_STATE else
  LET '(q3, _, _, _, _) <- add_active_sectors qs q1 resched IN
  Ok (q3, recovered).

Definition q_replace_sectors (qs : quant) (q : queue) (old new : list sector)
  : res (queue * gset N * gset N * pp * Z * Z) :=
  LET '(q1, old_ns, old_pw, old_pl, old_fe) <- remove_active_sectors qs q old IN
  LET '(q2, new_ns, new_pw, new_pl, new_fe) <- add_active_sectors qs q1 new IN
  Ok (q2, old_ns, new_ns, pp_sub new_pw old_pw, new_pl - old_pl, new_fe - old_fe).

(* remove_sectors: non-faulty ones where they are declared, then faulty ones by traversal *)
Definition remove_faulty_one (ot0 ea0 recovering : gset N)
    (acc : expset * expset * pp * gset N) (s : sector) : expset * expset * pp * gset N :=
  let '(es, removed, rec_pow, rem) := acc in
  let n := s_num s in
  if bool_decide (n ∈ ot0) then
    ({| on_time := on_time es ∖ {[n]}; early := early es;
        on_time_pledge := on_time_pledge es - s_pledge s;
        active_power := active_power es;
        faulty_power := pp_sub (faulty_power es) (s_pow s);
        fee_deduction := fee_deduction es - s_fee s |},
     {| on_time := on_time removed ∪ {[n]}; early := early removed;
        on_time_pledge := on_time_pledge removed + s_pledge s;
        active_power := active_power removed;
        faulty_power := pp_add (faulty_power removed) (s_pow s);
        fee_deduction := fee_deduction removed + s_fee s |},
     (if bool_decide (n ∈ recovering) then pp_add rec_pow (s_pow s) else rec_pow),
     rem ∖ {[n]})
  else if bool_decide (n ∈ ea0) then
    ({| on_time := on_time es; early := early es ∖ {[n]};
        on_time_pledge := on_time_pledge es;
        active_power := active_power es;
        faulty_power := pp_sub (faulty_power es) (s_pow s);
        fee_deduction := fee_deduction es - s_fee s |},
     {| on_time := on_time removed; early := early removed ∪ {[n]};
        on_time_pledge := on_time_pledge removed;
        active_power := active_power removed;
        faulty_power := pp_add (faulty_power removed) (s_pow s);
        fee_deduction := fee_deduction removed + s_fee s |},
     (if bool_decide (n ∈ recovering) then pp_add rec_pow (s_pow s) else rec_pow),
     rem ∖ {[n]})
  else acc.

Definition remove_faulty_step (faulty : list sector) (recovering : gset N)
    (acc : queue * gset N * expset * pp) (k : Z) : res (queue * gset N * expset * pp * bool) :=
  let '(q, rem, removed, rec_pow) := acc in
  match q !! k with
  | None => Ok (acc, true)
  | Some es =>
    let '(es', removed', rec', rem') :=
      fold_left (remove_faulty_one (on_time es) (early es) recovering) faulty
                (es, removed, rec_pow, rem) in
    if negb (es_validate es') then Err E_STATE else
    Ok ((if es_is_empty es' then delete k q else <[k := es']> q), rem', removed', rec',
        negb (set_empty rem'))
  end.

Definition remove_sectors (qs : quant) (q : queue) (secs : list sector) (faults recovering : gset N)
  : res (queue * expset * pp) :=
  let non_faulty := filter (fun s => bool_decide (s_num s ∉ faults)) secs in
  let faulty := filter (fun s => bool_decide (s_num s ∈ faults)) secs in
  LET '(q1, rm_ns, rm_pw, rm_pl, rm_fe) <- remove_active_sectors qs q non_faulty IN
  let removed0 := {| on_time := rm_ns; early := ∅; on_time_pledge := rm_pl; active_power := rm_pw;
                     faulty_power := pp0; fee_deduction := rm_fe |} in
  LET '(q2, remaining, removed, rec_pow) <-
    iterM (remove_faulty_step faulty recovering) (qkeys q1) (q1, nums_of faulty, removed0, pp0) IN
  if negb (set_empty remaining) then Err E_STATE else
  Ok (q2, removed, rec_pow).

Definition es_union (a b : expset) : expset :=
  {| on_time := on_time a ∪ on_time b; early := early a ∪ early b;
     on_time_pledge := on_time_pledge a + on_time_pledge b;
     active_power := pp_add (active_power a) (active_power b);
     faulty_power := pp_add (faulty_power a) (faulty_power b);
     fee_deduction := fee_deduction a + fee_deduction b |}.

Definition pop_until (q : queue) (until : Z) : queue * expset :=
  fold_left (fun (acc : queue * expset) k =>
    if until <? k then acc else
    match q !! k with
    | None => acc
    | Some es => (delete k (fst acc), es_union (snd acc) es)
    end) (qkeys q) (q, es_empty).

(* ---------- BitFieldQueue (unquantised use: the partition's early-termination queue) ---------- *)
Notation bfqueue := (gmap Z (gset N)).
Definition bfq_add (qs : quant) (q : bfqueue) (raw_epoch : Z) (vals : gset N) : res bfqueue :=
  if set_empty vals then Ok q else
  let k := quant_up qs raw_epoch in
  if k <? 0 then Err E_STATE else
  Ok (<[k := default ∅ (q !! k) ∪ vals]> q).

(* ---------- Partition ---------- *)
Record partition := {
  sectors : gset N; unproven : gset N; faults : gset N; recoveries : gset N; terminated : gset N;
  expirations : queue; early_terminated : bfqueue;
  live_power : pp; unproven_power : pp; p_faulty_power : pp; recovering_power : pp }.

Definition part_empty : partition :=
  {| sectors := ∅; unproven := ∅; faults := ∅; recoveries := ∅; terminated := ∅;
     expirations := ∅; early_terminated := ∅;
     live_power := pp0; unproven_power := pp0; p_faulty_power := pp0; recovering_power := pp0 |}.

Definition live_sectors (p : partition) := sectors p ∖ terminated p.
Definition active_sectors (p : partition) := (live_sectors p ∖ faults p) ∖ unproven p.
Definition p_active_power (p : partition) :=
  pp_sub (pp_sub (live_power p) (p_faulty_power p)) (unproven_power p).

Definition validate_power_state (p : partition) : bool :=
  pp_nonneg (live_power p) && pp_nonneg (unproven_power p) && pp_nonneg (p_faulty_power p)
  && pp_nonneg (recovering_power p)
  && (raw (unproven_power p) <=? raw (live_power p))
  && (raw (p_faulty_power p) <=? raw (live_power p))
  && (raw (recovering_power p) <=? raw (live_power p))
  && (raw (recovering_power p) <=? raw (p_faulty_power p)).
Definition validate_bf_state (p : partition) : bool :=
  let merge := unproven p ∪ faults p in
  disjoint_b (terminated p) merge
  && subset (merge ∪ terminated p) (sectors p)
  && subset (recoveries p) (faults p).
Definition validate_state (p : partition) : bool := validate_power_state p && validate_bf_state p.
Definition validated (p : partition) : res partition :=
  if validate_state p then Ok p else Err E_STATE.

(* Sectors::load_sectors over a bitfield, in sector-number order *)
Definition load_sectors (tbl : gmap N sector) (X : gset N) : res (list sector) :=
  fold_right (fun n (acc : res (list sector)) =>
                LET l <- acc IN
                match tbl !! n with Some s => Ok (s :: l) | None => Err E_NOTFOUND end)
             (Ok []) (sorted X).

Definition select_sectors (secs : list sector) (X : gset N) : res (list sector) :=
  let inc := filter (fun s => bool_decide (s_num s ∈ X)) secs in
  if subset X (nums_of secs) then Ok inc else Err E_STATE.

Definition set_exp (p : partition) (q : queue) : partition :=
  {| sectors := sectors p; unproven := unproven p; faults := faults p; recoveries := recoveries p;
     terminated := terminated p; expirations := q; early_terminated := early_terminated p;
     live_power := live_power p; unproven_power := unproven_power p;
     p_faulty_power := p_faulty_power p; recovering_power := recovering_power p |}.

Definition p_add_sectors (qs : quant) (p : partition) (proven : bool) (secs : list sector)
  : res (partition * pp * Z) :=
  LET '(q, ns, pw, _, fee) <- add_active_sectors qs (expirations p) secs IN
  if negb (disjoint_b (sectors p) ns) then Err E_STATE else
  let p' := {| sectors := sectors p ∪ ns;
               unproven := if proven then unproven p else unproven p ∪ ns;
               faults := faults p; recoveries := recoveries p; terminated := terminated p;
               expirations := q; early_terminated := early_terminated p;
               live_power := pp_add (live_power p) pw;
               unproven_power := if proven then unproven_power p else pp_add (unproven_power p) pw;
               p_faulty_power := p_faulty_power p; recovering_power := recovering_power p |} in
  LET p'' <- validated p' IN Ok (p'', pw, fee).

Definition p_add_faults (qs : quant) (p : partition) (nums : gset N) (secs : list sector)
    (fault_exp : Z) : res (partition * pp * pp) :=
  LET '(q, new_faulty) <- reschedule_as_faults qs (expirations p) fault_exp secs IN
  let unp := nums ∩ unproven p in
  LET unp_infos <- select_sectors secs unp IN
  let lost := sum_pow unp_infos in
  let p' := {| sectors := sectors p; unproven := unproven p ∖ unp; faults := faults p ∪ nums;
               recoveries := recoveries p; terminated := terminated p;
               expirations := q; early_terminated := early_terminated p;
               live_power := live_power p;
               unproven_power := pp_sub (unproven_power p) lost;
               p_faulty_power := pp_add (p_faulty_power p) new_faulty;
               recovering_power := recovering_power p |} in
  LET p'' <- validated p' IN
  Ok (p'', pp_add (pp_neg new_faulty) lost, new_faulty).

Definition remove_recoveries (p : partition) (nums : gset N) (pw : pp) : partition :=
  if set_empty nums then p else
  {| sectors := sectors p; unproven := unproven p; faults := faults p;
     recoveries := recoveries p ∖ nums; terminated := terminated p;
     expirations := expirations p; early_terminated := early_terminated p;
     live_power := live_power p; unproven_power := unproven_power p;
     p_faulty_power := p_faulty_power p; recovering_power := pp_sub (recovering_power p) pw |}.

Definition p_record_faults (qs : quant) (tbl : gmap N sector) (p : partition) (nums : gset N)
    (fault_exp : Z) : res (partition * gset N * pp * pp) :=
  if negb (subset nums (sectors p)) then Err E_ARG else
  let retracted := recoveries p ∩ nums in
  let new_faults := ((nums ∖ retracted) ∖ terminated p) ∖ faults p in
  LET new_fault_secs <- load_sectors tbl new_faults IN
  LET '(p1, delta, new_faulty) <-
    (match new_fault_secs with
     | [] => Ok (p, pp0, pp0)
     | _ => p_add_faults qs p new_faults new_fault_secs fault_exp
     end) IN
  LET retracted_secs <- load_sectors tbl retracted IN
  let p2 := match retracted_secs with
            | [] => p1
            | _ => remove_recoveries p1 retracted (sum_pow retracted_secs)
            end in
  LET p3 <- validated p2 IN
  Ok (p3, new_faults, delta, new_faulty).

Definition p_recover_faults (qs : quant) (tbl : gmap N sector) (p : partition)
  : res (partition * pp) :=
  LET rec_secs <- load_sectors tbl (recoveries p) IN
  LET '(q, pw) <- reschedule_recovered qs (expirations p) rec_secs IN
  let p' := {| sectors := sectors p; unproven := unproven p; faults := faults p ∖ recoveries p;
               recoveries := ∅; terminated := terminated p;
               expirations := q; early_terminated := early_terminated p;
               live_power := live_power p; unproven_power := unproven_power p;
               p_faulty_power := pp_sub (p_faulty_power p) pw;
               recovering_power := pp_sub (recovering_power p) pw |} in
  LET p'' <- validated p' IN Ok (p'', pw).

Definition p_activate_unproven (p : partition) : partition * pp :=
  ({| sectors := sectors p; unproven := ∅; faults := faults p; recoveries := recoveries p;
      terminated := terminated p; expirations := expirations p;
      early_terminated := early_terminated p;
      live_power := live_power p; unproven_power := pp0;
      p_faulty_power := p_faulty_power p; recovering_power := recovering_power p |},
   unproven_power p).

Definition p_declare_faults_recovered (tbl : gmap N sector) (p : partition) (nums : gset N)
  : res partition :=
  if negb (subset nums (sectors p)) then Err E_ARG else
  let recs := (nums ∩ faults p) ∖ recoveries p in
  LET rec_secs <- load_sectors tbl recs IN
  validated
    {| sectors := sectors p; unproven := unproven p; faults := faults p;
       recoveries := recoveries p ∪ recs; terminated := terminated p;
       expirations := expirations p; early_terminated := early_terminated p;
       live_power := live_power p; unproven_power := unproven_power p;
       p_faulty_power := p_faulty_power p;
       recovering_power := pp_add (recovering_power p) (sum_pow rec_secs) |}.

Definition p_reschedule_expirations (qs : quant) (tbl : gmap N sector) (p : partition)
    (new_exp : Z) (nums : gset N) : res (partition * list sector) :=
  let active := ((nums ∩ sectors p) ∖ terminated p) ∖ faults p in
  LET infos <- load_sectors tbl active IN
  LET q <- q_reschedule_expirations qs (expirations p) new_exp infos IN
  LET p' <- validated (set_exp p q) IN
  Ok (p', infos).

Definition p_replace_sectors (qs : quant) (p : partition) (old new : list sector)
  : res (partition * pp * Z * Z) :=
  LET '(q, old_ns, new_ns, dpow, dpledge, dfee) <- q_replace_sectors qs (expirations p) old new IN
  if negb (subset old_ns (active_sectors p)) then Err E_STATE else
  let p' := {| sectors := (sectors p ∖ old_ns) ∪ new_ns; unproven := unproven p;
               faults := faults p; recoveries := recoveries p; terminated := terminated p;
               expirations := q; early_terminated := early_terminated p;
               live_power := pp_add (live_power p) dpow; unproven_power := unproven_power p;
               p_faulty_power := p_faulty_power p; recovering_power := recovering_power p |} in
  LET p'' <- validated p' IN Ok (p'', dpow, dpledge, dfee).

Definition record_early_termination (p : partition) (epoch : Z) (X : gset N) : res partition :=
  LET et <- bfq_add NO_QUANT (early_terminated p) epoch X IN
  Ok {| sectors := sectors p; unproven := unproven p; faults := faults p;
        recoveries := recoveries p; terminated := terminated p;
        expirations := expirations p; early_terminated := et;
        live_power := live_power p; unproven_power := unproven_power p;
        p_faulty_power := p_faulty_power p; recovering_power := recovering_power p |}.

Definition p_terminate_sectors (qs : quant) (tbl : gmap N sector) (p : partition) (epoch : Z)
    (nums : gset N) : res (partition * expset * pp) :=
  if negb (subset nums (live_sectors p)) then Err E_ARG else
  LET infos <- load_sectors tbl nums IN
  LET '(q, removed, removed_recovering) <-
    remove_sectors qs (expirations p) infos (faults p) (recoveries p) IN
  let removed_secs := on_time removed ∪ early removed in
  LET p1 <- record_early_termination (set_exp p q) epoch removed_secs IN
  let unp := removed_secs ∩ unproven p1 in
  LET unp_infos <- select_sectors infos unp IN
  let unp_pow := sum_pow unp_infos in
  let p2 := {| sectors := sectors p1; unproven := unproven p1 ∖ unp;
               faults := faults p1 ∖ removed_secs; recoveries := recoveries p1 ∖ removed_secs;
               terminated := terminated p1 ∪ removed_secs;
               expirations := expirations p1; early_terminated := early_terminated p1;
               live_power := pp_sub (pp_sub (live_power p1) (active_power removed)) (faulty_power removed);
               unproven_power := pp_sub (unproven_power p1) unp_pow;
               p_faulty_power := pp_sub (p_faulty_power p1) (faulty_power removed);
               recovering_power := pp_sub (recovering_power p1) removed_recovering |} in
  LET p3 <- validated p2 IN
  Ok (p3,
      {| on_time := on_time removed; early := early removed;
         on_time_pledge := on_time_pledge removed;
         active_power := pp_sub (active_power removed) unp_pow;
         faulty_power := faulty_power removed; fee_deduction := fee_deduction removed |},
      unp_pow).

Definition p_pop_expired_sectors (p : partition) (until : Z) : res (partition * expset) :=
  if negb (set_empty (unproven p)) then Err E_STATE else
  let '(q, popped) := pop_until (expirations p) until in
  let expired := on_time popped ∪ early popped in
  if negb (set_empty (recoveries p)) then Err E_STATE else
  if negb (pp_is_zero (recovering_power p)) then Err E_STATE else
  if negb (disjoint_b (terminated p) expired) then Err E_STATE else
  let p1 := {| sectors := sectors p; unproven := unproven p; faults := faults p ∖ expired;
               recoveries := recoveries p; terminated := terminated p ∪ expired;
               expirations := q; early_terminated := early_terminated p;
               live_power := pp_sub (live_power p) (pp_add (active_power popped) (faulty_power popped));
               unproven_power := unproven_power p;
               p_faulty_power := pp_sub (p_faulty_power p) (faulty_power popped);
               recovering_power := recovering_power p |} in
  LET p2 <- record_early_termination p1 until (early popped) IN
  LET p3 <- validated p2 IN Ok (p3, popped).

Definition p_record_missed_post (qs : quant) (p : partition) (fault_exp : Z)
  : res (partition * pp * pp * pp) :=
  LET q <- reschedule_all_as_faults qs (expirations p) fault_exp IN
  let new_faulty := pp_sub (live_power p) (p_faulty_power p) in
  let penalized := pp_add (recovering_power p) new_faulty in
  let delta := pp_sub (unproven_power p) new_faulty in
  let p' := {| sectors := sectors p; unproven := ∅; faults := live_sectors p; recoveries := ∅;
               terminated := terminated p; expirations := q;
               early_terminated := early_terminated p;
               live_power := live_power p; unproven_power := pp0;
               p_faulty_power := live_power p; recovering_power := pp0 |} in
  LET p'' <- validated p' IN Ok (p'', delta, penalized, new_faulty).

Definition firstn_set (n : Z) (X : gset N) : gset N :=
  list_to_set (firstn (Z.to_nat n) (sorted X)).

(* result: (epoch -> sectors) map, sectors_processed, has_more.  max_sectors is a u64. *)
Definition p_pop_early_terminations (p : partition) (max_sectors : Z)
  : res (partition * gmap Z (gset N) * Z * bool) :=
  let et := early_terminated p in
  let '(result, processed_n, processed_keys, remaining, _) :=
    fold_left (fun '(result, n, keys, remaining, go) k =>
      if negb go then (result, n, keys, remaining, go) else
      match et !! k with
      | None => (result, n, keys, remaining, go)
      | Some secs =>
        let count := ssize secs in
        let limit := max_sectors - n in
        if limit <? count then
          let tp := firstn_set limit secs in
          (<[k := tp]> result, n + limit, keys, Some (k, secs ∖ tp), (n + limit <? max_sectors))
        else
          (<[k := secs]> result, n + count, keys ++ [k], remaining, (n + count <? max_sectors))
      end) (qkeys et) (∅ : gmap Z (gset N), 0, [], None, true) in
  let et1 := fold_left (fun q k => delete k q) processed_keys et in
  let et2 := match remaining with Some (k, rest) => <[k := rest]> et1 | None => et1 end in
  LET p' <- validated
    {| sectors := sectors p; unproven := unproven p; faults := faults p;
       recoveries := recoveries p; terminated := terminated p;
       expirations := expirations p; early_terminated := et2;
       live_power := live_power p; unproven_power := unproven_power p;
       p_faulty_power := p_faulty_power p; recovering_power := recovering_power p |} IN
  Ok (p', result, processed_n, negb (bool_decide (et2 = ∅))).

Definition p_record_skipped_faults (qs : quant) (tbl : gmap N sector) (p : partition)
    (fault_exp : Z) (skipped : gset N) : res (partition * pp * pp * pp * bool) :=
  if set_empty skipped then Ok (p, pp0, pp0, pp0, false) else
  if negb (subset skipped (sectors p)) then Err E_ARG else
  let retracted := recoveries p ∩ skipped in
  LET retracted_secs <- load_sectors tbl retracted IN
  let retracted_pow := sum_pow retracted_secs in
  let new_faults := (skipped ∖ terminated p) ∖ faults p in
  LET new_fault_secs <- load_sectors tbl new_faults IN
  LET '(p1, delta, new_fault_pow) <- p_add_faults qs p new_faults new_fault_secs fault_exp IN
  let p2 := remove_recoveries p1 retracted retracted_pow in
  LET p3 <- validated p2 IN
  Ok (p3, delta, new_fault_pow, retracted_pow,
      match new_fault_secs with [] => false | _ => true end).

(* ---------- the driven system: one partition + the miner's sector table ---------- *)
Record state := { st_q : quant; st_tbl : gmap N sector; st_part : partition }.
Definition init (unit off : Z) : state :=
  {| st_q := {| q_unit := unit; q_off := off |}; st_tbl := ∅; st_part := part_empty |}.

Inductive op :=
| AddSectors (proven : bool) (secs : list sector)
| RecordFaults (nums : list N) (fault_exp : Z)
| DeclareFaultsRecovered (nums : list N)
| RecoverFaults
| ActivateUnproven
| RecordSkippedFaults (fault_exp : Z) (skipped : list N)
| RecordMissedPost (fault_exp : Z)
| TerminateSectors (epoch : Z) (nums : list N)
| PopExpiredSectors (until : Z)
| ReplaceSectors (old : list N) (new : list sector)
| RescheduleExpirations (new_exp : Z) (nums : list N)
| PopEarlyTerminations (max_sectors : Z).

Definition store_sectors (tbl : gmap N sector) (secs : list sector) : gmap N sector :=
  fold_left (fun m s => <[s_num s := s]> m) secs tbl.

Definition with_part (st : state) (tbl : gmap N sector) (p : partition) : state :=
  {| st_q := st_q st; st_tbl := tbl; st_part := p |}.

Definition set_expiration (s : sector) (e : Z) : sector :=
  {| s_num := s_num s; s_exp := e; s_raw := s_raw s; s_qa := s_qa s; s_pledge := s_pledge s;
     s_fee := s_fee s |}.

(* ---------- observation encoding ---------- *)
Definition enc_set (X : gset N) : list Z := ssize X :: map Z.of_N (sorted X).
Definition enc_pp (a : pp) : list Z := [raw a; qa a].
Definition enc_es (es : expset) : list Z :=
  enc_set (on_time es) ++ enc_set (early es) ++ [on_time_pledge es] ++ enc_pp (active_power es)
  ++ enc_pp (faulty_power es) ++ [fee_deduction es].
Definition enc_queue (q : queue) : list Z :=
  Z.of_nat (length (qkeys q)) ::
  flat_map (fun k => k :: match q !! k with Some es => enc_es es | None => [] end) (qkeys q).
Definition enc_bfq (q : bfqueue) : list Z :=
  Z.of_nat (length (qkeys q)) ::
  flat_map (fun k => k :: match q !! k with Some X => enc_set X | None => [] end) (qkeys q).
Definition enc_part (p : partition) : list Z :=
  enc_set (sectors p) ++ enc_set (unproven p) ++ enc_set (faults p) ++ enc_set (recoveries p)
  ++ enc_set (terminated p)
  ++ enc_pp (live_power p) ++ enc_pp (unproven_power p) ++ enc_pp (p_faulty_power p)
  ++ enc_pp (recovering_power p)
  ++ enc_queue (expirations p) ++ enc_bfq (early_terminated p).

(* step: new state, exit code (0 = Ok), encoded return values *)
Definition lset (l : list N) : gset N := list_to_set l.

Definition step (st : state) (o : op) : state * Z * list Z :=
  let qs := st_q st in
  let tbl := st_tbl st in
  let p := st_part st in
  let fail (c : Z) := (st, c, []) in
  match o with
  | AddSectors proven secs =>
      match p_add_sectors qs p proven secs with
      | Ok (p', pw, fee) => (with_part st (store_sectors tbl secs) p', 0, enc_pp pw ++ [fee])
      | Err c => fail c
      end
  | RecordFaults nums fe =>
      match p_record_faults qs tbl p (lset nums) fe with
      | Ok (p', nf, delta, nfp) => (with_part st tbl p', 0, enc_set nf ++ enc_pp delta ++ enc_pp nfp)
      | Err c => fail c
      end
  | DeclareFaultsRecovered nums =>
      match p_declare_faults_recovered tbl p (lset nums) with
      | Ok p' => (with_part st tbl p', 0, [])
      | Err c => fail c
      end
  | RecoverFaults =>
      match p_recover_faults qs tbl p with
      | Ok (p', pw) => (with_part st tbl p', 0, enc_pp pw)
      | Err c => fail c
      end
  | ActivateUnproven =>
      let '(p', pw) := p_activate_unproven p in (with_part st tbl p', 0, enc_pp pw)
  | RecordSkippedFaults fe skipped =>
      match p_record_skipped_faults qs tbl p fe (lset skipped) with
      | Ok (p', delta, nfp, rrp, hnf) =>
          (with_part st tbl p', 0, enc_pp delta ++ enc_pp nfp ++ enc_pp rrp ++ [b2z hnf])
      | Err c => fail c
      end
  | RecordMissedPost fe =>
      match p_record_missed_post qs p fe with
      | Ok (p', delta, pen, nfp) =>
          (with_part st tbl p', 0, enc_pp delta ++ enc_pp pen ++ enc_pp nfp)
      | Err c => fail c
      end
  | TerminateSectors epoch nums =>
      match p_terminate_sectors qs tbl p epoch (lset nums) with
      | Ok (p', removed, unp) => (with_part st tbl p', 0, enc_es removed ++ enc_pp unp)
      | Err c => fail c
      end
  | PopExpiredSectors until =>
      match p_pop_expired_sectors p until with
      | Ok (p', popped) => (with_part st tbl p', 0, enc_es popped)
      | Err c => fail c
      end
  | ReplaceSectors old new =>
      match load_sectors tbl (lset old) with
      | Err c => fail c
      | Ok old_infos =>
        match p_replace_sectors qs p old_infos new with
        | Ok (p', dpow, dpl, dfee) =>
            (with_part st (store_sectors tbl new) p', 0, enc_pp dpow ++ [dpl; dfee])
        | Err c => fail c
        end
      end
  | RescheduleExpirations new_exp nums =>
      match p_reschedule_expirations qs tbl p new_exp (lset nums) with
      | Ok (p', infos) =>
          (* the caller re-stores the moved sectors with their new expiration *)
          (with_part st (store_sectors tbl (map (fun s => set_expiration s new_exp) infos)) p', 0,
           enc_set (nums_of infos))
      | Err c => fail c
      end
  | PopEarlyTerminations max_sectors =>
      match p_pop_early_terminations p max_sectors with
      | Ok (p', result, n, more) =>
          (with_part st tbl p', 0, enc_bfq result ++ [n; b2z more])
      | Err c => fail c
      end
  end.

Definition obs (st : state) (code : Z) (rets : list Z) : list Z :=
  code :: Z.of_nat (length rets) :: rets ++ enc_part (st_part st).

Definition stepo (st : state) (o : op) : state * list Z :=
  let '(st', c, rets) := step st o in (st', obs st' c rets).

Definition check_case := @Corr.check state op stepo.
