(* Plumbing of the per-instruction correspondence check of C17 (harness/src/bin/evm_ops.rs).
   Definitions only.

   An operation is (opcode byte, a, b, c, r): the instruction at that byte of the jump table in
   interpreter/execution.rs was executed by the REAL interpreter on a stack whose top is a, then b,
   then c, and returned the 32-byte word r.  The step evaluates BOTH the specification
   (`apply_op spec_ops`) and the transcribed algorithm (`apply_op impl_ops`) on the same operands and
   compares both with r: the observation is [] when both equal r, and [spec; impl; r] otherwise (the
   harness always records []), so any difference between the real code and either side is a
   disagreement that shows all three values.

   Encoding: parsing a 78-digit Z numeral costs Coq milliseconds, and a run has ~10^5 of them, so every
   256-bit word is written as five primitive-integer literals of 60 bits, least significant first
   (`w5`); primitive integers are used for nothing else (no theorem depends on them). *)
From Coq Require Import ZArith List Bool Uint63.
From VF Require Import Base.Corr Model.EvmSpec Model.EvmWord.
Import ListNotations.
Open Scope Z_scope.

Definition w5 (l0 l1 l2 l3 l4 : int) : Z :=
  Z.lor (Z.shiftl (Z.lor (Z.shiftl (Z.lor (Z.shiftl (Z.lor (Z.shiftl
    (to_Z l4) 60) (to_Z l3)) 60) (to_Z l2)) 60) (to_Z l1)) 60) (to_Z l0).

Inductive wop :=
| W1 (opcode a0 a1 a2 a3 a4 r0 r1 r2 r3 r4 : int)
| W2 (opcode a0 a1 a2 a3 a4 b0 b1 b2 b3 b4 r0 r1 r2 r3 r4 : int)
| W3 (opcode a0 a1 a2 a3 a4 b0 b1 b2 b3 b4 c0 c1 c2 c3 c4 r0 r1 r2 r3 r4 : int).

(* opcode byte -> instruction, as in the Yellow Paper / EIP-145 / EIP-7939 (and as in def_opcodes!) *)
Definition apply_op (o : word_ops) (opcode a b c : Z) : Z :=
  if opcode =? 1 then w_add o a b else
  if opcode =? 2 then w_mul o a b else
  if opcode =? 3 then w_sub o a b else
  if opcode =? 4 then w_div o a b else
  if opcode =? 5 then w_sdiv o a b else
  if opcode =? 6 then w_mod o a b else
  if opcode =? 7 then w_smod o a b else
  if opcode =? 8 then w_addmod o a b c else
  if opcode =? 9 then w_mulmod o a b c else
  if opcode =? 10 then w_exp o a b else
  if opcode =? 11 then w_signextend o a b else
  if opcode =? 16 then w_lt o a b else
  if opcode =? 17 then w_gt o a b else
  if opcode =? 18 then w_slt o a b else
  if opcode =? 19 then w_sgt o a b else
  if opcode =? 20 then w_eq o a b else
  if opcode =? 21 then w_iszero o a else
  if opcode =? 22 then w_and o a b else
  if opcode =? 23 then w_or o a b else
  if opcode =? 24 then w_xor o a b else
  if opcode =? 25 then w_not o a else
  if opcode =? 26 then w_byte o a b else
  if opcode =? 27 then w_shl o a b else
  if opcode =? 28 then w_shr o a b else
  if opcode =? 29 then w_sar o a b else
  if opcode =? 30 then w_clz o a else -1.

(* (opcode, a, b, c, r) *)
Definition decode (o : wop) : Z * Z * Z * Z * Z :=
  match o with
  | W1 code a0 a1 a2 a3 a4 r0 r1 r2 r3 r4 =>
      (to_Z code, w5 a0 a1 a2 a3 a4, 0, 0, w5 r0 r1 r2 r3 r4)
  | W2 code a0 a1 a2 a3 a4 b0 b1 b2 b3 b4 r0 r1 r2 r3 r4 =>
      (to_Z code, w5 a0 a1 a2 a3 a4, w5 b0 b1 b2 b3 b4, 0, w5 r0 r1 r2 r3 r4)
  | W3 code a0 a1 a2 a3 a4 b0 b1 b2 b3 b4 c0 c1 c2 c3 c4 r0 r1 r2 r3 r4 =>
      (to_Z code, w5 a0 a1 a2 a3 a4, w5 b0 b1 b2 b3 b4, w5 c0 c1 c2 c3 c4, w5 r0 r1 r2 r3 r4)
  end.

Definition stepo (st : unit) (o : wop) : unit * list Z :=
  let '(code, a, b, c, r) := decode o in
  let sp := apply_op spec_ops code a b c in
  let im := apply_op impl_ops code a b c in
  (st, if (sp =? r) && (im =? r) then [] else [sp; im; r]).

Definition check_case := @Corr.check unit wop stepo.

(* the same on plain Z operands, for replay files and examples *)
Definition eval_both (opcode a b c : Z) : Z * Z :=
  (apply_op spec_ops opcode a b c, apply_op impl_ops opcode a b c).
