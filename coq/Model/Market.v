(* Executable model of the storage market actor: actors/market/src/{state.rs, lib.rs, balance_table.rs,
   deal.rs, policy.rs}.  Definitions only (properties C06, C07, C08).

   Conventions
   - amounts, epochs, ids are Z; EPOCH_UNDEFINED = -1.
   - a proposal's CID is the normalised proposal record itself (no-collision hypothesis), so the
     pending-proposals Set<Cid> is a duplicate-free list of proposals.
   - HAMT/AMT containers are finite maps; the BalanceTable's "delete the entry when it becomes zero,
     but store an explicit zero when zero is added to an absent key" is modelled (bt_add).
   - every state-level function returns `Ok st' a` or `Err st' code` where st' is the state as the Rust
     code leaves `self` at that point (partial mutations are kept): handlers that catch an error and
     go on (settle_deal_payments) continue from st', handlers that propagate it abort the message and
     the VM rolls the whole state back.
   - external replies the actor only consumes are inputs of the operation: the resolution/kind of an
     address and a miner's ControlAddresses reply (`target`), the caller being a miner actor,
     per deal the signature / label / piece validity and the minimum provider collateral computed
     from the reward and power actors' replies.
   Not modelled: verified-deal allocation (no client holds DataCap in the harness world, so the real
     code drops every verified deal at the datacap-balance check; the model drops them likewise),
     compute_cid of BatchActivateDeals (always false), client notification failure, events, the
     read-only deal getters. HAMT iteration order inside one epoch of deal_ops_by_epoch is abstracted
     to ascending deal id (results do not depend on it unless an error aborts the whole tick). *)
From stdpp Require Import gmap.
From Coq Require Import ZArith List Bool.
From VF Require Import Gen.Consts Gen.MarketConsts Base.Corr.
Import ListNotations.
Open Scope Z_scope.

(* ---- exit codes ---- *)
Definition OK := 0.
Definition ILLEGAL_ARGUMENT := 16.
Definition NOT_FOUND := 17.
Definition FORBIDDEN := 18.
Definition INSUFFICIENT_FUNDS := 19.
Definition ILLEGAL_STATE := 20.
Definition SEND_FAILED := 6.   (* market balance too small for a transfer out: never reachable *)
Definition UNDEF := -1.        (* EPOCH_UNDEFINED *)

(* ---- deal.rs ---- *)
Record proposal := mkProp {
  p_piece : Z; p_size : Z; p_verified : bool; p_client : Z; p_provider : Z; p_label : Z;
  p_start : Z; p_end : Z; p_price : Z; p_pcoll : Z; p_ccoll : Z }.

Record dstate := mkDs { ds_sector : Z; ds_start : Z; ds_lu : Z; ds_slash : Z }.

Definition prop_eqb (a b : proposal) : bool :=
  (p_piece a =? p_piece b) && (p_size a =? p_size b) && eqb (p_verified a) (p_verified b) &&
  (p_client a =? p_client b) && (p_provider a =? p_provider b) && (p_label a =? p_label b) &&
  (p_start a =? p_start b) && (p_end a =? p_end b) && (p_price a =? p_price b) &&
  (p_pcoll a =? p_pcoll b) && (p_ccoll a =? p_ccoll b).

Definition total_fee (p : proposal) : Z := p_price p * (p_end p - p_start p).
Definition client_req (p : proposal) : Z := p_ccoll p + total_fee p.

(* ---- state.rs: State ---- *)
Record state := mkState {
  proposals : gmap Z proposal;
  states : gmap Z dstate;
  pending : list proposal;
  escrow : gmap Z Z;
  locked : gmap Z Z;
  next_id : Z;
  deal_ops : gmap Z (list Z);          (* epoch -> ascending deal ids *)
  last_cron : Z;
  tot_ccoll : Z; tot_pcoll : Z; tot_fee : Z;
  psectors : gmap (Z * Z) (list Z);    (* (provider, sector) -> ascending deal ids *)
  balance : Z;                          (* the market actor's own balance *)
  burnt : Z;                            (* total sent to the burnt-funds actor *)
  interval : Z                          (* policy.deal_updates_interval *)
}.

Definition init (ivl : Z) : state :=
  mkState ∅ ∅ [] ∅ ∅ 0 ∅ UNDEF 0 0 0 ∅ 0 0 ivl.

Definition set_proposals st v := mkState v (states st) (pending st) (escrow st) (locked st) (next_id st)
  (deal_ops st) (last_cron st) (tot_ccoll st) (tot_pcoll st) (tot_fee st) (psectors st) (balance st) (burnt st) (interval st).
Definition set_states st v := mkState (proposals st) v (pending st) (escrow st) (locked st) (next_id st)
  (deal_ops st) (last_cron st) (tot_ccoll st) (tot_pcoll st) (tot_fee st) (psectors st) (balance st) (burnt st) (interval st).
Definition set_pending st v := mkState (proposals st) (states st) v (escrow st) (locked st) (next_id st)
  (deal_ops st) (last_cron st) (tot_ccoll st) (tot_pcoll st) (tot_fee st) (psectors st) (balance st) (burnt st) (interval st).
Definition set_escrow st v := mkState (proposals st) (states st) (pending st) v (locked st) (next_id st)
  (deal_ops st) (last_cron st) (tot_ccoll st) (tot_pcoll st) (tot_fee st) (psectors st) (balance st) (burnt st) (interval st).
Definition set_locked st v tc tp tf := mkState (proposals st) (states st) (pending st) (escrow st) v (next_id st)
  (deal_ops st) (last_cron st) tc tp tf (psectors st) (balance st) (burnt st) (interval st).
Definition set_next_id st v := mkState (proposals st) (states st) (pending st) (escrow st) (locked st) v
  (deal_ops st) (last_cron st) (tot_ccoll st) (tot_pcoll st) (tot_fee st) (psectors st) (balance st) (burnt st) (interval st).
Definition set_deal_ops st v lc := mkState (proposals st) (states st) (pending st) (escrow st) (locked st) (next_id st)
  v lc (tot_ccoll st) (tot_pcoll st) (tot_fee st) (psectors st) (balance st) (burnt st) (interval st).
Definition set_psectors st v := mkState (proposals st) (states st) (pending st) (escrow st) (locked st) (next_id st)
  (deal_ops st) (last_cron st) (tot_ccoll st) (tot_pcoll st) (tot_fee st) v (balance st) (burnt st) (interval st).
Definition set_funds st bal bt := mkState (proposals st) (states st) (pending st) (escrow st) (locked st) (next_id st)
  (deal_ops st) (last_cron st) (tot_ccoll st) (tot_pcoll st) (tot_fee st) (psectors st) bal bt (interval st).

Inductive res (A : Type) := Ok (s : state) (a : A) | Err (s : state) (c : Z).
Arguments Ok {A} s a.
Arguments Err {A} s c.

Definition bind {A B} (r : res A) (f : state -> A -> res B) : res B :=
  match r with Ok s a => f s a | Err s c => Err s c end.
Notation "'do' ( s , x ) <- r ; k" := (bind r (fun s x => k))
  (at level 200, s name, x name, r at level 100, k at level 200, right associativity).

(* ---- balance_table.rs ---- *)
Definition bt_get (t : gmap Z Z) (k : Z) : Z := default 0 (t !! k).

Definition bt_add (t : gmap Z Z) (k v : Z) : option (gmap Z Z) :=
  let prev := bt_get t k in
  let sum := prev + v in
  if sum <? 0 then None
  else if (sum =? 0) && negb (prev =? 0) then Some (delete k t)
  else Some (<[k := sum]> t).

Definition bt_must_subtract (t : gmap Z Z) (k req : Z) : option (gmap Z Z) :=
  if bt_get t k <? req then None else bt_add t k (- req).

Definition bt_sub_with_min (t : gmap Z Z) (k req floor : Z) : option (gmap Z Z * Z) :=
  let prev := bt_get t k in
  let available := Z.max 0 (prev - floor) in
  let sub := Z.min available req in
  if 0 <? sub then
    match bt_add t k (- sub) with Some t' => Some (t', sub) | None => None end
  else Some (t, sub).

(* ---- small list utilities ---- *)
Definition zmem (x : Z) (l : list Z) : bool := existsb (Z.eqb x) l.

Fixpoint has_dup (l : list Z) : bool :=
  match l with [] => false | x :: r => zmem x r || has_dup r end.

Fixpoint ins_sorted (x : Z) (l : list Z) : list Z :=
  match l with
  | [] => [x]
  | y :: r => if x <? y then x :: l else if x =? y then l else y :: ins_sorted x r
  end.
Definition sort_dedup (l : list Z) : list Z := fold_right ins_sorted [] l.

(* pending proposals: a set *)
Definition pend_has (l : list proposal) (p : proposal) : bool := existsb (prop_eqb p) l.
Definition pend_put (l : list proposal) (p : proposal) : list proposal :=
  if pend_has l p then l else l ++ [p].
Definition pend_del (l : list proposal) (p : proposal) : list proposal :=
  List.filter (fun q => negb (prop_eqb p q)) l.

(* ---- state.rs: balance operations ---- *)
Inductive reason := RCcoll | RFee | RPcoll.

Definition unlock_balance (st : state) (a amt : Z) (r : reason) : res unit :=
  if amt <? 0 then Err st ILLEGAL_STATE else
  match bt_must_subtract (locked st) a amt with
  | None => Err st ILLEGAL_ARGUMENT
  | Some l' =>
      Ok (match r with
          | RCcoll => set_locked st l' (tot_ccoll st - amt) (tot_pcoll st) (tot_fee st)
          | RFee => set_locked st l' (tot_ccoll st) (tot_pcoll st) (tot_fee st - amt)
          | RPcoll => set_locked st l' (tot_ccoll st) (tot_pcoll st - amt) (tot_fee st)
          end) tt
  end.

Definition transfer_balance (st : state) (from to amt : Z) : res unit :=
  if amt <? 0 then Err st ILLEGAL_STATE else
  match bt_must_subtract (escrow st) from amt with
  | None => Err st ILLEGAL_ARGUMENT
  | Some e1 =>
      do (st1, _u) <- unlock_balance st from amt RFee;
      match bt_add e1 to amt with
      | None => Err st1 ILLEGAL_ARGUMENT
      | Some e2 => Ok (set_escrow st1 e2) tt
      end
  end.

Definition slash_balance (st : state) (a amt : Z) (r : reason) : res unit :=
  if amt <? 0 then Err st ILLEGAL_STATE else
  match bt_must_subtract (escrow st) a amt with
  | None => Err st ILLEGAL_ARGUMENT
  | Some e1 => unlock_balance (set_escrow st e1) a amt r
  end.

Definition balance_covered (st : state) (a amt : Z) : bool :=
  bt_get (locked st) a + amt <=? bt_get (escrow st) a.

Definition maybe_lock_balance (st : state) (a amt : Z) : res unit :=
  if amt <? 0 then Err st ILLEGAL_STATE else
  if bt_get (escrow st) a <? bt_get (locked st) a + amt then Err st INSUFFICIENT_FUNDS else
  match bt_add (locked st) a amt with
  | None => Err st ILLEGAL_ARGUMENT
  | Some l' => Ok (set_locked st l' (tot_ccoll st) (tot_pcoll st) (tot_fee st)) tt
  end.

Definition lock_balances (st : state) (p : proposal) : res unit :=
  do (st1, _u) <- maybe_lock_balance st (p_client p) (client_req p);
  do (st2, _v) <- maybe_lock_balance st1 (p_provider p) (p_pcoll p);
  Ok (set_locked st2 (locked st2) (tot_ccoll st2 + p_ccoll p) (tot_pcoll st2 + p_pcoll p)
        (tot_fee st2 + total_fee p)) tt.

(* ---- state.rs: table helpers ---- *)
Definition remove_pending (st : state) (p : proposal) : state :=
  set_pending st (pend_del (pending st) p).

Definition remove_proposal (st : state) (id : Z) : res unit :=
  match proposals st !! id with
  | None => Err st ILLEGAL_STATE
  | Some _ => Ok (set_proposals st (delete id (proposals st))) tt
  end.

(* remove_completed_deal: state first, then proposal *)
Definition remove_completed_deal (st : state) (id : Z) : res unit :=
  match states st !! id with
  | None => Err st ILLEGAL_STATE
  | Some _ => remove_proposal (set_states st (delete id (states st))) id
  end.

Fixpoint put_deal_states (m : gmap Z dstate) (l : list (Z * dstate)) : gmap Z dstate :=
  match l with [] => m | (id, ds) :: r => put_deal_states (<[id := ds]> m) r end.

Definition ops_put (m : gmap Z (list Z)) (e id : Z) : gmap Z (list Z) :=
  <[e := ins_sorted id (default [] (m !! e))]> m.

(* put_sector_deal_ids for one provider *)
Fixpoint put_sector_deals (m : gmap (Z * Z) (list Z)) (prov : Z) (l : list (Z * list Z))
  : gmap (Z * Z) (list Z) :=
  match l with
  | [] => m
  | (sector, ids) :: r =>
      put_sector_deals (<[(prov, sector) := sort_dedup (ids ++ default [] (m !! (prov, sector)))]> m) prov r
  end.

(* remove_sector_deal_ids, one (provider, sector, deal) at a time: missing entries are ignored,
   an entry that becomes empty is deleted *)
Definition remove_sector_deal (m : gmap (Z * Z) (list Z)) (x : Z * Z * Z) : gmap (Z * Z) (list Z) :=
  let '(prov, sector, id) := x in
  match m !! (prov, sector) with
  | None => m
  | Some ids =>
      let ids' := List.filter (fun i => negb (i =? id)) ids in
      match ids' with [] => delete (prov, sector) m | _ => <[(prov, sector) := ids']> m end
  end.
Definition remove_sector_deals (m : gmap (Z * Z) (list Z)) (l : list (Z * Z * Z)) :=
  fold_left remove_sector_deal l m.

(* ---- lib.rs: next_update_epoch (Rust `/` and `%` truncate: Z.quot, Z.rem) ---- *)
Definition next_update_epoch (id ivl earliest : Z) : Z :=
  let offset := Z.rem id ivl in
  let r := Z.rem (earliest - offset) ivl in
  let q := Z.quot (earliest - offset) ivl in
  if (r =? 0) || (earliest - offset <? 0) then ivl * q + offset else ivl * (q + 1) + offset.

(* ---- state.rs: deal processing ---- *)
Definition deal_get_payment_remaining (st : state) (p : proposal) (slash : Z) : res Z :=
  if p_end p <? slash then Err st ILLEGAL_STATE else
  let s := Z.max slash (p_start p) in
  let d := p_end p - s in
  if d <? 0 then Err st ILLEGAL_STATE else Ok st (p_price p * d).

Definition process_deal_init_timed_out (st : state) (p : proposal) : res Z :=
  do (st1, _a) <- unlock_balance st (p_client p) (total_fee p) RFee;
  do (st2, _b) <- unlock_balance st1 (p_client p) (p_ccoll p) RCcoll;
  let slashed := p_pcoll p in                (* collateral_penalty_for_deal_activation_missed = id *)
  let remaining := p_pcoll p - slashed in
  do (st3, _c) <- slash_balance st2 (p_provider p) slashed RPcoll;
  do (st4, _d) <- unlock_balance st3 (p_provider p) remaining RPcoll;
  Ok st4 slashed.

Definition process_deal_expired (st : state) (p : proposal) (ds : dstate) : res unit :=
  if ds_start ds =? UNDEF then Err st ILLEGAL_STATE else
  do (st1, _a) <- unlock_balance st (p_provider p) (p_pcoll p) RPcoll;
  unlock_balance st1 (p_client p) (p_ccoll p) RCcoll.

Definition process_slashed_deal (st : state) (p : proposal) (ds : dstate) : res Z :=
  let pay_start := Z.max (p_start p) (ds_lu ds) in
  let pay_end := Z.min (p_end p) (ds_slash ds) in
  let n := Z.max 0 (pay_end - pay_start) in
  let total := p_price p * n in
  do (st1, _a) <- (if 0 <? total then transfer_balance st (p_client p) (p_provider p) total else Ok st tt);
  do (st2, remaining) <- deal_get_payment_remaining st1 p (ds_slash ds);
  do (st3, _b) <- unlock_balance st2 (p_client p) remaining RFee;
  do (st4, _c) <- unlock_balance st3 (p_client p) (p_ccoll p) RCcoll;
  do (st5, _d) <- slash_balance st4 (p_provider p) (p_pcoll p) RPcoll;
  Ok st5 (p_pcoll p).

(* returns (slash_amount, payment_amount, is_deal_completed, remove) *)
Definition process_deal_update (st : state) (ds : dstate) (p : proposal) (epoch : Z)
  : res (Z * Z * bool * bool) :=
  let ever_updated := negb (ds_lu ds =? UNDEF) in
  let ever_slashed := negb (ds_slash ds =? UNDEF) in
  let st0 := if ever_updated then st else remove_pending st p in
  if ever_updated && (epoch <? ds_lu ds) then Err st0 ILLEGAL_STATE else
  if epoch <? p_start p then Ok st0 (0, 0, false, false) else
  do (st1, pay_end) <-
    (if ever_slashed then
       if epoch <? ds_slash ds then Err st0 ILLEGAL_STATE else
       if p_end p <? ds_slash ds then Err st0 ILLEGAL_STATE else Ok st0 (ds_slash ds)
     else Ok st0 (Z.min (p_end p) epoch));
  let pay_start := if ever_updated && (p_start p <? ds_lu ds) then ds_lu ds else p_start p in
  let elapsed := p_price p * (pay_end - pay_start) in
  do (st2, _a) <- (if 0 <? elapsed then transfer_balance st1 (p_client p) (p_provider p) elapsed else Ok st1 tt);
  if ever_slashed then
    do (st3, remaining) <- deal_get_payment_remaining st2 p (ds_slash ds);
    do (st4, _b) <- unlock_balance st3 (p_client p) remaining RFee;
    do (st5, _c) <- unlock_balance st4 (p_client p) (p_ccoll p) RCcoll;
    do (st6, _d) <- slash_balance st5 (p_provider p) (p_pcoll p) RPcoll;
    Ok st6 (p_pcoll p, remaining + elapsed, false, true)
  else if p_end p <=? epoch then
    do (st3, _b) <- process_deal_expired st2 p ds;
    Ok st3 (0, elapsed, true, true)
  else Ok st2 (0, elapsed, false, false).

Inductive load := TooEarly | ProposalExpired (slashed : Z) | Loaded (ds : dstate).

Definition get_active_deal_or_process_timeout (st : state) (epoch id : Z) (p : proposal) : res load :=
  match states st !! id with
  | Some ds => Ok st (Loaded ds)
  | None =>
      if epoch <? p_start p then Ok st TooEarly else
      do (st1, slashed) <- process_deal_init_timed_out st p;
      do (st2, _a) <- remove_proposal st1 id;
      if negb (pend_has (pending st2) p) then Err st2 ILLEGAL_STATE else
      Ok (remove_pending st2 p) (ProposalExpired slashed)
  end.

Definition get_proposal (st : state) (id : Z) : proposal + Z :=
  match proposals st !! id with
  | Some p => inl p
  | None => inr (if id <? next_id st then EX_DEAL_EXPIRED else NOT_FOUND)
  end.

(* ---- lib.rs: handlers ---- *)
Inductive target := TNone | TAccount | TMiner (owner worker : Z) (ctrls : list Z).

Definition burn (st : state) (amt : Z) : state := set_funds st (balance st - amt) (burnt st + amt).

Definition add_balance (st : state) (who : Z) (t : target) (value : Z) : state * list Z :=
  if value <=? 0 then (st, [ILLEGAL_ARGUMENT]) else
  match t with
  | TNone => (st, [ILLEGAL_ARGUMENT])
  | _ =>
      match bt_add (escrow st) who value with
      | None => (st, [ILLEGAL_ARGUMENT])
      | Some e' => (set_funds (set_escrow st e') (balance st + value) (burnt st), [OK])
      end
  end.

(* escrow_address: (recipient, approved callers) *)
Definition escrow_address (who : Z) (t : target) : option (Z * list Z) :=
  match t with
  | TNone => None
  | TAccount => Some (who, [who])
  | TMiner o w _ => Some (o, [o; w])
  end.

(* payout_fails: the exit code of the payout transfer when that nested send fails (it cannot fail by
   itself for an existing recipient; the harness injects the failure): the whole call then fails with that
   code and nothing changes *)
Definition withdraw_balance (st : state) (caller who : Z) (t : target) (amount : Z) (payout_fails : option Z)
  : state * list Z :=
  if amount <? 0 then (st, [ILLEGAL_ARGUMENT]) else
  match escrow_address who t with
  | None => (st, [ILLEGAL_ARGUMENT])
  | Some (recipient, approved) =>
      if negb (zmem caller approved) then (st, [FORBIDDEN]) else
      match bt_sub_with_min (escrow st) who amount (bt_get (locked st) who) with
      | None => (st, [ILLEGAL_ARGUMENT])
      | Some (e', ex) =>
          match payout_fails with
          | Some c => (st, [c])
          | None =>
              if balance st <? ex then (st, [SEND_FAILED]) else
              (set_funds (set_escrow st e') (balance st - ex) (burnt st), [OK; ex; recipient])
          end
      end
  end.

(* only address resolution can fail: an ID address resolves even when no actor is behind it *)
Definition get_balance (st : state) (who : Z) (resolves : bool) : state * list Z :=
  if negb resolves then (st, [ILLEGAL_ARGUMENT])
  else (st, [OK; bt_get (escrow st) who; bt_get (locked st) who]).

(* -- publish_storage_deals -- *)
Record pdeal := mkPdeal {
  d_prop : proposal;
  d_sig_ok : bool;       (* the client's AuthenticateMessage accepts the signature *)
  d_label_ok : bool;     (* label.len() <= DEAL_MAX_LABEL_SIZE *)
  d_piece_ok : bool;     (* piece_size.validate() and is_piece_cid *)
  d_min_pcoll : Z        (* deal_provider_collateral_bounds(...).0 from reward/power/circ supply *)
}.

Definition deal_valid (epoch : Z) (d : pdeal) : bool :=
  let p := d_prop d in
  let dur := p_end p - p_start p in
  d_sig_ok d && d_label_ok d && d_piece_ok d &&
  (p_start p <? p_end p) && (epoch <=? p_start p) &&
  (DEAL_MIN_DURATION <=? dur) && (dur <=? DEAL_MAX_DURATION) &&
  (0 <=? p_price p) && (p_price p <=? TOTAL_FILECOIN) &&
  (d_min_pcoll d <=? p_pcoll p) && (p_pcoll p <=? TOTAL_FILECOIN) &&
  (0 <=? p_ccoll p) && (p_ccoll p <=? TOTAL_FILECOIN).

Record pacc := mkPacc {
  pa_valid : list proposal;     (* valid deals so far, in order (their cids = proposal_cid_lookup) *)
  pa_idx : list Z;              (* their indices in the message *)
  pa_cl : gmap Z Z;             (* total_client_lockup *)
  pa_pl : Z                     (* total_provider_lockup *)
}.

Definition pub_filter_one (st : state) (prov epoch : Z) (acc : pacc) (di : Z) (d : pdeal) : pacc :=
  if negb (deal_valid epoch d) then acc else
  let p := d_prop d in
  if negb (p_provider p =? prov) then acc else
  let cl := bt_get (pa_cl acc) (p_client p) + client_req p in
  if negb (balance_covered st (p_client p) cl) then acc else
  let pl := pa_pl acc + p_pcoll p in
  if negb (balance_covered st prov pl) then acc else
  if pend_has (pending st) p || pend_has (pa_valid acc) p then acc else
  if p_verified p then acc else    (* no client holds DataCap: remaining < required, deal dropped *)
  mkPacc (pa_valid acc ++ [p]) (pa_idx acc ++ [di]) (<[p_client p := cl]> (pa_cl acc)) pl.

Fixpoint pub_filter (st : state) (prov epoch : Z) (acc : pacc) (di : Z) (ds : list pdeal) : pacc :=
  match ds with
  | [] => acc
  | d :: r => pub_filter st prov epoch (pub_filter_one st prov epoch acc di d) (di + 1) r
  end.

Definition pub_commit_one (st : state) (p : proposal) : res Z :=
  do (st1, _u) <- lock_balances st p;
  let id := next_id st1 in
  let st2 := set_next_id st1 (id + 1) in
  let st3 := set_pending st2 (pend_put (pending st2) p) in
  let st4 := set_proposals st3 (<[id := p]> (proposals st3)) in
  Ok (set_deal_ops st4 (ops_put (deal_ops st4) (next_update_epoch id (interval st4) (p_start p)) id)
        (last_cron st4)) id.

Fixpoint pub_commit (st : state) (ps : list proposal) (ids : list Z) : res (list Z) :=
  match ps with
  | [] => Ok st ids
  | p :: r => do (st1, id) <- pub_commit_one st p; pub_commit st1 r (ids ++ [id])
  end.

Definition publish (st : state) (caller epoch : Z) (t : target) (deals : list pdeal) : state * list Z :=
  match deals with
  | [] => (st, [ILLEGAL_ARGUMENT])
  | d0 :: _ =>
      let prov := p_provider (d_prop d0) in
      match t with
      | TNone => (st, [NOT_FOUND])
      | TAccount => (st, [ILLEGAL_ARGUMENT])
      | TMiner o w cs =>
          if negb (zmem caller (cs ++ [w; o])) then (st, [FORBIDDEN]) else
          let acc := pub_filter st prov epoch (mkPacc [] [] ∅ 0) 0 deals in
          match pa_valid acc with
          | [] => (st, [ILLEGAL_ARGUMENT])
          | _ =>
              match pub_commit st (pa_valid acc) [] with
              | Err _ c => (st, [c])
              | Ok st' ids =>
                  (st', [OK; Z.of_nat (length ids)] ++ ids ++ [Z.of_nat (length (pa_idx acc))] ++ pa_idx acc)
              end
          end
      end
  end.

(* -- activation -- *)
Definition can_activate (p : proposal) (caller expiry epoch : Z) : option Z :=
  if negb (p_provider p =? caller) then Some FORBIDDEN else
  if p_start p <? epoch then Some EX_DEAL_EXPIRED else
  if expiry <? p_end p then Some ILLEGAL_ARGUMENT else None.

Definition preactivate (st : state) (id caller expiry epoch : Z) : proposal + Z :=
  match get_proposal st id with
  | inr c => inr c
  | inl p =>
      match can_activate p caller expiry epoch with
      | Some c => inr c
      | None =>
          match states st !! id with
          | Some _ => inr ILLEGAL_ARGUMENT
          | None => if pend_has (pending st) p then inl p else inr ILLEGAL_STATE
          end
      end
  end.

Fixpoint preact_all (st : state) (activated : list Z) (caller expiry epoch : Z) (ids : list Z)
  : list proposal + Z :=
  match ids with
  | [] => inl []
  | id :: r =>
      if zmem id activated then inr ILLEGAL_ARGUMENT else
      match preactivate st id caller expiry epoch with
      | inr c => inr c
      | inl p =>
          match preact_all st activated caller expiry epoch r with
          | inr c => inr c
          | inl ps => inl (p :: ps)
          end
      end
  end.

Record aacc := mkAacc {
  aa_activated : list Z;
  aa_states : list (Z * dstate);
  aa_sectors : list (Z * list Z);
  aa_fails : list (Z * Z);               (* (sector index, code) *)
  aa_succ : Z;
  aa_out : list Z                         (* encoded activations of the successful sectors *)
}.

Definition fresh_state (sector epoch : Z) : dstate := mkDs sector epoch UNDEF UNDEF.

Definition act_sector (st : state) (caller epoch : Z) (acc : aacc) (si : Z) (s : Z * Z * list Z) : aacc :=
  let '(sector, expiry, ids) := s in
  let fail c := mkAacc (aa_activated acc) (aa_states acc) (aa_sectors acc) (aa_fails acc ++ [(si, c)])
                       (aa_succ acc) (aa_out acc) in
  if has_dup ids then fail ILLEGAL_ARGUMENT else
  match preact_all st (aa_activated acc) caller expiry epoch ids with
  | inr c => fail c
  | inl ps =>
      mkAacc (aa_activated acc ++ ids)
             (aa_states acc ++ map (fun id => (id, fresh_state sector epoch)) ids)
             (aa_sectors acc ++ [(sector, ids)])
             (aa_fails acc) (aa_succ acc + 1)
             (aa_out acc ++ Z.of_nat (length ps) :: flat_map (fun p => [p_client p; p_size p]) ps)
  end.

Fixpoint act_sectors (st : state) (caller epoch : Z) (acc : aacc) (si : Z) (l : list (Z * Z * list Z)) : aacc :=
  match l with
  | [] => acc
  | s :: r => act_sectors st caller epoch (act_sector st caller epoch acc si s) (si + 1) r
  end.

Definition enc_fails (l : list (Z * Z)) : list Z :=
  Z.of_nat (length l) :: flat_map (fun '(i, c) => [i; c]) l.

Definition batch_activate (st : state) (caller : Z) (is_miner : bool) (epoch : Z)
    (sectors : list (Z * Z * list Z)) : state * list Z :=
  if negb is_miner then (st, [FORBIDDEN]) else
  let acc := act_sectors st caller epoch (mkAacc [] [] [] [] 0 []) 0 sectors in
  let st1 := set_states st (put_deal_states (states st) (aa_states acc)) in
  let st2 := set_psectors st1 (put_sector_deals (psectors st1) caller (aa_sectors acc)) in
  (st2, [OK; aa_succ acc] ++ enc_fails (aa_fails acc) ++ aa_out acc).

(* sector_content_changed: a piece is (deal id if the payload decodes, piece cid index, size) *)
Definition piece := (option Z * Z * Z)%type.

Record cacc := mkCacc {
  ca_activated : list Z;
  ca_states : list (Z * dstate);
  ca_ids : list Z;            (* accepted deal ids of the current sector *)
  ca_out : list Z             (* accepted flags *)
}.

Definition scc_piece (st : state) (caller sector mce epoch : Z) (acc : cacc) (pc : piece) : cacc :=
  let '(oid, data, size) := pc in
  let reject := mkCacc (ca_activated acc) (ca_states acc) (ca_ids acc) (ca_out acc ++ [0]) in
  match oid with
  | None => reject
  | Some id =>
      if zmem id (ca_activated acc) then reject else
      match preactivate st id caller mce epoch with
      | inr _ => reject
      | inl p =>
          if negb (data =? p_piece p) then reject else
          if negb (size =? p_size p) then reject else
          mkCacc (ca_activated acc ++ [id]) (ca_states acc ++ [(id, fresh_state sector epoch)])
                 (ca_ids acc ++ [id]) (ca_out acc ++ [1])
      end
  end.

Definition scc_sector (st : state) (caller epoch : Z) (x : cacc * list (Z * list Z) * list Z)
    (s : Z * Z * list piece) : cacc * list (Z * list Z) * list Z :=
  let '(acc, secs, out) := x in
  let '(sector, mce, pieces) := s in
  let acc0 := mkCacc (ca_activated acc) (ca_states acc) [] [] in
  let acc1 := fold_left (scc_piece st caller sector mce epoch) pieces acc0 in
  (acc1, secs ++ [(sector, ca_ids acc1)], out ++ Z.of_nat (length pieces) :: ca_out acc1).

Definition sector_content_changed (st : state) (caller : Z) (is_miner : bool) (epoch : Z)
    (sectors : list (Z * Z * list piece)) : state * list Z :=
  if negb is_miner then (st, [FORBIDDEN]) else
  let '(acc, secs, out) := fold_left (scc_sector st caller epoch) sectors (mkCacc [] [] [] [], [], []) in
  let st1 := set_states st (put_deal_states (states st) (ca_states acc)) in
  let st2 := set_psectors st1 (put_sector_deals (psectors st1) caller secs) in
  (st2, OK :: Z.of_nat (length sectors) :: out).

(* -- on_miner_sectors_terminate -- *)
Fixpoint pop_sector_deals (m : gmap (Z * Z) (list Z)) (prov : Z) (sectors : list Z)
  : gmap (Z * Z) (list Z) * list Z :=
  match sectors with
  | [] => (m, [])
  | s :: r =>
      match m !! (prov, s) with
      | None => pop_sector_deals m prov r
      | Some ids => let '(m', rest) := pop_sector_deals (delete (prov, s) m) prov r in (m', ids ++ rest)
      end
  end.

(* `snap` is the state at the start of the transaction: the proposals and deal states arrays are
   loaded once, before the loop *)
Definition term_one (snap : state) (caller pepoch : Z) (st : state) (id : Z) : res Z :=
  match proposals snap !! id with
  | None => Ok st 0
  | Some p =>
      if negb (p_provider p =? caller) then Err st ILLEGAL_STATE else
      if p_end p <=? pepoch then Ok st 0 else
      match states snap !! id with
      | None => Err st ILLEGAL_ARGUMENT
      | Some ds =>
          let st1 := if ds_lu ds =? UNDEF then remove_pending st p else st in
          let ds' := mkDs (ds_sector ds) (ds_start ds) (ds_lu ds) pepoch in
          do (st2, slashed) <- process_slashed_deal st1 p ds';
          do (st3, _u) <- remove_completed_deal st2 id;
          Ok st3 slashed
      end
  end.

Fixpoint term_loop (snap : state) (caller pepoch : Z) (st : state) (total : Z) (ids : list Z) : res Z :=
  match ids with
  | [] => Ok st total
  | id :: r => do (st1, s) <- term_one snap caller pepoch st id; term_loop snap caller pepoch st1 (total + s) r
  end.

Definition terminate (st : state) (caller : Z) (is_miner : bool) (pepoch : Z) (sectors : list Z)
  : state * list Z :=
  if negb is_miner then (st, [FORBIDDEN]) else
  let '(ps', ids) := pop_sector_deals (psectors st) caller sectors in
  match term_loop st caller pepoch (set_psectors st ps') 0 ids with
  | Err _ c => (st, [c])
  | Ok st1 total =>
      if 0 <? total then
        if balance st1 <? total then (st, [SEND_FAILED]) else (burn st1 total, [OK])
      else (st1, [OK])
  end.

(* -- settle_deal_payments -- *)
Record sacc := mkSacc {
  sa_fails : list (Z * Z);
  sa_succ : Z;
  sa_settle : list (Z * Z);            (* (payment, completed) *)
  sa_slashed : Z;
  sa_new : list (Z * dstate);
  sa_remove : list (Z * Z * Z)         (* (provider, sector, deal) *)
}.

Definition sa_fail (a : sacc) (i c : Z) : sacc :=
  mkSacc (sa_fails a ++ [(i, c)]) (sa_succ a) (sa_settle a) (sa_slashed a) (sa_new a) (sa_remove a).

(* one deal id; Err aborts the whole message *)
Definition settle_one (epoch : Z) (st : state) (a : sacc) (i id : Z) : res sacc :=
  match get_proposal st id with
  | inr _ => Ok st (sa_fail a i EX_DEAL_EXPIRED)
  | inl p =>
      match get_active_deal_or_process_timeout st epoch id p with
      | Err st' c => Ok st' (sa_fail a i c)
      | Ok st' TooEarly =>
          Ok st' (mkSacc (sa_fails a) (sa_succ a + 1) (sa_settle a ++ [(0, 0)]) (sa_slashed a) (sa_new a) (sa_remove a))
      | Ok st' (ProposalExpired pen) =>
          Ok st' (mkSacc (sa_fails a ++ [(i, EX_DEAL_EXPIRED)]) (sa_succ a) (sa_settle a) (sa_slashed a + pen)
                         (sa_new a) (sa_remove a))
      | Ok st' (Loaded ds) =>
          if negb (ds_slash ds =? UNDEF) then Err st' ILLEGAL_ARGUMENT else
          (* activated, but nothing is payable yet (the window [start, now) is empty): a pure no-op --
             no process_deal_update, the proposal stays pending, the deal state is not rewritten *)
          if epoch <=? p_start p then
            Ok st' (mkSacc (sa_fails a) (sa_succ a + 1) (sa_settle a ++ [(0, 0)]) (sa_slashed a) (sa_new a) (sa_remove a))
          else
          match process_deal_update st' ds p epoch with
          | Err st'' c => Ok st'' (sa_fail a i c)
          | Ok st'' (_, pay, completed, remove) =>
              if remove then
                do (st3, _u) <- remove_completed_deal st'' id;
                Ok st3 (mkSacc (sa_fails a) (sa_succ a + 1) (sa_settle a ++ [(pay, 1)]) (sa_slashed a) (sa_new a)
                               (sa_remove a ++ [(p_provider p, ds_sector ds, id)]))
              else
                Ok st'' (mkSacc (sa_fails a) (sa_succ a + 1) (sa_settle a ++ [(pay, 0)]) (sa_slashed a)
                                (sa_new a ++ [(id, mkDs (ds_sector ds) (ds_start ds) epoch (ds_slash ds))])
                                (sa_remove a))
          end
      end
  end.

Fixpoint settle_loop (epoch : Z) (st : state) (a : sacc) (i : Z) (ids : list Z) : res sacc :=
  match ids with
  | [] => Ok st a
  | id :: r => do (st1, a1) <- settle_one epoch st a i id; settle_loop epoch st1 a1 (i + 1) r
  end.

Definition settle (st : state) (epoch : Z) (ids : list Z) : state * list Z :=
  match settle_loop epoch st (mkSacc [] 0 [] 0 [] []) 0 ids with
  | Err _ c => (st, [c])
  | Ok st1 a =>
      let st2 := set_states st1 (put_deal_states (states st1) (sa_new a)) in
      let st3 := set_psectors st2 (remove_sector_deals (psectors st2) (sa_remove a)) in
      let ret := [OK; sa_succ a] ++ enc_fails (sa_fails a) ++
                 Z.of_nat (length (sa_settle a)) :: flat_map (fun '(p, c) => [p; c]) (sa_settle a) in
      if sa_slashed a =? 0 then (st3, ret) else
      if (sa_slashed a <? 0) || (balance st3 <? sa_slashed a) then (st, [SEND_FAILED]) else
      (burn st3 (sa_slashed a), ret)
  end.

(* -- cron_tick -- *)
Record cracc := mkCracc {
  cr_slashed : Z;
  cr_remove : list (Z * Z * Z);
  cr_new : list (Z * Z)               (* (epoch, deal) updates to schedule *)
}.

Definition cron_one (epoch : Z) (st : state) (a : cracc) (id : Z) : res cracc :=
  match proposals st !! id with
  | None => Ok st a
  | Some p =>
      do (st1, l) <- get_active_deal_or_process_timeout st epoch id p;
      match l with
      | ProposalExpired pen => Ok st1 (mkCracc (cr_slashed a + pen) (cr_remove a) (cr_new a))
      | TooEarly => Err st1 ILLEGAL_STATE
      | Loaded ds =>
          if ds_lu ds =? UNDEF then
            if pend_has (pending st1) p then Ok (remove_pending st1 p) a else Err st1 ILLEGAL_STATE
          else
            do (st2, r) <- process_deal_update st1 ds p epoch;
            let '(slash_amount, _pay, completed, remove) := r in
            if (remove : bool) then
              do (st3, _u) <- remove_completed_deal st2 id;
              Ok st3 (mkCracc (cr_slashed a + slash_amount)
                              (cr_remove a ++ [(p_provider p, ds_sector ds, id)]) (cr_new a))
            else
              if negb (slash_amount =? 0) then Err st2 ILLEGAL_STATE else
              let ds' := mkDs (ds_sector ds) (ds_start ds) epoch (ds_slash ds) in
              Ok (set_states st2 (<[id := ds']> (states st2)))
                 (mkCracc (cr_slashed a) (cr_remove a)
                          (cr_new a ++ [(next_update_epoch id (interval st2) (epoch + 1), id)]))
      end
  end.

Fixpoint cron_loop (epoch : Z) (st : state) (a : cracc) (ids : list Z) : res cracc :=
  match ids with
  | [] => Ok st a
  | id :: r => do (st1, a1) <- cron_one epoch st a id; cron_loop epoch st1 a1 r
  end.

(* association-list sort by key (insertion sort; the lists are short) *)
Fixpoint ins_key {A} (x : Z * A) (l : list (Z * A)) : list (Z * A) :=
  match l with
  | [] => [x]
  | y :: r => if fst x <=? fst y then x :: l else y :: ins_key x r
  end.
Definition sort_key {A} (l : list (Z * A)) : list (Z * A) := fold_right ins_key [] l.

(* the epochs in (last_cron, epoch] that have scheduled deals, ascending *)
Definition due (st : state) (epoch : Z) : list (Z * list Z) :=
  sort_key (List.filter (fun '(e, _) => (last_cron st <? e) && (e <=? epoch)) (map_to_list (deal_ops st))).

Definition cron_tick (st : state) (caller epoch : Z) : state * list Z :=
  if negb (caller =? CRON_ACTOR_ID) then (st, [FORBIDDEN]) else
  let d := due st epoch in
  match cron_loop epoch st (mkCracc 0 [] []) (flat_map snd d) with
  | Err _ c => (st, [c])
  | Ok st1 a =>
      let st2 := set_psectors st1 (remove_sector_deals (psectors st1) (cr_remove a)) in
      let ops1 := fold_left (fun m '(e, _) => delete e m) d (deal_ops st2) in
      let ops2 := fold_left (fun m '(e, id) => ops_put m e id) (cr_new a) ops1 in
      let st3 := set_deal_ops st2 ops2 epoch in
      if cr_slashed a =? 0 then (st3, [OK]) else
      if (cr_slashed a <? 0) || (balance st3 <? cr_slashed a) then (st, [SEND_FAILED]) else
      (burn st3 (cr_slashed a), [OK])
  end.

(* ---- operations ---- *)
Inductive op :=
| AddBalance (epoch who : Z) (t : target) (value : Z)
| Withdraw (caller epoch who : Z) (t : target) (amount : Z) (payout_fails : option Z)
| Publish (caller epoch : Z) (t : target) (deals : list pdeal)
| Activate (caller : Z) (is_miner : bool) (epoch : Z) (sectors : list (Z * Z * list Z))
| ContentChanged (caller : Z) (is_miner : bool) (epoch : Z) (sectors : list (Z * Z * list piece))
| Terminate (caller : Z) (is_miner : bool) (epoch pepoch : Z) (sectors : list Z)
| Settle (epoch : Z) (ids : list Z)
| Cron (caller epoch : Z)
| GetBalance (epoch who : Z) (resolves : bool).

Definition op_epoch (o : op) : Z :=
  match o with
  | AddBalance e _ _ _ | Withdraw _ e _ _ _ _ | Publish _ e _ _ | Activate _ _ e _
  | ContentChanged _ _ e _ | Terminate _ _ e _ _ | Settle e _ | Cron _ e | GetBalance e _ _ => e
  end.

Definition step (st : state) (o : op) : state * list Z :=
  match o with
  | AddBalance _ who t v => add_balance st who t v
  | Withdraw c _ who t a pf => withdraw_balance st c who t a pf
  | Publish c e t ds => publish st c e t ds
  | Activate c m e ss => batch_activate st c m e ss
  | ContentChanged c m e ss => sector_content_changed st c m e ss
  | Terminate c m _ pe ss => terminate st c m pe ss
  | Settle e ids => settle st e ids
  | Cron c e => cron_tick st c e
  | GetBalance _ who t => get_balance st who t
  end.

(* ---- observation encoding ---- *)
Definition B100 : Z := 2 ^ 100.
(* injective on proposals whose fields are in [0, 2^100) *)
Definition fp (p : proposal) : Z :=
  fold_left (fun acc x => acc * B100 + x)
    [p_piece p; p_size p; b2z (p_verified p); p_client p; p_provider p; p_label p; p_start p; p_end p;
     p_price p; p_pcoll p; p_ccoll p] 1.

Definition enc_table (t : gmap Z Z) : list Z :=
  let l := sort_key (map_to_list t) in
  Z.of_nat (length l) :: flat_map (fun '(k, v) => [k; v]) l.

Definition enc_idlist (l : list Z) : list Z := Z.of_nat (length l) :: l.

Fixpoint ins_pair {A} (x : Z * Z * A) (l : list (Z * Z * A)) : list (Z * Z * A) :=
  match l with
  | [] => [x]
  | y :: r =>
      let '(a1, b1, _) := x in let '(a2, b2, _) := y in
      if (a1 <? a2) || ((a1 =? a2) && (b1 <=? b2)) then x :: l else y :: ins_pair x r
  end.
Definition sort_pair {A} (l : list (Z * Z * A)) : list (Z * Z * A) := fold_right ins_pair [] l.

(* a pending proposal (a CID in the implementation) is rendered as the ascending list of the live
   deal ids whose stored proposal has that CID; entries are ordered by their first id (-1 if none) *)
Definition enc_pending (st : state) : list Z :=
  let props := sort_key (map_to_list (proposals st)) in
  let entry p := map fst (List.filter (fun '(_, q) => prop_eqb p q) props) in
  let l := sort_key (map (fun p => let ids := entry p in (hd (-1) ids, ids)) (pending st)) in
  Z.of_nat (length l) :: flat_map (fun '(_, ids) => enc_idlist ids) l.

Definition enc_state (st : state) : list Z :=
  [next_id st; last_cron st; tot_ccoll st; tot_pcoll st; tot_fee st; balance st; burnt st] ++
  enc_table (escrow st) ++ enc_table (locked st) ++
  enc_idlist (map fst (sort_key (map_to_list (proposals st)))) ++
  (let l := sort_key (map_to_list (states st)) in
   Z.of_nat (length l) :: flat_map (fun '(k, d) => [k; ds_sector d; ds_start d; ds_lu d; ds_slash d]) l) ++
  enc_pending st ++
  (let l := sort_key (map_to_list (deal_ops st)) in
   Z.of_nat (length l) :: flat_map (fun '(e, ids) => e :: enc_idlist ids) l) ++
  (let l := sort_pair (map (fun '((a, b), ids) => (a, b, ids)) (map_to_list (psectors st))) in
   Z.of_nat (length l) :: flat_map (fun '(a, b, ids) => a :: b :: enc_idlist ids) l).

(* fingerprints of the proposals stored by this step (ids >= the previous next_id), ascending id *)
Definition new_fps (st st' : state) : list Z :=
  map (fun '(_, p) => fp p)
      (List.filter (fun '(k, _) => next_id st <=? k) (sort_key (map_to_list (proposals st')))).

Definition stepo (st : state) (o : op) : state * list Z :=
  let '(st', r) := step st o in
  (st', Z.of_nat (length r) :: r ++ enc_idlist (new_fps st st') ++ enc_state st').

Definition check_case := @Corr.check state op stepo.

Definition run (st : state) (ops : list op) : state := fold_left (fun s o => fst (step s o)) ops st.
