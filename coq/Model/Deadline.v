(* Executable model of actors/miner/src/deadline_state.rs (the sector bookkeeping of one Deadline:
   partitions array, deadline-level expiration queue of partition indexes, partitions_posted,
   early_terminations, live/total sector counts, faulty/live power and daily-fee memos), of
   deadline_assignment.rs (assign_deadlines) and of State::allocate_sector_numbers.
   PoSt proof records and snapshots (dispute machinery) are not modelled.  Definitions only. *)
From stdpp Require Import gmap.
From Coq Require Import ZArith List Bool.
From VF Require Import Base.Corr Model.Partition.
Import ListNotations.
Open Scope Z_scope.

Record deadline := {
  parts : list partition;            (* AMT[PartitionNumber]Partition, keys 0..n-1 *)
  dl_exp : bfqueue;                  (* epoch -> partition indexes that may expire then *)
  posted : gset N;                   (* partitions_posted *)
  early_terms : gset N;              (* partitions with pending early terminations *)
  dl_live_sectors : Z; dl_total_sectors : Z;
  dl_faulty_power : pp; dl_live_power : pp; dl_daily_fee : Z }.

Definition dl_empty : deadline :=
  {| parts := []; dl_exp := ∅; posted := ∅; early_terms := ∅; dl_live_sectors := 0;
     dl_total_sectors := 0; dl_faulty_power := pp0; dl_live_power := pp0; dl_daily_fee := 0 |}.

Definition set_parts (d : deadline) (ps : list partition) : deadline :=
  {| parts := ps; dl_exp := dl_exp d; posted := posted d; early_terms := early_terms d;
     dl_live_sectors := dl_live_sectors d; dl_total_sectors := dl_total_sectors d;
     dl_faulty_power := dl_faulty_power d; dl_live_power := dl_live_power d;
     dl_daily_fee := dl_daily_fee d |}.

Definition get_part (ps : list partition) (i : N) : option partition := ps !! N.to_nat i.
(* AMT set: an existing index is overwritten, index = count appends *)
Definition put_part (ps : list partition) (i : N) (p : partition) : list partition :=
  if (N.to_nat i <? length ps)%nat then <[N.to_nat i := p]> ps else ps ++ [p].

(* validate_state of the deadline *)
Definition dl_validate (d : deadline) : bool :=
  (dl_live_sectors d <=? dl_total_sectors d) && pp_nonneg (dl_faulty_power d).

(* add_expiration_partitions *)
Definition add_exp_partitions (qs : quant) (d : deadline) (epoch : Z) (idxs : list N)
  : res deadline :=
  match idxs with
  | [] => Ok d
  | _ =>
    LET q <- bfq_add qs (dl_exp d) epoch (list_to_set idxs) IN
    Ok {| parts := parts d; dl_exp := q; posted := posted d; early_terms := early_terms d;
          dl_live_sectors := dl_live_sectors d; dl_total_sectors := dl_total_sectors d;
          dl_faulty_power := dl_faulty_power d; dl_live_power := dl_live_power d;
          dl_daily_fee := dl_daily_fee d |}
  end.

(* ---------- add_sectors ---------- *)
(* the loop "try filling up the last partition first", fuel = an upper bound on iterations *)
Fixpoint add_loop (fuel : nat) (qs : quant) (psize : Z) (proven : bool) (ps : list partition)
    (idx : N) (secs : list sector) (pw : pp) (fee : Z) (updates : list (Z * N))
  : res (list partition * pp * Z * list (Z * N)) :=
  match fuel with
  | O => Err E_STATE
  | S f =>
    let p := default part_empty (get_part ps idx) in
    let cnt := ssize (sectors p) in
    if psize <=? cnt then add_loop f qs psize proven ps (idx + 1)%N secs pw fee updates else
    let size := Z.to_nat (Z.min (psize - cnt) (Z.of_nat (length secs))) in
    let new := firstn size secs in
    let rest := skipn size secs in
    LET '(p', ppw, pfee) <- p_add_sectors qs p proven new IN
    let ps' := put_part ps idx p' in
    let updates' := updates ++ map (fun s => (s_exp s, idx)) new in
    match rest with
    | [] => Ok (ps', pp_add pw ppw, fee + pfee, updates')
    | _ => add_loop f qs psize proven ps' (idx + 1)%N rest (pp_add pw ppw) (fee + pfee) updates'
    end
  end.

Definition d_add_sectors (qs : quant) (d : deadline) (psize : Z) (proven new_fees : bool)
    (secs : list sector) : res (deadline * pp * Z) :=
  match secs with
  | [] => Ok (d, pp0, 0)
  | _ =>
    let n := Z.of_nat (length secs) in
    let start := N.of_nat (Nat.pred (length (parts d))) in
    LET '(ps, pw, fee_all, updates) <-
      add_loop (length secs + 2) qs psize proven (parts d) start secs pp0 0 [] IN
    let fee := if new_fees then fee_all else 0 in
    LET q <- foldM (fun q '(e, i) => bfq_add qs q e {[i]}) updates (dl_exp d) IN
    Ok ({| parts := ps; dl_exp := q; posted := posted d; early_terms := early_terms d;
           dl_live_sectors := dl_live_sectors d + n; dl_total_sectors := dl_total_sectors d + n;
           dl_faulty_power := dl_faulty_power d; dl_live_power := pp_add (dl_live_power d) pw;
           dl_daily_fee := dl_daily_fee d + fee |}, pw, fee)
  end.

(* ---------- pop_expired_sectors ---------- *)
(* BitFieldQueue::pop_until *)
Definition bfq_pop_until (q : bfqueue) (until : Z) : bfqueue * gset N * bool :=
  let ks := List.filter (fun k => k <=? until) (qkeys q) in
  match ks with
  | [] => (q, ∅, false)
  | _ => (fold_left (fun q k => delete k q) ks q,
          ⋃ (map (fun k => default ∅ (q !! k)) ks), true)
  end.

Definition d_pop_expired_sectors (d : deadline) (until : Z) : res (deadline * expset) :=
  let '(q, expired, modified) := bfq_pop_until (dl_exp d) until in
  if negb modified then Ok (d, es_empty) else
  LET '(ps, agg, early_parts) <-
    foldM (fun '(ps, agg, eps) i =>
             match get_part ps i with
             | None => Err E_STATE
             | Some p =>
               LET '(p', popped) <- p_pop_expired_sectors p until IN
               Ok (put_part ps i p', es_union agg popped,
                   if set_empty (early popped) then eps else eps ∪ {[i]})
             end)
          (sorted expired) (parts d, es_empty, ∅) IN
  Ok ({| parts := ps; dl_exp := q; posted := posted d; early_terms := early_terms d ∪ early_parts;
         dl_live_sectors := dl_live_sectors d - (ssize (on_time agg) + ssize (early agg));
         dl_total_sectors := dl_total_sectors d;
         dl_faulty_power := pp_sub (dl_faulty_power d) (faulty_power agg);
         dl_live_power := pp_sub (pp_sub (dl_live_power d) (faulty_power agg)) (active_power agg);
         dl_daily_fee := dl_daily_fee d - fee_deduction agg |}, agg).

(* ---------- terminate_sectors ---------- *)
Definition d_terminate_sectors (qs : quant) (tbl : gmap N sector) (d : deadline) (epoch : Z)
    (psm : list (N * list N)) : res (deadline * pp) :=
  foldM (fun '(d, lost) '(i, nums) =>
           match get_part (parts d) i with
           | None => Err E_NOTFOUND
           | Some p =>
             LET '(p', removed, unp) <- p_terminate_sectors qs tbl p epoch (lset nums) IN
             let empty := es_is_empty removed in
             Ok ({| parts := put_part (parts d) i p'; dl_exp := dl_exp d; posted := posted d;
                    early_terms := if empty then early_terms d else early_terms d ∪ {[i]};
                    dl_live_sectors := if empty then dl_live_sectors d
                                       else dl_live_sectors d - es_len removed;
                    dl_total_sectors := dl_total_sectors d;
                    dl_faulty_power := pp_sub (dl_faulty_power d) (faulty_power removed);
                    dl_live_power := pp_sub (pp_sub (pp_sub (dl_live_power d) (active_power removed))
                                                    (faulty_power removed)) unp;
                    dl_daily_fee := dl_daily_fee d - fee_deduction removed |},
                 pp_add lost (active_power removed))
           end) psm (d, pp0).

(* ---------- record_faults ---------- *)
Definition d_record_faults (qs : quant) (tbl : gmap N sector) (d : deadline) (fault_exp : Z)
    (psm : list (N * list N)) : res (deadline * pp) :=
  LET '(d1, delta, with_fault) <-
    foldM (fun '(d, delta, wf) '(i, nums) =>
             match get_part (parts d) i with
             | None => Err E_NOTFOUND
             | Some p =>
               LET '(p', nf, pd, nfp) <- p_record_faults qs tbl p (lset nums) fault_exp IN
               Ok ({| parts := put_part (parts d) i p'; dl_exp := dl_exp d; posted := posted d;
                      early_terms := early_terms d;
                      dl_live_sectors := dl_live_sectors d; dl_total_sectors := dl_total_sectors d;
                      dl_faulty_power := pp_add (dl_faulty_power d) nfp;
                      dl_live_power := dl_live_power d; dl_daily_fee := dl_daily_fee d |},
                   pp_add delta pd, if set_empty nf then wf else wf ++ [i])
             end) psm (d, pp0, []) IN
  LET d2 <- add_exp_partitions qs d1 fault_exp with_fault IN
  Ok (d2, delta).

(* ---------- declare_faults_recovered ---------- *)
Definition d_declare_faults_recovered (tbl : gmap N sector) (d : deadline)
    (psm : list (N * list N)) : res deadline :=
  foldM (fun d '(i, nums) =>
           match get_part (parts d) i with
           | None => Err E_NOTFOUND
           | Some p =>
             LET p' <- p_declare_faults_recovered tbl p (lset nums) IN
             Ok (set_parts d (put_part (parts d) i p'))
           end) psm d.

(* ---------- process_deadline_end ---------- *)
Definition d_process_deadline_end (qs : quant) (d : deadline) (fault_exp : Z)
  : res (deadline * pp * pp) :=
  LET '(d1, delta, pen, resched) <-
    foldM (fun '(d, delta, pen, rs) (i : N) =>
             if bool_decide (i ∈ posted d) then Ok (d, delta, pen, rs) else
             match get_part (parts d) i with
             | None => Err E_STATE
             | Some p =>
               if pp_is_zero (recovering_power p) && pp_eqb (p_faulty_power p) (live_power p)
               then Ok (d, delta, pen, rs) else
               LET '(p', pd, ppen, nfp) <- p_record_missed_post qs p fault_exp IN
               Ok ({| parts := put_part (parts d) i p'; dl_exp := dl_exp d; posted := posted d;
                      early_terms := early_terms d;
                      dl_live_sectors := dl_live_sectors d; dl_total_sectors := dl_total_sectors d;
                      dl_faulty_power := pp_add (dl_faulty_power d) nfp;
                      dl_live_power := dl_live_power d; dl_daily_fee := dl_daily_fee d |},
                   pp_add delta pd, pp_add pen ppen,
                   if pp_is_zero nfp then rs else rs ++ [i])
             end)
          (map N.of_nat (seq 0 (length (parts d)))) (d, pp0, pp0, []) IN
  LET d2 <- add_exp_partitions qs d1 fault_exp resched IN
  Ok ({| parts := parts d2; dl_exp := dl_exp d2; posted := ∅; early_terms := early_terms d2;
         dl_live_sectors := dl_live_sectors d2; dl_total_sectors := dl_total_sectors d2;
         dl_faulty_power := dl_faulty_power d2; dl_live_power := dl_live_power d2;
         dl_daily_fee := dl_daily_fee d2 |}, delta, pen).

(* ---------- record_proven_sectors ---------- *)
Record post_result := {
  pr_power_delta : pp; pr_new_faulty : pp; pr_retracted : pp; pr_recovered : pp;
  pr_sectors : gset N; pr_ignored : gset N; pr_partitions : gset N }.

Definition d_record_proven_sectors (qs : quant) (tbl : gmap N sector) (d : deadline)
    (fault_exp : Z) (posts : list (N * list N)) : res (deadline * post_result) :=
  let idxs : gset N := list_to_set (map fst posts) in
  if negb (ssize idxs =? Z.of_nat (length posts)) then Err E_ARG else
  if negb (set_empty (posted d ∩ idxs)) then Err E_ARG else
  LET '(d1, r, resched) <-
    foldM (fun '(d, r, rs) '(i, skipped) =>
             match get_part (parts d) i with
             | None => Err E_NOTFOUND
             | Some p =>
               LET '(p1, pd, nfp, rrp, hnf) <-
                 p_record_skipped_faults qs tbl p fault_exp (lset skipped) IN
               LET '(p2, recovered) <- p_recover_faults qs tbl p1 IN
               let '(p3, activated) := p_activate_unproven p2 in
               let npd := pp_add pd activated in
               Ok ({| parts := put_part (parts d) i p3; dl_exp := dl_exp d;
                      posted := posted d ∪ {[i]}; early_terms := early_terms d;
                      dl_live_sectors := dl_live_sectors d; dl_total_sectors := dl_total_sectors d;
                      dl_faulty_power := dl_faulty_power d;
                      dl_live_power := dl_live_power d; dl_daily_fee := dl_daily_fee d |},
                   {| pr_power_delta := pp_add (pp_add (pr_power_delta r) npd) recovered;
                      pr_new_faulty := pp_add (pr_new_faulty r) nfp;
                      pr_retracted := pp_add (pr_retracted r) rrp;
                      pr_recovered := pp_add (pr_recovered r) recovered;
                      pr_sectors := pr_sectors r ∪ sectors p3;
                      pr_ignored := pr_ignored r ∪ faults p3 ∪ terminated p3;
                      pr_partitions := idxs |},
                   if hnf then rs ++ [i] else rs)
             end) posts
          (d, {| pr_power_delta := pp0; pr_new_faulty := pp0; pr_retracted := pp0;
                 pr_recovered := pp0; pr_sectors := ∅; pr_ignored := ∅; pr_partitions := idxs |}, []) IN
  LET d2 <- add_exp_partitions qs d1 fault_exp resched IN
  Ok ({| parts := parts d2; dl_exp := dl_exp d2; posted := posted d2; early_terms := early_terms d2;
         dl_live_sectors := dl_live_sectors d2; dl_total_sectors := dl_total_sectors d2;
         dl_faulty_power := pp_add (pp_sub (dl_faulty_power d2) (pr_recovered r)) (pr_new_faulty r);
         dl_live_power := dl_live_power d2; dl_daily_fee := dl_daily_fee d2 |}, r).

(* ---------- pop_early_terminations ---------- *)
Definition merge_results (a b : gmap Z (gset N)) : gmap Z (gset N) :=
  union_with (fun x y => Some (x ∪ y)) a b.

Definition d_pop_early_terminations (d : deadline) (max_partitions max_sectors : Z)
  : res (deadline * gmap Z (gset N) * Z * Z * bool) :=
  LET '(ps, result, nparts, nsecs, finished) <-
    iterM (fun '(ps, result, nparts, nsecs, finished) (i : N) =>
             match get_part ps i with
             | None => Ok ((ps, result, nparts, nsecs, finished ∪ {[i]}), true)
             | Some p =>
               LET '(p', pres, pn, more) <- p_pop_early_terminations p (max_sectors - nsecs) IN
               let nparts' := nparts + 1 in
               let nsecs' := nsecs + pn in
               Ok ((put_part ps i p', merge_results result pres, nparts', nsecs',
                    if more then finished else finished ∪ {[i]}),
                   (nparts' <? max_partitions) && (nsecs' <? max_sectors))
             end)
          (sorted (early_terms d)) (parts d, ∅, 0, 0, ∅) IN
  let et := early_terms d ∖ finished in
  Ok ({| parts := ps; dl_exp := dl_exp d; posted := posted d; early_terms := et;
         dl_live_sectors := dl_live_sectors d; dl_total_sectors := dl_total_sectors d;
         dl_faulty_power := dl_faulty_power d; dl_live_power := dl_live_power d;
         dl_daily_fee := dl_daily_fee d |}, result, nparts, nsecs, negb (set_empty et)).

(* ---------- compact_partitions ---------- *)
(* BitField::cut: drop the bits of [cutset] and shift the remaining ones down *)
Definition cut_index (cutset : gset N) (i : N) : N :=
  (i - N.of_nat (size (base.filter (fun j => (j < i)%N) cutset)))%N.
Definition bf_cut (X cutset : gset N) : gset N :=
  list_to_set (map (cut_index cutset) (elements (X ∖ cutset))).
Definition bfq_cut (q : bfqueue) (cutset : gset N) : bfqueue :=
  fold_left (fun q' k =>
               match q !! k with
               | None => q'
               | Some X => let X' := bf_cut X cutset in
                           if set_empty X' then delete k q' else <[k := X']> q'
               end) (qkeys q) q.

Definition d_compact_partitions (qs : quant) (tbl : gmap N sector) (d : deadline) (psize : Z)
    (to_remove : list N) : res (deadline * gset N) :=
  let count := N.of_nat (length (parts d)) in
  let rm : gset N := list_to_set to_remove in
  if Z.of_N count <? ssize rm then Err E_ARG else
  if set_empty rm then Ok (d, ∅) else
  if negb (forallb (fun i => (i <? count)%N) (sorted rm)) then Err E_ARG else
  if negb (set_empty (early_terms d)) then Err E_ARG else
  LET '(kept, dead, live, removed_power) <-
    foldM (fun '(kept, dead, live, rp) '(i, p) =>
             if bool_decide (N.of_nat i ∉ rm) then Ok (kept ++ [p], dead, live, rp) else
             if negb (set_empty (faults p)) then Err E_ARG else
             if negb (set_empty (unproven p)) then Err E_ARG else
             Ok (kept, dead ∪ terminated p, live ∪ live_sectors p, pp_add rp (live_power p)))
          (imap (fun i p => (i, p)) (parts d)) ([], ∅, ∅, pp0) IN
  let d1 := {| parts := kept; dl_exp := bfq_cut (dl_exp d) rm; posted := posted d;
               early_terms := early_terms d;
               dl_live_sectors := dl_live_sectors d - ssize live;
               dl_total_sectors := dl_total_sectors d - (ssize live + ssize dead);
               dl_faulty_power := dl_faulty_power d;
               dl_live_power := pp_sub (dl_live_power d) removed_power;
               dl_daily_fee := dl_daily_fee d |} in
  LET live_secs <- load_sectors tbl live IN
  LET '(d2, added_power, added_fee) <- d_add_sectors qs d1 psize true false live_secs IN
  if negb (added_fee =? 0) then Err E_STATE else
  if negb (pp_eqb removed_power added_power) then Err E_STATE else
  Ok (d2, dead).

(* ---------- deadline_assignment.rs ---------- *)
Record dl_info := { di_index : Z; di_live : Z; di_total : Z }.
Definition div_up (a b : Z) : Z := a / b + (if a mod b =? 0 then 0 else 1).
Definition di_cmp (psize : Z) (a b : dl_info) : comparison :=
  let c1 := Z.compare (div_up (di_live a + 1) psize) (div_up (di_live b + 1) psize) in
  match c1 with Eq =>
    let c2 := Z.compare (div_up (di_total a + 1) psize) (div_up (di_total b + 1) psize) in
    match c2 with Eq =>
      let fa := di_total a mod psize =? 0 in
      let fb := di_total b mod psize =? 0 in
      let c3 := Bool.compare fa fb in
      match c3 with Eq =>
        let c4 := if negb fa && negb fb then Z.compare (di_total b) (di_total a) else Eq in
        match c4 with Eq =>
          match Z.compare (di_live a) (di_live b) with
          | Eq => Z.compare (di_index a) (di_index b)
          | c => c end
        | c => c end
      | c => c end
    | c => c end
  | c => c end.

Fixpoint di_min (psize : Z) (best : dl_info) (l : list dl_info) : dl_info :=
  match l with
  | [] => best
  | x :: r => di_min psize (match di_cmp psize x best with Lt => x | _ => best end) r
  end.

(* returns, per sector (in order), the deadline index it is assigned to *)
Fixpoint assign_deadlines (max_partitions psize : Z) (infos : list dl_info) (n : nat)
  : res (list Z) :=
  match n with
  | O => Ok []
  | S n' =>
    match infos with
    | [] => Err E_STATE
    | x :: r =>
      let m := di_min psize x r in
      if psize * max_partitions <=? di_total m then Err E_STATE else
      let infos' := map (fun y => if di_index y =? di_index m
                                  then {| di_index := di_index y; di_live := di_live y + 1;
                                          di_total := di_total y + 1 |} else y) infos in
      LET rest <- assign_deadlines max_partitions psize infos' n' IN
      Ok (di_index m :: rest)
    end
  end.

(* ---------- State::allocate_sector_numbers ---------- *)
Definition allocate_sector_numbers (allocated : gset N) (nums : gset N) (allow_collisions : bool)
  : res (gset N) :=
  if negb allow_collisions && negb (set_empty (allocated ∩ nums)) then Err E_ARG
  else Ok (allocated ∪ nums).

(* ---------- the driven system: one deadline + the sector table + allocated numbers ---------- *)
Record dstate := { ds_q : quant; ds_psize : Z; ds_tbl : gmap N sector; ds_dl : deadline;
                   ds_alloc : gset N }.
Definition dinit (unit off psize : Z) : dstate :=
  {| ds_q := {| q_unit := unit; q_off := off |}; ds_psize := psize; ds_tbl := ∅; ds_dl := dl_empty;
     ds_alloc := ∅ |}.

Inductive dop :=
| DAddSectors (proven : bool) (secs : list sector)
| DRecordProven (fault_exp : Z) (posts : list (N * list N))
| DProcessDeadlineEnd (fault_exp : Z)
| DPopExpired (until : Z)
| DTerminate (epoch : Z) (psm : list (N * list N))
| DRecordFaults (fault_exp : Z) (psm : list (N * list N))
| DDeclareRecovered (psm : list (N * list N))
| DCompact (to_remove : list N)
| DPopEarly (max_partitions max_sectors : Z)
| DAllocate (nums : list N) (allow : bool)
| DAssign (max_partitions psize : Z) (infos : list (Z * Z * Z)) (n : Z).

Definition enc_dl (d : deadline) : list Z :=
  [Z.of_nat (length (parts d))] ++ enc_bfq (dl_exp d) ++ enc_set (posted d) ++ enc_set (early_terms d)
  ++ [dl_live_sectors d; dl_total_sectors d] ++ enc_pp (dl_faulty_power d) ++ enc_pp (dl_live_power d)
  ++ [dl_daily_fee d] ++ flat_map enc_part (parts d).

Definition with_dl (st : dstate) (tbl : gmap N sector) (d : deadline) : dstate :=
  {| ds_q := ds_q st; ds_psize := ds_psize st; ds_tbl := tbl; ds_dl := d; ds_alloc := ds_alloc st |}.

Definition delete_sectors (tbl : gmap N sector) (X : gset N) : gmap N sector :=
  base.filter (fun kv => fst kv ∉ X) tbl.

Definition dstep (st : dstate) (o : dop) : dstate * Z * list Z :=
  let qs := ds_q st in
  let tbl := ds_tbl st in
  let d := ds_dl st in
  let fail (c : Z) := (st, c, []) in
  let checked (tbl' : gmap N sector) (d' : deadline) (rets : list Z) :=
    (* Deadlines::update_deadline validates the deadline before storing it *)
    if dl_validate d' then (with_dl st tbl' d', 0, rets) else fail E_STATE in
  match o with
  | DAddSectors proven secs =>
      let tbl' := store_sectors tbl secs in
      match d_add_sectors qs d (ds_psize st) proven true secs with
      | Ok (d', pw, fee) => checked tbl' d' (enc_pp pw ++ [fee])
      | Err c => fail c
      end
  | DRecordProven fe posts =>
      match d_record_proven_sectors qs tbl d fe posts with
      | Ok (d', r) =>
          checked tbl d' (enc_pp (pr_power_delta r) ++ enc_pp (pr_new_faulty r)
                          ++ enc_pp (pr_retracted r) ++ enc_pp (pr_recovered r)
                          ++ enc_set (pr_sectors r) ++ enc_set (pr_ignored r)
                          ++ enc_set (pr_partitions r))
      | Err c => fail c
      end
  | DProcessDeadlineEnd fe =>
      match d_process_deadline_end qs d fe with
      | Ok (d', delta, pen) => checked tbl d' (enc_pp delta ++ enc_pp pen)
      | Err c => fail c
      end
  | DPopExpired until =>
      match d_pop_expired_sectors d until with
      | Ok (d', agg) => checked tbl d' (enc_es agg)
      | Err c => fail c
      end
  | DTerminate epoch psm =>
      match d_terminate_sectors qs tbl d epoch psm with
      | Ok (d', lost) => checked tbl d' (enc_pp lost)
      | Err c => fail c
      end
  | DRecordFaults fe psm =>
      match d_record_faults qs tbl d fe psm with
      | Ok (d', delta) => checked tbl d' (enc_pp delta)
      | Err c => fail c
      end
  | DDeclareRecovered psm =>
      match d_declare_faults_recovered tbl d psm with
      | Ok d' => checked tbl d' []
      | Err c => fail c
      end
  | DCompact to_remove =>
      match d_compact_partitions qs tbl d (ds_psize st) to_remove with
      | Ok (d', dead) => checked (delete_sectors tbl dead) d' (enc_set dead)
      | Err c => fail c
      end
  | DPopEarly mp ms =>
      match d_pop_early_terminations d mp ms with
      | Ok (d', result, np, ns, more) => checked tbl d' (enc_bfq result ++ [np; ns; b2z more])
      | Err c => fail c
      end
  | DAllocate nums allow =>
      match allocate_sector_numbers (ds_alloc st) (lset nums) allow with
      | Ok a => ({| ds_q := ds_q st; ds_psize := ds_psize st; ds_tbl := tbl; ds_dl := d;
                    ds_alloc := a |}, 0, [])
      | Err c => fail c
      end
  | DAssign mp psize infos n =>
      match assign_deadlines mp psize
              (map (fun '(i, l, t) => {| di_index := i; di_live := l; di_total := t |}) infos)
              (Z.to_nat n) with
      | Ok l => (st, 0, l)
      | Err c => fail c
      end
  end.

Definition dobs (st : dstate) (code : Z) (rets : list Z) : list Z :=
  code :: Z.of_nat (length rets) :: rets ++ enc_set (ds_alloc st) ++ enc_dl (ds_dl st).

Definition dstepo (st : dstate) (o : dop) : dstate * list Z :=
  let '(st', c, rets) := dstep st o in (st', dobs st' c rets).

Definition dcheck_case := @Corr.check dstate dop dstepo.
