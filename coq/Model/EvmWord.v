(* The IMPLEMENTATION's word-level algorithms, transcribed from
     /repo/actors/evm/shared/src/uints.rs                       (U256/U512 wrappers, i256 helpers)
     /repo/actors/evm/src/interpreter/instructions/arithmetic.rs
     /repo/actors/evm/src/interpreter/instructions/bitwise.rs
     /repo/actors/evm/src/interpreter/instructions/boolean.rs
   A U256 is modelled as a Z in [0, 2^256) (its four u64 limbs are `limb x 0 .. limb x 3`, least
   significant first, as in `U256(pub [u64; 4])`); a U512 as a Z in [0, 2^512).

   Part 1 models the PRIMITIVES of the `uint` crate (construct_uint!) and of Rust's u32/u64 as the
   obvious Z operations (shifts, masks to the low 256 / 512 / 64 / 32 bits, Z.div, Z.modulo).  That modelling is *validated* by the
   correspondence harness (harness/src/bin/evm_ops.rs), not proved.
   Part 2 transcribes, statement by statement, everything builtin-actors builds ON TOP of those
   primitives.  Part 3 packs the instructions into `impl_ops : word_ops` in the argument order of
   `def_primop!` in instructions/mod.rs (`let &rev![a, b] = pop_many()` makes `a` the top of the stack).
   The plumbing of the per-instruction correspondence check is in Model/EvmWordCorr.v.
   Definitions only; the proofs are in Proofs/EvmWord_lemmas.v. *)
From Coq Require Import ZArith List Bool.
From VF Require Import Model.EvmSpec.
Import ListNotations.
Open Scope Z_scope.

(* ------------------------------------------------------------------------------------------------ *)
(* Part 1: primitives of the `uint` crate / of Rust machine integers (modelled, validated by harness) *)

Definition W512 : Z := 2 ^ 512.
Definition U256_MAX : Z := W - 1.

(* keep the low 256 / 512 bits (what a fixed-width result register does) *)
Definition wrap256 (x : Z) : Z := Z.land x (Z.ones 256).
Definition wrap512 (x : Z) : Z := Z.land x (Z.ones 512).

(* self.0[i]: bits 64 i .. 64 i + 63 *)
Definition limb (x i : Z) : Z := Z.land (Z.shiftr x (64 * i)) (Z.ones 64).

Definition u_is_zero (x : Z) : bool := x =? 0.                      (* is_zero *)
Definition u_add (a b : Z) : Z := wrap256 (a + b).                  (* overflowing_add(..).0 *)
Definition u_sub (a b : Z) : Z := wrap256 (a - b).                  (* overflowing_sub(..).0 *)
Definition u_mul (a b : Z) : Z := wrap256 (a * b).                  (* overflowing_mul(..).0 *)
Definition u_div (a b : Z) : Z := a / b.                            (* Div, b <> 0 *)
Definition u_rem (a b : Z) : Z := a mod b.                          (* Rem, b <> 0 *)
Definition u_not (a : Z) : Z := U256_MAX - a.                       (* Not: limb-wise !  *)
Definition u_and (a b : Z) : Z := Z.land a b.
Definition u_or (a b : Z) : Z := Z.lor a b.
Definition u_xor (a b : Z) : Z := Z.lxor a b.
Definition u_shl (v s : Z) : Z := wrap256 (Z.shiftl v s).           (* Shl, 0 <= s < 256 *)
Definition u_shr (v s : Z) : Z := Z.shiftr v s.                     (* Shr, 0 <= s < 256 *)
Definition u_bit (v i : Z) : bool := Z.testbit v i.                 (* bit(index) *)
Definition u_byte (v i : Z) : Z := Z.land (Z.shiftr v (8 * i)) 255. (* byte(index), little endian *)
Definition u_leading_zeros (v : Z) : Z := if v =? 0 then 256 else 255 - Z.log2 v.
Definition u_ltb (a b : Z) : bool := a <? b.                        (* Ord::cmp == Less *)
Definition u_cmp (a b : Z) : comparison := a ?= b.                  (* Ord::cmp *)
Definition u_eqb (a b : Z) : bool := a =? b.                        (* PartialEq (derived) *)
Definition u_low_u32 (a : Z) : Z := Z.land (limb a 0) (Z.ones 32).  (* low_u32: self.0[0] as u32 *)
Definition u_low_u64 (a : Z) : Z := limb a 0.                       (* low_u64 *)

(* U512 *)
Definition u512_add (a b : Z) : Z := wrap512 (a + b).               (* Add (cannot overflow here) *)
Definition u512_mul (a b : Z) : Z := wrap512 (a * b).               (* Mul (cannot overflow here) *)
Definition u512_rem (a b : Z) : Z := a mod b.

(* ------------------------------------------------------------------------------------------------ *)
(* Part 2: builtin-actors code on top of the primitives                                              *)

(* ---- uints.rs ---- *)

(* impl PartialOrd<u64> for U256: if self.0[3] > 0 || self.0[2] > 0 || self.0[1] > 0 { Greater }
   else { self.0[0].partial_cmp(other) } *)
Definition cmp_u64 (x n : Z) : comparison :=
  if (0 <? limb x 3) || (0 <? limb x 2) || (0 <? limb x 1) then Gt else limb x 0 ?= n.
Definition lt_u64 (x n : Z) : bool := match cmp_u64 x n with Lt => true | _ => false end.   (* x < n  *)
Definition ge_u64 (x n : Z) : bool := match cmp_u64 x n with Lt => false | _ => true end.   (* x >= n *)

(* U256::from_u64(v) = U256([v, 0, 0, 0]) ; U256::from(u32) likewise *)
Definition from_u64 (v : Z) : Z := v.
Definition of_bool (b : bool) : Z := from_u64 (if b then 1 else 0).   (* U256::from_u64(b.into()) *)

(* impl From<U256> for U512: U512([a, b, c, d, 0, 0, 0, 0]) *)
Definition to_u512 (v : Z) : Z :=
  limb v 0 + limb v 1 * 2 ^ 64 + limb v 2 * 2 ^ 128 + limb v 3 * 2 ^ 192.
(* U512::low_u256: let [a, b, c, d, ..] = self.0; U256([a, b, c, d]) *)
Definition low_u256 (v : Z) : Z :=
  limb v 0 + limb v 1 * 2 ^ 64 + limb v 2 * 2 ^ 128 + limb v 3 * 2 ^ 192.

(* i256_is_negative: (self.0[3] as i64) < 0 *)
Definition i256_is_negative (x : Z) : bool := 2 ^ 63 <=? limb x 3.

(* i256_neg: if self.is_zero() { ZERO } else { !*self + ONE }   (Add = checked add; cannot overflow
   here because !x = MAX only for x = 0) *)
Definition i256_neg (x : Z) : Z := if u_is_zero x then 0 else u_add (u_not x) 1.

(* bool's Ord: false < true *)
Definition bool_cmp (a b : bool) : comparison :=
  match a, b with
  | false, true => Lt
  | true, false => Gt
  | _, _ => Eq
  end.

(* i256_cmp: match other.i256_is_negative().cmp(&self.i256_is_negative())
             { Equal => self.cmp(other), sign_cmp => sign_cmp } *)
Definition i256_cmp (x y : Z) : comparison :=
  match bool_cmp (i256_is_negative y) (i256_is_negative x) with
  | Eq => u_cmp x y
  | c => c
  end.

Definition i256_div (x y : Z) : Z :=
  if u_is_zero x || u_is_zero y then 0 else
  let first_neg := i256_is_negative x in
  let second_neg := i256_is_negative y in
  let first := if first_neg then i256_neg x else x in
  let second := if second_neg then i256_neg y else y in
  let d := u_div first second in
  if u_is_zero d || Bool.eqb first_neg second_neg then d else i256_neg d.

Definition i256_mod (x y : Z) : Z :=
  if u_is_zero x || u_is_zero y then 0 else
  let negative := i256_is_negative x in
  let first := if negative then i256_neg x else x in
  let second := if i256_is_negative y then i256_neg y else y in
  let r := u_rem first second in
  if negative && negb (u_is_zero r) then i256_neg r else r.

(* ---- arithmetic.rs ---- *)
Definition i_add (a b : Z) : Z := u_add a b.
Definition i_mul (a b : Z) : Z := u_mul a b.
Definition i_sub (a b : Z) : Z := u_sub a b.
Definition i_div (a b : Z) : Z := if negb (u_is_zero b) then u_div a b else b.
Definition i_sdiv (a b : Z) : Z := i256_div a b.
Definition i_mod (a b : Z) : Z := if negb (u_is_zero b) then u_rem a b else b.
Definition i_smod (a b : Z) : Z := i256_mod a b.
Definition i_addmod (a b c : Z) : Z :=
  if negb (u_is_zero c) then
    low_u256 (u512_rem (u512_add (to_u512 a) (to_u512 b)) (to_u512 c))
  else c.
Definition i_mulmod (a b c : Z) : Z :=
  if negb (u_is_zero c) then
    low_u256 (u512_rem (u512_mul (to_u512 a) (to_u512 b)) (to_u512 c))
  else c.

(* signextend(a, b): if a < 32 { let bit_index = 8 * a.low_u32() + 7;
     let mask = U256::MAX >> (U256::BITS - bit_index);
     if b.bit(bit_index) { b | !mask } else { b & mask } } else { b } *)
Definition i_signextend (a b : Z) : Z :=
  if lt_u64 a 32 then
    let bit_index := 8 * u_low_u32 a + 7 in                 (* u32 arithmetic, <= 255: no overflow *)
    let mask := u_shr U256_MAX (256 - bit_index) in         (* u32 subtraction, >= 1: no underflow *)
    if u_bit b bit_index then u_or b (u_not mask) else u_and b mask
  else b.

(* exp: square and multiply over the four u64 words of the exponent, least significant first,
   stopping after `remaining_bits` significant bits.
     for _ in 0..u64::BITS.min(remaining_bits) {
         if (word & 1) != 0 { v = v.overflowing_mul(base).0; }
         word >>= 1;  base = base.overflowing_mul(base).0; } *)
Fixpoint exp_inner (n : nat) (word v base : Z) : Z * Z :=
  match n with
  | O => (v, base)
  | S n' =>
      let v' := if negb (Z.land word 1 =? 0) then u_mul v base else v in
      exp_inner n' (Z.shiftr word 1) v' (u_mul base base)
  end.

(* one iteration of `for mut word in power.0 { ...; remaining_bits = remaining_bits.saturating_sub(64) }` *)
Definition exp_word (st : Z * Z * Z) (word : Z) : Z * Z * Z :=
  let '(v, base, remaining_bits) := st in
  let '(v', base') := exp_inner (Z.to_nat (Z.min 64 remaining_bits)) word v base in
  (v', base', Z.max 0 (remaining_bits - 64)).

Definition i_exp (base power : Z) : Z :=
  let remaining_bits := 256 - u_leading_zeros power in
  let '(v, _, _) :=
    fold_left exp_word [limb power 0; limb power 1; limb power 2; limb power 3]
              (1, base, remaining_bits) in
  v.

(* ---- boolean.rs ---- *)
Definition i_lt (a b : Z) : Z := of_bool (u_ltb a b).
Definition i_gt (a b : Z) : Z := of_bool (u_ltb b a).
Definition i_slt (a b : Z) : Z := of_bool (match i256_cmp a b with Lt => true | _ => false end).
Definition i_sgt (a b : Z) : Z := of_bool (match i256_cmp a b with Gt => true | _ => false end).
Definition i_eq (a b : Z) : Z := of_bool (u_eqb a b).
Definition i_iszero (a : Z) : Z := of_bool (u_is_zero a).
Definition i_and (a b : Z) : Z := u_and a b.
Definition i_or (a b : Z) : Z := u_or a b.
Definition i_xor (a b : Z) : Z := u_xor a b.
Definition i_not (a : Z) : Z := u_not a.

(* ---- bitwise.rs ---- *)
(* byte(i, x): if i >= 32 { ZERO } else { from_u64(x.byte(31 - i.low_u64() as usize) as u64) } *)
Definition i_byte (i x : Z) : Z :=
  if ge_u64 i 32 then 0 else from_u64 (u_byte x (31 - u_low_u64 i)).

Definition i_shl (shift value : Z) : Z :=
  if u_is_zero value || ge_u64 shift 256 then 0 else u_shl value shift.
Definition i_shr (shift value : Z) : Z :=
  if u_is_zero value || ge_u64 shift 256 then 0 else u_shr value shift.

Definition i_sar (shift value : Z) : Z :=
  let negative := i256_is_negative value in
  let value := if negative then i256_neg value else value in
  if u_is_zero value || ge_u64 shift 256 then
    if negative then U256_MAX else 0
  else
    let shift := u_low_u32 shift in
    if negative then
      let shifted := u_add (u_shr (u_sub value 1) shift) 1 in
      i256_neg shifted
    else u_shr value shift.

Definition i_clz (value : Z) : Z := from_u64 (u_leading_zeros value).

(* ------------------------------------------------------------------------------------------------ *)
(* Part 3 *)
Definition impl_ops : word_ops := {|
  w_add := i_add; w_mul := i_mul; w_sub := i_sub; w_div := i_div; w_sdiv := i_sdiv;
  w_mod := i_mod; w_smod := i_smod; w_addmod := i_addmod; w_mulmod := i_mulmod;
  w_exp := i_exp; w_signextend := i_signextend;
  w_lt := i_lt; w_gt := i_gt; w_slt := i_slt; w_sgt := i_sgt; w_eq := i_eq; w_iszero := i_iszero;
  w_and := i_and; w_or := i_or; w_xor := i_xor; w_not := i_not;
  w_byte := i_byte; w_shl := i_shl; w_shr := i_shr; w_sar := i_sar; w_clz := i_clz;
|}.
