(* C03 -- collateral ledgers.  Executable MULTI-MINER model of the pledge / deposit / vesting side of
     actors/miner/src/lib.rs     constructor (creation deposit), pre_commit_sector_batch_inner,
                                 prove_commit_sectors3 / activate_new_sector_infos, prove_replica_updates3 /
                                 update_replica_states, apply_rewards, withdraw_balance, repay_debt,
                                 report_consensus_fault / dispute_windowed_post (penalty + repay),
                                 terminate_sectors, process_early_terminations, handle_proving_deadline,
                                 notify_pledge_changed
     actors/miner/src/state.rs   add_pre_commit_deposit, add_initial_pledge, add_locked_funds,
                                 unlock_vested_funds, unlock_vested_and_unvested_funds,
                                 cleanup_expired_pre_commits, advance_deadline (pledge part)
     actors/miner/src/vesting_state.rs  (the vesting table, transcribed as in Model/Vesting.v, specialised
                                 to REWARD_VESTING_SPEC -- the only spec the actor uses)
     actors/power/src/lib.rs     create_miner (claim), update_pledge_total, the claim deletion after a failed
                                 cron callback (process_deferred_cron_events)
   Definitions only.

   What is an INPUT of an operation (computed by un-modelled formulas / bookkeeping):
     deposits and pledges of new sectors, the list of pre-commits / sectors that expire in a cron
     callback, the list of early terminations processed, the fee debt to repay (`target`), and `ext`,
     the exit code of every check the model does not cover (caller, balance, proofs, ...; 0 = they pass).
   What the model COMPUTES: the three totals, the tables, the vesting schedule and every vested amount, the
   pledge delta of every UpdatePledgeTotal, its acceptance by the power actor, and the roll-back. *)
From stdpp Require Import gmap.
From Coq Require Import ZArith List Bool.
From VF Require Import Gen.Consts Base.Corr Base.MapSum.
Import ListNotations.
Open Scope Z_scope.

(* ------------------------------------------------------------------------------------------ *)
(* vesting table (vesting_state.rs); raw `head :: tail`, [] = VestingFunds(None) *)
Definition fund := (Z * Z)%type.      (* (epoch, amount) *)
Definition table := list fund.

(* QuantSpec::quantize_up; Rust `%` and `/` truncate *)
Definition quantize_up (unit offset e : Z) : Z :=
  let off := Z.rem offset unit in
  let r := Z.rem (e - off) unit in
  let q := Z.quot (e - off) unit in
  if (r =? 0) || (e - off <? 0) then unit * q + off else unit * (q + 1) + off.

Definition load (t : table) : table :=
  match t with
  | [] => []
  | (e, a) :: tl => if 0 <? a then t else tl
  end.

Fixpoint take_vested (cur : Z) (l : table) : Z * table :=
  match l with
  | [] => (0, [])
  | (e, a) :: tl =>
      if e <? cur then let '(s, r) := take_vested cur tl in (a + s, r) else (0, l)
  end.

Fixpoint gen_new (fuel : nat) (sum vbegin period step unit offset vested_so_far epoch : Z) : table :=
  match fuel with
  | O => []
  | S f =>
      if sum <=? vested_so_far then [] else
      let epoch' := epoch + step in
      let ve := quantize_up unit offset epoch' in
      let elapsed := ve - vbegin in
      let target := if elapsed <? period then (sum * elapsed) / period else sum in
      (ve, target - vested_so_far) :: gen_new f sum vbegin period step unit offset target epoch'
  end.

Definition sched_fuel : nat := Z.to_nat (REWARD_VEST_VEST_PERIOD / REWARD_VEST_STEP_DURATION + 2).

(* the schedule add_locked_funds creates for REWARD_VESTING_SPEC *)
Definition new_schedule (cur sum pps : Z) : table :=
  let vbegin := cur + REWARD_VEST_INITIAL_DELAY in
  gen_new sched_fuel sum vbegin REWARD_VEST_VEST_PERIOD REWARD_VEST_STEP_DURATION
          REWARD_VEST_QUANTIZATION pps 0 vbegin.

Fixpoint merge (a : table) : table -> table :=
  fix go (b : table) : table :=
    match a, b with
    | [], _ => b
    | _, [] => a
    | (ea, xa) :: a', (eb, xb) :: b' =>
        if ea <? eb then (ea, xa) :: merge a' b
        else if eb <? ea then (eb, xb) :: go b'
        else (ea, xa + xb) :: merge a' b'
    end.

Definition add_locked_funds (t : table) (cur sum pps : Z) : table * Z :=
  let '(unl, rest) := take_vested cur (merge (load t) (new_schedule cur sum pps)) in
  (rest, unl).

Definition unlock_vested_funds (t : table) (cur : Z) : table * Z :=
  match t with
  | [] => ([], 0)
  | (he, _) :: _ =>
      if he <? cur then let '(unl, rest) := take_vested cur (load t) in (rest, unl) else (t, 0)
  end.

Fixpoint slow_unlock (cur target vested unvested : Z) (l : table) : table * Z * Z :=
  match l with
  | [] => ([], vested, unvested)
  | (e, a) :: tl =>
      if e <? cur then slow_unlock cur target (vested + a) unvested tl
      else if a <? target then slow_unlock cur (target - a) vested (unvested + a) tl
      else ((e, a - target) :: tl, vested, unvested + target)
  end.

(* returns (new table, vested, unvested) *)
Definition unlock_vested_and_unvested_funds (t : table) (cur target : Z) : table * Z * Z :=
  match t with
  | [] => ([], 0, 0)
  | (he, ha) :: tl =>
      if (cur <=? he) && (target <=? ha) then ((he, ha - target) :: tl, 0, target)
      else slow_unlock cur target 0 0 (load t)
  end.

Definition tbl_sum (t : table) : Z := fold_right (fun '(_, a) s => a + s) 0 t.

Fixpoint wsum (i : Z) (t : table) : Z :=
  match t with
  | [] => 0
  | (e, a) :: tl => (i * i * 1000003 + i) * (a + 7919 * e) + wsum (i + 1) tl
  end.
Definition tbl_hash (t : table) : Z := wsum 1 t.

(* ------------------------------------------------------------------------------------------ *)
Inductive res (A : Type) := Ok (a : A) | Err (c : Z).
Arguments Ok {A} a.
Arguments Err {A} c.
Definition bind {A B} (r : res A) (f : A -> res B) : res B :=
  match r with Ok a => f a | Err c => Err c end.

Definition EOK := 0.
Definition ILLEGAL_ARGUMENT := 16.
Definition NOT_FOUND := 17.
Definition FORBIDDEN := 18.
Definition ILLEGAL_STATE := 20.
Definition BAD_INPUT := 999.     (* an input list names something the model does not hold: harness error *)

(* ------------------------------------------------------------------------------------------ *)
(* one miner actor (+ its claim bit in the power actor, + the ghost creation deposit) *)
Record miner := mkMiner {
  ip : Z;                    (* State.initial_pledge *)
  pcd : Z;                   (* State.pre_commit_deposits *)
  locked : Z;                (* State.locked_funds *)
  vest : table;              (* State.vesting_funds *)
  pps : Z;                   (* proving_period_start at creation (quantisation offset, used mod 12h) *)
  precommits : gmap N Z;     (* pre_committed_sectors: sector -> pre_commit_deposit *)
  sectors : gmap N Z;        (* live sectors (not terminated): sector -> initial_pledge *)
  awaiting : gmap N Z;       (* terminated early, still in a partition's early_terminated queue *)
  has_claim : bool;          (* power.State.claims contains the miner *)
  cdep : Z;                  (* GHOST: the deposit locked by the constructor (never notified) *)
}.

Definition set_ip (m : miner) (x : Z) : miner :=
  mkMiner x (pcd m) (locked m) (vest m) (pps m) (precommits m) (sectors m) (awaiting m) (has_claim m) (cdep m).
Definition set_pcd (m : miner) (x : Z) : miner :=
  mkMiner (ip m) x (locked m) (vest m) (pps m) (precommits m) (sectors m) (awaiting m) (has_claim m) (cdep m).
Definition set_vest_locked (m : miner) (t : table) (l : Z) : miner :=
  mkMiner (ip m) (pcd m) l t (pps m) (precommits m) (sectors m) (awaiting m) (has_claim m) (cdep m).
Definition set_precommits (m : miner) (p : gmap N Z) : miner :=
  mkMiner (ip m) (pcd m) (locked m) (vest m) (pps m) p (sectors m) (awaiting m) (has_claim m) (cdep m).
Definition set_sectors (m : miner) (s : gmap N Z) : miner :=
  mkMiner (ip m) (pcd m) (locked m) (vest m) (pps m) (precommits m) s (awaiting m) (has_claim m) (cdep m).
Definition set_awaiting (m : miner) (a : gmap N Z) : miner :=
  mkMiner (ip m) (pcd m) (locked m) (vest m) (pps m) (precommits m) (sectors m) a (has_claim m) (cdep m).
Definition set_claim (m : miner) (b : bool) : miner :=
  mkMiner (ip m) (pcd m) (locked m) (vest m) (pps m) (precommits m) (sectors m) (awaiting m) b (cdep m).

Definition zsum (m : gmap N Z) : Z := msum (fun x : Z => x) m.
Definition has (m : gmap N Z) (k : N) : bool := match m !! k with Some _ => true | None => false end.
Definition is_empty (m : gmap N Z) : bool := match map_to_list m with [] => true | _ => false end.

(* state.rs add_initial_pledge / add_pre_commit_deposit *)
Definition add_ip (m : miner) (d : Z) : res miner :=
  if ip m + d <? 0 then Err ILLEGAL_STATE else Ok (set_ip m (ip m + d)).
Definition add_pcd (m : miner) (d : Z) : res miner :=
  if pcd m + d <? 0 then Err ILLEGAL_STATE else Ok (set_pcd m (pcd m + d)).

(* state.rs add_locked_funds: returns the amount that vested *)
Definition m_add_locked (m : miner) (cur sum : Z) : res (miner * Z) :=
  if sum <? 0 then Err ILLEGAL_STATE else
  let '(t', unl) := add_locked_funds (vest m) cur sum (pps m) in
  let l1 := locked m - unl in
  if l1 <? 0 then Err ILLEGAL_STATE else Ok (set_vest_locked m t' (l1 + sum), unl).

(* state.rs unlock_vested_funds *)
Definition m_unlock_vested (m : miner) (cur : Z) : res (miner * Z) :=
  if locked m =? 0 then Ok (m, 0) else
  let '(t', unl) := unlock_vested_funds (vest m) cur in
  let l1 := locked m - unl in
  if l1 <? 0 then Err ILLEGAL_STATE else Ok (set_vest_locked m t' l1, unl).

(* state.rs unlock_vested_and_unvested_funds, as used by repay_partial_debt_in_priority_order with
   target = fee debt: returns the TOTAL unlocked *)
Definition m_unlock_both (m : miner) (cur target : Z) : res (miner * Z) :=
  if target <? 0 then Err BAD_INPUT else
  if (target =? 0) || (locked m =? 0) then Ok (m, 0) else
  let '(t', v, u) := unlock_vested_and_unvested_funds (vest m) cur target in
  let l1 := locked m - (v + u) in
  if l1 <? 0 then Err ILLEGAL_STATE else Ok (set_vest_locked m t' l1, v + u).

(* ------------------------------------------------------------------------------------------ *)
(* the state transactions of the handlers: miner -> new miner and the pledge delta it will notify *)

(* pre_commit_sector_batch_inner: (sector, deposit) *)
Fixpoint pc_add (m : miner) (l : list (N * Z)) (acc : Z) : res (miner * Z) :=
  match l with
  | [] => Ok (m, acc)
  | (s, d) :: r =>
      if d <? 0 then Err BAD_INPUT else
      if has (precommits m) s || has (sectors m) s || has (awaiting m) s then Err ILLEGAL_ARGUMENT else
      pc_add (set_precommits m (<[s := d]> (precommits m))) r (acc + d)
  end.
Definition tx_precommit (m : miner) (secs : list (N * Z)) : res (miner * Z) :=
  match secs with [] => Err ILLEGAL_ARGUMENT | _ =>
  bind (pc_add m secs 0) (fun '(m1, tot) =>
  bind (add_pcd m1 tot) (fun m2 => Ok (m2, 0)))
  end.

(* activate_new_sector_infos: (sector, initial pledge); returns (miner, deposit released, pledge) *)
Fixpoint prove_each (m : miner) (l : list (N * Z)) (dep pl : Z) : res (miner * Z * Z) :=
  match l with
  | [] => Ok (m, dep, pl)
  | (s, p) :: r =>
      if p <? 0 then Err BAD_INPUT else
      match precommits m !! s with
      | None => Err ILLEGAL_STATE     (* delete_precommitted_sectors: "sector not pre-committed" -- the
                                         sector was named twice in the batch (existence was checked before) *)
      | Some d =>
          if has (sectors m) s || has (awaiting m) s then Err ILLEGAL_STATE else
          prove_each (set_sectors (set_precommits m (delete s (precommits m))) (<[s := p]> (sectors m)))
                     r (dep + d) (pl + p)
      end
  end.
(* get_precommitted_sectors: every named sector must be pre-committed (not_found otherwise); a sector named
   twice passes this check, is activated once per entry, and makes delete_precommitted_sectors fail on its
   second entry: the whole message aborts *)
Definition all_precommitted (m : miner) (secs : list (N * Z)) : bool :=
  forallb (fun x : N * Z => has (precommits m) (fst x)) secs.
Definition tx_prove_commit (m : miner) (secs : list (N * Z)) : res (miner * Z) :=
  match secs with [] => Err ILLEGAL_ARGUMENT | _ =>
  if negb (all_precommitted m secs) then Err NOT_FOUND else
  bind (prove_each m secs 0 0) (fun '(m1, dep, pl) =>
  bind (add_pcd m1 (- dep)) (fun m2 =>
  bind (add_ip m2 pl) (fun m3 => Ok (m3, pl))))
  end.

(* update_replica_states: (sector, pledge computed for the new power); pledge := max old computed *)
Fixpoint update_each (m : miner) (l : list (N * Z)) (acc : Z) : res (miner * Z) :=
  match l with
  | [] => Ok (m, acc)
  | (s, c) :: r =>
      if c <? 0 then Err BAD_INPUT else
      match sectors m !! s with
      | None => Err NOT_FOUND
      | Some old =>
          let new := Z.max old c in
          update_each (set_sectors m (<[s := new]> (sectors m))) r (acc + (new - old))
      end
  end.
Definition tx_replica_update (m : miner) (ups : list (N * Z)) : res (miner * Z) :=
  bind (update_each m ups 0) (fun '(m1, d) =>
  bind (add_ip m1 d) (fun m2 => Ok (m2, d))).

(* monies.rs locked_reward_from_reward *)
Definition locked_reward (reward : Z) : Z := (reward * LOCKED_REWARD_FACTOR_NUM) / LOCKED_REWARD_FACTOR_DENOM.

(* apply_rewards *)
Definition tx_apply_rewards (m : miner) (epoch reward target : Z) : res (miner * Z) :=
  if reward <? 0 then Err ILLEGAL_ARGUMENT else
  let lock := locked_reward reward in
  bind (m_add_locked m epoch lock) (fun '(m1, newly_vested) =>
  bind (m_unlock_both m1 epoch target) (fun '(m2, total_unlocked) =>
  Ok (m2, lock - newly_vested - total_unlocked))).

(* withdraw_balance *)
Definition tx_withdraw (m : miner) (epoch : Z) : res (miner * Z) :=
  if negb (is_empty (awaiting m)) then Err FORBIDDEN else
  bind (m_unlock_vested m epoch) (fun '(m1, newly_vested) => Ok (m1, - newly_vested)).

(* repay_debt, report_consensus_fault, dispute_windowed_post: repay_partial_debt_in_priority_order *)
Definition tx_repay (m : miner) (epoch target : Z) : res (miner * Z) :=
  bind (m_unlock_both m epoch target) (fun '(m1, total_unlocked) => Ok (m1, - total_unlocked)).

(* terminate_sectors / advance_deadline (early): the sector leaves the live set, its pledge stays *)
Fixpoint move_early (m : miner) (l : list N) : res miner :=
  match l with
  | [] => Ok m
  | s :: r =>
      match sectors m !! s with
      | None => Err BAD_INPUT
      | Some p =>
          if has (awaiting m) s then Err ILLEGAL_STATE else
          move_early (set_awaiting (set_sectors m (delete s (sectors m))) (<[s := p]> (awaiting m))) r
      end
  end.

(* process_early_terminations: pledge released WHEN PROCESSED *)
Fixpoint pop_each (m : miner) (l : list N) (acc : Z) : res (miner * Z) :=
  match l with
  | [] => Ok (m, acc)
  | s :: r =>
      match awaiting m !! s with
      | None => Err BAD_INPUT
      | Some p => pop_each (set_awaiting m (delete s (awaiting m))) r (acc + p)
      end
  end.
Definition tx_process_early (m : miner) (epoch : Z) (processed : list N) (target : Z) : res (miner * Z) :=
  match processed with
  | [] => Ok (m, 0)                       (* "no early terminations": nothing happens *)
  | _ =>
    bind (pop_each m processed 0) (fun '(m1, tot) =>
    bind (add_ip m1 (- tot)) (fun m2 =>
    bind (m_unlock_both m2 epoch target) (fun '(m3, total_unlocked) =>
    Ok (m3, - tot - total_unlocked))))
  end.

Definition tx_terminate (m : miner) (epoch : Z) (secs processed : list N) (target : Z) : res (miner * Z) :=
  bind (move_early m secs) (fun m1 => tx_process_early m1 epoch processed target).

(* handle_proving_deadline, first transaction *)
Fixpoint expire_precommits (m : miner) (l : list N) (acc : Z) : res (miner * Z) :=
  match l with
  | [] => Ok (m, acc)
  | s :: r =>
      match precommits m !! s with
      | None => Err BAD_INPUT
      | Some d => expire_precommits (set_precommits m (delete s (precommits m))) r (acc + d)
      end
  end.
Fixpoint expire_sectors (m : miner) (l : list N) (acc : Z) : res (miner * Z) :=
  match l with
  | [] => Ok (m, acc)
  | s :: r =>
      match sectors m !! s with
      | None => Err BAD_INPUT
      | Some p => expire_sectors (set_sectors m (delete s (sectors m))) r (acc + p)
      end
  end.
Definition tx_deadline (m : miner) (epoch : Z) (expired_pc ontime early : list N) (target : Z)
  : res (miner * Z) :=
  bind (expire_precommits m expired_pc 0) (fun '(m1, burn) =>
  bind (add_pcd m1 (- burn)) (fun m2 =>
  bind (expire_sectors m2 ontime 0) (fun '(m3, rel) =>
  bind (add_ip m3 (- rel)) (fun m4 =>
  bind (move_early m4 early) (fun m5 =>
  bind (m_unlock_both m5 epoch target) (fun '(m6, total_unlocked) =>
  bind (m_unlock_vested m6 epoch) (fun '(m7, newly_vested) =>
  Ok (m7, - rel - total_unlocked - newly_vested)))))))).

(* ------------------------------------------------------------------------------------------ *)
(* power actor: update_pledge_total, reached through notify_pledge_changed *)
Definition send := (Z * Z)%type.     (* (pledge delta, exit code of UpdatePledgeTotal) *)

(* returns (exit code, new total, the send made) *)
Definition notify (claim : bool) (total delta : Z) : Z * Z * list send :=
  if delta =? 0 then (EOK, total, []) else
  if negb claim then (FORBIDDEN, total, [(delta, FORBIDDEN)]) else
  if total + delta <? 0 then (ILLEGAL_STATE, total, [(delta, ILLEGAL_STATE)]) else
  (EOK, total + delta, [(delta, EOK)]).

(* a transaction followed by its notification *)
Definition phase (r : res (miner * Z)) (claim : bool) (total : Z) (sends : list send)
  : res (miner * Z) * list send :=
  match r with
  | Err c => (Err c, sends)
  | Ok (m', d) =>
      let '(c, t', s) := notify claim total d in
      if c =? 0 then (Ok (m', t'), sends ++ s) else (Err c, sends ++ s)
  end.

(* a miner method, funds/pledge side *)
Inductive mop :=
| MPreCommit (secs : list (N * Z))
| MProveCommit (secs : list (N * Z))
| MReplicaUpdate (ups : list (N * Z))
| MApplyRewards (reward target : Z)
| MWithdraw
| MRepay (target : Z)
| MTerminate (secs processed : list N) (target : Z)
| MCronDeadline (expired_pc ontime early : list N) (target : Z) (processed : list N) (target2 : Z)
| MCronEarly (processed : list N) (target : Z)
| MOther.      (* a method without collateral effect: SubmitWindowedPoSt, DeclareFaults(Recovered),
                  ExtendSectorExpiration2 (pledge delta 0), ChangeWorkerAddress, ... *)

(* returns (Ok (miner', total') | Err code, sends) *)
Definition exec_mop (m : miner) (total epoch : Z) (o : mop) : res (miner * Z) * list send :=
  let claim := has_claim m in
  match o with
  | MPreCommit secs => phase (tx_precommit m secs) claim total []
  | MProveCommit secs => phase (tx_prove_commit m secs) claim total []
  | MReplicaUpdate ups => phase (tx_replica_update m ups) claim total []
  | MApplyRewards reward target => phase (tx_apply_rewards m epoch reward target) claim total []
  | MWithdraw => phase (tx_withdraw m epoch) claim total []
  | MRepay target => phase (tx_repay m epoch target) claim total []
  | MTerminate secs processed target => phase (tx_terminate m epoch secs processed target) claim total []
  | MCronEarly processed target => phase (tx_process_early m epoch processed target) claim total []
  | MOther => phase (Ok (m, 0)) claim total []
  | MCronDeadline ex on ea target processed target2 =>
      let had_early := negb (is_empty (awaiting m)) in
      match phase (tx_deadline m epoch ex on ea target) claim total [] with
      | (Err c, s) => (Err c, s)
      | (Ok (m1, t1), s1) =>
          if negb had_early && negb (is_empty (awaiting m1))
          then phase (tx_process_early m1 epoch processed target2) claim t1 s1
          else (Ok (m1, t1), s1)
      end
  end.

(* ------------------------------------------------------------------------------------------ *)
(* the network *)
Record state := mkState {
  miners : gmap N miner;
  total : Z;                 (* power.State.total_pledge_collateral *)
}.
Definition init : state := mkState ∅ 0.

Inductive op :=
| CreateMiner (m : N) (epoch deposit p : Z) (ext : Z)     (* Power::CreateMiner *)
| Call (m : N) (epoch : Z) (ext : Z) (o : mop)              (* one miner method invocation *)
| Tick (epoch : Z) (cbs : list (N * Z * mop)).              (* cron: the OnDeferredCronEvent callbacks, in order *)

Definition empty_miner (p : Z) : miner := mkMiner 0 0 0 [] p ∅ ∅ ∅ true 0.

(* power.create_miner -> init.exec -> miner constructor: locks the deposit, NO pledge notification *)
Definition create_miner (st : state) (m : N) (epoch deposit p : Z) : res state :=
  match miners st !! m with
  | Some _ => Err BAD_INPUT
  | None =>
      if deposit <? 0 then Err BAD_INPUT else
      bind (m_add_locked (empty_miner p) epoch deposit) (fun '(m1, _) =>
      let m2 := mkMiner (ip m1) (pcd m1) (locked m1) (vest m1) (pps m1) (precommits m1) (sectors m1)
                        (awaiting m1) true deposit in
      Ok (mkState (<[m := m2]> (miners st)) (total st)))
  end.

(* step result: new state, exit codes (one per miner invocation), UpdatePledgeTotal sends in order *)
Definition call (st : state) (m : N) (epoch ext : Z) (o : mop) : state * Z * list send :=
  match miners st !! m with
  | None => (st, BAD_INPUT, [])
  | Some mi =>
      if negb (ext =? 0) then (st, ext, []) else
      match exec_mop mi (total st) epoch o with
      | (Ok (mi', t'), s) => (mkState (<[m := mi']> (miners st)) t', EOK, s)
      | (Err c, s) => (st, c, s)
      end
  end.

(* power.process_deferred_cron_events: every callback of the tick runs (claims are looked up before the
   loop); a failed callback is rolled back; AFTERWARDS the power actor deletes the claims of the miners
   whose callback failed *)
Fixpoint drop_claims (ms : gmap N miner) (failed : list N) : gmap N miner :=
  match failed with
  | [] => ms
  | m :: r =>
      let ms' := match ms !! m with Some mi => <[m := set_claim mi false]> ms | None => ms end in
      drop_claims ms' r
  end.

Fixpoint tick_loop (st : state) (epoch : Z) (cbs : list (N * Z * mop)) (codes : list Z) (sends : list send)
                   (failed : list N) : state * list Z * list send * list N :=
  match cbs with
  | [] => (st, codes, sends, failed)
  | (m, ext, o) :: r =>
      let '(st', c, s) := call st m epoch ext o in
      tick_loop st' epoch r (codes ++ [c]) (sends ++ s) (if c =? 0 then failed else failed ++ [m])
  end.

Definition tick (st : state) (epoch : Z) (cbs : list (N * Z * mop)) : state * list Z * list send :=
  let '(st', codes, sends, failed) := tick_loop st epoch cbs [] [] [] in
  (mkState (drop_claims (miners st') failed) (total st'), codes, sends).

Definition step (st : state) (o : op) : state * list Z * list send :=
  match o with
  | CreateMiner m epoch deposit p ext =>
      if negb (ext =? 0) then (st, [ext], []) else
      match create_miner st m epoch deposit p with
      | Ok st' => (st', [EOK], [])
      | Err c => (st, [c], [])
      end
  | Call m epoch ext o => let '(st', c, s) := call st m epoch ext o in (st', [c], s)
  | Tick epoch cbs => tick st epoch cbs
  end.

Definition run (st : state) (ops : list op) : state := fold_left (fun s o => fst (fst (step s o))) ops st.

(* ------------------------------------------------------------------------------------------ *)
(* the sums the property speaks about *)
Definition net_sum (st : state) : Z := msum (fun mi => ip mi + locked mi) (miners st).
Definition dep_sum (st : state) : Z := msum cdep (miners st).

(* an UpdatePledgeTotal of this step was rejected because the total would become negative *)
Definition blocked (st : state) (o : op) : bool :=
  existsb (fun s : send => snd s =? ILLEGAL_STATE) (snd (step st o)).

(* boolean monitors (witnesses) *)
Definition miner_ok (mi : miner) : bool :=
  (ip mi =? zsum (sectors mi) + zsum (awaiting mi)) && (pcd mi =? zsum (precommits mi)) &&
  (locked mi =? tbl_sum (vest mi)).
Definition network_exact_b (st : state) : bool := total st =? net_sum st.

(* ------------------------------------------------------------------------------------------ *)
(* observation encoding *)
Fixpoint insert_sorted (x : N * miner) (l : list (N * miner)) : list (N * miner) :=
  match l with
  | [] => [x]
  | y :: r => if (fst x <=? fst y)%N then x :: l else y :: insert_sorted x r
  end.
Definition sorted_miners (ms : gmap N miner) : list (N * miner) :=
  fold_right insert_sorted [] (map_to_list ms).

Definition size_z (m : gmap N Z) : Z := Z.of_nat (length (map_to_list m)).

Definition miner_obs (k : N) (mi : miner) : list Z :=
  [Z.of_N k; b2z (has_claim mi); ip mi; pcd mi; locked mi;
   tbl_sum (load (vest mi)); Z.of_nat (length (load (vest mi))); tbl_hash (load (vest mi));
   zsum (precommits mi); size_z (precommits mi);
   zsum (sectors mi); size_z (sectors mi);
   zsum (awaiting mi); size_z (awaiting mi)].

Definition enc_sends (l : list send) : list Z :=
  Z.of_nat (length l) :: flat_map (fun '(d, c) => [d; c]) l.

Definition obs (st : state) (codes : list Z) (sends : list send) : list Z :=
  (Z.of_nat (length codes) :: codes) ++ enc_sends sends ++ [total st] ++
  flat_map (fun '(k, mi) => miner_obs k mi) (sorted_miners (miners st)).

Definition stepo (st : state) (o : op) : state * list Z :=
  let '(st', codes, sends) := step st o in (st', obs st' codes sends).

Definition check_case := @Corr.check state op stepo.
