(* SPECIFICATION of the EVM word instructions (Yellow Paper, EIP-145 shifts, EIP-7939 CLZ) as functions
   on Z with W = 2^256.  Arguments are in EVM stack order: the FIRST argument is the top of the stack
   (mu_s[0]), the second is mu_s[1], ...  Every function returns a value in [0, W) when its arguments
   are in [0, W).  Definitions only; this file is the reference the implementation's algorithms
   (Model/EvmWord.v) are proved equal to, and the semantics the spec machine (Model/EvmMachine.v) uses. *)
From Coq Require Import ZArith Zpow_facts Bool.
Open Scope Z_scope.

Definition W : Z := 2 ^ 256.
Definition HALF : Z := 2 ^ 255.

Definition to_signed (x : Z) : Z := if x <? HALF then x else x - W.
Definition of_signed (y : Z) : Z := y mod W.
Definition b2w (b : bool) : Z := if b then 1 else 0.

Definition s_add (a b : Z) : Z := (a + b) mod W.
Definition s_mul (a b : Z) : Z := (a * b) mod W.
Definition s_sub (a b : Z) : Z := (a - b) mod W.
Definition s_div (a b : Z) : Z := if b =? 0 then 0 else a / b.
Definition s_sdiv (a b : Z) : Z :=
  if b =? 0 then 0 else of_signed (Z.quot (to_signed a) (to_signed b)).
Definition s_mod (a b : Z) : Z := if b =? 0 then 0 else a mod b.
Definition s_smod (a b : Z) : Z :=
  if b =? 0 then 0 else of_signed (Z.rem (to_signed a) (to_signed b)).
Definition s_addmod (a b n : Z) : Z := if n =? 0 then 0 else (a + b) mod n.
Definition s_mulmod (a b n : Z) : Z := if n =? 0 then 0 else (a * b) mod n.
(* mathematical definition; Zpow_mod is the computable square-and-multiply form, equal to it by
   Zpow_facts.Zpow_mod_correct *)
Definition s_exp_math (a e : Z) : Z := (a ^ e) mod W.
Definition s_exp (a e : Z) : Z := Zpow_mod a e W.
Definition s_signextend (b x : Z) : Z :=
  if b <? 31 then
    let t := 8 * b + 7 in
    let m := 2 ^ (t + 1) in
    let low := x mod m in
    if 2 ^ t <=? low then low + (W - m) else low
  else x.
Definition s_lt (a b : Z) : Z := b2w (a <? b).
Definition s_gt (a b : Z) : Z := b2w (b <? a).
Definition s_slt (a b : Z) : Z := b2w (to_signed a <? to_signed b).
Definition s_sgt (a b : Z) : Z := b2w (to_signed b <? to_signed a).
Definition s_eq (a b : Z) : Z := b2w (a =? b).
Definition s_iszero (a : Z) : Z := b2w (a =? 0).
Definition s_and (a b : Z) : Z := Z.land a b.
Definition s_or (a b : Z) : Z := Z.lor a b.
Definition s_xor (a b : Z) : Z := Z.lxor a b.
Definition s_not (a : Z) : Z := W - 1 - a.
Definition s_byte (i x : Z) : Z := if i <? 32 then (x / 2 ^ (8 * (31 - i))) mod 256 else 0.
Definition s_shl (s v : Z) : Z := if s <? 256 then (v * 2 ^ s) mod W else 0.
Definition s_shr (s v : Z) : Z := if s <? 256 then v / 2 ^ s else 0.
Definition s_sar (s v : Z) : Z :=
  of_signed (if s <? 256 then to_signed v / 2 ^ s else if to_signed v <? 0 then -1 else 0).
Definition s_clz (x : Z) : Z := if x =? 0 then 256 else 255 - Z.log2 x.

(* the interface both the specification and the implementation's algorithms instantiate *)
Record word_ops := {
  w_add : Z -> Z -> Z; w_mul : Z -> Z -> Z; w_sub : Z -> Z -> Z;
  w_div : Z -> Z -> Z; w_sdiv : Z -> Z -> Z; w_mod : Z -> Z -> Z; w_smod : Z -> Z -> Z;
  w_addmod : Z -> Z -> Z -> Z; w_mulmod : Z -> Z -> Z -> Z;
  w_exp : Z -> Z -> Z; w_signextend : Z -> Z -> Z;
  w_lt : Z -> Z -> Z; w_gt : Z -> Z -> Z; w_slt : Z -> Z -> Z; w_sgt : Z -> Z -> Z;
  w_eq : Z -> Z -> Z; w_iszero : Z -> Z;
  w_and : Z -> Z -> Z; w_or : Z -> Z -> Z; w_xor : Z -> Z -> Z; w_not : Z -> Z;
  w_byte : Z -> Z -> Z; w_shl : Z -> Z -> Z; w_shr : Z -> Z -> Z; w_sar : Z -> Z -> Z;
  w_clz : Z -> Z;
}.

Definition spec_ops : word_ops := {|
  w_add := s_add; w_mul := s_mul; w_sub := s_sub; w_div := s_div; w_sdiv := s_sdiv;
  w_mod := s_mod; w_smod := s_smod; w_addmod := s_addmod; w_mulmod := s_mulmod;
  w_exp := s_exp; w_signextend := s_signextend;
  w_lt := s_lt; w_gt := s_gt; w_slt := s_slt; w_sgt := s_sgt; w_eq := s_eq; w_iszero := s_iszero;
  w_and := s_and; w_or := s_or; w_xor := s_xor; w_not := s_not;
  w_byte := s_byte; w_shl := s_shl; w_shr := s_shr; w_sar := s_sar; w_clz := s_clz;
|}.

Definition in_range (x : Z) : Prop := 0 <= x < W.
