(* Executable model of the FUNDS side of the miner actor:
     actors/miner/src/state.rs   add_locked_funds, unlock_vested_funds, unlock_vested_and_unvested_funds,
                                 repay_partial_debt_in_priority_order, repay_debts, apply_penalty,
                                 add_pre_commit_deposit, add_initial_pledge, get_unlocked_balance,
                                 get_available_balance, check_balance_invariants
     actors/miner/src/lib.rs     constructor (creation deposit), apply_rewards, withdraw_balance, repay_debt,
                                 change_beneficiary, the funds part of handle_proving_deadline for a miner
                                 without sectors, get_available_balance, get_vesting_funds
     actors/miner/src/monies.rs  locked_reward_from_reward
     actors/miner/src/beneficiary.rs BeneficiaryTerm::available
   on top of Model/Vesting.v.  Definitions only.

   Conventions: a failing method changes nothing (VM roll-back, including the value sent with the
   message).  Results of the nested sends the actor only consumes (UpdatePledgeTotal, EnrollCronEvent on
   the power actor) are inputs of the operation (their exit code; 0 = ok).  `pps` is the proving
   period start used as quantisation offset; the cron moves it by whole proving periods, which does not
   change quantize_up for the reward spec (Proofs/MinerFunds_lemmas.v, pps_shift_irrelevant). *)
From Coq Require Import ZArith List Bool.
From VF Require Import Gen.Consts Base.Corr Model.Vesting.
Import ListNotations.
Open Scope Z_scope.

Inductive res (A : Type) := Ok (a : A) | Err (c : Z).
Arguments Ok {A} a.
Arguments Err {A} c.
Definition bind {A B} (r : res A) (f : A -> res B) : res B :=
  match r with Ok a => f a | Err c => Err c end.

Definition EOK := 0.
Definition ILLEGAL_ARGUMENT := 16.
Definition FORBIDDEN := 18.
Definition INSUFFICIENT_FUNDS := 19.
Definition ILLEGAL_STATE := 20.
Definition BALANCE_INVARIANTS_BROKEN := 1000.   (* lib.rs ERR_BALANCE_INVARIANTS_BROKEN *)

Definition UPDATE_PLEDGE_TOTAL_METHOD := 6.      (* ext::power *)
Definition ENROLL_CRON_EVENT_METHOD := 4.

(* ------------------------------------------------------------------------------------------ *)
(* state.rs: the funds fields of `State` *)
Record funds := {
  locked : Z;      (* locked_funds *)
  pcd : Z;         (* pre_commit_deposits *)
  ip : Z;          (* initial_pledge *)
  fee_debt : Z;
  vest : table;    (* vesting_funds, raw head :: tail *)
  pps : Z;         (* proving_period_start (quantisation offset) *)
}.

Definition empty_funds (p : Z) : funds :=
  {| locked := 0; pcd := 0; ip := 0; fee_debt := 0; vest := []; pps := p |}.

Definition set_vest_locked (f : funds) (t : table) (l : Z) : funds :=
  {| locked := l; pcd := pcd f; ip := ip f; fee_debt := fee_debt f; vest := t; pps := pps f |}.
Definition set_fee_debt (f : funds) (d : Z) : funds :=
  {| locked := locked f; pcd := pcd f; ip := ip f; fee_debt := d; vest := vest f; pps := pps f |}.
Definition set_pcd (f : funds) (d : Z) : funds :=
  {| locked := locked f; pcd := d; ip := ip f; fee_debt := fee_debt f; vest := vest f; pps := pps f |}.
Definition set_ip (f : funds) (d : Z) : funds :=
  {| locked := locked f; pcd := pcd f; ip := d; fee_debt := fee_debt f; vest := vest f; pps := pps f |}.

Definition unlocked_balance (f : funds) (bal : Z) : res Z :=
  let ub := bal - locked f - pcd f - ip f in
  if ub <? 0 then Err ILLEGAL_STATE else Ok ub.

Definition available_balance (f : funds) (bal : Z) : res Z :=
  bind (unlocked_balance f bal) (fun ub => Ok (ub - fee_debt f)).

Definition check_balance_invariants (f : funds) (bal : Z) : bool :=
  (0 <=? pcd f) && (0 <=? locked f) && (0 <=? ip f) && (0 <=? fee_debt f) &&
  (pcd f + locked f + ip f <=? bal).

Definition f_apply_penalty (f : funds) (p : Z) : res funds :=
  if p <? 0 then Err ILLEGAL_STATE else Ok (set_fee_debt f (fee_debt f + p)).

Definition f_add_pcd (f : funds) (d : Z) : res funds :=
  if pcd f + d <? 0 then Err ILLEGAL_STATE else Ok (set_pcd f (pcd f + d)).
Definition f_add_ip (f : funds) (d : Z) : res funds :=
  if ip f + d <? 0 then Err ILLEGAL_STATE else Ok (set_ip f (ip f + d)).

(* returns (state, amount unlocked) *)
Definition f_add_locked_funds (f : funds) (cur sum : Z) (sp : vspec) : res (funds * Z) :=
  if sum <? 0 then Err ILLEGAL_STATE else
  let '(t', unl) := add_locked_funds (vest f) cur sum (pps f) sp in
  let l1 := locked f - unl in
  if l1 <? 0 then Err ILLEGAL_STATE else Ok (set_vest_locked f t' (l1 + sum), unl).

Definition f_unlock_vested_funds (f : funds) (cur : Z) : res (funds * Z) :=
  if locked f =? 0 then Ok (f, 0) else
  let '(t', unl) := unlock_vested_funds (vest f) cur in
  let l1 := locked f - unl in
  if l1 <? 0 then Err ILLEGAL_STATE else Ok (set_vest_locked f t' l1, unl).

(* returns (state, unlocked_unvested, total_unlocked) *)
Definition f_unlock_vested_and_unvested (f : funds) (cur target : Z) : res (funds * Z * Z) :=
  if (target =? 0) || (locked f =? 0) then Ok (f, 0, 0) else
  let '(t', v, u) := unlock_vested_and_unvested_funds (vest f) cur target in
  let total := v + u in
  let l1 := locked f - total in
  if l1 <? 0 then Err ILLEGAL_STATE else Ok (set_vest_locked f t' l1, u, total).

(* returns (state, to_burn, total_unlocked, unlocked_unvested) *)
Definition f_repay_partial (f : funds) (cur bal : Z) : res (funds * Z * Z * Z) :=
  bind (f_unlock_vested_and_unvested f cur (fee_debt f)) (fun '(f1, unv, total) =>
  if fee_debt f1 <? unv then Err ILLEGAL_STATE else
  bind (unlocked_balance f1 bal) (fun ub =>
  let to_burn := Z.min ub (fee_debt f1) in
  Ok (set_fee_debt f1 (fee_debt f1 - to_burn), to_burn, total, unv))).

(* returns (state, amount to burn) *)
Definition f_repay_debts (f : funds) (bal : Z) : res (funds * Z) :=
  bind (unlocked_balance f bal) (fun ub =>
  if ub <? fee_debt f then Err INSUFFICIENT_FUNDS else Ok (set_fee_debt f 0, fee_debt f)).

(* monies.rs locked_reward_from_reward *)
Definition locked_reward (reward : Z) : Z := (reward * LOCKED_REWARD_FACTOR_NUM) / LOCKED_REWARD_FACTOR_DENOM.

(* ------------------------------------------------------------------------------------------ *)
(* function-level operations on `State` (driven directly by harness/src/bin/vesting.rs) *)
Inductive fop :=
| FAddLocked (cur sum : Z) (sp : vspec)
| FUnlockVested (cur : Z)
| FUnlockBoth (cur target : Z)
| FRepayPartial (cur bal : Z)
| FRepayDebts (bal : Z)
| FPenalty (p : Z)
| FAddPcd (d : Z)
| FAddIp (d : Z)
| FBalances (bal : Z).

Definition rz (r : res Z) : list Z := match r with Ok x => [0; x] | Err c => [c; 0] end.

Definition fstep (f : funds) (o : fop) : funds * list Z :=
  match o with
  | FAddLocked cur sum sp =>
      match f_add_locked_funds f cur sum sp with Ok (f', u) => (f', [0; u]) | Err c => (f, [c]) end
  | FUnlockVested cur =>
      match f_unlock_vested_funds f cur with Ok (f', u) => (f', [0; u]) | Err c => (f, [c]) end
  | FUnlockBoth cur target =>
      match f_unlock_vested_and_unvested f cur target with
      | Ok (f', u, tot) => (f', [0; u; tot]) | Err c => (f, [c]) end
  | FRepayPartial cur bal =>
      match f_repay_partial f cur bal with
      | Ok (f', burn, tot, _) => (f', [0; burn; tot]) | Err c => (f, [c]) end
  | FRepayDebts bal =>
      match f_repay_debts f bal with Ok (f', burn) => (f', [0; burn]) | Err c => (f, [c]) end
  | FPenalty p => match f_apply_penalty f p with Ok f' => (f', [0]) | Err c => (f, [c]) end
  | FAddPcd d => match f_add_pcd f d with Ok f' => (f', [0]) | Err c => (f, [c]) end
  | FAddIp d => match f_add_ip f d with Ok f' => (f', [0]) | Err c => (f, [c]) end
  | FBalances bal =>
      (f, [0] ++ rz (unlocked_balance f bal) ++ rz (available_balance f bal) ++
          [b2z (check_balance_invariants f bal)])
  end.

Definition funds_obs (f : funds) : list Z :=
  [locked f; pcd f; ip f; fee_debt f] ++ tbl_obs (vest f).

Definition fstepo (f : funds) (o : fop) : funds * list Z :=
  let '(f', r) := fstep f o in (f', r ++ funds_obs f').

Definition fcheck_case := @Corr.check funds fop fstepo.

(* ------------------------------------------------------------------------------------------ *)
(* actor level *)
Record bterm := { quota : Z; used : Z; expiration : Z }.

(* BeneficiaryTerm::available *)
Definition term_available (t : bterm) (cur : Z) : Z :=
  if cur <? expiration t then Z.max (quota t - used t) 0 else 0.

Record pchange := { p_new : Z; p_quota : Z; p_exp : Z; p_ben : bool; p_nom : bool }.

Record state := {
  bal : Z;                 (* the miner actor's balance *)
  fu : funds;
  owner : Z; worker : Z; controls : list Z;
  benef : Z; term : bterm; pending : option pchange;
  early_term : bool;       (* !state.early_terminations.is_empty() *)
}.

Definition set_bal_fu (s : state) (b : Z) (f : funds) : state :=
  {| bal := b; fu := f; owner := owner s; worker := worker s; controls := controls s;
     benef := benef s; term := term s; pending := pending s; early_term := early_term s |}.
Definition set_term (s : state) (t : bterm) : state :=
  {| bal := bal s; fu := fu s; owner := owner s; worker := worker s; controls := controls s;
     benef := benef s; term := t; pending := pending s; early_term := early_term s |}.
Definition set_benef (s : state) (b : Z) (t : bterm) (p : option pchange) : state :=
  {| bal := bal s; fu := fu s; owner := owner s; worker := worker s; controls := controls s;
     benef := b; term := t; pending := p; early_term := early_term s |}.
Definition set_early (s : state) (e : bool) : state :=
  {| bal := bal s; fu := fu s; owner := owner s; worker := worker s; controls := controls s;
     benef := benef s; term := term s; pending := pending s; early_term := e |}.

(* what a top-level message did, besides the state change *)
Record outcome := {
  code : Z;
  ret : Z;                           (* WithdrawBalance: amount_withdrawn; otherwise 0 *)
  sends : list (Z * Z * Z * Z);      (* (to, method, value, pledge-delta parameter) in call order *)
  added : Z;                         (* newly locked into the vesting table *)
  vested : Z;                        (* unlocked because its vesting epoch had passed *)
  drawn : Z;                         (* NOT yet vested funds unlocked to pay fee debt *)
  burnt : Z;                         (* sent to the burnt-funds actor *)
  paid : Z;                          (* sent to the beneficiary *)
}.
Definition fail (c : Z) : outcome :=
  {| code := c; ret := 0; sends := []; added := 0; vested := 0; drawn := 0; burnt := 0; paid := 0 |}.

Definition send_value (to_ v : Z) : list (Z * Z * Z * Z) :=
  if 0 <? v then [(to_, 0, v, 0)] else [].
(* notify_pledge_changed *)
Definition send_pledge (delta : Z) : list (Z * Z * Z * Z) :=
  if delta =? 0 then [] else [(STORAGE_POWER_ACTOR_ID, UPDATE_PLEDGE_TOTAL_METHOD, 0, delta)].
(* the exit code of a nested call matters only when the call is made *)
Definition nested (made : bool) (c : Z) : res unit := if made && negb (c =? 0) then Err c else Ok tt.

Definition finish (s : state) (o : outcome) : res (state * outcome) :=
  if check_balance_invariants (fu s) (bal s) then Ok (s, o) else Err BALANCE_INVARIANTS_BROKEN.

(* constructor: the creation deposit is locked with the reward vesting spec *)
Definition init (balance deposit epoch p own wrk : Z) : state :=
  let f := match f_add_locked_funds (empty_funds p) epoch deposit REWARD_SPEC with
           | Ok (f, _) => f | Err _ => empty_funds p end in
  {| bal := balance; fu := f; owner := own; worker := wrk; controls := [];
     benef := own; term := {| quota := 0; used := 0; expiration := 0 |}; pending := None;
     early_term := false |}.

(* apply_rewards; `s` already holds the value sent with the message *)
Definition apply_rewards_core (s : state) (caller epoch reward penalty upt : Z) : res (state * outcome) :=
  if reward <? 0 then Err ILLEGAL_ARGUMENT else
  if penalty <? 0 then Err ILLEGAL_ARGUMENT else
  if negb (caller =? REWARD_ACTOR_ID) then Err FORBIDDEN else
  let lock := locked_reward reward in
  bind (unlocked_balance (fu s) (bal s)) (fun ub =>
  if ub <? lock then Err INSUFFICIENT_FUNDS else
  bind (f_add_locked_funds (fu s) epoch lock REWARD_SPEC) (fun '(f1, newly_vested) =>
  bind (f_apply_penalty f1 penalty) (fun f2 =>
  bind (f_repay_partial f2 epoch (bal s)) (fun '(f3, to_burn, total_unlocked, unv) =>
  let delta := lock - newly_vested - total_unlocked in
  bind (nested (negb (delta =? 0)) upt) (fun _ =>
  Ok (set_bal_fu s (bal s - Z.max to_burn 0) f3,
    {| code := EOK; ret := 0; sends := send_pledge delta ++ send_value BURNT_FUNDS_ACTOR_ID to_burn;
       added := lock; vested := newly_vested + (total_unlocked - unv); drawn := unv;
       burnt := Z.max to_burn 0; paid := 0 |})))))).
(* ... followed by the final check_balance_invariants *)
Definition checked (r : res (state * outcome)) : res (state * outcome) :=
  bind r (fun '(s', o) => finish s' o).
Definition apply_rewards (s : state) (caller epoch reward penalty upt : Z) : res (state * outcome) :=
  checked (apply_rewards_core s caller epoch reward penalty upt).

Definition withdraw_balance_core (s : state) (caller epoch requested upt : Z) : res (state * outcome) :=
  if requested <? 0 then Err ILLEGAL_ARGUMENT else
  if negb ((caller =? owner s) || (caller =? benef s)) then Err FORBIDDEN else
  if early_term s then Err FORBIDDEN else
  bind (f_unlock_vested_funds (fu s) epoch) (fun '(f1, newly_vested) =>
  bind (available_balance f1 (bal s)) (fun avail =>
  bind (f_repay_debts f1 (bal s)) (fun '(f2, fee_to_burn) =>
  let amt := Z.min avail requested in
  if amt <? 0 then Err ILLEGAL_STATE else
  let r :=
    if benef s =? owner s then Ok (amt, term s) else
    let remaining := term_available (term s) epoch in
    if remaining =? 0 then Err FORBIDDEN else
    let amt' := Z.min amt remaining in
    Ok (amt', if 0 <? amt' then {| quota := quota (term s); used := used (term s) + amt';
                                   expiration := expiration (term s) |} else term s) in
  bind r (fun '(amt, tm) =>
  bind (nested (negb (newly_vested =? 0)) upt) (fun _ =>
  Ok (set_term (set_bal_fu s (bal s - Z.max amt 0 - Z.max fee_to_burn 0) f2) tm,
    {| code := EOK; ret := amt;
       sends := send_value (benef s) amt ++ send_value BURNT_FUNDS_ACTOR_ID fee_to_burn ++
                send_pledge (- newly_vested);
       added := 0; vested := newly_vested; drawn := 0;
       burnt := Z.max fee_to_burn 0; paid := Z.max amt 0 |})))))).
Definition withdraw_balance (s : state) (caller epoch requested upt : Z) : res (state * outcome) :=
  checked (withdraw_balance_core s caller epoch requested upt).

Definition is_control (s : state) (c : Z) : bool :=
  existsb (Z.eqb c) (controls s ++ [worker s; owner s]).

Definition repay_debt_core (s : state) (caller epoch upt : Z) : res (state * outcome) :=
  if negb (is_control s caller) then Err FORBIDDEN else
  bind (f_repay_partial (fu s) epoch (bal s)) (fun '(f1, to_burn, total_unlocked, unv) =>
  bind (nested (negb (total_unlocked =? 0)) upt) (fun _ =>
  Ok (set_bal_fu s (bal s - Z.max to_burn 0) f1,
    {| code := EOK; ret := 0;
       sends := send_pledge (- total_unlocked) ++ send_value BURNT_FUNDS_ACTOR_ID to_burn;
       added := 0; vested := total_unlocked - unv; drawn := unv;
       burnt := Z.max to_burn 0; paid := 0 |}))).
Definition repay_debt (s : state) (caller epoch upt : Z) : res (state * outcome) :=
  checked (repay_debt_core s caller epoch upt).

(* handle_proving_deadline for a miner without sectors or pre-commits; `penalty` stands for the fees
   the un-modelled sector bookkeeping charges (0 in the C14 harness) *)
Definition deadline_cron_core (s : state) (caller epoch penalty upt enr : Z) : res (state * outcome) :=
  if negb (caller =? STORAGE_POWER_ACTOR_ID) then Err FORBIDDEN else
  bind (f_apply_penalty (fu s) penalty) (fun f0 =>
  bind (f_repay_partial f0 epoch (bal s)) (fun '(f1, to_burn, total_unlocked, unv) =>
  bind (f_unlock_vested_funds f1 epoch) (fun '(f2, newly_vested) =>
  let delta := - total_unlocked - newly_vested in
  let continue_cron := negb (pcd f2 =? 0) || negb (ip f2 =? 0) || negb (locked f2 =? 0) in
  bind (nested (negb (delta =? 0)) upt) (fun _ =>
  bind (nested continue_cron enr) (fun _ =>
  Ok (set_bal_fu s (bal s - Z.max to_burn 0) f2,
    {| code := EOK; ret := 0;
       sends := send_value BURNT_FUNDS_ACTOR_ID to_burn ++ send_pledge delta ++
                (if continue_cron then [(STORAGE_POWER_ACTOR_ID, ENROLL_CRON_EVENT_METHOD, 0, 0)] else []);
       added := 0; vested := (total_unlocked - unv) + newly_vested; drawn := unv;
       burnt := Z.max to_burn 0; paid := 0 |})))))).
Definition deadline_cron (s : state) (caller epoch penalty upt enr : Z) : res (state * outcome) :=
  checked (deadline_cron_core s caller epoch penalty upt enr).

Definition change_beneficiary (s : state) (caller epoch : Z) (newb : option Z) (q e : Z)
  : res (state * outcome) :=
  match newb with
  | None => Err ILLEGAL_ARGUMENT
  | Some nb =>
    let proposal : res pchange :=
      if caller =? owner s then
        let chk :=
          if negb (nb =? owner s) then (if q <=? 0 then Err ILLEGAL_ARGUMENT else Ok tt)
          else if negb (q =? 0) then Err ILLEGAL_ARGUMENT
          else if negb (e =? 0) then Err ILLEGAL_ARGUMENT else Ok tt in
        bind chk (fun _ =>
          Ok {| p_new := nb; p_quota := q; p_exp := e;
                p_ben := (term_available (term s) epoch =? 0); p_nom := false |})
      else match pending s with
        | Some pt =>
            if negb (caller =? benef s) && negb (caller =? p_new pt) then Err FORBIDDEN else
            if negb (p_new pt =? nb) then Err ILLEGAL_ARGUMENT else
            if negb (p_quota pt =? q) then Err ILLEGAL_ARGUMENT else
            if negb (p_exp pt =? e) then Err ILLEGAL_ARGUMENT else Ok pt
        | None => Err FORBIDDEN
        end in
    bind proposal (fun pt =>
      let by_ben := p_ben pt || (caller =? benef s) in
      let by_nom := p_nom pt || (caller =? nb) in
      let s' :=
        if by_ben && by_nom then
          set_benef s nb {| quota := p_quota pt;
                            used := if negb (nb =? benef s) then 0 else used (term s);
                            expiration := p_exp pt |} None
        else set_benef s (benef s) (term s)
               (Some {| p_new := p_new pt; p_quota := p_quota pt; p_exp := p_exp pt;
                        p_ben := by_ben; p_nom := by_nom |}) in
      Ok (s', {| code := EOK; ret := 0; sends := []; added := 0; vested := 0; drawn := 0;
                 burnt := 0; paid := 0 |}))
  end.

Inductive op :=
| ApplyRewards (caller epoch value reward penalty upt : Z)
| Withdraw (caller epoch value requested upt : Z)
| RepayDebt (caller epoch value upt : Z)
| ChangeBenef (caller epoch value : Z) (newb : option Z) (q e : Z)
| Cron (caller epoch penalty upt enr : Z)
| Deposit (amt : Z)                 (* plain value transfer to the miner actor *)
| AddPcd (d : Z)                    (* hook: what pre-commit does to the ledger (deposit d <= available) *)
| AddIp (d : Z)                     (* hook: what prove-commit does to the ledger (pledge d <= unlocked) *)
| SetEarlyTerm (b : bool).          (* hook: early terminations pending / processed *)

Definition ok_out : outcome :=
  {| code := EOK; ret := 0; sends := []; added := 0; vested := 0; drawn := 0; burnt := 0; paid := 0 |}.

Definition credit (s : state) (v : Z) : state := set_bal_fu s (bal s + v) (fu s).

Definition handle (s : state) (o : op) : res (state * outcome) :=
  match o with
  | ApplyRewards c e v r p upt =>
      if v <? 0 then Err ILLEGAL_ARGUMENT else apply_rewards (credit s v) c e r p upt
  | Withdraw c e v req upt =>
      if v <? 0 then Err ILLEGAL_ARGUMENT else withdraw_balance (credit s v) c e req upt
  | RepayDebt c e v upt =>
      if v <? 0 then Err ILLEGAL_ARGUMENT else repay_debt (credit s v) c e upt
  | ChangeBenef c e v nb q ex =>
      if v <? 0 then Err ILLEGAL_ARGUMENT else change_beneficiary (credit s v) c e nb q ex
  | Cron c e p upt enr => deadline_cron s c e p upt enr
  | Deposit a => if a <? 0 then Err ILLEGAL_ARGUMENT else Ok (credit s a, ok_out)
  | AddPcd d =>
      bind (available_balance (fu s) (bal s)) (fun av =>
      if av <? d then Err INSUFFICIENT_FUNDS else
      bind (f_add_pcd (fu s) d) (fun f => Ok (set_bal_fu s (bal s) f, ok_out)))
  | AddIp d =>
      bind (unlocked_balance (fu s) (bal s)) (fun ub =>
      if ub <? d then Err INSUFFICIENT_FUNDS else
      bind (f_add_ip (fu s) d) (fun f => Ok (set_bal_fu s (bal s) f, ok_out)))
  | SetEarlyTerm b => Ok (set_early s b, ok_out)
  end.

Definition step (s : state) (o : op) : state * outcome :=
  match handle s o with
  | Ok (s', out) => (s', out)
  | Err c => (s, fail c)
  end.

(* ---- observation encoding ---- *)
Definition enc_pending (p : option pchange) : list Z :=
  match p with
  | None => [0; 0; 0; 0; 0; 0]
  | Some pt => [1; p_new pt; p_quota pt; p_exp pt; b2z (p_ben pt); b2z (p_nom pt)]
  end.
Definition enc_sends (l : list (Z * Z * Z * Z)) : list Z :=
  Z.of_nat (length l) :: flat_map (fun '(t, m, v, p) => [t; m; v; p]) l.

Definition obs (s : state) (o : outcome) : list Z :=
  [code o; ret o; bal s; locked (fu s); pcd (fu s); ip (fu s); fee_debt (fu s);
   benef s; quota (term s); used (term s); expiration (term s)] ++
  enc_pending (pending s) ++ [b2z (early_term s)] ++
  rz (available_balance (fu s) (bal s)) ++          (* GetAvailableBalance *)
  [tbl_hash (load (vest (fu s)))] ++                (* GetVestingFunds *)
  enc_sends (sends o) ++
  tbl_obs (vest (fu s)).

Definition stepo (s : state) (o : op) : state * list Z :=
  let '(s', out) := step s o in (s', obs s' out).

Definition check_case := @Corr.check state op stepo.
