(* VM ledger model for C01: balances of all actors and the effect of one executed top-level message,
   given as its invocation tree (exactly the shape of vm_api::trace::InvocationTrace).  No actor
   semantics is assumed here: the tree is arbitrary.  Definitions only. *)
From stdpp Require Import gmap.
From Coq Require Import ZArith List Bool.
From VF Require Import Base.Corr Gen.Consts.
Import ListNotations.
Open Scope Z_scope.

Notation ledger := (gmap Z Z).
Definition bal (b : ledger) (a : Z) : Z := default 0 (b !! a).

(* an invocation: sender, receiver (resolved id), value, did it succeed, nested sends in call order *)
Inductive inv := Inv (from to : Z) (value : Z) (ok : bool) (children : list inv).

Definition transfer (b : ledger) (f t v : Z) : ledger :=
  let b1 := <[ f := bal b f - v ]> b in
  <[ t := bal b1 t + v ]> b1.

(* None = the trace is inconsistent with the VM's transfer rule (a successful invocation that moved a
   negative value or more than the sender had). A failed invocation leaves the balances exactly as they
   were at its entry, whatever its children did (roll-back), and its parent continues. *)
Fixpoint apply (b : ledger) (i : inv) {struct i} : option ledger :=
  match i with
  | Inv f t v ok ch =>
      if negb ok then Some b else
      if (v <? 0) || (bal b f <? v) then None else
      (fix go (b : ledger) (l : list inv) {struct l} : option ledger :=
         match l with
         | [] => Some b
         | x :: r => match apply b x with Some b' => go b' r | None => None end
         end) (transfer b f t v) ch
  end.

Definition apply_list : ledger -> list inv -> option ledger :=
  fix go (b : ledger) (l : list inv) {struct l} : option ledger :=
    match l with
    | [] => Some b
    | x :: r => match apply b x with Some b' => go b' r | None => None end
    end.

Definition total (b : ledger) : Z := map_fold (fun _ v acc => v + acc) 0 b.

(* canonical observation: the non-zero balances sorted by actor id *)
Fixpoint insert_sorted (x : Z * Z) (l : list (Z * Z)) : list (Z * Z) :=
  match l with
  | [] => [x]
  | y :: r => if fst x <=? fst y then x :: l else y :: insert_sorted x r
  end.
Definition nonzero_sorted (b : ledger) : list (Z * Z) :=
  fold_right insert_sorted [] (filter (fun p => negb (snd p =? 0)) (map_to_list b)).
Definition enc (b : ledger) : list Z := flat_map (fun p => [fst p; snd p]) (nonzero_sorted b).

Definition of_list (l : list (Z * Z)) : ledger := list_to_map l.

(* ids mentioned by a trace, sorted and without repeats *)
Fixpoint ins_dedup (x : Z) (l : list Z) : list Z :=
  match l with
  | [] => [x]
  | y :: r => if x <? y then x :: l else if x =? y then l else y :: ins_dedup x r
  end.
Fixpoint touched (i : inv) (acc : list Z) {struct i} : list Z :=
  match i with
  | Inv f t v ok ch =>
      (fix go (l : list inv) (acc : list Z) {struct l} : list Z :=
         match l with [] => acc | x :: r => go r (touched x acc) end) ch (ins_dedup t (ins_dedup f acc))
  end.

(* one step of the correspondence: a top-level message given by its trace; the observation is the total
   of all balances and the balance of every actor the trace mentions *)
Definition stepo (b : ledger) (i : inv) : ledger * list Z :=
  match apply b i with
  | Some b' => (b', 1 :: total b' :: flat_map (fun a => [a; bal b' a]) (touched i []))
  | None => (b, [0])
  end.
Definition check_case := @Corr.check ledger inv stepo.

(* ---- reward actor: award_block_reward (actors/reward/src/lib.rs) ---- *)
Definition EXPECTED_LEADERS := 5.
Record award_out := { a_code : Z; a_total_reward : Z; a_to_miner : Z; a_burnt : Z }.
(* balance: reward actor balance; this_epoch_reward; miner_ok: does ApplyRewards succeed *)
Definition award (balance this_epoch_reward penalty gas_reward win_count : Z) (miner_resolves miner_ok : bool)
  : award_out :=
  let fail c := {| a_code := c; a_total_reward := 0; a_to_miner := 0; a_burnt := 0 |} in
  if penalty <? 0 then fail 16 else
  if gas_reward <? 0 then fail 16 else
  if balance <? gas_reward then fail 20 else
  if win_count <=? 0 then fail 16 else
  if negb miner_resolves then fail 17 else
  let block_reward := (this_epoch_reward * win_count) / EXPECTED_LEADERS in
  let total_reward := gas_reward + block_reward in
  let total_reward := if balance <? total_reward then balance else total_reward in
  if balance <? total_reward then fail 20 else
  if miner_ok then {| a_code := 0; a_total_reward := total_reward; a_to_miner := total_reward; a_burnt := 0 |}
  else {| a_code := 0; a_total_reward := total_reward; a_to_miner := 0; a_burnt := total_reward |}.
