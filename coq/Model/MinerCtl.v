(* Executable model of the control plane of the miner actor (property C13):
   actors/miner/src/lib.rs  change_owner_address, change_worker_address,
   confirm_change_worker_address, process_pending_worker (called from handle_proving_deadline, i.e.
   the deadline cron), change_beneficiary, withdraw_balance (caller / payee / used_quota part),
   change_peer_id (as the representative of the methods gated by control addresses + worker + owner),
   actors/miner/src/beneficiary.rs (BeneficiaryTerm::available, PendingBeneficiaryChange) and the
   MinerInfo fields of actors/miner/src/state.rs.  Definitions only. *)
From Coq Require Import ZArith List Bool.
From VF Require Import Gen.Consts Base.Corr.
Import ListNotations.
Open Scope Z_scope.

(* BeneficiaryTerm *)
Record term := { quota : Z; used : Z; expiration : Z }.

(* PendingBeneficiaryChange *)
Record pterm := {
  pb_new : Z; pb_quota : Z; pb_exp : Z;
  pb_by_ben : bool;      (* approved_by_beneficiary *)
  pb_by_nom : bool;      (* approved_by_nominee *)
}.

(* MinerInfo (control fields) + the miner's withdrawable balance *)
Record state := {
  owner : Z;
  pending_owner : option Z;               (* pending_owner_address *)
  worker : Z;
  pending_worker : option (Z * Z);        (* pending_worker_key: (new_worker, effective_at) *)
  controls : list Z;                      (* control_addresses, in stored order *)
  beneficiary : Z;
  bterm : term;                           (* beneficiary_term *)
  pending_term : option pterm;            (* pending_beneficiary_term *)
  funds : Z;                              (* available balance of the miner actor *)
}.

(* MinerInfo::new: beneficiary = owner, default term, nothing pending *)
Definition init (o w : Z) (cs : list Z) (bal : Z) : state :=
  {| owner := o; pending_owner := None; worker := w; pending_worker := None; controls := cs;
     beneficiary := o; bterm := {| quota := 0; used := 0; expiration := 0 |};
     pending_term := None; funds := bal |}.

(* result of resolve_worker_address on the raw `new_worker` parameter *)
Inductive wres :=
| WUnresolved            (* rt.resolve_address = None *)
| WNoActor               (* resolves, but no actor / no code at that id *)
| WNotAccount            (* actor type is not Account *)
| WNotBLS                (* account whose pubkey address is not BLS *)
| WOk (id : Z).          (* account with a BLS key *)

Inductive op :=
| ChangeOwner (caller epoch new : Z) (is_id : bool)      (* is_id: new_owner has Protocol::ID *)
| ChangeWorker (caller epoch : Z) (nw : wres) (ctrls : list (option Z)) (* None: unresolvable control address *)
| ConfirmWorker (caller epoch : Z)
| Cron (epoch : Z)                                        (* OnDeferredCronEvent(ProvingDeadline) from the power actor *)
| ChangeBeneficiary (caller epoch : Z) (nb : option Z) (q x : Z) (* nb = None: unresolvable new_beneficiary *)
| Withdraw (caller epoch req : Z)
| ChangePeer (caller epoch : Z).

(* exit codes *)
Definition OK := 0.
Definition ILLEGAL_ARGUMENT := 16.
Definition FORBIDDEN := 18.
Definition ILLEGAL_STATE := 20.

Definition is_none {A} (o : option A) : bool := match o with None => true | Some _ => false end.

(* BeneficiaryTerm::available *)
Definition available (t : term) (cur : Z) : Z :=
  if cur <? expiration t then Z.max (quota t - used t) 0 else 0.

(* ---- change_owner_address ---- *)
(* "Clear any no-op change" *)
Definition clear_noop (st : state) : state :=
  match pending_owner st with
  | Some p =>
      if p =? owner st then
        {| owner := owner st; pending_owner := None; worker := worker st;
           pending_worker := pending_worker st; controls := controls st;
           beneficiary := beneficiary st; bterm := bterm st; pending_term := pending_term st;
           funds := funds st |}
      else st
  | None => st
  end.

Definition change_owner (st : state) (c new : Z) (is_id : bool) : state * Z :=
  if negb is_id then (st, ILLEGAL_ARGUMENT) else
  if (c =? owner st) || is_none (pending_owner st) then
    (* validate_immediate_caller_is([owner]) *)
    if negb (c =? owner st) then (st, FORBIDDEN) else
    (clear_noop
       {| owner := owner st; pending_owner := Some new; worker := worker st;
          pending_worker := pending_worker st; controls := controls st;
          beneficiary := beneficiary st; bterm := bterm st; pending_term := pending_term st;
          funds := funds st |}, OK)
  else
    match pending_owner st with
    | None => (st, FORBIDDEN)      (* unreachable: the first branch covers None *)
    | Some p =>
        (* validate_immediate_caller_is([pending_address]) *)
        if negb (c =? p) then (st, FORBIDDEN) else
        if negb (new =? p) then (st, ILLEGAL_ARGUMENT) else
        (clear_noop
           {| owner := p; pending_owner := Some p; worker := worker st;
              pending_worker := pending_worker st; controls := controls st;
              beneficiary := if beneficiary st =? owner st then p else beneficiary st;
              bterm := bterm st;
              pending_term := None;
              funds := funds st |}, OK)
    end.

(* ---- change_worker_address ---- *)
Fixpoint resolve_all (l : list (option Z)) : option (list Z) :=
  match l with
  | [] => Some []
  | None :: _ => None
  | Some a :: r => match resolve_all r with Some r' => Some (a :: r') | None => None end
  end.

Definition change_worker (st : state) (c e : Z) (nw : wres) (ctrls : list (option Z)) : state * Z :=
  (* check_control_addresses *)
  if MAX_CONTROL_ADDRESSES <? Z.of_nat (length ctrls) then (st, ILLEGAL_ARGUMENT) else
  (* resolve_worker_address *)
  match nw with
  | WOk n =>
      match resolve_all ctrls with
      | None => (st, ILLEGAL_ARGUMENT)
      | Some cs =>
          if negb (c =? owner st) then (st, FORBIDDEN) else
          let pw := if negb (n =? worker st) && is_none (pending_worker st)
                    then Some (n, e + WORKER_KEY_CHANGE_DELAY) else pending_worker st in
          ({| owner := owner st; pending_owner := pending_owner st; worker := worker st;
              pending_worker := pw; controls := cs;
              beneficiary := beneficiary st; bterm := bterm st; pending_term := pending_term st;
              funds := funds st |}, OK)
      end
  | _ => (st, ILLEGAL_ARGUMENT)
  end.

(* ---- process_pending_worker ---- *)
Definition process_pending_worker (st : state) (e : Z) : state :=
  match pending_worker st with
  | None => st
  | Some (n, eff) =>
      if e <? eff then st else
      {| owner := owner st; pending_owner := pending_owner st; worker := n;
         pending_worker := None; controls := controls st;
         beneficiary := beneficiary st; bterm := bterm st; pending_term := pending_term st;
         funds := funds st |}
  end.

Definition confirm_worker (st : state) (c e : Z) : state * Z :=
  if negb (c =? owner st) then (st, FORBIDDEN) else (process_pending_worker st e, OK).

(* ---- change_beneficiary ---- *)
(* the first half of the transaction: the proposal in force after the caller/argument checks,
   or the exit code *)
Definition cb_pending (st : state) (c e nb q x : Z) : Z + pterm :=
  if c =? owner st then
    let fresh := {| pb_new := nb; pb_quota := q; pb_exp := x;
                    pb_by_ben := (available (bterm st) e =? 0); pb_by_nom := false |} in
    if negb (nb =? owner st) then
      if negb (0 <? q) then inl ILLEGAL_ARGUMENT else inr fresh
    else
      if negb (q =? 0) then inl ILLEGAL_ARGUMENT else
      if negb (x =? 0) then inl ILLEGAL_ARGUMENT else inr fresh
  else
    match pending_term st with
    | Some pt =>
        if negb (c =? beneficiary st) && negb (c =? pb_new pt) then inl FORBIDDEN else
        if negb (pb_new pt =? nb) then inl ILLEGAL_ARGUMENT else
        if negb (pb_quota pt =? q) then inl ILLEGAL_ARGUMENT else
        if negb (pb_exp pt =? x) then inl ILLEGAL_ARGUMENT else inr pt
    | None => inl FORBIDDEN
    end.

(* the second half: record the caller's approval, apply when both sides approved *)
Definition cb_apply (st : state) (c nb : Z) (pt : pterm) : state :=
  let by_ben := pb_by_ben pt || (c =? beneficiary st) in
  let by_nom := pb_by_nom pt || (c =? nb) in
  if by_ben && by_nom then
    {| owner := owner st; pending_owner := pending_owner st; worker := worker st;
       pending_worker := pending_worker st; controls := controls st;
       beneficiary := nb;
       bterm := {| quota := pb_quota pt;
                   used := if negb (nb =? beneficiary st) then 0 else used (bterm st);
                   expiration := pb_exp pt |};
       pending_term := None; funds := funds st |}
  else
    {| owner := owner st; pending_owner := pending_owner st; worker := worker st;
       pending_worker := pending_worker st; controls := controls st;
       beneficiary := beneficiary st; bterm := bterm st;
       pending_term := Some {| pb_new := pb_new pt; pb_quota := pb_quota pt; pb_exp := pb_exp pt;
                               pb_by_ben := by_ben; pb_by_nom := by_nom |};
       funds := funds st |}.

Definition change_beneficiary (st : state) (c e : Z) (nb : option Z) (q x : Z) : state * Z :=
  match nb with
  | None => (st, ILLEGAL_ARGUMENT)
  | Some nb =>
      match cb_pending st c e nb q x with
      | inl code => (st, code)
      | inr pt => (cb_apply st c nb pt, OK)
      end
  end.

(* ---- withdraw_balance (control part) ---- *)
Definition withdraw (st : state) (c e req : Z) : state * Z :=
  if req <? 0 then (st, ILLEGAL_ARGUMENT) else
  if negb ((c =? owner st) || (c =? beneficiary st)) then (st, FORBIDDEN) else
  let amt := Z.min (funds st) req in
  if amt <? 0 then (st, ILLEGAL_STATE) else
  if negb (beneficiary st =? owner st) then
    let rem := available (bterm st) e in
    if rem =? 0 then (st, FORBIDDEN) else
    let amt := Z.min amt rem in
    ({| owner := owner st; pending_owner := pending_owner st; worker := worker st;
        pending_worker := pending_worker st; controls := controls st;
        beneficiary := beneficiary st;
        bterm := {| quota := quota (bterm st);
                    used := if 0 <? amt then used (bterm st) + amt else used (bterm st);
                    expiration := expiration (bterm st) |};
        pending_term := pending_term st; funds := funds st - amt |}, OK)
  else
    ({| owner := owner st; pending_owner := pending_owner st; worker := worker st;
        pending_worker := pending_worker st; controls := controls st;
        beneficiary := beneficiary st; bterm := bterm st;
        pending_term := pending_term st; funds := funds st - amt |}, OK).

(* ---- change_peer_id: validate_immediate_caller_is(control_addresses ++ [worker, owner]) ---- *)
Fixpoint zmem (x : Z) (l : list Z) : bool :=
  match l with [] => false | y :: r => (x =? y) || zmem x r end.

Definition control_set (st : state) : list Z := controls st ++ [worker st; owner st].

Definition change_peer (st : state) (c : Z) : state * Z :=
  if zmem c (control_set st) then (st, OK) else (st, FORBIDDEN).

Definition step (st : state) (o : op) : state * Z :=
  match o with
  | ChangeOwner c _ new is_id => change_owner st c new is_id
  | ChangeWorker c e nw ctrls => change_worker st c e nw ctrls
  | ConfirmWorker c e => confirm_worker st c e
  | Cron e => (process_pending_worker st e, OK)
  | ChangeBeneficiary c e nb q x => change_beneficiary st c e nb q x
  | Withdraw c e req => withdraw st c e req
  | ChangePeer c _ => change_peer st c
  end.

(* ---- observation encoding for the correspondence check ---- *)
Definition enc_pw (o : option (Z * Z)) : list Z :=
  match o with None => [0] | Some (n, eff) => [1; n; eff] end.
Definition enc_pt (o : option pterm) : list Z :=
  match o with
  | None => [0]
  | Some p => [1; pb_new p; pb_quota p; pb_exp p; b2z (pb_by_ben p); b2z (pb_by_nom p)]
  end.

(* [code; amount withdrawn; payee; owner; pending owner; worker; pending worker; #controls;
    controls...; beneficiary; quota; used; expiration; pending term; funds] *)
Definition obs (st st' : state) (code : Z) : list Z :=
  let paid := funds st - funds st' in
  [code; paid; (if 0 <? paid then beneficiary st else 0); owner st'] ++ oz (pending_owner st') ++
  [worker st'] ++ enc_pw (pending_worker st') ++
  [Z.of_nat (length (controls st'))] ++ controls st' ++
  [beneficiary st'; quota (bterm st'); used (bterm st'); expiration (bterm st')] ++
  enc_pt (pending_term st') ++ [funds st'].

Definition stepo (st : state) (o : op) : state * list Z :=
  let '(st', c) := step st o in (st', obs st st' c).

Definition check_case := @Corr.check state op stepo.

(* ---- projections used by the theorems ---- *)
Definition caller_of (o : op) : option Z :=
  match o with
  | ChangeOwner c _ _ _ | ChangeWorker c _ _ _ | ConfirmWorker c _
  | ChangeBeneficiary c _ _ _ _ | Withdraw c _ _ | ChangePeer c _ => Some c
  | Cron _ => None
  end.

Definition epoch_of (o : op) : Z :=
  match o with
  | ChangeOwner _ e _ _ | ChangeWorker _ e _ _ | ConfirmWorker _ e | Cron e
  | ChangeBeneficiary _ e _ _ _ | Withdraw _ e _ | ChangePeer _ e => e
  end.
