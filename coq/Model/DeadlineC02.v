(* C02 at deadline level (definitions only): the power credited for a deadline and the delta each
   deadline operation reports to the miner actor (which forwards it to UpdateClaimedPower). *)
From Coq Require Import ZArith List Bool.
From stdpp Require Import gmap.
From VF Require Import Base.SetSum Model.Partition Model.PartitionInv Model.Deadline Model.DeadlineInv.
Import ListNotations.
Open Scope Z_scope.

Definition dcredited (tbl : gmap N sector) (d : deadline) : pp := psum (credited tbl) (parts d).
Definition ds_credited (st : dstate) : pp := dcredited (ds_tbl st) (ds_dl st).

(* lib.rs / state.rs: record_faults, record_proven_sectors and process_deadline_end return the
   delta; terminate returns the power lost and expiry the expired active power, both subtracted by
   the caller; sectors are always added unproven by assign_sectors_to_deadlines (a proven add
   happens only inside compaction, which moves sectors and reports no delta) *)
Definition dstep_delta (st : dstate) (o : dop) : pp :=
  let qs := ds_q st in
  let tbl := ds_tbl st in
  let d := ds_dl st in
  match o with
  | DAddSectors proven secs =>
      match d_add_sectors qs d (ds_psize st) proven true secs with
      | Ok (_, pw, _) => if proven then pw else pp0
      | Err _ => pp0
      end
  | DRecordProven fe posts =>
      match d_record_proven_sectors qs tbl d fe posts with
      | Ok (_, r) => pr_power_delta r | Err _ => pp0 end
  | DProcessDeadlineEnd fe =>
      match d_process_deadline_end qs d fe with Ok (_, delta, _) => delta | Err _ => pp0 end
  | DPopExpired until =>
      match d_pop_expired_sectors d until with
      | Ok (_, agg) => pp_neg (active_power agg) | Err _ => pp0 end
  | DTerminate epoch psm =>
      match d_terminate_sectors qs tbl d epoch psm with
      | Ok (_, lost) => pp_neg lost | Err _ => pp0 end
  | DRecordFaults fe psm =>
      match d_record_faults qs tbl d fe psm with Ok (_, delta) => delta | Err _ => pp0 end
  | _ => pp0
  end.

Fixpoint dsum_deltas (st : dstate) (ops : list dop) : pp :=
  match ops with
  | [] => pp0
  | o :: r => pp_add (dstep_delta st o) (dsum_deltas (dnext st o) r)
  end.
