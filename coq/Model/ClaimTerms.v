(* Executable model for property C10: the verified registry (Model/Verifreg.v, unchanged) joined with
   a view of the miners' sectors and exact transcriptions of the miner-side claim logic of
   actors/miner/src/lib.rs: validate_extension_declarations (claim lookup by list of ids, the (check, maintain)
   accumulation, and -- since fix 081fc6c -- the rejection of repeated ids / repeated sectors), extend_sector_committment, validate_extended_expiration,
   validate_expiration, extend_simple_qap_sector, extend_non_simple_qap_sector, and the
   ClaimAllocations call of activate_sectors_pieces (ProveCommitSectors3).  Definitions only.

   Not modelled: deadlines/partitions/expiration queues (the harness always names the sector's real
   location; sectors are proven and never faulty), power, pledge, fees. *)
From stdpp Require Import gmap.
From Coq Require Import ZArith List Bool.
From VF Require Import Gen.Consts Gen.VerifregConsts Base.Corr Model.Verifreg.
Import ListNotations.
Open Scope Z_scope.

Record sector := {
  s_activation : Z; s_expiration : Z; s_power_base : Z;
  s_dweight : Z;            (* deal_weight *)
  s_vweight : Z;            (* verified_deal_weight *)
  s_simple : bool;          (* SIMPLE_QA_POWER flag *)
  s_terminated : bool;
  s_backing : list Z        (* ghost: claim ids declared to back the verified space *)
}.

Record cstate := {
  vr : state;
  sectors : gmap (Z * Z) sector;      (* (provider, sector number) *)
  ctrl : list (Z * Z)                 (* static: (miner, owner/worker/control id) *)
}.

Definition cinit (w : world) (c : list (Z * Z)) : cstate := {| vr := init w; sectors := ∅; ctrl := c |}.

(* maximum lifetime of the seal proofs used (V1P1 family): 5 years *)
Definition SECTOR_MAX_LIFETIME := 5 * EPOCHS_IN_YEAR.

Record sclaim := { sc_sector : Z; sc_maintain : list Z; sc_drop : list Z }.
Record edecl := { ed_deadline : Z; ed_new_exp : Z; ed_sectors : list Z; ed_claims : list sclaim }.

(* ---- validate_extension_declarations ---- *)
Definition add_space (m : gmap Z (Z * Z)) (n check maintain : Z) : gmap Z (Z * Z) :=
  match m !! n with
  | Some (c, k) => <[ n := (c + check, k + maintain) ]> m
  | None => <[ n := (check, maintain) ]> m
  end.

(* the loop over the claims returned by GetClaims for one SectorClaim; `i` counts positions,
   positions below `first_drop` are maintained *)
Fixpoint acc_claims (provider new_exp n : Z) (cs : list claim) (i first_drop : nat)
    (m : gmap Z (Z * Z)) : R (gmap Z (Z * Z)) :=
  match cs with
  | [] => Ok m
  | c :: rest =>
      if negb (c_provider c =? provider) then Err ILLEGAL_ARGUMENT else
      if negb (c_sector c =? n) then Err ILLEGAL_ARGUMENT else
      if (i <? first_drop)%nat then
        if c_tstart c + c_tmax c <? new_exp then Err FORBIDDEN else
        acc_claims provider new_exp n rest (S i) first_drop (add_space m n (c_size c) (c_size c))
      else
        acc_claims provider new_exp n rest (S i) first_drop (add_space m n (c_size c) 0)
  end.

(* get_claims: every listed id must exist, else "invalid claims" *)
Fixpoint lookup_claims (cl : gmap (Z * Z) claim) (provider : Z) (ids : list Z) : option (list claim) :=
  match ids with
  | [] => Some []
  | id :: rest =>
      match cl !! (provider, id), lookup_claims cl provider rest with
      | Some c, Some cs => Some (c :: cs)
      | _, _ => None
      end
  end.

(* a repeated element (the BTreeSet insert that fails) *)
Fixpoint has_dupZ (l : list Z) : bool :=
  match l with [] => false | x :: r => mem x r || has_dupZ r end.

Fixpoint acc_sclaims (cl : gmap (Z * Z) claim) (provider new_exp : Z) (scs : list sclaim)
    (m : gmap Z (Z * Z)) : R (gmap Z (Z * Z)) :=
  match scs with
  | [] => Ok m
  | sc :: rest =>
      (* a claim may be listed only once for a sector (fix 081fc6c) *)
      if has_dupZ (sc_maintain sc ++ sc_drop sc) then Err ILLEGAL_ARGUMENT else
      match lookup_claims cl provider (sc_maintain sc ++ sc_drop sc) with
      | None => Err ILLEGAL_ARGUMENT
      | Some cs =>
          let? m1 := acc_claims provider new_exp (sc_sector sc) cs O (length (sc_maintain sc)) m in
          acc_sclaims cl provider new_exp rest m1
      end
  end.

(* the sector numbers of a declaration, as the BitField enumerates them: increasing, no repeats *)
Fixpoint dedup_sorted (l : list Z) : list Z :=
  match l with
  | x :: ((y :: _) as r) => if x =? y then dedup_sorted r else x :: dedup_sorted r
  | _ => l
  end.
Definition decl_sectors (d : edecl) : list Z :=
  dedup_sorted (sortZ (ed_sectors d ++ map sc_sector (ed_claims d))).

(* `declared` = the sectors named by the declarations already processed (fix 081fc6c: a sector has
   at most one claim entry in a declaration and is named by at most one declaration) *)
Fixpoint validate_decls (cl : gmap (Z * Z) claim) (provider : Z) (ds : list edecl)
    (declared : list Z) (m : gmap Z (Z * Z)) : R (gmap Z (Z * Z)) :=
  match ds with
  | [] => Ok m
  | d :: rest =>
      if WPOST_PERIOD_DEADLINES <=? ed_deadline d then Err ILLEGAL_ARGUMENT else
      if has_dupZ (map sc_sector (ed_claims d)) then Err ILLEGAL_ARGUMENT else
      if existsb (fun n => mem n declared) (decl_sectors d) then Err ILLEGAL_ARGUMENT else
      let? m1 := acc_sclaims cl provider (ed_new_exp d) (ed_claims d) m in
      validate_decls cl provider rest (decl_sectors d ++ declared) m1
  end.

(* ---- validate_extended_expiration + validate_expiration ---- *)
Definition check_new_expiration (epoch new_exp : Z) (s : sector) : Z :=
  if s_expiration s <? epoch then FORBIDDEN else
  if new_exp <? s_expiration s then ILLEGAL_ARGUMENT else
  if new_exp <=? s_activation s then ILLEGAL_ARGUMENT else
  if new_exp - s_activation s <? MIN_SECTOR_EXPIRATION then ILLEGAL_ARGUMENT else
  if epoch + MAX_SECTOR_EXPIRATION_EXTENSION <? new_exp then ILLEGAL_ARGUMENT else
  if SECTOR_MAX_LIFETIME <? new_exp - s_activation s then ILLEGAL_ARGUMENT else OK.

(* ---- extend_simple_qap_sector / extend_non_simple_qap_sector ---- *)
Definition extend_simple (epoch new_exp n : Z) (s : sector) (spaces : gmap Z (Z * Z))
    (new_backing : list Z) : R sector :=
  let old_duration := s_expiration s - s_power_base s in
  let new_duration := new_exp - epoch in
  let dw := if 0 <? s_dweight s then s_dweight s * (s_expiration s - epoch) / old_duration
            else s_dweight s in
  if 0 <? s_vweight s then
    let old_space := s_vweight s / old_duration in
    match spaces !! n with
    | None => Err ILLEGAL_ARGUMENT
    | Some (check, maintain) =>
        if negb (check =? old_space) then Err ILLEGAL_ARGUMENT else
        if negb (check =? maintain) && (END_OF_LIFE_CLAIM_DROP_PERIOD <? s_expiration s - epoch)
        then Err FORBIDDEN else
        Ok {| s_activation := s_activation s; s_expiration := new_exp; s_power_base := epoch;
              s_dweight := dw; s_vweight := maintain * new_duration; s_simple := true;
              s_terminated := s_terminated s; s_backing := new_backing |}
    end
  else
    Ok {| s_activation := s_activation s; s_expiration := new_exp; s_power_base := epoch;
          s_dweight := dw; s_vweight := s_vweight s; s_simple := true;
          s_terminated := s_terminated s; s_backing := s_backing s |}.

Definition extend_non_simple (epoch new_exp : Z) (s : sector) : sector :=
  let d := s_expiration s - s_power_base s in
  {| s_activation := s_activation s; s_expiration := new_exp; s_power_base := epoch;
     s_dweight := s_dweight s * (s_expiration s - epoch) / d;
     s_vweight := s_vweight s * (s_expiration s - epoch) / d;
     s_simple := false; s_terminated := s_terminated s; s_backing := s_backing s |}.

(* ghost: all the ids the message declares as maintained for sector n *)
Definition maintained (ds : list edecl) (n : Z) : list Z :=
  flat_map (fun d => flat_map (fun sc => if sc_sector sc =? n then sc_maintain sc else [])
                              (ed_claims d)) ds.

Definition extend_one (epoch new_exp n : Z) (s : sector) (spaces : gmap Z (Z * Z))
    (ds : list edecl) : R sector :=
  let k := check_new_expiration epoch new_exp s in
  if negb (k =? OK) then Err k else
  let? s' := (if s_simple s then extend_simple epoch new_exp n s spaces (maintained ds n)
              else Ok (extend_non_simple epoch new_exp s)) in
  (* qa_power_for_weight divides by sector_size * (new_expiration - power_base_epoch): when the
     sector is "extended" to the current epoch the actor panics (abort, roll-back) *)
  if new_exp - epoch =? 0 then Err ASSERTION_FAILED else Ok s'.

(* declarations grouped by deadline, in order of first appearance *)
Fixpoint group_by_deadline (ds : list edecl) (seen : list Z) (all : list edecl) : list edecl :=
  match ds with
  | [] => []
  | d :: rest =>
      if mem (ed_deadline d) seen then group_by_deadline rest seen all
      else filter (fun x => ed_deadline x =? ed_deadline d) all
           ++ group_by_deadline rest (ed_deadline d :: seen) all
  end.

Fixpoint load_all (ss : gmap (Z * Z) sector) (provider : Z) (ns : list Z) : option (list (Z * sector)) :=
  match ns with
  | [] => Some []
  | n :: rest =>
      match ss !! (provider, n), load_all ss provider rest with
      | Some s, Some l => Some ((n, s) :: l)
      | _, _ => None
      end
  end.

Fixpoint extend_all (epoch new_exp : Z) (olds : list (Z * sector)) (spaces : gmap Z (Z * Z))
    (ds : list edecl) : R (list (Z * sector)) :=
  match olds with
  | [] => Ok []
  | (n, s) :: rest =>
      let? s' := extend_one epoch new_exp n s spaces ds in
      let? more := extend_all epoch new_exp rest spaces ds in
      Ok ((n, s') :: more)
  end.

Fixpoint apply_decls (ss : gmap (Z * Z) sector) (epoch provider : Z) (todo : list edecl)
    (spaces : gmap Z (Z * Z)) (all : list edecl) : R (gmap (Z * Z) sector) :=
  match todo with
  | [] => Ok ss
  | d :: rest =>
      match load_all ss provider (decl_sectors d) with
      | None => Err NOT_FOUND
      | Some olds =>
          let? news := extend_all epoch (ed_new_exp d) olds spaces all in
          (* Partition::replace_sectors refuses sectors that are not active *)
          if existsb (fun x => s_terminated (snd x)) olds then Err ILLEGAL_STATE else
          apply_decls (fold_left (fun m x => <[ (provider, fst x) := snd x ]> m) news ss)
                      epoch provider rest spaces all
      end
  end.

Definition is_ctrl (c : list (Z * Z)) (miner who : Z) : bool :=
  existsb (fun x => (fst x =? miner) && (snd x =? who)) c.

Definition extend2 (st : cstate) (epoch caller provider : Z) (ds : list edecl) : R cstate :=
  let? spaces := validate_decls (claims (reg (vr st))) provider ds [] ∅ in
  if negb (is_ctrl (ctrl st) provider caller) then Err FORBIDDEN else
  let? ss := apply_decls (sectors st) epoch provider (group_by_deadline ds [] ds) spaces ds in
  Ok {| vr := vr st; sectors := ss; ctrl := ctrl st |}.

(* ---- ProveCommitSectors3 of one pre-committed sector whose pieces are all verified ---- *)
Definition onboard (st : cstate) (epoch provider n expiry : Z) (cs : list aclaim)
  : R (cstate * list event) :=
  match sectors st !! (provider, n) with
  | Some _ => Err ILLEGAL_ARGUMENT
  | None =>
      let? tup := claim_allocations (vr st) epoch provider
                    [{| sg_sector := n; sg_expiry := expiry; sg_claims := cs |}] true in
      let '(v', _, ev) := tup in
      let space := sumZ (map ac_size cs) in
      Ok ({| vr := v';
            sectors := <[ (provider, n) :=
                          {| s_activation := epoch; s_expiration := expiry; s_power_base := epoch;
                             s_dweight := 0; s_vweight := space * (expiry - epoch); s_simple := true;
                             s_terminated := false; s_backing := map ac_id cs |} ]> (sectors st);
            ctrl := ctrl st |}, ev)
  end.

Definition terminate (st : cstate) (caller provider n : Z) (mutable : bool) : R cstate :=
  if negb (is_ctrl (ctrl st) provider caller) then Err FORBIDDEN else
  if negb mutable then Err ILLEGAL_ARGUMENT else
  match sectors st !! (provider, n) with
  | None => Err NOT_FOUND
  | Some s =>
      if s_terminated s then Err ILLEGAL_ARGUMENT else   (* "can only terminate live sectors" *)
      Ok {| vr := vr st;
            sectors := <[ (provider, n) :=
                          {| s_activation := s_activation s; s_expiration := s_expiration s;
                             s_power_base := s_power_base s; s_dweight := s_dweight s;
                             s_vweight := s_vweight s; s_simple := s_simple s;
                             s_terminated := true; s_backing := s_backing s |} ]> (sectors st);
            ctrl := ctrl st |}
  end.

Inductive cop :=
| Vr (o : op)                                                  (* any registry / datacap message *)
| Onboard (epoch provider n expiry : Z) (cs : list aclaim)
| Extend2 (epoch caller provider : Z) (ds : list edecl)
| Terminate (epoch caller provider n : Z) (mutable : bool).

Definition cstep (st : cstate) (o : cop) : cstate * out :=
  match o with
  | Vr x => let '(v', r) := step (vr st) x in ({| vr := v'; sectors := sectors st; ctrl := ctrl st |}, r)
  | Onboard e p n x cs =>
      match onboard st e p n x cs with
      | Ok (st', ev) => (st', {| code := OK; ret := []; evs := ev |})
      | Err c => (st, fail c)
      end
  | Extend2 e c p ds =>
      match extend2 st e c p ds with Ok st' => (st', fail OK) | Err c => (st, fail c) end
  | Terminate _ c p n mu =>
      match terminate st c p n mu with Ok st' => (st', fail OK) | Err c => (st, fail c) end
  end.

Definition crun (st : cstate) (ops : list cop) : cstate := fold_left (fun s o => fst (cstep s o)) ops st.

(* ---- observation ---- *)
Definition enc_sector (s : sector) : list Z :=
  [s_activation s; s_expiration s; s_power_base s; s_dweight s; s_vweight s; b2z (s_simple s);
   b2z (s_terminated s)].

Definition cobs (st : cstate) (o : out) : list Z :=
  obs (vr st) o ++
  enc_list (flat_map (fun '(p, n, s) => [p; n] ++ enc_sector s) (sortedZZ (sectors st))).

Definition cstepo (st : cstate) (o : cop) : cstate * list Z :=
  let '(st', r) := cstep st o in (st', cobs st' r).

Definition check_case := @Corr.check cstate cop cstepo.

(* ---- boolean monitor of the ghost-free coverage clause, for witnesses ----
   verified space of a live simple sector <= total size of the provider's claims for that sector
   whose maximum term reaches the sector's expiration *)
Definition covering (cl : gmap (Z * Z) claim) (p n expiration : Z) : Z :=
  sumZ (map (fun '(_, c) => if (c_provider c =? p) && (c_sector c =? n) &&
                               (expiration <=? c_tstart c + c_tmax c) then c_size c else 0)
            (map_to_list cl)).

Definition sector_covered_b (cl : gmap (Z * Z) claim) (now p n : Z) (s : sector) : bool :=
  s_terminated s || negb (s_simple s) || (s_expiration s <=? now) || (s_vweight s <=? 0) ||
  (s_vweight s / (s_expiration s - s_power_base s) <=? covering cl p n (s_expiration s)).

Definition covered_b (st : cstate) (now : Z) : bool :=
  forallb (fun '(p, n, s) => sector_covered_b (claims (reg (vr st))) now p n s) (map_to_list (sectors st)).
