(* The deadline-level invariant of C04 (definitions only; proofs in Proofs/Deadline_*.v):
   every partition satisfies PartInv, partitions hold pairwise disjoint sectors, and the memoised
   live/total sector counts, faulty/live power, daily fee and the early-terminations bitfield equal
   what is recomputed from the partitions.  DeadlineExpInv is the registration of partition
   expiration epochs in the deadline's own queue. *)
From Coq Require Import ZArith List Bool.
From stdpp Require Import gmap.
From VF Require Import Base.SetSum Model.Partition Model.PartitionInv Model.Deadline.
Import ListNotations.
Open Scope Z_scope.

Definition psum (f : partition -> pp) (l : list partition) : pp :=
  fold_right (fun p a => pp_add (f p) a) pp0 l.

Record DeadlineInv (qs : quant) (tbl : gmap N sector) (d : deadline) : Prop := {
  di_parts : forall i p, parts d !! i = Some p -> PartInv qs tbl p;
  di_disj : forall i j p q, i <> j -> parts d !! i = Some p -> parts d !! j = Some q ->
            sectors p ## sectors q;
  di_live : dl_live_sectors d = lsum (fun p => ssize (live_sectors p)) (parts d);
  di_total : dl_total_sectors d = lsum (fun p => ssize (sectors p)) (parts d);
  di_faulty : dl_faulty_power d = psum p_faulty_power (parts d);
  di_livepow : dl_live_power d = psum live_power (parts d);
  di_fee : dl_daily_fee d = lsum (fun p => sfee tbl (live_sectors p)) (parts d);
  di_early : forall i, i ∈ early_terms d <->
             exists p, parts d !! N.to_nat i = Some p /\ early_terminated p <> ∅ }.

(* every epoch at which some partition has an expiration entry is registered, with that
   partition's index, in the deadline's queue (the queue may hold more) *)
Definition DeadlineExpInv (d : deadline) : Prop :=
  forall i p k, parts d !! i = Some p -> is_Some (expirations p !! k) ->
  exists X, dl_exp d !! k = Some X /\ N.of_nat i ∈ X.

Definition DsInv (st : dstate) : Prop :=
  0 < q_unit (ds_q st) /\ 0 < ds_psize st /\ tbl_keyed (ds_tbl st) /\
  DeadlineInv (ds_q st) (ds_tbl st) (ds_dl st).

(* caller obligations (cf. op_wf): new sector infos are distinct, well formed, and their numbers
   are not in use in this deadline (sector numbers are allocated once) *)
Definition dl_sectors (d : deadline) : gset N := ⋃ (map sectors (parts d)).
Definition dop_wf (st : dstate) (o : dop) : Prop :=
  match o with
  | DAddSectors _ secs =>
      NoDup (map s_num secs) /\ Forall (fun s => sector_ok s (s_num s)) secs /\
      nums_of secs ## dl_sectors (ds_dl st)
  | _ => True
  end.

Definition dnext (st : dstate) (o : dop) : dstate := fst (fst (dstep st o)).
Definition drun (st : dstate) (ops : list dop) : dstate := fold_left dnext ops st.
Fixpoint dall_wf (st : dstate) (ops : list dop) : Prop :=
  match ops with [] => True | o :: r => dop_wf st o /\ dall_wf (dnext st o) r end.
