(* Executable model of actors/paych/src/lib.rs (update_channel_state, settle, collect) plus plain
   deposits, over the channel's own balance and the two parties' balances.  Definitions only. *)
From stdpp Require Import gmap.
From Coq Require Import ZArith List Bool.
From VF Require Import Gen.Consts Base.Corr.
Import ListNotations.
Open Scope Z_scope.

Record lane := { redeemed : Z; lnonce : Z }.

Record state := {
  alive : bool;
  from : Z; to_ : Z;
  to_send : Z;
  settling_at : Z;
  min_settle : Z;
  lanes : gmap Z lane;
  balance : Z;       (* the channel actor's balance *)
  paid_to : Z;       (* total sent to `to_` by collect *)
  paid_from : Z;     (* total sent to `from` by collect *)
}.

Definition init (f t bal : Z) : state :=
  {| alive := true; from := f; to_ := t; to_send := 0; settling_at := 0; min_settle := 0;
     lanes := ∅; balance := bal; paid_to := 0; paid_from := 0 |}.

Record voucher := {
  v_chan_ok : bool;            (* channel_addr resolves to the receiver *)
  v_tl_min : Z; v_tl_max : Z;
  v_secret : option bool;      (* None: empty pre-image; Some b: hash(secret) matches? *)
  v_extra : option Z;          (* exit code of the extra verification call, if any *)
  v_lane : Z; v_nonce : Z; v_amount : Z;
  v_msh : Z;                   (* min_settle_height *)
  v_merges : list (Z * Z);     (* (lane, nonce) *)
  v_sig : option Z;            (* None: no signature; Some s: a signature valid exactly for actor s *)
}.

Inductive op :=
| Update (caller epoch : Z) (v : voucher) (secret_len_ok : bool)
| Settle (caller epoch : Z)
| Collect (caller epoch : Z)
| Deposit (amt : Z).

(* exit codes *)
Definition OK := 0.
Definition ILLEGAL_ARGUMENT := 16.
Definition FORBIDDEN := 18.
Definition ILLEGAL_STATE := 20.
Definition AFTER_SETTLED := 32.
Definition GONE := 99.   (* harness class: the channel actor no longer exists *)

Definition find_lane (ls : gmap Z lane) (id : Z) : option (option lane) :=
  if MAX_LANE <? id then None else Some (ls !! id).

(* the merge loop: returns the updated lane table and the sum of redeemed amounts, or None *)
Fixpoint do_merges (own : Z) (ls : gmap Z lane) (acc : Z) (ms : list (Z * Z))
  : option (gmap Z lane * Z) :=
  match ms with
  | [] => Some (ls, acc)
  | (ml, mn) :: rest =>
      if ml =? own then None else
      match find_lane ls ml with
      | None => None
      | Some None => None
      | Some (Some other) =>
          if mn <=? lnonce other then None else
          do_merges own (<[ ml := {| redeemed := redeemed other; lnonce := mn |} ]> ls)
                    (acc + redeemed other) rest
      end
  end.

Definition upd_settle (st : state) (msh : Z) : Z * Z :=
  if msh =? 0 then (settling_at st, min_settle st) else
  ( (if negb (settling_at st =? 0) && (settling_at st <? msh) then msh else settling_at st),
    (if min_settle st <? msh then msh else min_settle st) ).

(* the rt.transaction body of update_channel_state *)
Definition update_tx (st : state) (v : voucher) : option state :=
  match find_lane (lanes st) (v_lane v) with
  | None => None
  | Some ol =>
      let stale := match ol with Some l => v_nonce v <=? lnonce l | None => false end in
      if stale then None else
      let own_redeemed := match ol with Some l => redeemed l | None => 0 end in
      match do_merges (v_lane v) (lanes st) 0 (v_merges v) with
      | None => None
      | Some (ls, others) =>
          let delta := v_amount v - (others + own_redeemed) in
          let new_send := delta + to_send st in
          if new_send <? 0 then None else
          if balance st <? new_send then None else
          let '(sa, ms) := upd_settle st (v_msh v) in
          Some {| alive := true; from := from st; to_ := to_ st;
                  to_send := new_send; settling_at := sa; min_settle := ms;
                  lanes := <[ v_lane v := {| redeemed := v_amount v; lnonce := v_nonce v |} ]> ls;
                  balance := balance st; paid_to := paid_to st; paid_from := paid_from st |}
      end
  end.

(* the checks before the transaction, in the order of the code; returns the failing exit code *)
Definition update_pre (st : state) (caller epoch : Z) (v : voucher) (secret_len_ok : bool)
  : option Z :=
  if negb ((caller =? from st) || (caller =? to_ st)) then Some FORBIDDEN else
  let signer := if caller =? from st then to_ st else from st in
  match v_sig v with
  | None => Some ILLEGAL_ARGUMENT
  | Some s =>
    if negb (settling_at st =? 0) && (settling_at st <=? epoch) then Some AFTER_SETTLED else
    if negb secret_len_ok then Some ILLEGAL_ARGUMENT else
    if negb (s =? signer) then Some ILLEGAL_ARGUMENT else
    if negb (v_chan_ok v) then Some ILLEGAL_ARGUMENT else
    if epoch <? v_tl_min v then Some ILLEGAL_ARGUMENT else
    if negb (v_tl_max v =? 0) && (v_tl_max v <? epoch) then Some ILLEGAL_ARGUMENT else
    if v_amount v <? 0 then Some ILLEGAL_ARGUMENT else
    match v_secret v with
    | Some false => Some ILLEGAL_ARGUMENT
    | _ =>
      match v_extra v with
      | Some c => if c =? 0 then None else Some c
      | None => None
      end
    end
  end.

Definition update (st : state) (caller epoch : Z) (v : voucher) (slo : bool) : state * Z :=
  match update_pre st caller epoch v slo with
  | Some c => (st, c)
  | None =>
      match update_tx st v with
      | None => (st, ILLEGAL_ARGUMENT)
      | Some st' => (st', OK)
      end
  end.

Definition settle (st : state) (caller epoch : Z) : state * Z :=
  if negb ((caller =? from st) || (caller =? to_ st)) then (st, FORBIDDEN) else
  if negb (settling_at st =? 0) then (st, ILLEGAL_STATE) else
  let sa := epoch + SETTLE_DELAY in
  let sa := if sa <? min_settle st then min_settle st else sa in
  ({| alive := true; from := from st; to_ := to_ st; to_send := to_send st;
      settling_at := sa; min_settle := min_settle st; lanes := lanes st;
      balance := balance st; paid_to := paid_to st; paid_from := paid_from st |}, OK).

Definition collect (st : state) (caller epoch : Z) : state * Z :=
  if negb ((caller =? from st) || (caller =? to_ st)) then (st, FORBIDDEN) else
  if (settling_at st =? 0) || (epoch <? settling_at st) then (st, FORBIDDEN) else
  (* the VM refuses a transfer that exceeds the balance (or is negative): the send fails *)
  if (to_send st <? 0) || (balance st <? to_send st) then (st, ILLEGAL_STATE) else
  ({| alive := false; from := from st; to_ := to_ st; to_send := to_send st;
      settling_at := settling_at st; min_settle := min_settle st; lanes := lanes st;
      balance := 0;
      paid_to := paid_to st + to_send st;
      paid_from := paid_from st + (balance st - to_send st) |}, OK).

Definition deposit (st : state) (amt : Z) : state * Z :=
  if amt <? 0 then (st, ILLEGAL_ARGUMENT) else
  ({| alive := true; from := from st; to_ := to_ st; to_send := to_send st;
      settling_at := settling_at st; min_settle := min_settle st; lanes := lanes st;
      balance := balance st + amt; paid_to := paid_to st; paid_from := paid_from st |}, OK).

Definition step (st : state) (o : op) : state * Z :=
  if negb (alive st) then (st, GONE) else
  match o with
  | Update c e v slo => update st c e v slo
  | Settle c e => settle st c e
  | Collect c e => collect st c e
  | Deposit a => deposit st a
  end.

(* ---- observation encoding for the correspondence check ---- *)
Definition enc_lanes (ls : gmap Z lane) : list Z :=
  flat_map (fun '(k, l) => [k; redeemed l; lnonce l]) (map_to_list ls).

(* map_to_list order of a gmap Z is not the numeric order: sort by key *)
Fixpoint insert_sorted (x : Z * lane) (l : list (Z * lane)) : list (Z * lane) :=
  match l with
  | [] => [x]
  | y :: r => if fst x <=? fst y then x :: l else y :: insert_sorted x r
  end.
Definition sorted_lanes (ls : gmap Z lane) : list (Z * lane) :=
  fold_right insert_sorted [] (map_to_list ls).

Definition obs (st : state) (code : Z) : list Z :=
  [code; b2z (alive st); to_send st; settling_at st; min_settle st; balance st;
   paid_to st; paid_from st] ++
  flat_map (fun '(k, l) => [k; redeemed l; lnonce l]) (sorted_lanes (lanes st)).

Definition stepo (st : state) (o : op) : state * list Z :=
  let '(st', c) := step st o in (st', obs st' c).

Definition check_case := @Corr.check state op stepo.

(* boolean monitor of the state invariant, for witnesses *)
Definition inv_b (st : state) : bool := (0 <=? to_send st) && (to_send st <=? balance st).
