(* Executable model of the claim bookkeeping of actors/power/src/{state.rs,lib.rs}:
   claims (per miner raw / quality-adjusted power), the four totals, miner_count,
   miner_above_min_power_count, add_to_claim with the consensus-minimum threshold, delete_claim
   (the cron-failure path) and current_total_power.  The minimum consensus power and the
   minimum number of consensus miners are parameters of the initial state (policy values; all
   valid PoSt proof types map to policy.minimum_consensus_power).  Definitions only. *)
From stdpp Require Import gmap.
From Coq Require Import ZArith List Bool.
From VF Require Import Base.Corr.
Import ListNotations.
Open Scope Z_scope.

Record claim := { c_raw : Z; c_qa : Z }.

Record pstate := {
  min_power : Z;            (* policy.minimum_consensus_power *)
  min_miners : Z;           (* CONSENSUS_MINER_MIN_MINERS *)
  claims : gmap N claim;
  total_raw : Z;            (* total_raw_byte_power: miners at or above the minimum *)
  total_bytes : Z;          (* total_bytes_committed: everybody *)
  total_qa : Z;             (* total_quality_adj_power *)
  total_qa_bytes : Z;       (* total_qa_bytes_committed *)
  miner_count : Z;
  above_min_count : Z }.

Definition pinit (minp minm : Z) : pstate :=
  {| min_power := minp; min_miners := minm; claims := ∅; total_raw := 0; total_bytes := 0;
     total_qa := 0; total_qa_bytes := 0; miner_count := 0; above_min_count := 0 |}.

Definition P_OK := 0.
Definition P_NOT_FOUND := 17.
Definition P_FORBIDDEN := 18.
Definition P_ILLEGAL_STATE := 20.

(* add_to_claim: inr code = the transaction aborts, inl = new state *)
Definition add_to_claim (st : pstate) (m : N) (dr dq : Z) : pstate + Z :=
  match claims st !! m with
  | None => inr P_NOT_FOUND
  | Some old =>
    let new := {| c_raw := c_raw old + dr; c_qa := c_qa old + dq |} in
    let prev_below := c_raw old <? min_power st in
    let still_below := c_raw new <? min_power st in
    let '(cnt, tq, tr) :=
      if prev_below && negb still_below then
        (above_min_count st + 1, total_qa st + c_qa new, total_raw st + c_raw new)
      else if negb prev_below && still_below then
        (above_min_count st - 1, total_qa st - c_qa old, total_raw st - c_raw old)
      else if negb prev_below && negb still_below then
        (above_min_count st, total_qa st + dq, total_raw st + dr)
      else (above_min_count st, total_qa st, total_raw st) in
    (* StoragePower is a signed BigInt: checked_sub(..).expect(..) can never fail *)
    if (c_raw new <? 0) || (c_qa new <? 0) || (cnt <? 0) then inr P_ILLEGAL_STATE else
    inl {| min_power := min_power st; min_miners := min_miners st;
           claims := <[m := new]> (claims st);
           total_raw := tr; total_bytes := total_bytes st + dr;
           total_qa := tq; total_qa_bytes := total_qa_bytes st + dq;
           miner_count := miner_count st; above_min_count := cnt |}
  end.

Inductive pop :=
| PCreateMiner (m : N)                      (* the id the init actor assigned *)
| PUpdateClaimedPower (m : N) (is_miner : bool) (dr dq : Z)
| PDeleteClaim (m : N).                     (* a deferred cron callback of m failed *)

Definition pstep (st : pstate) (o : pop) : pstate * Z :=
  match o with
  | PCreateMiner m =>
      ({| min_power := min_power st; min_miners := min_miners st;
          claims := <[m := {| c_raw := 0; c_qa := 0 |}]> (claims st);
          total_raw := total_raw st; total_bytes := total_bytes st;
          total_qa := total_qa st; total_qa_bytes := total_qa_bytes st;
          miner_count := miner_count st + 1;
          above_min_count := if min_power st <=? 0 then above_min_count st + 1
                             else above_min_count st |}, P_OK)
  | PUpdateClaimedPower m is_miner dr dq =>
      if negb is_miner then (st, P_FORBIDDEN) else
      match add_to_claim st m dr dq with
      | inl st' => (st', P_OK)
      | inr c => (st, c)
      end
  | PDeleteClaim m =>
      match claims st !! m with
      | None =>
          (* delete_claim answers Ok for an absent claim and the caller still decrements *)
          ({| min_power := min_power st; min_miners := min_miners st; claims := claims st;
              total_raw := total_raw st; total_bytes := total_bytes st;
              total_qa := total_qa st; total_qa_bytes := total_qa_bytes st;
              miner_count := miner_count st - 1; above_min_count := above_min_count st |}, P_OK)
      | Some c =>
          match add_to_claim st m (- c_raw c) (- c_qa c) with
          | inl st' =>
              ({| min_power := min_power st'; min_miners := min_miners st';
                  claims := delete m (claims st');
                  total_raw := total_raw st'; total_bytes := total_bytes st';
                  total_qa := total_qa st'; total_qa_bytes := total_qa_bytes st';
                  miner_count := miner_count st' - 1; above_min_count := above_min_count st' |},
               P_OK)
          | inr c => (st, c)
          end
      end
  end.

Definition current_total_power (st : pstate) : Z * Z :=
  if above_min_count st <? min_miners st then (total_bytes st, total_qa_bytes st)
  else (total_raw st, total_qa st).

(* ---- observation ---- *)
Fixpoint ins_claim (x : N * claim) (l : list (N * claim)) : list (N * claim) :=
  match l with
  | [] => [x]
  | y :: r => if (fst x <=? fst y)%N then x :: l else y :: ins_claim x r
  end.
Definition sorted_claims (m : gmap N claim) : list (N * claim) :=
  fold_right ins_claim [] (map_to_list m).

Definition pobs (st : pstate) (code : Z) : list Z :=
  [code; total_raw st; total_bytes st; total_qa st; total_qa_bytes st; miner_count st;
   above_min_count st; fst (current_total_power st); snd (current_total_power st)]
  ++ flat_map (fun '(k, c) => [Z.of_N k; c_raw c; c_qa c]) (sorted_claims (claims st)).

Definition pstepo (st : pstate) (o : pop) : pstate * list Z :=
  let '(st', c) := pstep st o in (st', pobs st' c).

Definition pcheck_case := @Corr.check pstate pop pstepo.

(* ---- the property: totals = sums over claims under the consensus-minimum rule ---- *)
Definition claim_list (st : pstate) : list (N * claim) := map_to_list (claims st).
Definition sumc (f : claim -> Z) (l : list (N * claim)) : Z :=
  fold_right (fun kc a => f (snd kc) + a) 0 l.
Definition above (st : pstate) (c : claim) : bool := min_power st <=? c_raw c.
Definition PowerInv (st : pstate) : Prop :=
  total_bytes st = sumc c_raw (claim_list st) /\
  total_qa_bytes st = sumc c_qa (claim_list st) /\
  total_raw st = sumc (fun c => if above st c then c_raw c else 0) (claim_list st) /\
  total_qa st = sumc (fun c => if above st c then c_qa c else 0) (claim_list st) /\
  above_min_count st = sumc (fun c => if above st c then 1 else 0) (claim_list st) /\
  (forall m c, claims st !! m = Some c -> 0 <= c_raw c /\ 0 <= c_qa c).

(* caller facts: ids come from the init actor (fresh); a claim is deleted at most once per
   failing miner (see the note on miner_count in the report) *)
Definition pop_wf (st : pstate) (o : pop) : Prop :=
  match o with
  | PCreateMiner m => claims st !! m = None
  | _ => True
  end.
Definition pnext (st : pstate) (o : pop) : pstate := fst (pstep st o).
Definition prun (st : pstate) (ops : list pop) : pstate := fold_left pnext ops st.
Fixpoint pall_wf (st : pstate) (ops : list pop) : Prop :=
  match ops with [] => True | o :: r => pop_wf st o /\ pall_wf (pnext st o) r end.
