(* Sums over finite maps (std++ gmap): definition and the insert/delete laws used by the ledger
   conservation proofs (C09/C10). *)
From stdpp Require Import gmap.
From Coq Require Import ZArith Lia.
Open Scope Z_scope.

Section msum.
  Context {K : Type} `{Countable K} {A : Type} (f : A -> Z).

  Definition msum (m : gmap K A) : Z := map_fold (fun _ v acc => f v + acc) 0 m.

  Lemma msum_empty : msum ∅ = 0.
  Proof. unfold msum. apply map_fold_empty. Qed.

  Lemma msum_insert_new (m : gmap K A) k v :
    m !! k = None -> msum (<[k := v]> m) = f v + msum m.
  Proof.
    intros Hk. unfold msum.
    rewrite (map_fold_insert_L (fun (_ : K) (x : A) (acc : Z) => f x + acc) 0 k v m); [reflexivity| |exact Hk].
    intros; lia.
  Qed.

  Lemma msum_delete (m : gmap K A) k v :
    m !! k = Some v -> msum (delete k m) = msum m - f v.
  Proof.
    intros Hk. rewrite <- (insert_delete m k v Hk) at 2.
    rewrite msum_insert_new by apply lookup_delete. lia.
  Qed.

  Lemma msum_delete_None (m : gmap K A) k :
    m !! k = None -> msum (delete k m) = msum m.
  Proof. intros Hk. rewrite delete_notin by exact Hk. reflexivity. Qed.

  Lemma msum_insert (m : gmap K A) k v :
    msum (<[k := v]> m) = msum m - from_option f 0 (m !! k) + f v.
  Proof.
    destruct (m !! k) as [v0|] eqn:Hk; cbn.
    - rewrite <- (insert_delete_insert m k v).
      rewrite msum_insert_new by apply lookup_delete.
      rewrite (msum_delete m k v0 Hk). lia.
    - rewrite msum_insert_new by exact Hk. lia.
  Qed.

  Lemma msum_delete' (m : gmap K A) k :
    msum (delete k m) = msum m - from_option f 0 (m !! k).
  Proof.
    destruct (m !! k) as [v0|] eqn:Hk; cbn.
    - apply msum_delete; exact Hk.
    - rewrite msum_delete_None by exact Hk. lia.
  Qed.
End msum.
