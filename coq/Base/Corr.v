(* Correspondence-check plumbing: run a model over an operation list and compare the encoded
   observation after each step with the one recorded from the implementation. Definitions only. *)
From Coq Require Import ZArith List Bool.
Import ListNotations.
Open Scope Z_scope.

Fixpoint zlist_eqb (a b : list Z) : bool :=
  match a, b with
  | [], [] => true
  | x :: a', y :: b' => Z.eqb x y && zlist_eqb a' b'
  | _, _ => false
  end.

Section Check.
  Context {St Op : Type}.
  Variable step : St -> Op -> St * list Z.

  (* first mismatch: (step index, model observation, implementation observation) *)
  Fixpoint check_from (i : Z) (s : St) (ops : list (Op * list Z))
    : option (Z * list Z * list Z) :=
    match ops with
    | [] => None
    | (o, expected) :: rest =>
        let '(s', got) := step s o in
        if zlist_eqb got expected then check_from (i + 1) s' rest
        else Some (i, got, expected)
    end.

  Definition check (s : St) (ops : list (Op * list Z)) := check_from 0 s ops.

  (* the model's own observations, for replay files *)
  Fixpoint observe (s : St) (ops : list Op) : list (list Z) :=
    match ops with
    | [] => []
    | o :: rest => let '(s', got) := step s o in got :: observe s' rest
    end.
End Check.

Fixpoint failures {X : Type} (l : list (Z * option X)) : list (Z * X) :=
  match l with
  | [] => []
  | (i, None) :: r => failures r
  | (i, Some x) :: r => (i, x) :: failures r
  end.

Definition b2z (b : bool) : Z := if b then 1 else 0.
Definition oz (o : option Z) : list Z := match o with None => [0] | Some x => [1; x] end.

(* flat integer rendering of the failures, easy to parse from coqc's output:
   case; step; |got|; got...; |expected|; expected... *)
Fixpoint flat_failures (l : list (Z * option (Z * list Z * list Z))) : list Z :=
  match l with
  | [] => []
  | (i, None) :: r => flat_failures r
  | (i, Some (k, got, expd)) :: r =>
      (i :: k :: Z.of_nat (length got) :: got) ++ (Z.of_nat (length expd) :: expd) ++ flat_failures r
  end.
