(* Types of the generated dispatch / caller-guard table (coq/Gen/Dispatch.v, property C11).
   Hand-written, definitions only; the TABLE itself is regenerated from /repo on every run by
   tools/translator_dispatch.py. *)
From Coq Require Import ZArith List String Bool.
Import ListNotations.
Open Scope Z_scope.

(* built-in actor code types (runtime/src/runtime/builtins.rs: enum Type) *)
Inductive atype :=
| T_System | T_Init | T_Reward | T_Cron | T_Power | T_Market | T_Verifreg | T_Datacap | T_Eam
| T_Miner | T_Account | T_Multisig | T_Paych | T_Evm | T_EthAccount | T_Placeholder.

(* symbolic sources of the addresses handed to validate_immediate_caller_is (or compared with the
   caller by an explicit gate) *)
Inductive src :=
| S_System | S_Init | S_Reward | S_Cron | S_Power | S_Market | S_Verifreg | S_Datacap | S_Eam | S_Burnt
| S_Receiver                 (* rt.message().receiver(): the actor itself *)
| S_Origin                   (* rt.message().origin() *)
| S_Field (f : string)       (* st.<f> of the receiver's own state: root_key, governor, from, to *)
| S_MinerOwner | S_MinerWorker | S_MinerControls | S_MinerBeneficiary
| S_PendingOwner             (* info.pending_owner_address, if any *)
| S_Nominee                  (* info.pending_beneficiary_term.new_beneficiary, if any *)
| S_Signers                  (* multisig st.signers *)
| S_Verifiers                (* verifreg: addresses with a verifier allowance *)
| S_EscrowMinerOwner | S_EscrowMinerWorker   (* market escrow_address(param): param is a miner *)
| S_EscrowSelf                               (* market escrow_address(param): param is not a miner *)
| S_ProviderControllers.     (* market publish: owner/worker/control addresses of the deals' provider *)

Inductive guard :=
| AcceptAny
| IsAddrs (l : list src)
| IsType (l : list atype)
| Namespace (l : list Z)
| Branching (g1 g2 : guard)   (* validate sites in the two arms of one if / else-if *)
| Manual (g : guard)          (* accept_any, then an explicit caller gate equivalent to g *)
| Both (g1 g2 : guard).       (* validate g1, then an explicit gate g2 *)

Record row := {
  r_num : Z;                 (* method number *)
  r_name : string;           (* Method enum variant *)
  r_handler : string;        (* function named in the dispatch block *)
  r_guard : guard;
  r_sites : Z;               (* validate_immediate_caller_* call sites reached through this handler *)
  r_site_fn : string;        (* the function that textually contains them (handler or its callee) *)
  r_reads_caller : bool      (* the handler body reads rt.message().caller() *)
}.

Record fallback := {
  f_handler : string;
  f_from : Z;                (* undefined method numbers >= f_from are accepted by the fallback *)
  f_guard : guard;
  f_sites : Z;
  f_site_fn : string
}.

Record actor_info := {
  a_name : string;
  a_restricted : bool;       (* actor_dispatch! (true) vs actor_dispatch_unrestricted! (false) *)
  a_has_dispatch : bool;     (* false: no Method enum / dispatch at all (placeholder) *)
  a_enum : list (string * Z * option string);   (* enum Method: variant, number, FRC-42 name *)
  a_rows : list row;
  a_fallback : option fallback;
  a_file_sites : Z           (* all validate_immediate_caller_* call sites in the actor's lib.rs *)
}.

(* ---- decidable equalities (computable) ---- *)
Definition atype_eqb (a b : atype) : bool :=
  match a, b with
  | T_System, T_System | T_Init, T_Init | T_Reward, T_Reward | T_Cron, T_Cron | T_Power, T_Power
  | T_Market, T_Market | T_Verifreg, T_Verifreg | T_Datacap, T_Datacap | T_Eam, T_Eam
  | T_Miner, T_Miner | T_Account, T_Account | T_Multisig, T_Multisig | T_Paych, T_Paych
  | T_Evm, T_Evm | T_EthAccount, T_EthAccount | T_Placeholder, T_Placeholder => true
  | _, _ => false
  end.

Definition src_eqb (a b : src) : bool :=
  match a, b with
  | S_System, S_System | S_Init, S_Init | S_Reward, S_Reward | S_Cron, S_Cron | S_Power, S_Power
  | S_Market, S_Market | S_Verifreg, S_Verifreg | S_Datacap, S_Datacap | S_Eam, S_Eam
  | S_Burnt, S_Burnt | S_Receiver, S_Receiver | S_Origin, S_Origin
  | S_MinerOwner, S_MinerOwner | S_MinerWorker, S_MinerWorker | S_MinerControls, S_MinerControls
  | S_MinerBeneficiary, S_MinerBeneficiary | S_PendingOwner, S_PendingOwner | S_Nominee, S_Nominee
  | S_Signers, S_Signers | S_Verifiers, S_Verifiers | S_EscrowMinerOwner, S_EscrowMinerOwner
  | S_EscrowMinerWorker, S_EscrowMinerWorker | S_EscrowSelf, S_EscrowSelf
  | S_ProviderControllers, S_ProviderControllers => true
  | S_Field f, S_Field g => String.eqb f g
  | _, _ => false
  end.
