(* Sums of an integer-valued function over lists and over finite sets of N (gset N), with the
   algebra needed to reason about memoised totals (union of disjoint sets, difference, extension). *)
From Coq Require Import ZArith List Lia.
From stdpp Require Import gmap.
Import ListNotations.
Open Scope Z_scope.

Definition lsum {A} (f : A -> Z) (l : list A) : Z := fold_right (fun x a => f x + a) 0 l.

Lemma lsum_nil {A} (f : A -> Z) : lsum f [] = 0.
Proof. reflexivity. Qed.
Lemma lsum_cons {A} (f : A -> Z) x l : lsum f (x :: l) = f x + lsum f l.
Proof. reflexivity. Qed.
Lemma lsum_app {A} (f : A -> Z) l1 l2 : lsum f (l1 ++ l2) = lsum f l1 + lsum f l2.
Proof. induction l1 as [|x l1 IH]; cbn [app]; rewrite ?lsum_nil, ?lsum_cons; lia. Qed.
Lemma lsum_perm {A} (f : A -> Z) l1 l2 : l1 ≡ₚ l2 -> lsum f l1 = lsum f l2.
Proof. induction 1; rewrite ?lsum_cons; lia. Qed.
Lemma lsum_ext {A} (f g : A -> Z) l : (forall x, x ∈ l -> f x = g x) -> lsum f l = lsum g l.
Proof.
  induction l as [|x l IH]; intros H; [reflexivity|].
  rewrite !lsum_cons, IH, (H x); [lia|left|]. intros y Hy; apply H; right; exact Hy.
Qed.
Lemma lsum_map {A B} (f : B -> Z) (g : A -> B) l : lsum f (map g l) = lsum (fun x => f (g x)) l.
Proof. induction l as [|x l IH]; [reflexivity|]. cbn [map]. rewrite !lsum_cons, IH. reflexivity. Qed.
Lemma lsum_nonneg {A} (f : A -> Z) l : (forall x, x ∈ l -> 0 <= f x) -> 0 <= lsum f l.
Proof.
  induction l as [|x l IH]; intros H; [rewrite lsum_nil; lia|].
  rewrite lsum_cons. specialize (H x (elem_of_list_here _ _)) as Hx.
  assert (0 <= lsum f l) by (apply IH; intros y Hy; apply H; right; exact Hy). lia.
Qed.
Lemma lsum_plus {A} (f g : A -> Z) l : lsum (fun x => f x + g x) l = lsum f l + lsum g l.
Proof. induction l as [|x l IH]; [reflexivity|]. rewrite !lsum_cons, IH. lia. Qed.
Lemma lsum_filter_split {A} (f : A -> Z) (P : A -> bool) l :
  lsum f l = lsum f (List.filter P l) + lsum f (List.filter (fun x => negb (P x)) l).
Proof.
  induction l as [|x l IH]; [reflexivity|]. cbn [List.filter]. rewrite lsum_cons.
  destruct (P x); cbn [negb]; rewrite ?lsum_cons; lia.
Qed.

Definition ssum (f : N -> Z) (X : gset N) : Z := lsum f (elements X).

Lemma ssum_empty f : ssum f ∅ = 0.
Proof. unfold ssum. rewrite elements_empty. reflexivity. Qed.
Lemma ssum_singleton f x : ssum f {[x]} = f x.
Proof. unfold ssum. rewrite elements_singleton. cbn. lia. Qed.
Lemma ssum_union_disj f X Y : X ## Y -> ssum f (X ∪ Y) = ssum f X + ssum f Y.
Proof.
  intros H. unfold ssum. rewrite (lsum_perm f _ _ (elements_disj_union X Y H)). apply lsum_app.
Qed.
Lemma ssum_diff f X Y : Y ⊆ X -> ssum f (X ∖ Y) = ssum f X - ssum f Y.
Proof.
  intros H. assert (HX : X = (X ∖ Y) ∪ Y).
  { apply set_eq. intros x. rewrite elem_of_union, elem_of_difference.
    destruct (decide (x ∈ Y)); set_solver. }
  rewrite HX at 2. rewrite ssum_union_disj by set_solver. lia.
Qed.
Lemma ssum_ext f g X : (forall x, x ∈ X -> f x = g x) -> ssum f X = ssum g X.
Proof. intros H. apply lsum_ext. intros x Hx. apply H. apply elem_of_elements. exact Hx. Qed.
Lemma ssum_nonneg f X : (forall x, x ∈ X -> 0 <= f x) -> 0 <= ssum f X.
Proof. intros H. apply lsum_nonneg. intros x Hx. apply H, elem_of_elements, Hx. Qed.
Lemma ssum_split f X Y : ssum f X = ssum f (X ∩ Y) + ssum f (X ∖ Y).
Proof.
  assert (HX : X = (X ∩ Y) ∪ (X ∖ Y)).
  { apply set_eq. intros x. rewrite elem_of_union, elem_of_intersection, elem_of_difference.
    destruct (decide (x ∈ Y)); tauto. }
  rewrite HX at 1. apply ssum_union_disj. set_solver.
Qed.
Lemma ssum_mono f X Y : (forall x, x ∈ Y -> 0 <= f x) -> X ⊆ Y -> ssum f X <= ssum f Y.
Proof.
  intros Hn Hs. rewrite (ssum_split f Y X).
  replace (Y ∩ X) with X by set_solver.
  assert (0 <= ssum f (Y ∖ X)) by (apply ssum_nonneg; intros x Hx; apply Hn; set_solver). lia.
Qed.
Lemma ssum_plus f g X : ssum (fun x => f x + g x) X = ssum f X + ssum g X.
Proof. apply lsum_plus. Qed.
Lemma ssum_list_to_set f (l : list N) : NoDup l -> ssum f (list_to_set l) = lsum f l.
Proof. intros H. apply lsum_perm. apply elements_list_to_set. exact H. Qed.
Lemma ssum_union f X Y : ssum f (X ∪ Y) = ssum f X + ssum f Y - ssum f (X ∩ Y).
Proof.
  replace (X ∪ Y) with (X ∪ (Y ∖ X)).
  2:{ apply set_eq. intros x. destruct (decide (x ∈ X)); set_solver. }
  rewrite ssum_union_disj by set_solver.
  rewrite (ssum_split f Y X). assert (E : Y ∩ X = X ∩ Y) by (apply set_eq; intros x; set_solver). rewrite E. lia.
Qed.
