(* Draft for the case that the F4/F4b repair (fixes/F4_reject_duplicate_extension_declarations.diff)
   is committed: the repaired validator, and the proof that it accepts only well-formed messages
   (decls_wf) on which it agrees with the current validator. *)
From stdpp Require Import gmap.
From Coq Require Import ZArith List Bool Lia Sorting.Sorted.
From VF Require Import Gen.Consts Gen.VerifregConsts Base.Corr Base.MapSum Model.Verifreg
  Proofs.Verifreg_lemmas Model.ClaimTerms Proofs.ClaimTerms_lemmas.
Import ListNotations.
Open Scope Z_scope.

Fixpoint has_dupZ (l : list Z) : bool :=
  match l with [] => false | x :: r => mem x r || has_dupZ r end.

Lemma has_dupZ_false l : has_dupZ l = false -> NoDup l.
Proof.
  induction l as [|x r IH]; cbn; intros H; constructor.
  - apply orb_false_iff in H as [H _]. apply mem_not_In in H. exact H.
  - apply orb_false_iff in H as [_ H]. apply IH. exact H.
Qed.

(* the repaired validate_extension_declarations: `declared` = sectors named by earlier declarations *)
Fixpoint acc_sclaims_fx (cl : gmap (Z * Z) claim) (provider new_exp : Z) (scs : list sclaim)
    (m : gmap Z (Z * Z)) : R (gmap Z (Z * Z)) :=
  match scs with
  | [] => Ok m
  | sc :: rest =>
      if has_dupZ (sc_maintain sc ++ sc_drop sc) then Err ILLEGAL_ARGUMENT else
      match lookup_claims cl provider (sc_maintain sc ++ sc_drop sc) with
      | None => Err ILLEGAL_ARGUMENT
      | Some cs =>
          let? m1 := acc_claims provider new_exp (sc_sector sc) cs O (length (sc_maintain sc)) m in
          acc_sclaims_fx cl provider new_exp rest m1
      end
  end.

Fixpoint validate_decls_fx (cl : gmap (Z * Z) claim) (provider : Z) (ds : list edecl)
    (declared : list Z) (m : gmap Z (Z * Z)) : R (gmap Z (Z * Z)) :=
  match ds with
  | [] => Ok m
  | d :: rest =>
      if WPOST_PERIOD_DEADLINES <=? ed_deadline d then Err ILLEGAL_ARGUMENT else
      if has_dupZ (map sc_sector (ed_claims d)) then Err ILLEGAL_ARGUMENT else
      if existsb (fun n => mem n declared) (decl_sectors d) then Err ILLEGAL_ARGUMENT else
      let? m1 := acc_sclaims_fx cl provider (ed_new_exp d) (ed_claims d) m in
      validate_decls_fx cl provider rest (decl_sectors d ++ declared) m1
  end.

(* ---- sortedness of decl_sectors ---- *)
Lemma insert_sorted_sorted x l : Sorted Z.le l -> Sorted Z.le (insert_sortedZ x l).
Proof.
  induction 1 as [|y r Hs IH Hd]; cbn; [repeat constructor|].
  destruct (x <=? y) eqn:E.
  - apply Z.leb_le in E. constructor; [constructor; assumption|constructor; exact E].
  - apply Z.leb_gt in E. constructor; [exact IH|].
    destruct r as [|z r']; cbn.
    + constructor. lia.
    + destruct (x <=? z); constructor; [lia|inversion Hd; assumption].
Qed.

Lemma sortZ_sorted l : Sorted Z.le (sortZ l).
Proof. induction l; cbn; [constructor|apply insert_sorted_sorted; assumption]. Qed.

Lemma dedup_sorted_spec l :
  Sorted Z.le l ->
  Sorted Z.lt (dedup_sorted l) /\ (forall y r, l = y :: r -> exists t, dedup_sorted l = y :: t).
Proof.
  induction l as [|y r IH]; intros Hs.
  - split; [constructor|discriminate].
  - inversion Hs as [|? ? Hs' Hd]; subst. destruct (IH Hs') as [IH1 IH2].
    destruct r as [|z r'].
    + split; [repeat constructor|]. intros y0 r0 [= <- <-]. exists []. reflexivity.
    + destruct (IH2 z r' eq_refl) as (t & Ht). inversion Hd as [|? ? Hyz]; subst.
      change (dedup_sorted (y :: z :: r')) with (if y =? z then dedup_sorted (z :: r') else y :: dedup_sorted (z :: r')).
      destruct (y =? z) eqn:E.
      * apply Z.eqb_eq in E. subst z. split; [exact IH1|]. intros y0 r0 [= <- <-]. exists t. exact Ht.
      * apply Z.eqb_neq in E. split.
        -- constructor; [exact IH1|]. rewrite Ht. constructor. lia.
        -- intros y0 r0 [= <- <-]. eexists. reflexivity.
Qed.

Lemma dedup_sorted_lt l : Sorted Z.le l -> Sorted Z.lt (dedup_sorted l).
Proof. intros H. apply dedup_sorted_spec. exact H. Qed.

Lemma Sorted_lt_NoDup l : Sorted Z.lt l -> NoDup l.
Proof.
  intros H. apply Sorted_StronglySorted in H; [|intros a b c; lia].
  induction H as [|x r Hs IH Hall]; constructor; [|exact IH].
  intros Hin. rewrite Forall_forall in Hall. specialize (Hall x Hin). lia.
Qed.

Lemma decl_sectors_NoDup d : NoDup (decl_sectors d).
Proof. apply Sorted_lt_NoDup, dedup_sorted_lt, sortZ_sorted. Qed.

(* ---- the repaired validator accepts only well-formed messages, and then agrees with the old one ---- *)
Lemma acc_sclaims_fx_spec cl p x scs m m' :
  acc_sclaims_fx cl p x scs m = Ok m' ->
  acc_sclaims cl p x scs m = Ok m' /\ Forall (fun sc => NoDup (sc_maintain sc ++ sc_drop sc)) scs.
Proof.
  revert m. induction scs as [|sc r IH]; intros m H; cbn in *.
  - split; [exact H|constructor].
  - destruct (has_dupZ _) eqn:Ed; [discriminate|]. apply has_dupZ_false in Ed.
    destruct (lookup_claims _ _ _); [|discriminate].
    unfold rbind in *. destruct (acc_claims _ _ _ _ _ _ _); [|discriminate].
    apply IH in H as [H1 H2]. split; [exact H1|constructor; assumption].
Qed.

Lemma validate_decls_fx_spec cl p ds declared m m' :
  validate_decls_fx cl p ds declared m = Ok m' ->
  validate_decls cl p ds m = Ok m' /\
  NoDup (flat_map decl_sectors ds) /\ (forall n, In n (flat_map decl_sectors ds) -> ~ In n declared) /\
  NoDup (map sc_sector (flat_map ed_claims ds)) /\
  Forall (fun sc => NoDup (sc_maintain sc ++ sc_drop sc)) (flat_map ed_claims ds).
Proof.
  revert declared m. induction ds as [|d r IH]; intros declared m H; cbn [validate_decls_fx validate_decls flat_map] in *.
  - splits; auto; try constructor; intros n [].
  - destruct (_ <=? ed_deadline d); [discriminate|].
    destruct (has_dupZ _) eqn:Ed; [discriminate|]. apply has_dupZ_false in Ed.
    destruct (existsb _ _) eqn:Ee; [discriminate|].
    apply rbind_ok in H as (m1 & Hm1 & H). apply acc_sclaims_fx_spec in Hm1 as [Hold Hids].
    apply IH in H as (Hv & Hnd & Hdisj & Hnd2 & Hids2).
    assert (Hfresh : forall n, In n (decl_sectors d) -> ~ In n declared).
    { intros n Hn Hd. assert (existsb (fun n0 => mem n0 declared) (decl_sectors d) = true); [|congruence].
      apply existsb_exists. exists n. split; [exact Hn|apply mem_In; exact Hd]. }
    splits.
    + unfold rbind. rewrite Hold. exact Hv.
    + apply LNoDup_app; [apply decl_sectors_NoDup|exact Hnd|].
      intros n H1 H2. apply (Hdisj n H2). apply in_or_app. left. exact H1.
    + intros n Hn. apply in_app_or in Hn as [Hn|Hn]; [apply Hfresh; exact Hn|].
      intros Hd. apply (Hdisj n Hn). apply in_or_app. right. exact Hd.
    + rewrite map_app. apply LNoDup_app; [exact Ed|exact Hnd2|].
      intros n H1 H2. apply in_map_iff in H1 as (sc & <- & Hsc).
      apply in_map_iff in H2 as (sc2 & Heq & Hsc2). apply in_flat_map in Hsc2 as (d2 & Hd2 & Hsc2).
      apply (Hdisj (sc_sector sc)).
      * apply in_flat_map. exists d2. split; [exact Hd2|]. rewrite <- Heq. apply decl_sectors_claims. exact Hsc2.
      * apply in_or_app. left. apply decl_sectors_claims. exact Hsc.
    + apply Forall_app. split; assumption.
Qed.

Theorem repaired_validator_accepts_only_wf cl p ds m :
  validate_decls_fx cl p ds [] ∅ = Ok m -> validate_decls cl p ds ∅ = Ok m /\ decls_wf ds.
Proof.
  intros H. apply validate_decls_fx_spec in H as (H1 & H2 & _ & H3 & H4). split; [exact H1|]. repeat split; assumption.
Qed.
