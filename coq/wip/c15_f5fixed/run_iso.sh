#!/bin/bash
# isolated check of the F5-fixed /repo with the adapted C15 model (private copies only)
set -u
patch="$(readlink -f "$1")"; pid=C15
D="/tmp/iso_c15fix_$$"
OUT="/verif/work/iso_c15fix"
mkdir -p "$D" "$OUT"
rsync -a --exclude target --exclude .git /repo/ "$D/repo/"
(cd "$D/repo" && git apply "$patch") || { echo "patch does not apply"; rm -rf "$D"; exit 3; }
rsync -a --exclude harness/target --exclude work --exclude .git --exclude seeded /verif/ "$D/verif/"
cp -a /verif/harness/target "$D/verif/harness/target" 2>/dev/null
sed -i "s#\"/repo/#\"$D/repo/#g" "$D/verif/harness/Cargo.toml"
rm -f "$D/verif/coq/.build.lock" "$D/verif/.repo.lock"
# overlay the adapted C15 files
cp /tmp/c15fix/coq/Model/Penalty.v "$D/verif/coq/Model/Penalty.v"
cp /tmp/c15fix/coq/Proofs/Penalty_lemmas.v "$D/verif/coq/Proofs/Penalty_lemmas.v"
cp /tmp/c15fix/coq/Props/C15.v "$D/verif/coq/Props/C15.v"
cp /tmp/c15fix/C15.py "$D/verif/tools/props/C15.py"
rm -f "$D/verif/coq/Model/Penalty.vo" "$D/verif/coq/Proofs/Penalty_lemmas.vo" "$D/verif/coq/Props/C15.vo"
cd "$D/verif" && VERIF_REPO="$D/repo" VERIF_REPO_LOCKED=1 ./check "$pid" | sed "s#$D/verif#$OUT#g"
rc=${PIPESTATUS[0]}
cp -a "$D/verif/evidence/$pid.json" "$OUT/" 2>/dev/null
cp -a "$D/verif/evidence/replays/." "$OUT/" 2>/dev/null
rm -rf "$D"
echo "isolated_check: exit=$rc out=$OUT"
exit $rc
