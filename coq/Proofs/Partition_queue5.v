(* Queue operations, part 5: reschedule_recovered and remove_sectors. *)
From Coq Require Import ZArith List Bool Lia.
From stdpp Require Import gmap.
From VF Require Import Base.SetSum Model.Partition Model.PartitionInv Proofs.Partition_base
  Proofs.Partition_entry Proofs.Partition_moves Proofs.Partition_lists Proofs.Partition_queue1
  Proofs.Partition_queue2 Proofs.Partition_queue3.
Import ListNotations.
Open Scope Z_scope.

Lemma NoDup_map_app_disj (l1 l2 : list sector) :
  NoDup (map s_num l1) -> NoDup (map s_num l2) -> nums_of l1 ## nums_of l2 ->
  NoDup (map s_num (l1 ++ l2)).
Proof.
  intros H1 H2 D. rewrite map_app. apply NoDup_app. split; [exact H1|]. split; [|exact H2].
  intros n Hn1 Hn2. apply (D n); unfold nums_of; apply elem_of_list_to_set; assumption.
Qed.
Lemma from_tbl_app tbl l1 l2 : from_tbl tbl l1 -> from_tbl tbl l2 -> from_tbl tbl (l1 ++ l2).
Proof. intros H1 H2 s Hs. apply elem_of_app in Hs as [Hs|Hs]; auto. Qed.

Section Recovered.
  Context (qs : quant) (tbl : gmap N sector) (F L : gset N) (secs : list sector).
  Hypothesis Hu : 0 < q_unit qs.
  Hypothesis Hft : from_tbl tbl secs.
  Hypothesis Hnd : NoDup (map s_num secs).
  Let X := nums_of secs.
  Hypothesis HXF : X ⊆ F.
  Hypothesis HXL : X ⊆ L.
  Let m0 := by_number secs.

  Definition rr_inv (acc : gmap Z expset * gset N * list sector * pp) : Prop :=
    let '(qc, rem, resched, recovered) := acc in
    QInv qs tbl (F ∖ (X ∖ rem)) (L ∖ nums_of resched) qc /\ rem ⊆ X /\
    nums_of resched ⊆ X ∖ rem /\ from_tbl tbl resched /\ NoDup (map s_num resched) /\
    recovered = spow tbl (X ∖ rem).

  Lemma rr_step acc k acc' go :
    rr_inv acc -> recover_step m0 acc k = Ok (acc', go) -> rr_inv acc'.
  Proof.
    destruct acc as [[[qc rem] resched] recovered].
    intros (IQ & Irem & IR & Ift & Ind & Irec) Hstep. unfold recover_step in Hstep.
    destruct (qc !! k) as [es|] eqn:Ek.
    2:{ injection Hstep as <- <-. exact (conj IQ (conj Irem (conj IR (conj Ift (conj Ind Irec))))). }
    remember (on_time es ∩ rem) as hit_ot eqn:Ehot.
    remember (rem ∖ hit_ot) as rem1 eqn:Erem1.
    remember (early es ∩ rem1) as hit_ea eqn:Ehea.
    remember (rem1 ∖ hit_ea) as rem2 eqn:Erem2.
    set (l_ot := lookup_all m0 (sorted hit_ot)) in *.
    set (l_ea := lookup_all m0 (sorted hit_ea)) in *.
    match type of Hstep with context [es_validate ?e] => set (es' := e) in * end.
    destruct (es_validate es'); cbn [negb] in Hstep; [|discriminate].
    injection Hstep as <- _.
    pose proof (qi_entry _ _ _ _ _ IQ _ _ Ek) as Hes.
    pose proof (ei_disj _ _ _ _ _ Hes) as Dte.
    pose proof (qinv_entry_sub _ _ _ _ _ _ _ IQ Ek) as Hsub. unfold es_all in Hsub.
    assert (Hot_sub : hit_ot ⊆ nums_of secs) by (fold X; clear -Irem Ehot; set_solver).
    assert (Hea_sub : hit_ea ⊆ nums_of secs) by (fold X; clear -Irem Ehea Erem1; set_solver).
    assert (Epot : sum_pow l_ot = spow tbl hit_ot) by (apply lookup_all_pow; assumption).
    assert (Epea : sum_pow l_ea = spow tbl hit_ea) by (apply lookup_all_pow; assumption).
    assert (Efea : sum_fee l_ea = sfee tbl hit_ea) by (apply lookup_all_fee; assumption).
    destruct (lookup_all_spec tbl secs hit_ea Hft Hnd Hea_sub) as (Lft & Lmap & Lnums).
    fold m0 in Lft, Lmap, Lnums. fold l_ea in Lft, Lmap, Lnums.
    assert (Hrem2 : rem2 = rem ∖ (hit_ot ∪ hit_ea)).
    { apply seteq_L. clear -Erem2 Erem1. set_solver. }
    assert (Hhits : hit_ot ∪ hit_ea ⊆ rem) by (clear -Ehot Ehea Erem1; set_solver).
    assert (Hoe : hit_ot ## hit_ea) by (clear -Ehea Erem1; set_solver).
    assert (Hot_in : hit_ot ⊆ on_time es) by (clear -Ehot; set_solver).
    assert (Hea_in : hit_ea ⊆ early es) by (clear -Ehea; set_solver).
    assert (Hdone : X ∖ rem2 ≡ (X ∖ rem) ∪ (hit_ot ∪ hit_ea)).
    { rewrite Hrem2. intros n. destruct (decide (n ∈ hit_ot ∪ hit_ea)) as [Hn|Hn].
      - assert (n ∈ X) by (apply Irem, Hhits, Hn). clear -Hn H. set_solver.
      - clear -Hn. set_solver. }
    clear Ehot Ehea Erem1 Erem2.
    unfold rr_inv. split; [|split; [|split; [|split; [|split]]]].
    - (* the queue *)
      rewrite nums_of_app, Lnums.
      pose proof (QInv_modify qs tbl (F ∖ (X ∖ rem)) (F ∖ (X ∖ rem2)) (L ∖ nums_of resched) qc k es'
                    hit_ea ∅ IQ) as HM.
      rewrite Ek in HM. cbn [default] in HM.
      replace (L ∖ (nums_of resched ∪ hit_ea)) with ((L ∖ nums_of resched) ∖ hit_ea ∪ ∅)
        by (apply seteq_L; clear; set_solver).
      apply HM; clear HM.
      + unfold es_all. clear -Hea_in. set_solver.
      + unfold es_all. subst es'. cbn [on_time early]. clear -Dte Hea_in. set_solver.
      + clear. set_solver.
      + intros n Hn. rewrite Hrem2. unfold es_all in Hn.
        assert (n ∉ hit_ot ∪ hit_ea) by (clear -Hn Hot_in Hea_in; set_solver).
        clear -H. set_solver.
      + eapply (esp_recover qs tbl (F ∖ (X ∖ rem)) (F ∖ (X ∖ rem2)) k es es' hit_ot hit_ea);
          try reflexivity.
        * apply esi_pre, Hes.
        * clear -Irem HXF Hhits Hot_in. set_solver.
        * exact Hea_in.
        * intros n _. rewrite Hrem2. clear -Hhits Irem. set_solver.
        * subst es'. cbn [active_power]. rewrite Epot. reflexivity.
        * subst es'. cbn [faulty_power]. rewrite Epot, Epea. reflexivity.
        * subst es'. cbn [fee_deduction]. rewrite Efea. reflexivity.
    - rewrite Hrem2. clear -Irem. set_solver.
    - rewrite nums_of_app, Lnums. rewrite Hdone. clear -IR. set_solver.
    - apply from_tbl_app; assumption.
    - apply NoDup_map_app_disj; [exact Ind|rewrite Lmap; apply NoDup_sorted|].
      rewrite Lnums. clear -Hsub Hea_in. set_solver.
    - rewrite Irec, Epot, Epea. symmetry.
      rewrite (spow_add_eq tbl (X ∖ rem2) (X ∖ rem) (hit_ot ∪ hit_ea)); [|exact Hdone|clear -Hhits; set_solver].
      rewrite (spow_add_eq tbl (hit_ot ∪ hit_ea) hit_ot hit_ea); [|reflexivity|exact Hoe].
      apply pp_eq; cbn; lia.
  Qed.

  Lemma reschedule_recovered_inv (q q' : gmap Z expset) pw :
    QInv qs tbl F L q ->
    reschedule_recovered qs q secs = Ok (q', pw) ->
    QInv qs tbl (F ∖ X) L q' /\ pw = spow tbl X.
  Proof.
    intros HQ. unfold reschedule_recovered. fold m0. fold X.
    destruct (iterM (recover_step m0) (qkeys q) (q, X, [], pp0))
      as [[[[q1 rem] resched] recovered]|] eqn:Eit; cbn [rbind]; [|discriminate].
    assert (Hfin : rr_inv (q1, rem, resched, recovered)).
    { apply (fun hs he hp => iterM_ind (recover_step m0) (fun _ acc => rr_inv acc) rr_inv hs he
               (qkeys q) (q, X, [], pp0) _ hp Eit).
      - intros acc k rest acc' go HI Hs. pose proof (rr_step _ _ _ _ HI Hs). destruct go; assumption.
      - auto.
      - unfold rr_inv. rewrite nums_of_nil.
        replace (X ∖ X) with (∅ : gset N) by (apply seteq_L; clear; set_solver).
        replace (F ∖ ∅) with F by (apply seteq_L; clear; set_solver).
        replace (L ∖ ∅) with L by (apply seteq_L; clear; set_solver).
        split; [exact HQ|]. split; [reflexivity|]. split; [clear; set_solver|].
        split; [intros s Hs; inversion Hs|]. split; [constructor|]. symmetry. apply spow_empty. }
    destruct Hfin as (IQ & Irem & IR & Ift & Ind & Irec).
    destruct (set_empty rem) eqn:Ee; cbn [negb]; [|discriminate].
    apply set_empty_true in Ee. subst rem.
    replace (X ∖ ∅) with X in * by (apply seteq_L; clear; set_solver).
    destruct (add_active_sectors qs q1 resched) as [[[[[q3 ns] pw'] pl] fe]|] eqn:Ea;
      cbn [rbind]; [|discriminate].
    intros [= <- <-]. split; [|exact Irec].
    pose proof (add_active_sectors_inv qs tbl (F ∖ X) resched Hu Ift Ind) as HA.
    assert (HRF : nums_of resched ## F ∖ X) by (clear -IR; set_solver).
    specialize (HA HRF q1 q3 (L ∖ nums_of resched) ns pw' pl fe IQ).
    assert (HRL : nums_of resched ## L ∖ nums_of resched) by (clear; set_solver).
    destruct (HA HRL Ea) as (HQ3 & _).
    replace L with (L ∖ nums_of resched ∪ nums_of resched); [exact HQ3|].
    apply seteq_L. intros n. destruct (decide (n ∈ nums_of resched)) as [Hn|Hn].
    - split; [intros _|clear -Hn; set_solver]. apply HXL, IR, Hn.
    - clear -Hn. set_solver.
  Qed.
End Recovered.
