(* Proofs for C11 (caller access control).  Statements are pinned in Props/C11.v. *)
From Coq Require Import ZArith List String Bool Lia.
From VF Require Import Gen.Consts Base.Corr Base.AccessTypes Gen.Dispatch Model.Access.
Import ListNotations.
Open Scope string_scope.
Open Scope Z_scope.
Open Scope list_scope.

(* ---------------------------------------------------------------------------------------- *)
(* list helpers                                                                             *)
(* ---------------------------------------------------------------------------------------- *)
Lemma existsb_map_comp {A B} (f : B -> bool) (g : A -> B) (l : list A) :
  existsb f (map g l) = existsb (fun x => f (g x)) l.
Proof. induction l as [|x l IH]; cbn; [reflexivity|]. now rewrite IH. Qed.

Lemma existsb_ext_in {A} (f g : A -> bool) (l : list A) :
  (forall x, In x l -> f x = g x) -> existsb f l = existsb g l.
Proof.
  induction l as [|x l IH]; cbn; intros H; [reflexivity|].
  rewrite (H x (or_introl eq_refl)), IH; [reflexivity|]. intros y Hy. apply H. now right.
Qed.

Lemma existsb_const_false {A} (l : list A) : existsb (fun _ => false) l = false.
Proof. induction l; cbn; auto. Qed.

Lemma existsb_prod {A B} (f : A -> bool) (g : B -> bool) (l1 : list A) (l2 : list B) :
  existsb (fun p => f (fst p) && g (snd p)) (list_prod l1 l2) = existsb f l1 && existsb g l2.
Proof.
  induction l1 as [|a l1 IH]; cbn; [reflexivity|].
  rewrite existsb_app, IH, existsb_map_comp. cbn.
  assert (E : existsb (fun x : B => f a && g x) l2 = f a && existsb g l2).
  { clear. induction l2 as [|b l2 IH2]; cbn; [now rewrite andb_false_r|].
    rewrite IH2. destruct (f a), (g b); reflexivity. }
  rewrite E. destruct (f a), (existsb g l2), (existsb f l1); reflexivity.
Qed.

Lemma existsb_true_iff {A} (f : A -> bool) l : existsb f l = true <-> exists x, In x l /\ f x = true.
Proof. apply existsb_exists. Qed.

Lemma existsb_false_iff {A} (f : A -> bool) l : existsb f l = false <-> forall x, In x l -> f x = false.
Proof.
  split.
  - intros H x Hx. destruct (f x) eqn:E; [|reflexivity].
    assert (existsb f l = true) by (apply existsb_exists; eauto). congruence.
  - intros H. destruct (existsb f l) eqn:E; [|reflexivity].
    apply existsb_exists in E as (x & Hx & Hfx). rewrite (H x Hx) in Hfx. discriminate.
Qed.

(* ---------------------------------------------------------------------------------------- *)
(* decidable equalities are sound                                                           *)
(* ---------------------------------------------------------------------------------------- *)
Lemma atype_eqb_eq a b : atype_eqb a b = true -> a = b.
Proof. destruct a, b; cbn; intros H; try reflexivity; discriminate. Qed.
Lemma atype_eqb_refl a : atype_eqb a a = true.
Proof. destruct a; reflexivity. Qed.

Lemma src_eqb_eq a b : src_eqb a b = true -> a = b.
Proof.
  destruct a, b; cbn; intros H; try reflexivity; try discriminate.
  apply String.eqb_eq in H. now subst.
Qed.

Lemma class_eqb_eq a : forall b, class_eqb a b = true -> a = b.
Proof.
  induction a; destruct b; cbn; intros H; try reflexivity; try discriminate.
  - f_equal. now apply src_eqb_eq.
  - f_equal. now apply atype_eqb_eq.
  - f_equal. now apply Z.eqb_eq.
  - apply andb_true_iff in H as [H1 H2]. f_equal; auto.
Qed.

Lemma class_mem_in a l : class_mem a l = true -> In a l.
Proof.
  unfold class_mem. intros H. apply existsb_exists in H as (x & Hx & E).
  apply class_eqb_eq in E. now subst.
Qed.

Lemma class_incl_sound l1 l2 : class_incl l1 l2 = true -> forall a, In a l1 -> In a l2.
Proof.
  unfold class_incl. intros H a Ha. rewrite forallb_forall in H. apply class_mem_in. now apply H.
Qed.

Lemma class_set_eqb_sound l1 l2 :
  class_set_eqb l1 l2 = true -> forall a, In a l1 <-> In a l2.
Proof.
  unfold class_set_eqb. intros H a. apply andb_true_iff in H as [H1 H2].
  split; [apply (class_incl_sound _ _ H1)|apply (class_incl_sound _ _ H2)].
Qed.

Lemma existsb_same_members {A} (f : A -> bool) l1 l2 :
  (forall a, In a l1 <-> In a l2) -> existsb f l1 = existsb f l2.
Proof.
  intros H. destruct (existsb f l1) eqn:E1; symmetry.
  - apply existsb_exists in E1 as (x & Hx & Hf). apply existsb_exists. exists x. split; [now apply H|easy].
  - apply existsb_false_iff. intros x Hx. rewrite existsb_false_iff in E1. apply E1. now apply H.
Qed.

(* ---------------------------------------------------------------------------------------- *)
(* semantics of the primitives = membership in the classes the guard lets through            *)
(* (for EVERY address assignment and EVERY caller)                                           *)
(* ---------------------------------------------------------------------------------------- *)
Theorem denote_classes : forall e g c,
  denote e g c = existsb (in_class e c) (guard_classes g).
Proof.
  intros e g c. induction g; cbn [denote guard_classes].
  - reflexivity.
  - now rewrite existsb_map_comp.
  - now rewrite existsb_map_comp.
  - now rewrite existsb_map_comp.
  - now rewrite existsb_app, IHg1, IHg2.
  - exact IHg.
  - rewrite existsb_map_comp. cbn [in_class].
    rewrite (existsb_prod (in_class e c) (in_class e c)). now rewrite IHg1, IHg2.
Qed.

Lemma guard_outcome_passed e g c : guard_outcome e g c = Passed <-> denote e g c = true.
Proof.
  induction g; cbn [guard_outcome denote];
    try (destruct (existsb _ _); split; congruence).
  - split; auto.
  - destruct (denote e g1 c || denote e g2 c); split; congruence.
  - destruct (denote e g c); split; congruence.
  - destruct (guard_outcome e g1 c) eqn:E1.
    + assert (D1 : denote e g1 c = true) by (now apply IHg1). rewrite D1. cbn.
      destruct (denote e g2 c); split; congruence.
    + assert (D1 : denote e g1 c <> true) by (intros D; apply IHg1 in D; discriminate).
      destruct (denote e g1 c); [congruence|]. cbn. split; congruence.
    + assert (D1 : denote e g1 c <> true) by (intros D; apply IHg1 in D; discriminate).
      destruct (denote e g1 c); [congruence|]. cbn. split; congruence.
    + assert (D1 : denote e g1 c <> true) by (intros D; apply IHg1 in D; discriminate).
      destruct (denote e g1 c); [congruence|]. cbn. split; congruence.
    + assert (D1 : denote e g1 c <> true) by (intros D; apply IHg1 in D; discriminate).
      destruct (denote e g1 c); [congruence|]. cbn. split; congruence.
Qed.

Lemma guard_outcome_rejected e g c :
  guard_outcome e g c <> Passed -> rejected (guard_outcome e g c) = true.
Proof.
  induction g; cbn [guard_outcome denote]; try (destruct (existsb _ _); cbn; congruence).
  - congruence.
  - destruct (denote e g1 c || denote e g2 c); cbn; congruence.
  - destruct (denote e g c); cbn; congruence.
  - destruct (guard_outcome e g1 c) eqn:E1.
    + destruct (denote e g2 c); cbn; congruence.
    + reflexivity.
    + intros _. assert (X : rejected Unhandled = true) by (apply IHg1; congruence). discriminate X.
    + reflexivity.
    + reflexivity.
Qed.

(* ---------------------------------------------------------------------------------------- *)
(* finite checks over the generated table                                                   *)
(* ---------------------------------------------------------------------------------------- *)
Lemma table_matches_spec_b : forallb actor_matches_spec actors = true.
Proof. vm_compute. reflexivity. Qed.

Lemma spec_rows_in_table_b : forallb spec_row_in_table spec_table = true.
Proof. vm_compute. reflexivity. Qed.

Lemma table_complete_b : forallb actor_complete actors = true.
Proof. vm_compute. reflexivity. Qed.

Lemma unrestricted_pinned : unrestricted_actors = spec_unrestricted.
Proof. vm_compute. reflexivity. Qed.

Lemma fallbacks_pinned : fallback_actors = spec_fallbacks.
Proof. vm_compute. reflexivity. Qed.

Lemma caller_reading_pinned : caller_reading_public = spec_caller_reading_public.
Proof. vm_compute. reflexivity. Qed.

Theorem guards_match_spec : forall a r,
  In a actors -> In r (a_rows a) ->
  forall cl, In cl (guard_classes (r_guard r)) <-> In cl (designated (a_name a) (r_name r)).
Proof.
  intros a r Ha Hr.
  pose proof table_matches_spec_b as H. rewrite forallb_forall in H. specialize (H a Ha).
  unfold actor_matches_spec in H. apply andb_true_iff in H as [H _].
  rewrite forallb_forall in H. specialize (H r Hr). unfold row_matches_spec in H.
  now apply class_set_eqb_sound.
Qed.

Theorem fallback_matches_spec_thm : forall a f,
  In a actors -> a_fallback a = Some f ->
  forall cl, In cl (guard_classes (f_guard f)) <-> In cl (designated (a_name a) fallback_name).
Proof.
  intros a f Ha Hf.
  pose proof table_matches_spec_b as H. rewrite forallb_forall in H. specialize (H a Ha).
  unfold actor_matches_spec in H. apply andb_true_iff in H as [_ H].
  unfold fallback_matches_spec in H. rewrite Hf in H. now apply class_set_eqb_sound.
Qed.

(* the guard of every row accepts exactly the callers in a designated class *)
Theorem row_guard_is_spec : forall a r e c,
  In a actors -> In r (a_rows a) ->
  denote e (r_guard r) c = existsb (in_class e c) (designated (a_name a) (r_name r)).
Proof.
  intros a r e c Ha Hr. rewrite denote_classes.
  apply existsb_same_members. now apply guards_match_spec.
Qed.

Lemma find_row_in a m r : find_row a m = Some r -> In r (a_rows a) /\ r_num r = m.
Proof.
  unfold find_row. intros H. apply find_some in H as [H1 H2]. split; [easy|now apply Z.eqb_eq].
Qed.

Lemma row_has_dispatch a r : In a actors -> In r (a_rows a) -> a_has_dispatch a = true.
Proof.
  intros Ha Hr. pose proof table_complete_b as H. rewrite forallb_forall in H. specialize (H a Ha).
  unfold actor_complete in H.
  repeat (apply andb_true_iff in H as [H ?]).
  match goal with X : (a_has_dispatch a || _) = true |- _ => rename X into Hd end.
  apply orb_true_iff in Hd as [Hd|Hd]; [easy|].
  destruct (a_rows a); [destruct Hr|]. destruct (a_fallback a); discriminate.
Qed.

Lemma row_num_pos a r : In a actors -> In r (a_rows a) -> 0 < r_num r.
Proof.
  intros Ha Hr. pose proof table_complete_b as H. rewrite forallb_forall in H. specialize (H a Ha).
  unfold actor_complete in H.
  apply andb_true_iff in H as [H H9]. apply andb_true_iff in H as [H H8].
  apply andb_true_iff in H as [H H7]. apply andb_true_iff in H as [H H6].
  apply andb_true_iff in H as [H H5].
  rewrite forallb_forall in H5. specialize (H5 r Hr). apply andb_true_iff in H5 as [_ H5].
  now apply Z.ltb_lt.
Qed.

Lemma find_row_nonzero a m r : In a actors -> find_row a m = Some r -> (m =? 0) = false.
Proof.
  intros Ha Hf. destruct (find_row_in _ _ _ Hf) as [Hr Hm].
  pose proof (row_num_pos a r Ha Hr). apply Z.eqb_neq. lia.
Qed.

(* ---------------------------------------------------------------------------------------- *)
(* the clauses of the property                                                              *)
(* ---------------------------------------------------------------------------------------- *)
Theorem outside_rejected : forall (St : Type) (body : St -> St) a m r e c st,
  In a actors -> find_row a m = Some r ->
  (forall cl, In cl (designated (a_name a) (r_name r)) -> in_class e c cl = false) ->
  exists o, call body a e m c st = (st, o) /\ rejected o = true.
Proof.
  intros St body a m r e c st Ha Hf Hout.
  destruct (find_row_in _ _ _ Hf) as [Hr _].
  assert (Hd := row_has_dispatch a r Ha Hr).
  assert (Hden : denote e (r_guard r) c = false).
  { rewrite (row_guard_is_spec a r e c Ha Hr). now apply existsb_false_iff. }
  unfold call, dispatch. rewrite (find_row_nonzero a m r Ha Hf), Hd. cbn [negb].
  destruct (a_restricted a && negb (restrict_internal_api m c)).
  - exists RejInternal. split; reflexivity.
  - rewrite Hf.
    assert (Hnp : guard_outcome e (r_guard r) c <> Passed).
    { intros Hp. apply guard_outcome_passed in Hp. congruence. }
    pose proof (guard_outcome_rejected e (r_guard r) c Hnp) as Hrej.
    exists (guard_outcome e (r_guard r) c).
    destruct (guard_outcome e (r_guard r) c); try discriminate; (split; [reflexivity|exact Hrej]).
Qed.

Theorem inside_accepted_by_guard : forall a m r e c,
  In a actors -> find_row a m = Some r ->
  (exists cl, In cl (designated (a_name a) (r_name r)) /\ in_class e c cl = true) ->
  (a_restricted a = false \/ restrict_internal_api m c = true) ->
  dispatch a e m c = Passed.
Proof.
  intros a m r e c Ha Hf Hin Hres.
  destruct (find_row_in _ _ _ Hf) as [Hr _].
  assert (Hd := row_has_dispatch a r Ha Hr).
  assert (Hden : denote e (r_guard r) c = true).
  { rewrite (row_guard_is_spec a r e c Ha Hr). now apply existsb_exists. }
  unfold dispatch. rewrite (find_row_nonzero a m r Ha Hf), Hd. cbn [negb].
  assert (E : a_restricted a && negb (restrict_internal_api m c) = false).
  { destruct Hres as [-> | ->]; [reflexivity|]. cbn. now rewrite andb_false_r. }
  rewrite E, Hf. now apply guard_outcome_passed.
Qed.

Theorem rejected_call_changes_nothing : forall (St : Type) (body : St -> St) a e m c st st' o,
  call body a e m c st = (st', o) -> o <> Passed -> st' = st.
Proof.
  intros St body a e m c st st' o. unfold call.
  destruct (dispatch a e m c); intros H; inversion H; subst; congruence.
Qed.

Lemma restricted_unless_listed : forall a,
  In a actors -> ~ In (a_name a) spec_unrestricted -> a_restricted a = true.
Proof.
  intros a Ha Hn.
  assert (H : forallb (fun a => a_restricted a || existsb (String.eqb (a_name a)) spec_unrestricted) actors = true)
    by (vm_compute; reflexivity).
  rewrite forallb_forall in H. specialize (H a Ha). apply orb_true_iff in H as [H|H]; [easy|].
  exfalso. apply Hn. apply existsb_exists in H as (x & Hx & E). apply String.eqb_eq in E. now subst.
Qed.

Theorem internal_api_closed : forall a e m c,
  In a actors -> ~ In (a_name a) spec_unrestricted -> a_has_dispatch a = true ->
  0 < m < FIRST_EXPORTED_METHOD_NUMBER ->
  (in_class e c EvmContract = true \/ in_class e c C_NonBuiltin = true \/ in_class e c C_NoCode = true) ->
  dispatch a e m c = RejInternal.
Proof.
  intros a e m c Ha Hn Hd [Hm0 Hm] Hc.
  assert (E0 : (m =? 0) = false) by (apply Z.eqb_neq; lia).
  assert (Hr := restricted_unless_listed a Ha Hn).
  assert (Hx : external_caller c = true).
  { unfold external_caller. cbn in Hc. unfold has_type in Hc.
    destruct (c_code c) as [| |t]; try reflexivity.
    destruct Hc as [Hc|[Hc|Hc]]; try discriminate.
    destruct t; cbn in Hc; try discriminate; reflexivity. }
  unfold dispatch. rewrite E0, Hd, Hr. cbn [negb andb].
  unfold restrict_internal_api. rewrite Hx. cbn [negb orb].
  assert (E : (FIRST_EXPORTED_METHOD_NUMBER <=? m) = false) by (apply Z.leb_gt; exact Hm).
  rewrite E. reflexivity.
Qed.

Theorem undefined_method_rejected : forall a e m c,
  In a actors -> m <> 0 -> find_row a m = None ->
  (forall f, a_fallback a = Some f -> m < f_from f) ->
  dispatch a e m c = Unhandled \/ dispatch a e m c = RejInternal.
Proof.
  intros a e m c Ha Hm0 Hf Hfb. unfold dispatch.
  apply Z.eqb_neq in Hm0. rewrite Hm0.
  destruct (negb (a_has_dispatch a)); [now left|].
  destruct (a_restricted a && negb (restrict_internal_api m c)); [now right|].
  rewrite Hf. destruct (a_fallback a) as [f|] eqn:E; [|now left].
  specialize (Hfb f eq_refl). apply Z.ltb_lt in Hfb. rewrite Hfb. now left.
Qed.

Lemma no_fallback_unless_listed : forall a,
  In a actors -> ~ In (a_name a) (map fst spec_fallbacks) -> a_fallback a = None.
Proof.
  intros a Ha Hn.
  assert (H : forallb (fun a => match a_fallback a with
                                | Some _ => existsb (String.eqb (a_name a)) (map fst spec_fallbacks)
                                | None => true end) actors = true) by (vm_compute; reflexivity).
  rewrite forallb_forall in H. specialize (H a Ha). destruct (a_fallback a); [|reflexivity].
  exfalso. apply Hn. apply existsb_exists in H as (x & Hx & E). apply String.eqb_eq in E. now subst.
Qed.

(* readable consequences of table_complete_b *)
Theorem table_complete : forall a,
  In a actors ->
  (forall name num frc, In (name, num, frc) (a_enum a) -> count_num num (a_rows a) = 1%nat) /\
  (forall r, In r (a_rows a) -> 1 <= r_sites r /\ exists frc, In (r_name r, r_num r, frc) (a_enum a)) /\
  (forall f, a_fallback a = Some f -> 1 <= f_sites f) /\
  actor_site_total a = a_file_sites a.
Proof.
  intros a Ha. pose proof table_complete_b as H. rewrite forallb_forall in H. specialize (H a Ha).
  unfold actor_complete in H.
  apply andb_true_iff in H as [H H9]. apply andb_true_iff in H as [H H8].
  apply andb_true_iff in H as [H H7]. apply andb_true_iff in H as [H H6].
  apply andb_true_iff in H as [H H5]. apply andb_true_iff in H as [H H4].
  apply andb_true_iff in H as [H H3]. apply andb_true_iff in H as [H1 H2].
  split; [|split; [|split]].
  - intros name num frc Hin. rewrite forallb_forall in H1. apply Nat.eqb_eq. apply H1.
    unfold enum_nums. apply in_map_iff. exists (name, num, frc). split; [reflexivity|easy].
  - intros r Hr. split.
    + rewrite forallb_forall in H5. specialize (H5 r Hr). apply andb_true_iff in H5 as [H5 _].
      now apply Z.leb_le.
    + rewrite forallb_forall in H2. specialize (H2 r Hr).
      apply existsb_exists in H2 as ([[n1 n2] fr] & Hin & E).
      cbn in E. apply andb_true_iff in E as [E1 E2]. apply String.eqb_eq in E1. apply Z.eqb_eq in E2.
      subst. now exists fr.
  - intros f Hf. rewrite Hf in H6. now apply Z.leb_le.
  - now apply Z.eqb_eq.
Qed.
