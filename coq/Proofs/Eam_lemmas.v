(* Proofs about coq/Model/Eam.v: the byte-level CREATE / CREATE2 pre-images, the reserved ranges,
   the address manager's deployment rules, nonce handling of the EVM actor, and the history-level
   identity theorems obtained from the `ext` pre-order of Init_lemmas.v. *)
From stdpp Require Import gmap.
From Coq Require Import ZArith NArith List Bool Lia Sorted.
From VF Require Import Gen.Consts Gen.Identity Base.Corr Model.Init Model.Eam Proofs.Init_lemmas.
Import ListNotations.
Open Scope Z_scope.

(* ---------------------------------------------------------------------------------------------- *)
(* big-endian bytes *)
Lemma be_val_app l x : be_val (l ++ [x]) = be_val l * 256 + x.
Proof. unfold be_val. rewrite fold_left_app. reflexivity. Qed.

Lemma be_fix_val k : forall n, 0 <= n < 256 ^ Z.of_nat k -> be_val (be_fix k n) = n.
Proof.
  induction k as [|k IH]; intros n Hn.
  - simpl in Hn. assert (n = 0) by lia. subst. reflexivity.
  - cbn [be_fix]. rewrite be_val_app. rewrite IH.
    + pose proof (Z.div_mod n 256). lia.
    + rewrite Nat2Z.inj_succ, Z.pow_succ_r in Hn by lia.
      split; [apply Z.div_pos; lia | apply Z.div_lt_upper_bound; lia].
Qed.

Lemma be_val_strip0 l : be_val (strip0 l) = be_val l.
Proof.
  induction l as [|x r IH]; [reflexivity|].
  destruct x; try reflexivity. simpl strip0. rewrite IH. reflexivity.
Qed.

Lemma be_min_val n : 0 <= n < 2 ^ 64 -> be_val (be_min n) = n.
Proof.
  intro H. unfold be_min. rewrite be_val_strip0. apply be_fix_val.
  change (256 ^ Z.of_nat 8) with (2 ^ 64). exact H.
Qed.

Lemma be_min_inj n m : 0 <= n < 2 ^ 64 -> 0 <= m < 2 ^ 64 -> be_min n = be_min m -> n = m.
Proof.
  intros Hn Hm H. rewrite <- (be_min_val n Hn), <- (be_min_val m Hm), H. reflexivity.
Qed.

(* ---------------------------------------------------------------------------------------------- *)
(* RLP *)
Lemma rlp_str_inj a b : rlp_str a = rlp_str b -> a = b.
Proof.
  unfold rlp_str.
  destruct a as [|x [|y r]]; destruct b as [|x' [|y' r']];
    repeat match goal with |- context [if ?c then _ else _] => destruct c eqn:? end;
    intro H; inversion H; subst; try reflexivity;
    try match goal with E : (128 <? 128) = true |- _ => vm_compute in E; discriminate E end.
Qed.

Lemma rlp_str_20 from : length from = 20%nat -> rlp_str from = 148 :: from.
Proof.
  intro H. destruct from as [|x [|y r]]; try discriminate H.
  unfold rlp_str. rewrite H. reflexivity.
Qed.

Lemma rlp_pair_injective_l from1 from2 n1 n2 :
  length from1 = 20%nat -> length from2 = 20%nat ->
  0 <= n1 < 2 ^ 64 -> 0 <= n2 < 2 ^ 64 ->
  rlp_addr_nonce from1 n1 = rlp_addr_nonce from2 n2 -> from1 = from2 /\ n1 = n2.
Proof.
  intros L1 L2 H1 H2. unfold rlp_addr_nonce, rlp_list. intro H. injection H as _ Hp.
  rewrite (rlp_str_20 _ L1), (rlp_str_20 _ L2) in Hp. injection Hp as Hq.
  apply app_inj_1 in Hq; [|congruence]. destruct Hq as [-> Hs].
  split; [reflexivity|]. apply rlp_str_inj in Hs. apply be_min_inj; auto.
Qed.

(* the pre-image has the Ethereum layout: 0xc0+len, 0x94, the 20 address bytes, the nonce as an RLP scalar *)
Lemma rlp_addr_nonce_layout from n :
  length from = 20%nat ->
  rlp_addr_nonce from n =
    (192 + (21 + Z.of_nat (length (rlp_str (be_min n))))) :: 148 :: from ++ rlp_str (be_min n).
Proof.
  intro L. unfold rlp_addr_nonce, rlp_list. rewrite (rlp_str_20 _ L).
  f_equal. rewrite app_length. cbn [length]. rewrite L. lia.
Qed.

Lemma create2_preimage_injective_l f1 s1 h1 f2 s2 h2 :
  length f1 = 20%nat -> length f2 = 20%nat -> length s1 = 32%nat -> length s2 = 32%nat ->
  create2_preimage f1 s1 h1 = create2_preimage f2 s2 h2 -> f1 = f2 /\ s1 = s2 /\ h1 = h2.
Proof.
  intros L1 L2 L3 L4. unfold create2_preimage. intro H. cbn [app] in H. injection H as Hq.
  apply app_inj_1 in Hq; [|congruence]. destruct Hq as [-> Hq].
  apply app_inj_1 in Hq; [|congruence]. destruct Hq as [-> ->]. auto.
Qed.

(* a CREATE pre-image is never a CREATE2 pre-image *)
Lemma preimages_disjoint from n f s h :
  length from = 20%nat -> rlp_addr_nonce from n <> create2_preimage f s h \/ length (rlp_str (be_min n)) <> 43%nat.
Proof.
  intro L. destruct (Nat.eq_dec (length (rlp_str (be_min n))) 43) as [E|E]; [|right; exact E].
  left. rewrite (rlp_addr_nonce_layout _ _ L), E. unfold create2_preimage. simpl. intro H. inversion H.
Qed.

(* ---------------------------------------------------------------------------------------------- *)
(* reserved ranges *)
Lemma all_zero_spec l : all_zero l = true <-> Forall (fun b => b = 0) l.
Proof.
  unfold all_zero. rewrite forallb_forall, Forall_forall. split; intros H x Hx.
  - apply H in Hx. apply Z.eqb_eq in Hx. auto.
  - apply Z.eqb_eq. symmetry. auto.
Qed.

Lemma can_assign_spec a :
  can_assign a = true <->
  is_precompile a = false /\ is_id a = false /\ is_null a = false.
Proof.
  unfold can_assign, ASSIGN_REJECTS_PRECOMPILE, ASSIGN_REJECTS_ID, ASSIGN_REJECTS_NULL. cbn [negb orb].
  rewrite !andb_true_iff, !negb_true_iff. tauto.
Qed.

(* the three ranges, spelled out on 20-byte addresses *)
Lemma is_precompile_spec p rest :
  is_precompile (p :: rest) = true <-> (p = 254 \/ p = 0) /\ Forall (fun b => b = 0) (firstn 18 rest).
Proof.
  unfold is_precompile, PRECOMPILE_PREFIXES, PRECOMPILE_ZERO_MIDDLE. cbn [existsb].
  rewrite andb_true_iff, orb_false_r, orb_true_iff, !Z.eqb_eq, all_zero_spec.
  change (Z.to_nat 18) with 18%nat. intuition.
Qed.
Lemma is_id_spec p rest :
  is_id (p :: rest) = true <-> p = 255 /\ Forall (fun b => b = 0) (firstn 11 rest).
Proof.
  unfold is_id, ID_MASK_PREFIX, ID_MASK_ZERO_UNTIL.
  rewrite andb_true_iff, Z.eqb_eq, all_zero_spec. change (Z.to_nat (12 - 1)) with 11%nat. tauto.
Qed.
Lemma is_null_spec a : is_null a = true <-> Forall (fun b => b = 0) a.
Proof. apply all_zero_spec. Qed.

(* ---------------------------------------------------------------------------------------------- *)
(* EVM state bookkeeping *)
Definition fresh_ok (mc : mctx) (w : world) (self : N) : Prop :=
  match get_evm w self with None => True | Some e0 => dead_for mc e0 end.
Definition mem_ok (mc : mctx) (w : world) (self : N) (e : evm_st) : Prop :=
  match get_evm w self with None => True | Some e0 => evm_ok mc e0 e end.
Definition body_ext (mc : mctx) (body : body_t) : Prop :=
  forall self w nc nc' w', fresh_ok mc w self -> body self w nc = (nc', Ok w') -> ext mc w w'.

Lemma is_dead_true mc e : is_dead mc e = true -> dead_for mc e.
Proof.
  unfold is_dead, dead_for, cur_of. destruct (e_tomb e) as [[o s]|]; [|discriminate].
  intro H. apply negb_true_iff in H. exists (o, s). split; auto.
  intro X; inversion X; subst. rewrite N.eqb_refl, Z.eqb_refl in H. discriminate.
Qed.
Lemma is_dead_false mc e : is_dead mc e = false -> e_tomb e = None \/ e_tomb e = Some (cur_of mc).
Proof.
  unfold is_dead, cur_of. destruct (e_tomb e) as [[o s]|]; [|auto].
  intro H. apply negb_false_iff, andb_true_iff in H. destruct H as [H1 H2].
  apply N.eqb_eq in H1. apply Z.eqb_eq in H2. subst. auto.
Qed.

Lemma fresh_mem_ok mc w self e : fresh_ok mc w self -> mem_ok mc w self e.
Proof. unfold fresh_ok, mem_ok. destruct (get_evm w self); auto. intro; right; auto. Qed.

Lemma set_evm_ext mc w self e : mem_ok mc w self e -> ext mc w (set_evm w self e).
Proof.
  unfold mem_ok, get_evm, set_evm. destruct (actors w !! self) as [a|] eqn:Ea; [|intros; apply ext_refl].
  intro H. eapply set_actor_ext_old; eauto.
  split; [apply code_step_refl|]. split; [reflexivity|]. simpl. destruct (a_evm a); auto.
Qed.

Lemma get_evm_set_evm w self e :
  get_evm (set_evm w self e) self = match actors w !! self with Some _ => Some e | None => None end.
Proof.
  unfold get_evm, set_evm. destruct (actors w !! self) as [a|] eqn:Ea.
  - rewrite set_actor_lookup. destruct (decide (self = self)); [reflexivity | congruence].
  - rewrite Ea. reflexivity.
Qed.

Lemma mem_ok_set_evm mc w self e : mem_ok mc (set_evm w self e) self e.
Proof. unfold mem_ok. rewrite get_evm_set_evm. destruct (actors w !! self); auto using evm_ok_refl. Qed.

Lemma evm_ok_same_nonce_tomb mc e0 e e' :
  e_nonce e' = e_nonce e -> e_tomb e' = e_tomb e -> evm_ok mc e0 e -> evm_ok mc e0 e'.
Proof.
  intros Hn Ht [[H1 H2] | Hd]; [left | right; auto].
  split; [lia|]. rewrite Ht. exact H2.
Qed.

Lemma mem_ok_step mc w self e e' :
  mem_ok mc w self e -> evm_cont mc e e' -> mem_ok mc w self e'.
Proof.
  unfold mem_ok. destruct (get_evm w self); auto. intros H1 H2.
  eapply evm_ok_trans; [exact H1 | left; exact H2].
Qed.

(* ---------------------------------------------------------------------------------------------- *)
(* constructor / resurrect / address manager as extensions *)
Lemma evm_constructor_ext mc body : body_ext mc body -> ctor_ext mc (evm_constructor body).
Proof.
  intros Hb id w nc nc' w'. unfold evm_constructor.
  destruct (actors w !! id) as [a|] eqn:Ea; [|intro H; inversion H].
  destruct (a_evm a) eqn:Ee; [intro H; inversion H|].
  destruct (eth_of_deleg (a_deleg a)); try (intro H; inversion H; fail).
  apply Hb. unfold fresh_ok, get_evm. rewrite Ea, Ee. exact I.
Qed.

Lemma evm_resurrect_ok body mc id w nc nc' w' :
  evm_resurrect body mc id w nc = (nc', Ok w') ->
  exists a e, actors w !! id = Some a /\ a_evm a = Some e /\ is_dead mc e = true /\ body id w nc = (nc', Ok w').
Proof.
  unfold evm_resurrect.
  destruct (actors w !! id) as [a|] eqn:Ea; [|intro H; inversion H].
  destruct (a_evm a) as [e|] eqn:Ee; [|intro H; inversion H].
  destruct (is_dead mc e) eqn:Ed; cbn [negb]; [|intro H; inversion H].
  destruct (eth_of_deleg (a_deleg a)); try (intro H; inversion H; fail).
  intro H. exists a, e. auto.
Qed.

Lemma evm_resurrect_ext mc body : body_ext mc body -> ctor_ext mc (evm_resurrect body mc).
Proof.
  intros Hb id w nc nc' w' H. apply evm_resurrect_ok in H. destruct H as (a & e & Ea & Ee & Ed & H).
  eapply Hb; eauto. unfold fresh_ok, get_evm. rewrite Ea, Ee. apply is_dead_true; auto.
Qed.

(* what create_actor of the address manager can answer, and over what it deploys *)
Lemma eam_create_actor_ok body mc w nc new_addr nc' w' r :
  eam_create_actor body mc w nc new_addr = (nc', Ok (w', r)) ->
  can_assign new_addr = true /\
  ((exists id robust,
      r = Ret_eam id (Some robust) new_addr /\
      init_exec4 (evm_constructor body) mc w nc EAM_ID new_addr C_Evm = (nc', Ok (w', (id, robust))) /\
      (amap w !! f4 EAM_ID new_addr = None \/
       exists a, amap w !! f4 EAM_ID new_addr = Some id /\ actors w !! id = Some a /\ a_code a = C_Placeholder)) \/
   (exists id a e,
      r = Ret_eam id None new_addr /\ amap w !! f4 EAM_ID new_addr = Some id /\
      actors w !! id = Some a /\ a_code a = C_Evm /\ a_evm a = Some e /\ is_dead mc e = true /\
      evm_resurrect body mc id w nc = (nc', Ok w'))).
Proof.
  unfold eam_create_actor, EAM_GUARDS_RESERVED_FIRST. cbn [andb].
  destruct (can_assign new_addr) eqn:Eassign; cbn [negb]; [|intro H; inversion H].
  intro H. split; [reflexivity|]. revert H.
  destruct (amap w !! f4 EAM_ID new_addr) as [id|] eqn:Ef.
  - destruct (actors w !! id) as [a|] eqn:Ea; [|intro H; inversion H].
    destruct (code_eqb (a_code a) C_Evm) eqn:Eevm.
    + destruct (evm_resurrect body mc id w nc) as [nc3 [w3|e]] eqn:Er; intro H; inversion H; subst.
      right. apply code_eqb_eq in Eevm.
      pose proof Er as Er'. apply evm_resurrect_ok in Er'. destruct Er' as (a' & e & Ea' & Ee & Ed & _).
      rewrite Ea in Ea'. inversion Ea'; subst a'.
      exists id, a, e. repeat split; auto.
    + destruct (is_placeholder (a_code a)) eqn:Ep; [|intro H; inversion H].
      destruct (init_exec4 (evm_constructor body) mc w nc EAM_ID new_addr C_Evm) as [nc3 [[w3 [i rb]]|e]] eqn:E4;
        intro H; inversion H; subst.
      left. exists i, rb. split; [reflexivity|]. split; [reflexivity|]. right.
      apply is_placeholder_eq in Ep.
      (* the id Exec4 returns is the one the f4 address already maps to *)
      pose proof E4 as E4'. apply init_exec4_ok in E4'.
      destruct E4' as (_ & _ & _ & w1 & ex & w2 & HM & _).
      unfold map_addresses_to_id in HM. rewrite Ef in HM.
      match type of HM with context [amap w !! ?x] => destruct (amap w !! x) end; inversion HM; subst. eauto.
  - destruct (init_exec4 (evm_constructor body) mc w nc EAM_ID new_addr C_Evm) as [nc3 [[w3 [i rb]]|e]] eqn:E4;
      intro H; inversion H; subst.
    left. exists i, rb. auto.
Qed.

Lemma eam_create_actor_ext mc body w nc new_addr nc' w' r :
  body_ext mc body ->
  eam_create_actor body mc w nc new_addr = (nc', Ok (w', r)) -> ext mc w w'.
Proof.
  intros Hb H. apply eam_create_actor_ok in H. destruct H as (_ & [(id & rb & _ & H4 & _) | (id & a & e & _ & _ & _ & _ & _ & _ & Hr)]).
  - eapply init_exec4_ext; [|exact H4]. apply evm_constructor_ext; auto.
  - eapply evm_resurrect_ext; eauto.
Qed.

Lemma eam_create_actor_ret body mc w nc new_addr nc' w' r :
  eam_create_actor body mc w nc new_addr = (nc', Ok (w', r)) -> exists id rb, r = Ret_eam id rb new_addr.
Proof.
  intro H. apply eam_create_actor_ok in H.
  destruct H as (_ & [(id & rb & -> & _) | (id & a & e & -> & _)]); eauto.
Qed.


(* the id an Exec4 / a deployment returns names an actor afterwards *)
Lemma init_exec4_actor mc ctor w nc caller sub c nc' w' id r :
  ctor_ext mc ctor ->
  init_exec4 ctor mc w nc caller sub c = (nc', Ok (w', (id, r))) -> exists a', actors w' !! id = Some a'.
Proof.
  intros Hc H. apply init_exec4_ok in H.
  destruct H as (_ & _ & _ & w1 & ex & w2 & HM & Hex & HC & Hct).
  pose proof (Hc _ _ _ _ _ Hct) as E.
  apply vm_create_actor_spec in HC. destruct HC as (_ & _ & _ & Hcase).
  assert (exists a2, actors w2 !! id = Some a2) as [a2 Ha2].
  { destruct Hcase as [[_ ->] | (a0 & _ & _ & ->)]; rewrite set_actor_lookup;
      destruct (decide (id = id)); try congruence; eauto. }
  destruct (ext_old _ _ _ E _ _ Ha2) as (a' & Ha' & _). eauto.
Qed.

Lemma eam_create_actor_actor mc body w nc new_addr nc' w' id rb eth :
  body_ext mc body ->
  eam_create_actor body mc w nc new_addr = (nc', Ok (w', Ret_eam id rb eth)) ->
  eth = new_addr /\ exists a', actors w' !! id = Some a'.
Proof.
  intros Hb H. pose proof H as H'. apply eam_create_actor_ok in H'.
  destruct H' as (_ & [(i & r & Hr & H4 & _) | (i & a & e & Hr & _ & Ha & _ & _ & _ & Hres)]); inversion Hr; subst.
  - split; auto. eapply init_exec4_actor; [|exact H4]. apply evm_constructor_ext; auto.
  - split; auto. pose proof (evm_resurrect_ext mc body Hb _ _ _ _ _ Hres) as E.
    destruct (ext_old _ _ _ E _ _ Ha) as (a' & Ha' & _). eauto.
Qed.

Section WithKeccak.
  Variable keccak : list Z -> list Z.

  (* ------------------------------------------------------------------------------------------ *)
  (* Create / Create2 / CreateExternal: who may call, which address is used *)
  Lemma eam_caller_eth_ok w caller from :
    eam_caller_eth w caller = Ok from ->
    exists ca, actors w !! caller = Some ca /\ a_code ca = C_Evm /\ eth_of_deleg (a_deleg ca) = EL_ok from.
  Proof.
    unfold eam_caller_eth. destruct (actors w !! caller) as [ca|]; [|discriminate].
    destruct (code_eqb (a_code ca) C_Evm) eqn:Ec; cbn [negb]; [|discriminate].
    destruct (eth_of_deleg (a_deleg ca)) eqn:Ee; try discriminate.
    intro H; inversion H; subst. apply code_eqb_eq in Ec. eauto.
  Qed.

  Lemma eam_create_ok body mc w nc caller nonce nc' w' r :
    eam_create keccak body mc w nc caller nonce = (nc', Ok (w', r)) ->
    exists from, eam_caller_eth w caller = Ok from /\
      eam_create_actor body mc w (logp nc (rlp_addr_nonce from nonce))
        (last20 (keccak (rlp_addr_nonce from nonce))) = (nc', Ok (w', r)).
  Proof.
    unfold eam_create, create_address. destruct (eam_caller_eth w caller) as [from|]; [|intro H; inversion H].
    intro H. eauto.
  Qed.

  Lemma eam_create2_ok body mc w nc caller salt ch nc' w' r :
    eam_create2 keccak body mc w nc caller salt ch = (nc', Ok (w', r)) ->
    exists from, eam_caller_eth w caller = Ok from /\
      eam_create_actor body mc w (logp nc (create2_preimage from salt ch))
        (last20 (keccak (create2_preimage from salt ch))) = (nc', Ok (w', r)).
  Proof.
    unfold eam_create2, create2_address. destruct (eam_caller_eth w caller) as [from|]; [|intro H; inversion H].
    intro H. eauto.
  Qed.

  (* the stable address CreateExternal derives the contract address from *)
  Definition external_stable (w : world) (caller : N) (key : addr) : option (list Z) :=
    match actors w !! caller with
    | Some ca =>
        match a_code ca with
        | C_Account => Some (last20 (keccak key))
        | C_EthAccount => match eth_of_deleg (a_deleg ca) with EL_ok a => Some a | _ => None end
        | _ => None
        end
    | None => None
    end.

  Lemma eam_create_external_ok body mc w nc caller key nc' w' r :
    eam_create_external keccak body mc w nc caller key = (nc', Ok (w', r)) ->
    caller = m_origin mc /\
    exists st, external_stable w caller key = Some st /\
      eam_create_actor body mc w (logp nc (rlp_addr_nonce st (m_seq mc)))
        (last20 (keccak (rlp_addr_nonce st (m_seq mc)))) = (nc', Ok (w', r)).
  Proof.
    unfold eam_create_external, external_stable, create_address.
    destruct (caller =? m_origin mc)%N eqn:Eo; cbn [negb]; [|intro H; inversion H].
    apply N.eqb_eq in Eo.
    destruct (actors w !! caller) as [ca|]; [|intro H; inversion H].
    destruct (a_code ca); try (intro H; inversion H; fail).
    - intro H. split; auto. eauto.
    - destruct (eth_of_deleg (a_deleg ca)); try (intro H; inversion H; fail).
      intro H. split; auto. eauto.
  Qed.

  Lemma eam_create_ext mc body w nc caller nonce nc' w' r :
    body_ext mc body -> eam_create keccak body mc w nc caller nonce = (nc', Ok (w', r)) -> ext mc w w'.
  Proof. intros Hb H. apply eam_create_ok in H. destruct H as (from & _ & H). eapply eam_create_actor_ext; eauto. Qed.
  Lemma eam_create2_ext mc body w nc caller salt ch nc' w' r :
    body_ext mc body -> eam_create2 keccak body mc w nc caller salt ch = (nc', Ok (w', r)) -> ext mc w w'.
  Proof. intros Hb H. apply eam_create2_ok in H. destruct H as (from & _ & H). eapply eam_create_actor_ext; eauto. Qed.
  Lemma eam_create_external_ext mc body w nc caller key nc' w' r :
    body_ext mc body -> eam_create_external keccak body mc w nc caller key = (nc', Ok (w', r)) -> ext mc w w'.
  Proof. intros Hb H. apply eam_create_external_ok in H. destruct H as (_ & st & _ & H). eapply eam_create_actor_ext; eauto. Qed.

  (* ------------------------------------------------------------------------------------------ *)
  (* CREATE / CREATE2 executed by a contract *)
  Lemma do_create_spec mc child w nc self e use2 salt ch big nc' w' e' a :
    body_ext mc child -> mem_ok mc w self e ->
    do_create keccak child mc w nc self e use2 salt ch big = (nc', (w', e', a)) ->
    ext mc w w' /\ mem_ok mc w' self e'.
  Proof.
    intros Hb Hm. unfold do_create.
    destruct big.
    { intro H; inversion H; subst. split; [apply ext_refl | exact Hm]. }
    set (e_sent := with_nonce e (e_nonce e + 1)).
    set (w1 := set_evm w self e_sent).
    assert (Hm1 : mem_ok mc w self e_sent).
    { eapply mem_ok_step; [exact Hm|]. split; [simpl; lia | left; reflexivity]. }
    assert (E1 : ext mc w w1) by (apply set_evm_ext; exact Hm1).
    assert (Hm2 : mem_ok mc w1 self e_sent) by apply mem_ok_set_evm.
    destruct (if use2 then eam_create2 keccak child mc w1 nc self salt ch
              else eam_create keccak child mc w1 nc self (e_nonce e)) as [nc2 r] eqn:Er.
    destruct r as [[w2 rt]|err].
    - assert (E2 : ext mc w1 w2).
      { destruct use2; [eapply eam_create2_ext | eapply eam_create_ext]; eauto. }
      assert (exists id rb eth, rt = Ret_eam id rb eth) as (id & rb & eth & ->).
      { destruct use2.
        - apply eam_create2_ok in Er. destruct Er as (from & _ & Er). apply eam_create_actor_ret in Er.
          destruct Er as (id & rb & ->). eauto.
        - apply eam_create_ok in Er. destruct Er as (from & _ & Er). apply eam_create_actor_ret in Er.
          destruct Er as (id & rb & ->). eauto. }
      intro H; inversion H; subst. split; [eapply ext_trans; eauto|].
      unfold mem_ok. destruct (get_evm w' self); auto using evm_ok_refl.
    - intro H; inversion H; subst. split; auto.
  Qed.

  Lemma evm_ok_with_rt mc e0 e r : evm_ok mc e0 e -> evm_ok mc e0 (with_rt e r).
  Proof. apply evm_ok_same_nonce_tomb; reflexivity. Qed.

  Lemma mem_ok_with_rt mc w self e r : mem_ok mc w self e -> mem_ok mc w self (with_rt e r).
  Proof. unfold mem_ok. destruct (get_evm w self); [apply evm_ok_with_rt | auto]. Qed.

  (* every constructor body of the harness's initcodes extends the world *)
  Lemma init_body_ext mc ic : body_ext mc (init_body keccak ic mc).
  Proof.
    induction ic as [| | | | | |child IH]; intros self w nc nc' w' Hf; cbn [init_body];
      try (intro H; inversion H; subst; apply set_evm_ext; apply fresh_mem_ok; exact Hf);
      try (intro H; inversion H; fail).
    destruct (do_create keccak (init_body keccak child mc) mc w nc self fresh_evm false [] [] false)
      as [nc2 [[w2 e2] a2]] eqn:Ed.
    intro H; inversion H; subst.
    destruct (do_create_spec _ _ _ _ _ _ _ _ _ _ _ _ _ _ IH (fresh_mem_ok _ _ _ fresh_evm Hf) Ed) as [E1 Hm].
    eapply ext_trans; [exact E1|]. apply set_evm_ext. apply mem_ok_with_rt. exact Hm.
  Qed.

  Lemma call_kill_ext mc w target : ext mc w (call_kill mc w target).
  Proof.
    unfold call_kill. destruct (get_evm w target) as [e|] eqn:Ee; [|apply ext_refl].
    destruct (is_dead mc e); [apply ext_refl|].
    destruct (e_rt e); try apply ext_refl; apply set_evm_ext; unfold mem_ok; rewrite Ee;
      left; (split; [simpl; lia | right; reflexivity]).
  Qed.

  Lemma mem_ok_reload mc w self e :
    mem_ok mc w self (match get_evm w self with Some x => x | None => e end).
  Proof. unfold mem_ok. destruct (get_evm w self); auto using evm_ok_refl. Qed.

  Lemma run_factory_ext mc w nc self e flags salt ch child nc' w' r :
    mem_ok mc w self e ->
    run_factory keccak mc w nc self e flags salt ch child = (nc', Ok (w', r)) -> ext mc w w'.
  Proof.
    intros Hm. unfold run_factory.
    destruct (do_create keccak (init_body keccak child mc) mc w nc self e (flag flags 0) salt ch (flag flags 4))
      as [nc1 [[w1 e1] a1]] eqn:E1.
    destruct (do_create_spec _ _ _ _ _ _ _ _ _ _ _ _ _ _ (init_body_ext mc child) Hm E1) as [X1 Hm1].
    destruct (flag flags 1).
    - set (w1' := if flag flags 3 && negb (all_zero a1)
                  then match amap w1 !! f4 EAM_ID a1 with Some cid => call_kill mc w1 cid | None => w1 end
                  else w1).
      assert (Xk : ext mc w1 w1').
      { unfold w1'. destruct (flag flags 3 && negb (all_zero a1)); [|apply ext_refl].
        destruct (amap w1 !! f4 EAM_ID a1); [apply call_kill_ext | apply ext_refl]. }
      destruct (do_create keccak (init_body keccak child mc) mc w1' nc1 self
                  (match get_evm w1' self with Some x => x | None => e1 end) (flag flags 0) salt ch false)
        as [nc2 [[w2 e2] a2]] eqn:E2.
      destruct (do_create_spec _ _ _ _ _ _ _ _ _ _ _ _ _ _ (init_body_ext mc child) (mem_ok_reload mc w1' self e1) E2)
        as [X2 Hm2].
      destruct (flag flags 2); intro H; inversion H; subst.
      eapply ext_trans; [exact X1|]. eapply ext_trans; [exact Xk|]. eapply ext_trans; [exact X2|].
      apply set_evm_ext; exact Hm2.
    - destruct (flag flags 2); intro H; inversion H; subst.
      eapply ext_trans; [exact X1|]. apply set_evm_ext; exact Hm1.
  Qed.

  Lemma evm_invoke_ext mc w nc target k nc' w' r :
    evm_invoke keccak mc w nc target k = (nc', Ok (w', r)) -> ext mc w w'.
  Proof.
    unfold evm_invoke.
    destruct (actors w !! target) as [a|] eqn:Ea; [|intro H; inversion H].
    destruct (code_eqb (a_code a) C_Evm); cbn [negb]; [|intro H; inversion H].
    destruct (a_evm a) as [e|] eqn:Ee; [|intro H; inversion H].
    assert (Hget : get_evm w target = Some e) by (unfold get_evm; rewrite Ea; exact Ee).
    destruct (is_dead mc e) eqn:Ed; [intro H; inversion H; subst; apply ext_refl|].
    assert (Hkill : ext mc w (set_evm w target (with_tomb e (Some (cur_tomb mc))))).
    { apply set_evm_ext. unfold mem_ok. rewrite Hget. left. split; [simpl; lia | right; reflexivity]. }
    destruct (e_rt e); destruct k; intro H; inversion H; subst; try apply ext_refl; try exact Hkill.
    eapply run_factory_ext; [|eassumption]. unfold mem_ok. rewrite Hget. apply evm_ok_refl.
  Qed.

  (* ------------------------------------------------------------------------------------------ *)
  (* one top-level message *)
  Lemma pre_msg_ext mc w from : ext mc w (pre_msg w from).
  Proof.
    unfold pre_msg. destruct (actors w !! from) as [a|] eqn:Ea; [|apply ext_refl].
    destruct (is_placeholder (a_code a)) eqn:Ep; [|apply ext_refl].
    eapply set_actor_ext_old; eauto. apply is_placeholder_eq in Ep.
    split; [right; rewrite Ep; split; reflexivity|]. split; [reflexivity|]. apply evm_rel_refl.
  Qed.

  Lemma ctor_of_ext mc cs : ctor_ext mc (ctor_of keccak cs mc).
  Proof.
    destruct cs; cbn [ctor_of]; [apply evm_constructor_ext, init_body_ext | apply oracle_ctor_ext].
  Qed.

  Lemma run_op_ext mc w o nc w' r : run_op keccak mc w o = (nc, Ok (w', r)) -> ext mc w w'.
  Proof.
    destruct o; cbn [run_op].
    - destruct (resolve_target w nctx0 d) as [nc1 [[w1 i]|e]] eqn:E; intro H; inversion H; subst.
      eapply resolve_target_ext; eauto.
    - unfold wrap_exec. destruct (init_exec (oracle_ctor ctor) mc w nctx0 (h_from h) c) as [nc1 [[w1 [i rb]]|e]] eqn:E;
        intro H; inversion H; subst. eapply init_exec_ext; [apply oracle_ctor_ext | eauto].
    - destruct (init_exec (oracle_ctor ctor) mc w nctx0 POWER_ID C_Miner) as [nc1 [[w1 [i rb]]|e]] eqn:E;
        intro H; inversion H; subst. eapply init_exec_ext; [apply oracle_ctor_ext | eauto].
    - unfold wrap_exec. destruct (init_exec4 (ctor_of keccak cs mc) mc w nctx0 (h_from h) sub c) as [nc1 [[w1 [i rb]]|e]] eqn:E;
        intro H; inversion H; subst. eapply init_exec4_ext; [apply ctor_of_ext | eauto].
    - apply eam_create_ext, init_body_ext.
    - apply eam_create2_ext, init_body_ext.
    - apply eam_create_external_ext, init_body_ext.
    - apply evm_invoke_ext.
    - intro H; inversion H; subst. apply ext_refl.
  Qed.

  Definition op_mctx (o : op) : mctx :=
    match hdr_of o with Some h => mctx_of h | None => {| m_origin := 0%N; m_seq := 0; m_robust := fun _ => [] |} end.

  Lemma step_ext w o : ext (op_mctx o) w (fst (fst (step keccak w o))).
  Proof.
    unfold step, op_mctx. destruct (hdr_of o) as [h|] eqn:Eh; [|apply ext_refl].
    destruct (run_op keccak (mctx_of h) (pre_msg w (h_from h)) o) as [nc [[w' r]|e]] eqn:E; cbn [fst].
    - eapply ext_trans; [apply pre_msg_ext | eapply run_op_ext; eauto].
    - apply pre_msg_ext.
  Qed.
End WithKeccak.

(* ---------------------------------------------------------------------------------------------- *)
(* history-level consequences *)
Section History.
  Variable keccak : list Z -> list Z.
  Notation stepw w o := (fst (fst (step keccak w o))).
  Notation stepr w o := (snd (step keccak w o)).

  Lemma run_cons w o ops : run keccak w (o :: ops) = run keccak (stepw w o) ops.
  Proof. reflexivity. Qed.
  Lemma run_app w ops1 ops2 : run keccak w (ops1 ++ ops2) = run keccak (run keccak w ops1) ops2.
  Proof. unfold run. apply fold_left_app. Qed.

  (* what holds between the ends of a history, whatever the messages were *)
  Record hist_ext (w w' : world) : Prop := {
    h_amap : amap w ⊆ amap w';
    h_next : (next_id w <= next_id w')%N;
    h_old : forall i a, actors w !! i = Some a ->
            exists a', actors w' !! i = Some a' /\ code_step (a_code a) (a_code a') /\ a_deleg a' = a_deleg a /\
                       (a_evm a <> None -> a_evm a' <> None);
    h_new : forall i a', actors w !! i = None -> actors w' !! i = Some a' ->
            (next_id w <= i)%N /\ creatable (a_code a') = true;
    h_wf : wf w -> wf w';
  }.

  Lemma ext_hist mc w w' : ext mc w w' -> hist_ext w w'.
  Proof.
    intro E. constructor; try apply E.
    intros i a Ha. destruct (ext_old _ _ _ E i a Ha) as (a' & Ha' & Hc & Hd & He).
    exists a'. repeat split; auto. intro Hn. destruct (a_evm a); [|congruence].
    destruct (a_evm a'); [discriminate | contradiction].
  Qed.

  Lemma hist_refl w : hist_ext w w.
  Proof. apply (ext_hist (op_mctx Dump)), ext_refl. Qed.

  Lemma hist_trans w1 w2 w3 : hist_ext w1 w2 -> hist_ext w2 w3 -> hist_ext w1 w3.
  Proof.
    intros A B. constructor.
    - etrans; [apply A | apply B].
    - pose proof (h_next _ _ A). pose proof (h_next _ _ B). lia.
    - intros i a H. destruct (h_old _ _ A i a H) as (a2 & H2 & C2 & D2 & E2).
      destruct (h_old _ _ B i a2 H2) as (a3 & H3 & C3 & D3 & E3).
      exists a3. repeat split; auto; [eapply code_step_trans; eauto | congruence].
    - intros i a3 Hn H3. destruct (actors w2 !! i) as [a2|] eqn:E2.
      + destruct (h_new _ _ A i a2 Hn E2) as [Hle Hc]. split; auto.
        destruct (h_old _ _ B i a2 E2) as (a3' & H3' & Hcs & _).
        rewrite H3 in H3'. inversion H3'; subst. eapply code_step_creatable; eauto.
      + destruct (h_new _ _ B i a3 E2 H3) as [Hle Hc]. split; auto.
        pose proof (h_next _ _ A). lia.
    - intro H. apply (h_wf _ _ B), (h_wf _ _ A), H.
  Qed.

  Lemma step_hist w o : hist_ext w (stepw w o).
  Proof. eapply ext_hist, step_ext. Qed.

  Lemma run_hist ops : forall w, hist_ext w (run keccak w ops).
  Proof.
    induction ops as [|o ops IH]; intro w; [apply hist_refl|].
    rewrite run_cons. eapply hist_trans; [apply step_hist | apply IH].
  Qed.

  (* --- stable addresses are permanent --- *)
  Lemma stable_address_permanent w ops1 ops2 a i :
    amap (run keccak w ops1) !! a = Some i -> amap (run keccak w (ops1 ++ ops2)) !! a = Some i.
  Proof.
    intro H. rewrite run_app. eapply lookup_weaken; [exact H | apply (h_amap _ _ (run_hist ops2 _))].
  Qed.

  Lemma next_id_monotone w ops1 ops2 :
    (next_id (run keccak w ops1) <= next_id (run keccak w (ops1 ++ ops2)))%N.
  Proof. rewrite run_app. apply (h_next _ _ (run_hist ops2 _)). Qed.

  Lemma wf_preserved w ops : wf w -> wf (run keccak w ops).
  Proof. apply (h_wf _ _ (run_hist ops w)). Qed.

  (* --- new actors only at fresh ids; existing actors stay, with the permitted code changes --- *)
  Lemma new_actor_fresh w ops i :
    wf w -> actors w !! i = None -> actors (run keccak w ops) !! i <> None ->
    (next_id w <= i < next_id (run keccak w ops))%N.
  Proof.
    intros W Hn Hs. destruct (actors (run keccak w ops) !! i) as [a'|] eqn:E; [|congruence].
    destruct (h_new _ _ (run_hist ops w) i a' Hn E) as [Hle _]. split; auto.
    destruct (wf_preserved w ops W) as [_ W2]. eapply W2; eauto.
  Qed.

  Lemma actor_code_automaton w ops i a :
    actors w !! i = Some a ->
    exists a', actors (run keccak w ops) !! i = Some a' /\
      (a_code a' = a_code a \/ (a_code a = C_Placeholder /\ creatable (a_code a') = true)) /\
      a_deleg a' = a_deleg a.
  Proof.
    intro H. destruct (h_old _ _ (run_hist ops w) i a H) as (a' & H' & Hc & Hd & _). eauto.
  Qed.

  (* singleton codes (everything create_actor refuses) never appear anywhere new *)
  Lemma singleton_codes_stay w ops i a' :
    actors (run keccak w ops) !! i = Some a' -> creatable (a_code a') = false ->
    exists a, actors w !! i = Some a /\ a_code a = a_code a'.
  Proof.
    intros H Hc. destruct (actors w !! i) as [a|] eqn:E.
    - destruct (h_old _ _ (run_hist ops w) i a E) as (a2 & H2 & Hcs & _).
      rewrite H in H2. inversion H2; subst a2. exists a. split; auto.
      destruct Hcs as [-> | [_ Hx]]; [reflexivity | congruence].
    - destruct (h_new _ _ (run_hist ops w) i a' E H) as [_ Hx]. congruence.
  Qed.

  Lemma power_actor_unique w ops :
    (forall i a, actors w !! i = Some a -> a_code a = C_Power -> i = POWER_ID) ->
    forall i a, actors (run keccak w ops) !! i = Some a -> a_code a = C_Power -> i = POWER_ID.
  Proof.
    intros H0 i a' H Hc. destruct (singleton_codes_stay w ops i a' H) as (a & Ha & Hca).
    - rewrite Hc. reflexivity.
    - eapply H0; eauto. congruence.
  Qed.

  (* --- ids returned for newly created actors never repeat --- *)
  Definition ret_id (r : res ret) : option N :=
    match r with
    | Ok (Ret_exec id _) => Some id
    | Ok (Ret_eam id _ _) => Some id
    | _ => None
    end.
  (* the id an operation returns for an actor that did not exist before *)
  Definition new_id_of (w : world) (r : res ret) : list N :=
    match ret_id r with
    | Some id => match actors w !! id with None => [id] | Some _ => [] end
    | None => []
    end.
  Fixpoint run_new_ids (w : world) (ops : list op) : list N :=
    match ops with
    | [] => []
    | o :: rest => new_id_of w (stepr w o) ++ run_new_ids (stepw w o) rest
    end.
End History.

Section History2.
  Variable keccak : list Z -> list Z.
  Notation stepw w o := (fst (fst (step keccak w o))).
  Notation stepr w o := (snd (step keccak w o)).

  Lemma evm_invoke_ret mc w nc target k nc' w' r :
    evm_invoke keccak mc w nc target k = (nc', Ok (w', r)) -> ret_id (Ok r) = None.
  Proof.
    unfold evm_invoke.
    destruct (actors w !! target) as [a|]; [|intro H; inversion H].
    destruct (code_eqb (a_code a) C_Evm); cbn [negb]; [|intro H; inversion H].
    destruct (a_evm a) as [e|]; [|intro H; inversion H].
    destruct (is_dead mc e); [intro H; inversion H; reflexivity|].
    destruct (e_rt e); destruct k; try (intro H; inversion H; reflexivity).
    unfold run_factory.
    destruct (do_create keccak _ mc w nc target e (flag flags 0) salt codehash (flag flags 4)) as [nc1 [[w1 e1] a1]].
    destruct (flag flags 1).
    - destruct (do_create keccak _ mc _ nc1 target _ (flag flags 0) salt codehash false) as [nc2 [[w2 e2] a2]].
      destruct (flag flags 2); intro H; inversion H; reflexivity.
    - destruct (flag flags 2); intro H; inversion H; reflexivity.
  Qed.

  Lemma run_op_ret_actor mc w o nc w' r id :
    run_op keccak mc w o = (nc, Ok (w', r)) -> ret_id (Ok r) = Some id -> exists a', actors w' !! id = Some a'.
  Proof.
    destruct o; cbn [run_op].
    - destruct (resolve_target w nctx0 d) as [nc1 [[w1 i]|e]]; intro H; inversion H; subst. discriminate.
    - unfold wrap_exec. destruct (init_exec (oracle_ctor ctor) mc w nctx0 (h_from h) c) as [nc1 [[w1 [i rb]]|e]] eqn:E;
        intro H; inversion H; subst. intro X; inversion X; subst.
      destruct (init_exec_fresh _ _ _ _ _ _ _ _ _ _ (oracle_ctor_ext mc ctor) E) as (_ & _ & _ & _ & a' & Ha' & _). eauto.
    - destruct (init_exec (oracle_ctor ctor) mc w nctx0 POWER_ID C_Miner) as [nc1 [[w1 [i rb]]|e]] eqn:E;
        intro H; inversion H; subst. intro X; inversion X; subst.
      destruct (init_exec_fresh _ _ _ _ _ _ _ _ _ _ (oracle_ctor_ext mc ctor) E) as (_ & _ & _ & _ & a' & Ha' & _). eauto.
    - unfold wrap_exec. destruct (init_exec4 (ctor_of keccak cs mc) mc w nctx0 (h_from h) sub c) as [nc1 [[w1 [i rb]]|e]] eqn:E;
        intro H; inversion H; subst. intro X; inversion X; subst.
      eapply init_exec4_actor; [apply ctor_of_ext | exact E].
    - intros H X. apply eam_create_ok in H. destruct H as (from & _ & H).
      destruct (eam_create_actor_ret _ _ _ _ _ _ _ _ H) as (i0 & rb0 & ->). inversion X; subst.
      eapply eam_create_actor_actor; [apply init_body_ext | exact H].
    - intros H X. apply eam_create2_ok in H. destruct H as (from & _ & H).
      destruct (eam_create_actor_ret _ _ _ _ _ _ _ _ H) as (i0 & rb0 & ->). inversion X; subst.
      eapply eam_create_actor_actor; [apply init_body_ext | exact H].
    - intros H X. apply eam_create_external_ok in H. destruct H as (_ & st & _ & H).
      destruct (eam_create_actor_ret _ _ _ _ _ _ _ _ H) as (i0 & rb0 & ->). inversion X; subst.
      eapply eam_create_actor_actor; [apply init_body_ext | exact H].
    - intros H X. apply evm_invoke_ret in H. congruence.
    - intro H; inversion H; subst. discriminate.
  Qed.

  Lemma step_ret_actor w o id :
    ret_id (stepr w o) = Some id -> exists a', actors (stepw w o) !! id = Some a'.
  Proof.
    unfold step. destruct (hdr_of o) as [h|]; [|discriminate].
    destruct (run_op keccak (mctx_of h) (pre_msg w (h_from h)) o) as [nc [[w' r]|e]] eqn:E; cbn [fst snd]; [|discriminate].
    eapply run_op_ret_actor; eauto.
  Qed.

  Lemma run_new_ids_sorted ops : forall w,
    wf w ->
    Forall (fun i => (next_id w <= i)%N) (run_new_ids keccak w ops) /\
    StronglySorted N.lt (run_new_ids keccak w ops).
  Proof.
    induction ops as [|o ops IH]; intros w W; [split; constructor|].
    cbn [run_new_ids].
    pose proof (step_hist keccak w o) as Hh.
    destruct (IH (stepw w o) (h_wf _ _ Hh W)) as [IH1 IH2].
    assert (Hmono : (next_id w <= next_id (stepw w o))%N) by apply Hh.
    assert (Htail : Forall (fun i => (next_id w <= i)%N) (run_new_ids keccak (stepw w o) ops)).
    { eapply Forall_impl; [|exact IH1]. simpl. intros; lia. }
    unfold new_id_of. destruct (ret_id (stepr w o)) as [id|] eqn:Er; [|split; assumption].
    destruct (actors w !! id) eqn:Ea; [split; assumption|].
    destruct (step_ret_actor w o id Er) as [a' Ha'].
    destruct (h_new _ _ Hh id a' Ea Ha') as [Hle _].
    destruct (h_wf _ _ Hh W) as [_ W2]. pose proof (W2 _ _ Ha') as Hlt.
    split; cbn [app].
    - constructor; assumption.
    - constructor; [assumption|]. eapply Forall_impl; [|exact IH1]. simpl. intros; lia.
  Qed.

  Theorem returned_ids_never_repeat w ops : wf w -> NoDup (run_new_ids keccak w ops).
  Proof.
    intro W. destruct (run_new_ids_sorted ops w W) as [_ S].
    induction S as [|x l S IH F]; constructor; auto.
    intro Hin. rewrite Forall_forall in F. apply F in Hin. lia.
  Qed.

  (* --- nonces --- *)
  Lemma step_nonce w o i a e :
    actors w !! i = Some a -> a_evm a = Some e ->
    exists a' e', actors (stepw w o) !! i = Some a' /\ a_evm a' = Some e' /\
      (e_nonce e <= e_nonce e' \/ dead_for (op_mctx o) e).
  Proof.
    intros Ha He. destruct (ext_old _ _ _ (step_ext keccak w o) i a Ha) as (a' & Ha' & _ & _ & Hev).
    rewrite He in Hev. simpl in Hev. destruct (a_evm a') as [e'|] eqn:He'; [|contradiction].
    exists a', e'. repeat split; auto. destruct Hev as [[Hn _] | Hd]; auto.
  Qed.
End History2.

(* ---------------------------------------------------------------------------------------------- *)
(* the address manager's rules, at the level of its methods *)
Lemma f4_eam sub : f4 EAM_ID sub = 4 :: 10 :: sub.
Proof. reflexivity. Qed.

Lemma eth_of_deleg_ok d from :
  eth_of_deleg d = EL_ok from -> d = Some (f4 EAM_ID from) /\ length from = 20%nat.
Proof.
  unfold eth_of_deleg. destruct d as [[|p [|ns sub]]|]; try discriminate.
  - destruct p; try discriminate. repeat (destruct p; try discriminate).
  - destruct p as [|p|p]; try discriminate. do 3 (destruct p as [p|p|]; try discriminate).
    destruct (ns =? EAM_ACTOR_ID) eqn:En; [|discriminate].
    destruct (length sub =? 20)%nat eqn:El; [|discriminate].
    intro H; inversion H; subst. apply Z.eqb_eq in En. apply Nat.eqb_eq in El.
    rewrite f4_eam. unfold EAM_ACTOR_ID in En. subst ns. auto.
Qed.

Section Rules.
  Variable keccak : list Z -> list Z.

  (* over what a deployment may happen *)
  Lemma eam_no_overwrite body mc w nc new_addr nc' w' id rb eth :
    wf w -> body_ext mc body ->
    eam_create_actor body mc w nc new_addr = (nc', Ok (w', Ret_eam id rb eth)) ->
    eth = new_addr /\ amap w' !! f4 EAM_ID eth = Some id /\
    ((actors w !! id = None /\ id = next_id w /\ amap w !! f4 EAM_ID eth = None) \/
     (exists a, actors w !! id = Some a /\ a_code a = C_Placeholder /\ amap w !! f4 EAM_ID eth = Some id) \/
     (exists a e, actors w !! id = Some a /\ a_code a = C_Evm /\ a_evm a = Some e /\ dead_for mc e /\
                  amap w !! f4 EAM_ID eth = Some id /\ rb = None)).
  Proof.
    intros W Hb H. pose proof H as H'. apply eam_create_actor_ok in H'.
    destruct H' as (_ & [(i & r & Hr & H4 & _) | (i & a & e & Hr & Hf & Ha & Hc & He & Hd & Hres)]); inversion Hr; subst.
    - split; [reflexivity|].
      destruct (init_exec4_target _ _ _ _ _ _ _ _ _ _ _ (evm_constructor_ext mc body Hb) W H4)
        as ([(-> & Hn & Hf & _) | (a & Ha & Hp & Hf)] & _ & _ & Hf').
      + split; [exact Hf'|]. left. auto.
      + split; [exact Hf'|]. right; left. eauto.
    - split; [reflexivity|].
      pose proof (evm_resurrect_ext mc body Hb _ _ _ _ _ Hres) as E.
      split; [eapply lookup_weaken; [exact Hf | apply E]|].
      right; right. exists a, e. repeat split; auto. apply is_dead_true; auto.
  Qed.

  Lemma eam_reserved_rejected body mc w nc new_addr nc' w' r :
    eam_create_actor body mc w nc new_addr = (nc', Ok (w', r)) -> can_assign new_addr = true.
  Proof. intro H. apply eam_create_actor_ok in H. apply H. Qed.

  (* CREATE: the address is keccak(rlp[deployer, nonce])[12..] *)
  Lemma create_address_formula body mc w nc caller nonce nc' w' id rb eth :
    eam_create keccak body mc w nc caller nonce = (nc', Ok (w', Ret_eam id rb eth)) ->
    exists ca from, actors w !! caller = Some ca /\ a_code ca = C_Evm /\
      a_deleg ca = Some (f4 EAM_ID from) /\ length from = 20%nat /\
      eth = last20 (keccak (rlp_addr_nonce from nonce)) /\ can_assign eth = true.
  Proof.
    intro H. apply eam_create_ok in H. destruct H as (from & Hc & H).
    apply eam_caller_eth_ok in Hc. destruct Hc as (ca & Hca & Hcode & Hd).
    apply eth_of_deleg_ok in Hd. destruct Hd as [Hd Hl].
    pose proof (eam_reserved_rejected _ _ _ _ _ _ _ _ H) as Hr.
    pose proof H as H'. apply eam_create_actor_ok in H'.
    assert (eth = last20 (keccak (rlp_addr_nonce from nonce))).
    { destruct H' as (_ & [(i & r & Hr' & _) | (i & a & e & Hr' & _)]); inversion Hr'; reflexivity. }
    subst eth. exists ca, from. repeat split; auto.
  Qed.

  Lemma create2_address_formula body mc w nc caller salt ch nc' w' id rb eth :
    eam_create2 keccak body mc w nc caller salt ch = (nc', Ok (w', Ret_eam id rb eth)) ->
    exists ca from, actors w !! caller = Some ca /\ a_code ca = C_Evm /\
      a_deleg ca = Some (f4 EAM_ID from) /\ length from = 20%nat /\
      eth = last20 (keccak ([255] ++ from ++ salt ++ ch)) /\ can_assign eth = true.
  Proof.
    intro H. apply eam_create2_ok in H. destruct H as (from & Hc & H).
    apply eam_caller_eth_ok in Hc. destruct Hc as (ca & Hca & Hcode & Hd).
    apply eth_of_deleg_ok in Hd. destruct Hd as [Hd Hl].
    pose proof (eam_reserved_rejected _ _ _ _ _ _ _ _ H) as Hr.
    pose proof H as H'. apply eam_create_actor_ok in H'.
    assert (eth = last20 (keccak (create2_preimage from salt ch))).
    { destruct H' as (_ & [(i & r & Hr' & _) | (i & a & e & Hr' & _)]); inversion Hr'; reflexivity. }
    subst eth. exists ca, from. repeat split; auto.
  Qed.

  Lemma create_external_address_formula body mc w nc caller key nc' w' id rb eth :
    eam_create_external keccak body mc w nc caller key = (nc', Ok (w', Ret_eam id rb eth)) ->
    caller = m_origin mc /\
    exists st, external_stable keccak w caller key = Some st /\
      eth = last20 (keccak (rlp_addr_nonce st (m_seq mc))) /\ can_assign eth = true.
  Proof.
    intro H. apply eam_create_external_ok in H. destruct H as (Ho & st & Hst & H).
    split; [exact Ho|]. exists st. split; [exact Hst|].
    pose proof (eam_reserved_rejected _ _ _ _ _ _ _ _ H) as Hr.
    pose proof H as H'. apply eam_create_actor_ok in H'.
    assert (eth = last20 (keccak (rlp_addr_nonce st (m_seq mc)))).
    { destruct H' as (_ & [(i & r & Hr' & _) | (i & a & e & Hr' & _)]); inversion Hr'; reflexivity. }
    subst eth. auto.
  Qed.

  (* distinct (deployer, nonce) pairs collide only if keccak collides on distinct pre-images *)
  Lemma create_addresses_distinct from1 n1 from2 n2 :
    length from1 = 20%nat -> length from2 = 20%nat -> 0 <= n1 < 2 ^ 64 -> 0 <= n2 < 2 ^ 64 ->
    create_address keccak from1 n1 = create_address keccak from2 n2 ->
    (from1 = from2 /\ n1 = n2) \/
    exists p1 p2, p1 <> p2 /\ last20 (keccak p1) = last20 (keccak p2).
  Proof.
    intros L1 L2 H1 H2 H. unfold create_address in H.
    destruct (list_eq_dec Z.eq_dec (rlp_addr_nonce from1 n1) (rlp_addr_nonce from2 n2)) as [E|E].
    - left. eapply rlp_pair_injective_l; eauto.
    - right. eauto.
  Qed.

  (* ------------------------------------------------------------------------------------------ *)
  (* EVM-side nonce handling *)
  Lemma do_create_endowment_too_big child mc w nc self e use2 salt ch :
    do_create keccak child mc w nc self e use2 salt ch true = (nc, (w, e, zero20)).
  Proof. reflexivity. Qed.

  Lemma not_dead_with_nonce mc e n : ~ dead_for mc e -> ~ dead_for mc (with_nonce e n).
  Proof. intros H [t [Ht Hne]]. apply H. exists t. auto. Qed.

  (* the nonce is incremented and persisted before the send, and stays incremented whatever the
     child's constructor does *)
  Lemma do_create_nonce mc child w nc self a e use2 salt ch nc' w' e' addr :
    body_ext mc child ->
    actors w !! self = Some a -> a_evm a = Some e -> ~ dead_for mc e ->
    do_create keccak child mc w nc self e use2 salt ch false = (nc', (w', e', addr)) ->
    e_nonce e + 1 <= e_nonce e' /\ get_evm w' self = Some e' /\
    (addr = zero20 \/ can_assign addr = true).
  Proof.
    intros Hb Ha He Hnd. unfold do_create.
    set (e_sent := with_nonce e (e_nonce e + 1)).
    set (w1 := set_evm w self e_sent).
    assert (Hg1 : get_evm w1 self = Some e_sent).
    { unfold w1. rewrite get_evm_set_evm, Ha. reflexivity. }
    destruct (if use2 then eam_create2 keccak child mc w1 nc self salt ch
              else eam_create keccak child mc w1 nc self (e_nonce e)) as [nc2 r] eqn:Er.
    destruct r as [[w2 rt]|err].
    - assert (E2 : ext mc w1 w2).
      { destruct use2; [eapply eam_create2_ext | eapply eam_create_ext]; eauto. }
      assert (exists id rb eth, rt = Ret_eam id rb eth /\ can_assign eth = true) as (id & rb & eth & -> & Hassign).
      { destruct use2.
        - apply eam_create2_ok in Er. destruct Er as (from & _ & Er).
          pose proof (eam_reserved_rejected _ _ _ _ _ _ _ _ Er).
          pose proof Er as Er'. apply eam_create_actor_ret in Er'. destruct Er' as (id & rb & ->). eauto.
        - apply eam_create_ok in Er. destruct Er as (from & _ & Er).
          pose proof (eam_reserved_rejected _ _ _ _ _ _ _ _ Er).
          pose proof Er as Er'. apply eam_create_actor_ret in Er'. destruct Er' as (id & rb & ->). eauto. }
      unfold get_evm in Hg1. destruct (actors w1 !! self) as [a1|] eqn:Ea1; [|discriminate].
      destruct (ext_old _ _ _ E2 _ _ Ea1) as (a2 & Ha2 & _ & _ & Hev).
      rewrite Hg1 in Hev. simpl in Hev. destruct (a_evm a2) as [e2|] eqn:He2; [|contradiction].
      intro H; inversion H; subst.
      assert (Hg2 : get_evm w' self = Some e2) by (unfold get_evm; rewrite Ha2; exact He2).
      rewrite Hg2. split; [|split; [reflexivity | right; exact Hassign]].
      destruct Hev as [[Hn _] | Hd]; [simpl in Hn; lia|].
      exfalso. eapply not_dead_with_nonce; eauto.
    - intro H; inversion H; subst. split; [simpl; lia|]. split; [exact Hg1 | left; reflexivity].
  Qed.
End Rules.
