(* Partition operations preserve PartInv, part 1: add_sectors, add_faults, record_faults,
   record_skipped_faults, declare_faults_recovered, recover_faults, activate_unproven. *)
From Coq Require Import ZArith List Bool Lia.
From stdpp Require Import gmap.
From VF Require Import Base.SetSum Model.Partition Model.PartitionInv Proofs.Partition_base
  Proofs.Partition_entry Proofs.Partition_moves Proofs.Partition_lists Proofs.Partition_queue1
  Proofs.Partition_queue2 Proofs.Partition_queue3 Proofs.Partition_queue4 Proofs.Partition_queue5
  Proofs.Partition_queue6.
Import ListNotations.
Open Scope Z_scope.

Lemma validated_ok p p' : validated p = Ok p' -> p' = p.
Proof. unfold validated. destruct (validate_state p); [|discriminate]. intros [= <-]. reflexivity. Qed.

(* ---------- the table ---------- *)
Lemma store_sectors_lookup_ne (secs : list sector) tbl n :
  n ∉ nums_of secs -> store_sectors tbl secs !! n = tbl !! n.
Proof.
  unfold store_sectors. revert tbl. induction secs as [|s l IH]; intros tbl Hn; cbn [fold_left];
    [reflexivity|].
  rewrite nums_of_cons in Hn. rewrite IH by set_solver. apply lookup_insert_ne. set_solver.
Qed.
Lemma store_sectors_lookup (secs : list sector) tbl s :
  NoDup (map s_num secs) -> s ∈ secs -> store_sectors tbl secs !! s_num s = Some s.
Proof.
  unfold store_sectors. revert tbl. induction secs as [|x l IH]; intros tbl Hnd Hs; [inversion Hs|].
  cbn [map] in Hnd. apply NoDup_cons in Hnd as [Hnotin Hnd]. cbn [fold_left].
  apply elem_of_cons in Hs as [->|Hs].
  - fold (store_sectors (<[s_num x := x]> tbl) l). rewrite store_sectors_lookup_ne.
    + apply lookup_insert.
    + intros H. apply Hnotin. unfold nums_of in H. apply elem_of_list_to_set in H. exact H.
  - apply IH; assumption.
Qed.
Lemma store_sectors_keyed (secs : list sector) tbl : tbl_keyed tbl -> tbl_keyed (store_sectors tbl secs).
Proof.
  unfold store_sectors. revert tbl. induction secs as [|x l IH]; intros tbl Hk; cbn [fold_left];
    [exact Hk|].
  apply IH. intros n s. destruct (decide (n = s_num x)) as [->|Hne].
  - rewrite lookup_insert. intros [= <-]. reflexivity.
  - rewrite lookup_insert_ne by congruence. apply Hk.
Qed.

Lemma TblOk_ext (tbl tbl' : gmap N sector) X :
  (forall n, n ∈ X -> tbl' !! n = tbl !! n) -> TblOk tbl X -> TblOk tbl' X.
Proof. intros E H n Hn. rewrite E by exact Hn. apply H, Hn. Qed.
Lemma TblOk_sub tbl X Y : Y ⊆ X -> TblOk tbl X -> TblOk tbl Y.
Proof. intros S H n Hn. apply H, S, Hn. Qed.

(* the live sectors and the sets inside them *)
Lemma partinv_sub qs tbl p :
  PartInv qs tbl p ->
  faults p ⊆ live_sectors p /\ unproven p ⊆ live_sectors p /\ recoveries p ⊆ live_sectors p.
Proof.
  intros []. unfold live_sectors. repeat split; set_solver.
Qed.

Lemma PartInv_tbl_ext qs (tbl tbl' : gmap N sector) p :
  (forall n, n ∈ live_sectors p -> tbl' !! n = tbl !! n) -> tbl_keyed tbl' ->
  PartInv qs tbl p -> PartInv qs tbl' p.
Proof.
  intros E Hk HP. destruct (partinv_sub _ _ _ HP) as (SF & SU & SR). destruct HP.
  constructor; try assumption.
  - eapply TblOk_ext; eauto.
  - rewrite pi_live_power. symmetry. apply spow_ext. exact E.
  - rewrite pi_unproven_power. symmetry. apply spow_ext. intros n Hn. apply E, SU, Hn.
  - rewrite pi_faulty_power. symmetry. apply spow_ext. intros n Hn. apply E, SF, Hn.
  - rewrite pi_recovering_power. symmetry. apply spow_ext. intros n Hn. apply E, SR, Hn.
  - eapply QInv_tbl_ext; eauto.
Qed.

(* ---------- the early-termination queue ---------- *)
Lemma ETInv_mono T T' et : T ⊆ T' -> ETInv T et -> ETInv T' et.
Proof.
  intros S [H1 H2]. constructor; [|exact H2]. intros k X Hk. destruct (H1 k X Hk) as (A & B & C).
  split; [exact A|]. split; [exact B|]. set_solver.
Qed.

Lemma bfq_add_inv T T' (et et' : gmap Z (gset N)) e (X : gset N) :
  ETInv T et -> bfq_add NO_QUANT et e X = Ok et' -> X ## T -> X ⊆ T' -> T ⊆ T' -> ETInv T' et'.
Proof.
  intros HE Hadd HXT HXT' HTT'. unfold bfq_add in Hadd.
  destruct (set_empty X) eqn:Ee.
  - injection Hadd as <-. eapply ETInv_mono; eauto.
  - apply set_empty_false in Ee. rewrite quant_up_noquant in Hadd.
    destruct (e <? 0) eqn:Ek; [discriminate|]. injection Hadd as <-. apply Z.ltb_ge in Ek.
    destruct HE as [H1 H2]. constructor.
    + intros k Y. destruct (decide (k = e)) as [->|Hne].
      * rewrite lookup_insert. intros [= <-]. split; [exact Ek|]. split; [set_solver|].
        destruct (et !! e) as [Y0|] eqn:E0; cbn; [|set_solver].
        destruct (H1 _ _ E0) as (_ & _ & S). set_solver.
      * rewrite lookup_insert_ne by congruence. intros Hk. destruct (H1 _ _ Hk) as (A & B & C).
        split; [exact A|]. split; [exact B|]. set_solver.
    + intros k1 k2 Y1 Y2 Hne.
      assert (Hother : forall k Y, k <> e -> et !! k = Some Y -> Y ## default ∅ (et !! e) ∪ X).
      { intros k Y Hk HY. destruct (H1 _ _ HY) as (_ & _ & S).
        destruct (et !! e) as [Y0|] eqn:E0; cbn; [|set_solver].
        pose proof (H2 _ _ _ _ Hk HY E0). set_solver. }
      destruct (decide (k1 = e)) as [->|Hn1]; destruct (decide (k2 = e)) as [->|Hn2]; try congruence.
      * rewrite lookup_insert, lookup_insert_ne by congruence. intros [= <-] HY. symmetry. eauto.
      * rewrite lookup_insert, lookup_insert_ne by congruence. intros HY [= <-]. eauto.
      * rewrite !lookup_insert_ne by congruence. apply H2, Hne.
Qed.

Lemma ETInv_empty T : ETInv T ∅.
Proof.
  constructor.
  - intros k X. rewrite lookup_empty. discriminate.
  - intros k1 k2 X1 X2 _. rewrite lookup_empty. discriminate.
Qed.

(* ---------- add_sectors ---------- *)
Lemma p_add_sectors_inv qs tbl p proven secs p' pw fee :
  PartInv qs tbl p -> NoDup (map s_num secs) -> Forall (fun s => sector_ok s (s_num s)) secs ->
  p_add_sectors qs p proven secs = Ok (p', pw, fee) ->
  let tbl' := store_sectors tbl secs in
  PartInv qs tbl' p' /\ nums_of secs ## sectors p /\
  sectors p' = sectors p ∪ nums_of secs /\ faults p' = faults p /\ terminated p' = terminated p /\
  unproven p' = (if proven then unproven p else unproven p ∪ nums_of secs) /\
  pw = spow tbl' (nums_of secs) /\ fee = sfee tbl' (nums_of secs).
Proof.
  intros HP Hnd Hok Hop tbl'. set (X := nums_of secs) in *.
  unfold p_add_sectors in Hop.
  destruct (add_active_sectors qs (expirations p) secs) as [[[[[q ns] pw0] pl0] fee0]|] eqn:Ea;
    cbn [rbind] in Hop; [|discriminate].
  assert (Hft : from_tbl tbl' secs) by (intros s Hs; apply store_sectors_lookup; assumption).
  destruct (disjoint_b (sectors p) ns) eqn:Ed; cbn [negb] in Hop; [|discriminate].
  apply disjoint_b_true in Ed.
  (* the returned numbers are those of secs whatever the invariant *)
  assert (Ens : ns = X).
  { unfold add_active_sectors in Ea. destruct (foldM _ _ _); cbn [rbind] in Ea; [|discriminate].
    injection Ea as _ <- _ _ _. reflexivity. }
  subst ns.
  assert (Hext : forall n, n ∈ live_sectors p -> tbl' !! n = tbl !! n).
  { intros n Hn. apply store_sectors_lookup_ne. unfold live_sectors in Hn. clear -Hn Ed. set_solver. }
  assert (HP' : PartInv qs tbl' p).
  { apply (PartInv_tbl_ext qs tbl tbl'); [exact Hext| |exact HP]. apply store_sectors_keyed, HP. }
  destruct (partinv_sub _ _ _ HP') as (SF & SU & SR).
  assert (HXF : X ## faults p) by (pose proof (pi_faults_sectors _ _ _ HP'); clear -H Ed; set_solver).
  assert (HXL : X ## live_sectors p) by (unfold live_sectors; clear -Ed; set_solver).
  destruct (add_active_sectors_inv qs tbl' (faults p) secs (pi_unit _ _ _ HP') Hft Hnd HXF
              (expirations p) q (live_sectors p) X pw0 pl0 fee0 (pi_queue _ _ _ HP') HXL Ea)
    as (HQ & _ & -> & -> & ->).
  destruct (validated _) as [p2|] eqn:Ev; cbn [rbind] in Hop; [|discriminate].
  apply validated_ok in Ev. subst p2. injection Hop as <- <- <-.
  cbn [sectors unproven faults recoveries terminated].
  split; [|split; [clear -Ed; set_solver|repeat split; reflexivity]].
  destruct HP'.
  assert (Elive : live_sectors p ∪ X = (sectors p ∪ X) ∖ terminated p).
  { unfold live_sectors. apply seteq_L. clear -Ed pi_terminated_sectors. set_solver. }
  constructor; cbn [sectors unproven faults recoveries terminated expirations early_terminated
                    live_power unproven_power p_faulty_power recovering_power]; try assumption.
  - unfold live_sectors; cbn [sectors terminated]. rewrite <- Elive.
    intros n Hn. apply elem_of_union in Hn as [Hn|Hn]; [apply pi_tbl, Hn|].
    apply elem_of_nums_of in Hn as (s & Hs & <-). exists s. split; [apply Hft, Hs|].
    rewrite Forall_forall in Hok. apply Hok, Hs.
  - clear -pi_faults_sectors. set_solver.
  - destruct proven; clear -pi_unproven_sectors; set_solver.
  - clear -pi_terminated_sectors. set_solver.
  - destruct proven; [assumption|]. clear -pi_unproven_faults HXF. set_solver.
  - destruct proven; [assumption|]. clear -pi_unproven_terminated Ed pi_terminated_sectors. set_solver.
  - unfold live_sectors; cbn [sectors terminated]. rewrite <- Elive, pi_live_power. symmetry.
    apply spow_add_eq; [reflexivity|clear -HXL; set_solver].
  - destruct proven; [assumption|]. rewrite pi_unproven_power. symmetry.
    apply spow_add_eq; [reflexivity|]. clear -pi_unproven_sectors Ed. set_solver.
  - unfold live_sectors; cbn [sectors terminated]. rewrite <- Elive. exact HQ.
Qed.

(* ---------- add_faults ---------- *)
Lemma select_sectors_ok secs X l :
  select_sectors secs X = Ok l ->
  l = List.filter (fun s => bool_decide (s_num s ∈ X)) secs /\ X ⊆ nums_of secs.
Proof.
  unfold select_sectors. destruct (subset X (nums_of secs)) eqn:E; [|discriminate].
  apply subset_true in E. intros [= <-]. auto.
Qed.

Lemma p_add_faults_inv qs tbl p nums secs fault_exp p' delta nfp :
  PartInv qs tbl p -> from_tbl tbl secs -> NoDup (map s_num secs) -> nums = nums_of secs ->
  nums ⊆ live_sectors p -> nums ## faults p ->
  p_add_faults qs p nums secs fault_exp = Ok (p', delta, nfp) ->
  PartInv qs tbl p' /\
  sectors p' = sectors p /\ terminated p' = terminated p /\ recoveries p' = recoveries p /\
  recovering_power p' = recovering_power p /\
  faults p' = faults p ∪ nums /\ unproven p' = unproven p ∖ nums /\
  nfp = spow tbl nums /\ delta = pp_add (pp_neg (spow tbl nums)) (spow tbl (nums ∩ unproven p)).
Proof.
  intros HP Hft Hnd -> HL HF Hop. set (X := nums_of secs) in *.
  unfold p_add_faults in Hop.
  destruct (reschedule_as_faults qs (expirations p) fault_exp secs) as [[q nf]|] eqn:Er;
    cbn [rbind] in Hop; [|discriminate].
  destruct (reschedule_as_faults_inv qs tbl (faults p) secs (pi_unit _ _ _ HP) Hft Hnd HF
              (expirations p) q (live_sectors p) fault_exp nf (pi_queue _ _ _ HP) Er)
    as (HQ & -> & _). fold X in HQ.
  destruct (select_sectors secs (X ∩ unproven p)) as [ui|] eqn:Es; cbn [rbind] in Hop; [|discriminate].
  apply select_sectors_ok in Es as [-> _].
  assert (Elost : sum_pow (List.filter (fun s => bool_decide (s_num s ∈ X ∩ unproven p)) secs)
                  = spow tbl (X ∩ unproven p)).
  { rewrite (sum_pow_from_tbl tbl); [|apply from_tbl_filter, Hft|apply NoDup_map_filter, Hnd].
    apply spow_eq. rewrite nums_of_filter_in. fold X. clear. set_solver. }
  rewrite Elost in Hop.
  destruct (validated _) as [p2|] eqn:Ev; cbn [rbind] in Hop; [|discriminate].
  apply validated_ok in Ev. subst p2. injection Hop as <- <- <-.
  cbn [sectors unproven faults recoveries terminated recovering_power].
  split; [|repeat split; try reflexivity; apply seteq_L; clear; set_solver].
  destruct HP. unfold live_sectors in *.
  constructor; cbn [sectors unproven faults recoveries terminated expirations early_terminated
                    live_power unproven_power p_faulty_power recovering_power]; try assumption.
  - clear -pi_rec_faults. set_solver.
  - clear -pi_faults_sectors HL. set_solver.
  - clear -pi_unproven_sectors. set_solver.
  - clear -pi_unproven_faults. set_solver.
  - clear -pi_unproven_terminated. set_solver.
  - clear -pi_faults_terminated HL. set_solver.
  - rewrite pi_unproven_power.
    rewrite (spow_add_eq tbl (unproven p) (unproven p ∖ (X ∩ unproven p)) (X ∩ unproven p)).
    + apply pp_eq; cbn; lia.
    + intros n. destruct (decide (n ∈ X)); set_solver.
    + clear. set_solver.
  - rewrite pi_faulty_power. symmetry. apply spow_add_eq; [reflexivity|clear -HF; set_solver].
Qed.

(* ---------- remove_recoveries ---------- *)
Lemma remove_recoveries_inv qs tbl p (R : gset N) :
  PartInv qs tbl p -> R ⊆ recoveries p ->
  PartInv qs tbl (remove_recoveries p R (spow tbl R)).
Proof.
  intros HP HR. unfold remove_recoveries. destruct (set_empty R) eqn:E; [exact HP|].
  destruct HP. constructor; cbn; try assumption.
  - clear -pi_rec_faults. set_solver.
  - rewrite pi_recovering_power.
    rewrite (spow_add_eq tbl (recoveries p) (recoveries p ∖ R) R).
    + apply pp_eq; cbn; lia.
    + intros n. destruct (decide (n ∈ R)); set_solver.
    + clear. set_solver.
Qed.
Lemma remove_recoveries_fields p R pw :
  let p' := remove_recoveries p R pw in
  sectors p' = sectors p /\ faults p' = faults p /\ unproven p' = unproven p /\
  terminated p' = terminated p /\ recoveries p' = recoveries p ∖ R.
Proof.
  unfold remove_recoveries. destruct (set_empty R) eqn:E; cbn.
  - apply set_empty_true in E. subst R. repeat split. apply seteq_L. set_solver.
  - repeat split.
Qed.

(* ---------- record_faults ---------- *)
Lemma load_from_live qs tbl p (X : gset N) l :
  PartInv qs tbl p -> load_sectors tbl X = Ok l ->
  from_tbl tbl l /\ NoDup (map s_num l) /\ nums_of l = X.
Proof.
  intros HP Hl. destruct (load_sectors_spec tbl X l (pi_keyed _ _ _ HP) Hl) as (A & _ & B & C). auto.
Qed.

Lemma retract_inv qs tbl p1 (retracted : gset N) rs :
  PartInv qs tbl p1 -> retracted ⊆ recoveries p1 -> load_sectors tbl retracted = Ok rs ->
  let p2 := match rs with [] => p1 | _ => remove_recoveries p1 retracted (sum_pow rs) end in
  PartInv qs tbl p2 /\ sectors p2 = sectors p1 /\ faults p2 = faults p1 /\
  unproven p2 = unproven p1 /\ terminated p2 = terminated p1.
Proof.
  intros HP1 HR El2. destruct (load_from_live _ _ _ _ _ HP1 El2) as (Hft2 & Hnd2 & Hn2).
  destruct rs as [|r0 rs0]; [cbn zeta; split; [exact HP1|repeat split]|].
  cbn zeta iota.
  rewrite (sum_pow_from_tbl tbl _ Hft2 Hnd2), Hn2.
  split; [apply remove_recoveries_inv; assumption|].
  pose proof (remove_recoveries_fields p1 retracted (spow tbl retracted)) as Hf. cbn zeta in Hf. tauto.
Qed.

Lemma p_record_faults_inv qs tbl p nums fault_exp p' nf delta nfp :
  PartInv qs tbl p ->
  p_record_faults qs tbl p nums fault_exp = Ok (p', nf, delta, nfp) ->
  PartInv qs tbl p' /\
  sectors p' = sectors p /\ terminated p' = terminated p /\
  faults p' = faults p ∪ nf /\ unproven p' = unproven p ∖ nf /\
  nf = ((nums ∖ terminated p) ∖ faults p) /\ nf ⊆ sectors p /\
  nfp = spow tbl nf /\ delta = pp_add (pp_neg (spow tbl nf)) (spow tbl (nf ∩ unproven p)).
Proof.
  intros HP Hop. unfold p_record_faults in Hop.
  destruct (subset nums (sectors p)) eqn:Esub; cbn [negb] in Hop; [|discriminate].
  apply subset_true in Esub.
  remember (recoveries p ∩ nums) as retracted eqn:Eret.
  remember (((nums ∖ retracted) ∖ terminated p) ∖ faults p) as new_faults eqn:Enf0.
  assert (Enf : new_faults = (nums ∖ terminated p) ∖ faults p).
  { apply seteq_L. pose proof (pi_rec_faults _ _ _ HP). clear -H Enf0 Eret. set_solver. }
  clear Enf0.
  destruct (load_sectors tbl new_faults) as [nfs|] eqn:El1; cbn [rbind] in Hop; [|discriminate].
  destruct (load_from_live _ _ _ _ _ HP El1) as (Hft1 & Hnd1 & Hn1).
  assert (HnfL : new_faults ⊆ live_sectors p).
  { rewrite Enf. unfold live_sectors. clear -Esub. set_solver. }
  assert (HnfF : new_faults ## faults p) by (rewrite Enf; clear; set_solver).
  assert (HnfS : new_faults ⊆ sectors p) by (rewrite Enf; clear -Esub; set_solver).
  destruct nfs as [|s0 nfs0].
  - (* no new fault *)
    cbn [rbind] in Hop.
    assert (E0 : new_faults = ∅) by (rewrite <- Hn1; reflexivity).
    destruct (load_sectors tbl retracted) as [rs|] eqn:El2; cbn [rbind] in Hop; [|discriminate].
    destruct (retract_inv qs tbl p retracted rs HP) as (HP2 & S2 & F2 & U2 & T2);
      [rewrite Eret; clear; set_solver|exact El2|].
    destruct (validated _) as [p3|] eqn:Ev; cbn [rbind] in Hop; [|discriminate].
    apply validated_ok in Ev. subst p3. injection Hop as <- <- <- <-.
    split; [exact HP2|]. rewrite S2, T2, F2, U2.
    split; [reflexivity|]. split; [reflexivity|].
    split; [rewrite E0; apply seteq_L; clear; set_solver|].
    split; [rewrite E0; apply seteq_L; clear; set_solver|].
    split; [exact Enf|]. split; [exact HnfS|].
    split; [rewrite E0; symmetry; apply spow_empty|]. rewrite E0.
    replace (∅ ∩ unproven p) with (∅ : gset N) by (apply seteq_L; clear; set_solver).
    rewrite spow_empty. reflexivity.
  - remember (s0 :: nfs0) as nfs eqn:Enfs.
    assert (Hop' : (LET '(p1, delta, new_faulty) <- p_add_faults qs p new_faults nfs fault_exp IN
                LET retracted_secs <- load_sectors tbl retracted IN
                let p2 := match retracted_secs with
                          | [] => p1
                          | _ => remove_recoveries p1 retracted (sum_pow retracted_secs)
                          end in
                LET p3 <- validated p2 IN Ok (p3, new_faults, delta, new_faulty))
              = Ok (p', nf, delta, nfp)).
    { rewrite <- Hop. rewrite Enfs. reflexivity. }
    clear Hop.
    destruct (p_add_faults qs p new_faults nfs fault_exp) as [[[p1 d1] n1]|] eqn:Ea;
      cbn [rbind] in Hop'; [|discriminate].
    destruct (p_add_faults_inv qs tbl p new_faults nfs fault_exp p1 d1 n1 HP Hft1 Hnd1
                (eq_sym Hn1) HnfL HnfF Ea) as (HP1 & A1 & A2 & A3 & A4 & A5 & A6 & A7 & A8).
    destruct (load_sectors tbl retracted) as [rs|] eqn:El2; cbn [rbind] in Hop'; [|discriminate].
    destruct (retract_inv qs tbl p1 retracted rs HP1) as (HP2 & S2 & F2 & U2 & T2);
      [rewrite A3, Eret; clear; set_solver|exact El2|].
    destruct (validated _) as [p3|] eqn:Ev; cbn [rbind] in Hop'; [|discriminate].
    apply validated_ok in Ev. subst p3. injection Hop' as <- <- <- <-.
    split; [exact HP2|]. rewrite S2, T2, F2, U2, A1, A2, A5, A6.
    repeat split; assumption.
Qed.

(* ---------- record_skipped_faults ---------- *)
Lemma p_record_skipped_faults_inv qs tbl p fault_exp skipped p' delta nfp rrp hnf :
  PartInv qs tbl p ->
  p_record_skipped_faults qs tbl p fault_exp skipped = Ok (p', delta, nfp, rrp, hnf) ->
  let nf := (skipped ∖ terminated p) ∖ faults p in
  PartInv qs tbl p' /\
  sectors p' = sectors p /\ terminated p' = terminated p /\
  faults p' = faults p ∪ nf /\ unproven p' = unproven p ∖ nf /\ nf ⊆ sectors p /\
  nfp = spow tbl nf /\ delta = pp_add (pp_neg (spow tbl nf)) (spow tbl (nf ∩ unproven p)) /\
  rrp = spow tbl (recoveries p ∩ skipped).
Proof.
  intros HP Hop nf. unfold p_record_skipped_faults in Hop.
  destruct (set_empty skipped) eqn:Ee.
  { apply set_empty_true in Ee. injection Hop as <- <- <- <- <-.
    assert (E0 : nf = ∅) by (subst nf skipped; apply seteq_L; clear; set_solver).
    rewrite E0. split; [exact HP|]. split; [reflexivity|]. split; [reflexivity|].
    split; [apply seteq_L; clear; set_solver|]. split; [apply seteq_L; clear; set_solver|].
    split; [clear; set_solver|]. split; [symmetry; apply spow_empty|].
    replace (∅ ∩ unproven p) with (∅ : gset N) by (apply seteq_L; clear; set_solver).
    rewrite spow_empty. split; [reflexivity|].
    rewrite <- (spow_empty tbl). apply spow_eq. rewrite Ee. clear. set_solver. }
  destruct (subset skipped (sectors p)) eqn:Esub; cbn [negb] in Hop; [|discriminate].
  apply subset_true in Esub.
  remember (recoveries p ∩ skipped) as retracted eqn:Eret.
  destruct (load_sectors tbl retracted) as [rs|] eqn:El2; cbn [rbind] in Hop; [|discriminate].
  destruct (load_from_live _ _ _ _ _ HP El2) as (Hft2 & Hnd2 & Hn2).
  fold nf in Hop.
  destruct (load_sectors tbl nf) as [nfs|] eqn:El1; cbn [rbind] in Hop; [|discriminate].
  destruct (load_from_live _ _ _ _ _ HP El1) as (Hft1 & Hnd1 & Hn1).
  assert (HnfL : nf ⊆ live_sectors p) by (subst nf; unfold live_sectors; clear -Esub; set_solver).
  assert (HnfF : nf ## faults p) by (subst nf; clear; set_solver).
  destruct (p_add_faults qs p nf nfs fault_exp) as [[[p1 d1] n1]|] eqn:Ea; cbn [rbind] in Hop; [|discriminate].
  destruct (p_add_faults_inv qs tbl p nf nfs fault_exp p1 d1 n1 HP Hft1 Hnd1
              (eq_sym Hn1) HnfL HnfF Ea) as (HP1 & A1 & A2 & A3 & A4 & A5 & A6 & A7 & A8).
  rewrite (sum_pow_from_tbl tbl rs Hft2 Hnd2), Hn2 in Hop.
  destruct (validated _) as [p3|] eqn:Ev; cbn [rbind] in Hop; [|discriminate].
  apply validated_ok in Ev. subst p3. injection Hop as <- <- <- <- _.
  pose proof (remove_recoveries_fields p1 retracted (spow tbl retracted)) as Hf. cbn zeta in Hf.
  destruct Hf as (S2 & F2 & U2 & T2 & _).
  split.
  { apply remove_recoveries_inv; [exact HP1|]. rewrite A3, Eret. clear. set_solver. }
  rewrite S2, T2, F2, U2, A1, A2, A5, A6.
  repeat split; try assumption. subst nf. clear -Esub. set_solver.
Qed.

(* ---------- declare_faults_recovered ---------- *)
Lemma p_declare_faults_recovered_inv qs tbl p nums p' :
  PartInv qs tbl p ->
  p_declare_faults_recovered tbl p nums = Ok p' ->
  PartInv qs tbl p' /\ sectors p' = sectors p /\ faults p' = faults p /\
  unproven p' = unproven p /\ terminated p' = terminated p /\
  live_power p' = live_power p /\ unproven_power p' = unproven_power p /\
  p_faulty_power p' = p_faulty_power p.
Proof.
  intros HP Hop. unfold p_declare_faults_recovered in Hop.
  destruct (subset nums (sectors p)); cbn [negb] in Hop; [|discriminate].
  remember ((nums ∩ faults p) ∖ recoveries p) as recs eqn:Erecs.
  destruct (load_sectors tbl recs) as [rs|] eqn:El; cbn [rbind] in Hop; [|discriminate].
  destruct (load_from_live _ _ _ _ _ HP El) as (Hft & Hnd & Hn).
  apply validated_ok in Hop. subst p'. cbn. split; [|repeat split].
  destruct HP. constructor; cbn; try assumption.
  - clear -pi_rec_faults Erecs. set_solver.
  - rewrite pi_recovering_power, (sum_pow_from_tbl tbl rs Hft Hnd), Hn. symmetry.
    apply spow_add_eq; [reflexivity|clear -Erecs; set_solver].
Qed.

(* ---------- recover_faults ---------- *)
Lemma p_recover_faults_inv qs tbl p p' pw :
  PartInv qs tbl p ->
  p_recover_faults qs tbl p = Ok (p', pw) ->
  PartInv qs tbl p' /\ sectors p' = sectors p /\ faults p' = faults p ∖ recoveries p /\
  unproven p' = unproven p /\ terminated p' = terminated p /\ pw = spow tbl (recoveries p).
Proof.
  intros HP Hop. unfold p_recover_faults in Hop.
  destruct (load_sectors tbl (recoveries p)) as [rs|] eqn:El; cbn [rbind] in Hop; [|discriminate].
  destruct (load_from_live _ _ _ _ _ HP El) as (Hft & Hnd & Hn).
  destruct (reschedule_recovered qs (expirations p) rs) as [[q pw0]|] eqn:Er; cbn [rbind] in Hop; [|discriminate].
  destruct (partinv_sub _ _ _ HP) as (SF & SU & SR).
  destruct (reschedule_recovered_inv qs tbl (faults p) (live_sectors p) rs (pi_unit _ _ _ HP) Hft Hnd)
    with (q := expirations p) (q' := q) (pw := pw0) as (HQ & ->).
  - rewrite Hn. apply (pi_rec_faults _ _ _ HP).
  - rewrite Hn. exact SR.
  - apply (pi_queue _ _ _ HP).
  - exact Er.
  - rewrite Hn in *.
    destruct (validated _) as [p2|] eqn:Ev; cbn [rbind] in Hop; [|discriminate].
    apply validated_ok in Ev. subst p2. injection Hop as <- <-. cbn.
    split; [|repeat split]. destruct HP. constructor; cbn; try assumption.
    + clear. set_solver.
    + clear -pi_faults_sectors. set_solver.
    + clear -pi_unproven_faults. set_solver.
    + clear -pi_faults_terminated. set_solver.
    + rewrite pi_faulty_power.
      rewrite (spow_add_eq tbl (faults p) (faults p ∖ recoveries p) (recoveries p)).
      * apply pp_eq; cbn; lia.
      * intros n. destruct (decide (n ∈ recoveries p)); set_solver.
      * clear. set_solver.
    + rewrite pi_recovering_power, spow_empty. apply pp_eq; cbn; lia.
Qed.

(* ---------- activate_unproven ---------- *)
Lemma p_activate_unproven_inv qs tbl p p' pw :
  PartInv qs tbl p -> p_activate_unproven p = (p', pw) ->
  PartInv qs tbl p' /\ sectors p' = sectors p /\ faults p' = faults p /\ unproven p' = ∅ /\
  terminated p' = terminated p /\ pw = spow tbl (unproven p).
Proof.
  intros HP. unfold p_activate_unproven. intros [= <- <-]. cbn.
  split; [|repeat split; apply (pi_unproven_power _ _ _ HP)].
  destruct HP. constructor; cbn; try assumption.
  - clear. set_solver.
  - clear. set_solver.
  - clear. set_solver.
  - symmetry. apply spow_empty.
Qed.
