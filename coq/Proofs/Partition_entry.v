(* Entry-level updates of the expiration queue preserve the entry invariant (ExpSetPre). *)
From Coq Require Import ZArith List Bool Lia.
From stdpp Require Import gmap.
From VF Require Import Base.SetSum Model.Partition Model.PartitionInv Proofs.Partition_base.
Import ListNotations.
Open Scope Z_scope.

Ltac pp_crush :=
  unfold pp_add, pp_sub, pp_neg, pp0 in *; apply pp_eq; cbn [raw qa] in *; lia.

(* E1: fresh non-faulty sectors T, all expiring (quantised) at k, join the on-time set *)
Lemma esp_add_on_time qs tbl F k es es' (T : gset N) :
  ExpSetPre qs tbl F k es ->
  T ## es_all es -> T ## F ->
  (forall n, n ∈ T -> exists s, tbl !! n = Some s /\ quant_up qs (s_exp s) = k) ->
  on_time es' = on_time es ∪ T -> early es' = early es ->
  on_time_pledge es' = on_time_pledge es + spledge tbl T ->
  active_power es' = pp_add (active_power es) (spow tbl T) ->
  faulty_power es' = faulty_power es ->
  fee_deduction es' = fee_deduction es + sfee tbl T ->
  ExpSetPre qs tbl F k es'.
Proof.
  intros [Pq Pk Pd Pef Pot Pea Ppl Pact Pflt Pfee] HT HTF Hat Eot Eea Epl Eact Eflt Efee. unfold es_all in *.
  constructor; rewrite ?Eot, ?Eea, ?Epl, ?Eact, ?Eflt, ?Efee; try assumption.
  - set_solver.
  - intros n Hn. apply elem_of_union in Hn as [Hn|Hn]; auto.
  - rewrite Ppl. symmetry. apply spledge_add_eq; set_solver.
  - rewrite Pact. symmetry. apply spow_add_eq; set_solver.
  - rewrite Pflt. apply spow_eq. set_solver.
  - unfold es_all. rewrite Eot, Eea, Pfee. symmetry. unfold es_all.
    apply sfee_add_eq; set_solver.
Qed.

(* E2: fresh faulty sectors T join the early set at a key below their own expiration *)
Lemma esp_add_early qs tbl F k es es' (T : gset N) :
  ExpSetPre qs tbl F k es ->
  T ## es_all es -> T ⊆ F ->
  (forall n, n ∈ T -> exists s, tbl !! n = Some s /\ k < quant_up qs (s_exp s)) ->
  on_time es' = on_time es -> early es' = early es ∪ T ->
  on_time_pledge es' = on_time_pledge es ->
  active_power es' = active_power es ->
  faulty_power es' = pp_add (faulty_power es) (spow tbl T) ->
  fee_deduction es' = fee_deduction es + sfee tbl T ->
  ExpSetPre qs tbl F k es'.
Proof.
  intros [Pq Pk Pd Pef Pot Pea Ppl Pact Pflt Pfee] HT HTF Hat Eot Eea Epl Eact Eflt Efee. unfold es_all in *.
  constructor; rewrite ?Eot, ?Eea, ?Epl, ?Eact, ?Eflt, ?Efee; try assumption.
  - set_solver.
  - set_solver.
  - intros n Hn. apply elem_of_union in Hn as [Hn|Hn]; auto.
  - rewrite Pflt. symmetry. apply spow_add_eq; set_solver.
  - unfold es_all. rewrite Eot, Eea, Pfee. symmetry. unfold es_all.
    apply sfee_add_eq; set_solver.
Qed.

(* E3: non-faulty on-time sectors T leave the entry *)
Lemma esp_remove_active qs tbl F k es es' (T : gset N) :
  ExpSetPre qs tbl F k es ->
  T ⊆ on_time es -> T ## F ->
  on_time es' = on_time es ∖ T -> early es' = early es ->
  on_time_pledge es' = on_time_pledge es - spledge tbl T ->
  active_power es' = pp_sub (active_power es) (spow tbl T) ->
  faulty_power es' = faulty_power es ->
  fee_deduction es' = fee_deduction es - sfee tbl T ->
  ExpSetPre qs tbl F k es'.
Proof.
  intros [Pq Pk Pd Pef Pot Pea Ppl Pact Pflt Pfee] HT HTF Eot Eea Epl Eact Eflt Efee. unfold es_all in *.
  constructor; rewrite ?Eot, ?Eea, ?Epl, ?Eact, ?Eflt, ?Efee; try assumption.
  - set_solver.
  - intros n Hn. apply Pot. set_solver.
  - rewrite Ppl.
    rewrite (spledge_add_eq tbl (on_time es) (on_time es ∖ T) T); [lia| |set_solver].
    intros n. destruct (decide (n ∈ T)); set_solver.
  - rewrite Pact.
    rewrite (spow_add_eq tbl (on_time es ∖ F) ((on_time es ∖ T) ∖ F) T); [|  |set_solver].
    + pp_crush.
    + intros n. destruct (decide (n ∈ T)); set_solver.
  - rewrite Pflt. apply spow_eq. set_solver.
  - unfold es_all. rewrite Eot, Eea, Pfee. unfold es_all.
    rewrite (sfee_add_eq tbl (on_time es ∪ early es) (on_time es ∖ T ∪ early es) T); [lia| |set_solver].
    intros n. destruct (decide (n ∈ T)); set_solver.
Qed.

(* E4: non-faulty on-time sectors T become faulty in place (fault set grows by T) *)
Lemma esp_mark_faulty qs tbl F k es es' (T : gset N) :
  ExpSetPre qs tbl F k es ->
  T ⊆ on_time es -> T ## F ->
  on_time es' = on_time es -> early es' = early es ->
  on_time_pledge es' = on_time_pledge es ->
  active_power es' = pp_sub (active_power es) (spow tbl T) ->
  faulty_power es' = pp_add (faulty_power es) (spow tbl T) ->
  fee_deduction es' = fee_deduction es ->
  ExpSetPre qs tbl (F ∪ T) k es'.
Proof.
  intros [Pq Pk Pd Pef Pot Pea Ppl Pact Pflt Pfee] HT HTF Eot Eea Epl Eact Eflt Efee. unfold es_all in *.
  constructor; rewrite ?Eot, ?Eea, ?Epl, ?Eact, ?Eflt, ?Efee; try assumption.
  - set_solver.
  - rewrite Pact.
    rewrite (spow_add_eq tbl (on_time es ∖ F) (on_time es ∖ (F ∪ T)) T); [| |set_solver].
    + pp_crush.
    + intros n. destruct (decide (n ∈ T)); set_solver.
  - rewrite Pflt. symmetry. apply spow_add_eq; [|set_solver].
    intros n. destruct (decide (n ∈ T)); set_solver.
  - unfold es_all. rewrite Eot, Eea. exact Pfee.
Qed.

(* E5: recovery.  Faulty on-time sectors Tot become active in place; early sectors Tea leave the
   entry (to be re-added on time elsewhere).  F' is the fault set afterwards. *)
Lemma esp_recover qs tbl F F' k es es' (Tot Tea : gset N) :
  ExpSetPre qs tbl F k es ->
  Tot ⊆ on_time es ∩ F -> Tea ⊆ early es ->
  (forall n, n ∈ es_all es -> (n ∈ F' <-> n ∈ F /\ n ∉ Tot ∪ Tea)) ->
  on_time es' = on_time es -> early es' = early es ∖ Tea ->
  on_time_pledge es' = on_time_pledge es ->
  active_power es' = pp_add (active_power es) (spow tbl Tot) ->
  faulty_power es' = pp_sub (pp_sub (faulty_power es) (spow tbl Tot)) (spow tbl Tea) ->
  fee_deduction es' = fee_deduction es - sfee tbl Tea ->
  ExpSetPre qs tbl F' k es'.
Proof.
  intros [Pq Pk Pd Pef Pot Pea Ppl Pact Pflt Pfee] HTot HTea HF Eot Eea Epl Eact Eflt Efee. unfold es_all in *.
  constructor; rewrite ?Eot, ?Eea, ?Epl, ?Eact, ?Eflt, ?Efee; try assumption.
  - set_solver.
  - intros n Hn. apply HF; set_solver.
  - intros n Hn. apply Pea. set_solver.
  - rewrite Pact. symmetry. apply spow_add_eq.
    + intros n. rewrite elem_of_union, !elem_of_difference. split.
      * intros [Hn Hnf]. destruct (decide (n ∈ Tot)); [right; assumption|left].
        split; [assumption|]. intros HnF. apply Hnf. apply HF; set_solver.
      * intros [[Hn Hnf]|Hn]; [|split; [set_solver|]].
        { split; [assumption|]. intros HnF'. apply HF in HnF'; [tauto|set_solver]. }
        intros HnF'. apply HF in HnF'; set_solver.
    + set_solver.
  - rewrite Pflt.
    rewrite (spow_add_eq tbl (on_time es ∩ F ∪ early es)
               (on_time es ∩ F' ∪ early es ∖ Tea) (Tot ∪ Tea)).
    + rewrite (spow_add_eq tbl (Tot ∪ Tea) Tot Tea); [pp_crush|reflexivity|set_solver].
    + intros n. rewrite !elem_of_union, !elem_of_intersection, !elem_of_difference.
      split.
      * intros [[Hn HnF]|Hn].
        { destruct (decide (n ∈ Tot)); [tauto|]. left. left. split; [assumption|].
          apply HF; set_solver. }
        { destruct (decide (n ∈ Tea)); tauto. }
      * intros [[[Hn HnF']|[Hn _]]|[Hn|Hn]]; try tauto.
        { left. split; [assumption|]. apply HF in HnF'; [tauto|set_solver]. }
        { left. set_solver. }
        { right. set_solver. }
    + intros n. rewrite !elem_of_union, !elem_of_intersection, !elem_of_difference.
      intros [[Hn HnF']|[Hn Hnt]] [Ht|Ht]; try tauto.
      * apply HF in HnF'; set_solver.
      * set_solver.
      * set_solver.
  - unfold es_all. rewrite Eot, Eea, Pfee. unfold es_all.
    rewrite (sfee_add_eq tbl (on_time es ∪ early es) (on_time es ∪ early es ∖ Tea) Tea); [lia| |set_solver].
    intros n. destruct (decide (n ∈ Tea)); set_solver.
Qed.

(* E6: faulty sectors leave the entry (termination): Tot on-time-and-faulty, Tea early *)
Lemma esp_remove_faulty qs tbl F k es es' (Tot Tea : gset N) :
  ExpSetPre qs tbl F k es ->
  Tot ⊆ on_time es ∩ F -> Tea ⊆ early es ->
  on_time es' = on_time es ∖ Tot -> early es' = early es ∖ Tea ->
  on_time_pledge es' = on_time_pledge es - spledge tbl Tot ->
  active_power es' = active_power es ->
  faulty_power es' = pp_sub (faulty_power es) (spow tbl (Tot ∪ Tea)) ->
  fee_deduction es' = fee_deduction es - sfee tbl (Tot ∪ Tea) ->
  ExpSetPre qs tbl F k es'.
Proof.
  intros [Pq Pk Pd Pef Pot Pea Ppl Pact Pflt Pfee] HTot HTea Eot Eea Epl Eact Eflt Efee. unfold es_all in *.
  constructor; rewrite ?Eot, ?Eea, ?Epl, ?Eact, ?Eflt, ?Efee; try assumption.
  - set_solver.
  - set_solver.
  - intros n Hn. apply Pot. set_solver.
  - intros n Hn. apply Pea. set_solver.
  - rewrite Ppl.
    rewrite (spledge_add_eq tbl (on_time es) (on_time es ∖ Tot) Tot); [lia| |set_solver].
    intros n. destruct (decide (n ∈ Tot)); set_solver.
  - rewrite Pact. apply spow_eq. set_solver.
  - rewrite Pflt.
    rewrite (spow_add_eq tbl (on_time es ∩ F ∪ early es)
               ((on_time es ∖ Tot) ∩ F ∪ early es ∖ Tea) (Tot ∪ Tea)); [pp_crush| |set_solver].
    intros n. destruct (decide (n ∈ Tot)); destruct (decide (n ∈ Tea)); set_solver.
  - unfold es_all. rewrite Eot, Eea, Pfee. unfold es_all.
    rewrite (sfee_add_eq tbl (on_time es ∪ early es)
               (on_time es ∖ Tot ∪ early es ∖ Tea) (Tot ∪ Tea)); [lia| |set_solver].
    intros n. destruct (decide (n ∈ Tot)); destruct (decide (n ∈ Tea)); set_solver.
Qed.

(* E7: every sector of the entry is faulty afterwards (missed PoSt) *)
Lemma esp_all_faulty qs tbl F F' k es es' :
  ExpSetPre qs tbl F k es ->
  es_all es ⊆ F' ->
  on_time es' = on_time es -> early es' = early es ->
  on_time_pledge es' = on_time_pledge es ->
  active_power es' = pp0 ->
  faulty_power es' = pp_add (faulty_power es) (active_power es) ->
  fee_deduction es' = fee_deduction es ->
  ExpSetPre qs tbl F' k es'.
Proof.
  intros [Pq Pk Pd Pef Pot Pea Ppl Pact Pflt Pfee] HF Eot Eea Epl Eact Eflt Efee. unfold es_all in *.
  constructor; rewrite ?Eot, ?Eea, ?Epl, ?Eact, ?Eflt, ?Efee; try assumption.
  - set_solver.
  - rewrite <- (spow_empty tbl). apply spow_eq. set_solver.
  - rewrite Pflt, Pact. symmetry. apply spow_add_eq; [|set_solver].
    intros n. destruct (decide (n ∈ F)); set_solver.
  - unfold es_all. rewrite Eot, Eea. exact Pfee.
Qed.

