(* C19 -- proofs about coq/Model/EvmWorld.v: the concrete System protocol refines the abstract
   specification (same observations for every world, every call tree, every message sequence and
   every fuel), and the clauses of the property as corollaries. *)
From stdpp Require Import gmap.
From Coq Require Import ZArith List Bool Lia.
From VF Require Import Base.Corr Model.EvmWorld.
Import ListNotations.
Open Scope Z_scope.

(* ------------------------------------------------------------------------------------------ *)
(* small facts                                                                                 *)
(* ------------------------------------------------------------------------------------------ *)
Lemma mid_eqb_eq (x y : mid) : mid_eqb x y = true <-> x = y.
Proof.
  destruct x as [a b], y as [c d]; unfold mid_eqb; cbn.
  rewrite andb_true_iff, !Z.eqb_eq. split; [intros [-> ->]; reflexivity | intros [= -> ->]; auto].
Qed.
Lemma mid_eqb_refl (x : mid) : mid_eqb x x = true.
Proof. apply mid_eqb_eq; reflexivity. Qed.
Lemma mid_eqb_neq (x y : mid) : mid_eqb x y = false <-> x <> y.
Proof.
  split.
  - intros H ->. rewrite mid_eqb_refl in H; discriminate.
  - intros H. destruct (mid_eqb x y) eqn:X; [apply mid_eqb_eq in X; contradiction | reflexivity].
Qed.

Lemma is_dead_false m ps : is_dead m ps = false -> p_tomb ps = None \/ p_tomb ps = Some m.
Proof.
  unfold is_dead. destruct (p_tomb ps) as [t|]; [|auto].
  intros H. apply negb_false_iff, mid_eqb_eq in H. subst; auto.
Qed.
Lemma tomb_not_dead m ps : p_tomb ps = None \/ p_tomb ps = Some m -> is_dead m ps = false.
Proof. unfold is_dead. intros [-> | ->]; [reflexivity | rewrite mid_eqb_refl; reflexivity]. Qed.

Lemma map_is_empty_spec (t : gmap Z Z) : map_is_empty t = true <-> t = ∅.
Proof.
  unfold map_is_empty. rewrite <- (map_to_list_empty_iff t).
  destruct (map_to_list t); split; congruence.
Qed.

Lemma set_slot_unchanged t k v : slot_changed t k v = false -> set_slot t k v = t.
Proof.
  unfold slot_changed, set_slot. destruct (t !! k) as [old|] eqn:L.
  - destruct (v =? 0) eqn:V; [discriminate|]. intros H. apply negb_false_iff, Z.eqb_eq in H. subst.
    apply insert_id; assumption.
  - intros H. apply negb_false_iff in H. rewrite H. apply delete_notin; assumption.
Qed.

Lemma get_set_slot t k v k' : get_slot (set_slot t k v) k' = if decide (k' = k) then v else get_slot t k'.
Proof.
  unfold get_slot, set_slot. destruct (decide (k' = k)) as [->|N].
  - destruct (v =? 0) eqn:V.
    + rewrite lookup_delete. apply Z.eqb_eq in V. subst; reflexivity.
    + rewrite lookup_insert; reflexivity.
  - destruct (v =? 0); [rewrite lookup_delete_ne | rewrite lookup_insert_ne]; auto.
Qed.

Lemma tslots_state m s : tslots_of m (p_tdata (sys_state m s)) = s_tslots s.
Proof.
  unfold sys_state; cbn. destruct (map_is_empty (s_tslots s)) eqn:X; cbn.
  - apply map_is_empty_spec in X. auto.
  - rewrite mid_eqb_refl; reflexivity.
Qed.

Lemma move_zero b f t : move b f t 0 = b.
Proof. reflexivity. Qed.
Lemma cw_move_zero cw f t : cw_move cw f t 0 = cw.
Proof. destruct cw; reflexivity. Qed.

(* ------------------------------------------------------------------------------------------ *)
(* lookups of the abstract operations                                                          *)
(* ------------------------------------------------------------------------------------------ *)
Lemma upd_contract_lookup w a f a' :
  w_contracts (upd_contract w a f) !! a' =
  if decide (a' = a) then f <$> (w_contracts w !! a) else w_contracts w !! a'.
Proof.
  unfold upd_contract. destruct (w_contracts w !! a) as [c|] eqn:L; cbn.
  - destruct (decide (a' = a)) as [->|N]; [rewrite lookup_insert | rewrite lookup_insert_ne]; auto.
  - destruct (decide (a' = a)) as [->|N]; [rewrite L|]; reflexivity.
Qed.
Lemma upd_contract_rest w a f :
  w_transient (upd_contract w a f) = w_transient w /\ w_bal (upd_contract w a f) = w_bal w /\
  w_events (upd_contract w a f) = w_events w.
Proof. unfold upd_contract. destruct (w_contracts w !! a); auto. Qed.

(* ------------------------------------------------------------------------------------------ *)
(* the simulation relation                                                                     *)
(* ------------------------------------------------------------------------------------------ *)
Definition abs_c (m : mid) (ps : pstate) : contract :=
  if is_dead m ps then dead_contract else
  {| c_storage := p_slots ps; c_code := p_code ps; c_codeid := p_codeid ps; c_nonce := p_nonce ps;
     c_tomb := match p_tomb ps with Some _ => true | None => false end; c_dead := false |}.
Definition abs_t (m : mid) (ps : pstate) (k : Z) : option Z :=
  if is_dead m ps then None else tslots_of m (p_tdata ps) !! k.

(* persisted concrete world vs abstract world, during message `m` *)
Record R (m : mid) (cw : cworld) (aw : world) : Prop := {
  R_c : forall a, w_contracts aw !! a = abs_c m <$> (cw_states cw !! a);
  R_t : forall a k, w_transient aw !! (a, k) = (cw_states cw !! a) ≫= (fun ps => abs_t m ps k);
  R_b : w_bal aw = cw_bal cw;
  R_e : w_events aw = cw_events cw;
}.

(* what an activation's cache says about its own contract *)
Definition view (s : system) : contract :=
  {| c_storage := s_slots s;
     c_code := match s_code s with Some (cd, _) => cd | None => [] end;
     c_codeid := match s_code s with Some (_, i) => i | None => 0 end;
     c_nonce := s_nonce s;
     c_tomb := match s_tomb s with Some _ => true | None => false end;
     c_dead := false |}.

Definition synced (m : mid) (s : system) (r : pstate) : Prop :=
  s_slots s = p_slots r /\ s_tslots s = tslots_of m (p_tdata r) /\ s_nonce s = p_nonce r /\
  s_tomb s = p_tomb r /\ s_code s = Some (p_code r, p_codeid r) /\ is_dead m r = false.

(* running activation of contract `a` with cache `s` over the persisted world `cw`:
   the abstract world is the persisted one everywhere else, and the CACHE for `a` itself;
   a clean cache coincides with the persisted state of `a` *)
Record RS (m : mid) (cw : cworld) (s : system) (a : addr) (aw : world) : Prop := {
  RS_oc : forall a', a' <> a -> w_contracts aw !! a' = abs_c m <$> (cw_states cw !! a');
  RS_ot : forall a' k, a' <> a ->
            w_transient aw !! (a', k) = (cw_states cw !! a') ≫= (fun ps => abs_t m ps k);
  RS_b : w_bal aw = cw_bal cw;
  RS_e : w_events aw = cw_events cw;
  RS_sc : w_contracts aw !! a = Some (view s);
  RS_st : forall k, w_transient aw !! (a, k) = s_tslots s !! k;
  RS_sync : forall r, s_saved s = Some r -> cw_states cw !! a = Some r /\ synced m s r;
  RS_tomb : s_tomb s = None \/ s_tomb s = Some m;
  RS_ro : s_ro s = true -> is_Some (s_saved s);
}.

(* a state written during message `m` carries no other message identity than `m` *)
Definition written (m : mid) (ps : pstate) : Prop :=
  (p_tomb ps = None \/ p_tomb ps = Some m) /\
  (p_tdata ps = None \/ exists ts, p_tdata ps = Some (ts, m)).

(* what every step guarantees about the persisted states: a live contract stays live (and
   present); every state present afterwards was there before or was written during `m` *)
Definition live_mono (m : mid) (cw cw' : cworld) : Prop :=
  (forall a ps, cw_states cw !! a = Some ps -> is_dead m ps = false ->
                exists ps', cw_states cw' !! a = Some ps' /\ is_dead m ps' = false) /\
  (forall a ps', cw_states cw' !! a = Some ps' -> cw_states cw !! a = Some ps' \/ written m ps').

Lemma live_mono_refl m cw : live_mono m cw cw.
Proof. split; [intros a ps H D; eauto | intros a ps H; auto]. Qed.
Lemma live_mono_trans m a b c : live_mono m a b -> live_mono m b c -> live_mono m a c.
Proof.
  intros [H1 P1] [H2 P2]. split.
  - intros x ps L D. destruct (H1 _ _ L D) as (ps' & L' & D'). eauto.
  - intros x ps L. destruct (P2 _ _ L) as [L'|W]; [|auto]. apply P1; assumption.
Qed.

Lemma abs_c_live m ps : is_dead m ps = false ->
  abs_c m ps = {| c_storage := p_slots ps; c_code := p_code ps; c_codeid := p_codeid ps;
                  c_nonce := p_nonce ps;
                  c_tomb := match p_tomb ps with Some _ => true | None => false end;
                  c_dead := false |}.
Proof. unfold abs_c; intros ->; reflexivity. Qed.

Lemma synced_view m s r : synced m s r -> abs_c m r = view s.
Proof.
  intros (H1 & H2 & H3 & H4 & H5 & H6). rewrite abs_c_live by assumption. unfold view.
  rewrite H1, H3, H4, H5. reflexivity.
Qed.
Lemma synced_t m s r k : synced m s r -> abs_t m r k = s_tslots s !! k.
Proof. intros (H1 & H2 & H3 & H4 & H5 & H6). unfold abs_t. rewrite H6, H2. reflexivity. Qed.

Lemma synced_load m rdo ps : is_dead m ps = false -> synced m (sys_load m rdo ps) ps.
Proof. intros D. unfold sys_load. rewrite D. cbn. repeat split; auto. Qed.

(* R <-> RS for a clean cache *)
Lemma RS_of_R m cw aw a ps rdo :
  R m cw aw -> cw_states cw !! a = Some ps -> is_dead m ps = false ->
  RS m cw (sys_load m rdo ps) a aw.
Proof.
  intros [Rc Rt Rb Re] L D. pose proof (synced_load m rdo ps D) as S.
  assert (SV : s_saved (sys_load m rdo ps) = Some ps) by (unfold sys_load; rewrite D; reflexivity).
  split; [auto | auto | auto | auto | | | | | ].
  - rewrite Rc, L. cbn. f_equal. apply synced_view; assumption.
  - intros k. rewrite Rt, L. cbn. apply synced_t; assumption.
  - intros r. rewrite SV. intros [= <-]. auto.
  - destruct S as (_ & _ & _ & -> & _). apply is_dead_false; assumption.
  - intros _. rewrite SV. eauto.
Qed.

Lemma R_of_RS m cw s a aw r : RS m cw s a aw -> s_saved s = Some r -> R m cw aw.
Proof.
  intros H SV. destruct (RS_sync _ _ _ _ _ H _ SV) as [L S].
  split; [| | apply H | apply H].
  - intros a'. destruct (decide (a' = a)) as [->|N]; [|apply H; assumption].
    rewrite (RS_sc _ _ _ _ _ H), L. cbn. f_equal. symmetry. apply synced_view; assumption.
  - intros a' k. destruct (decide (a' = a)) as [->|N]; [|apply H; assumption].
    rewrite (RS_st _ _ _ _ _ H), L. cbn. symmetry. apply synced_t; assumption.
Qed.

(* ---- flush ---- *)
Lemma view_state_code s :
  view {| s_slots := s_slots s; s_tslots := s_tslots s; s_nonce := s_nonce s; s_tomb := s_tomb s;
          s_saved := None; s_ro := s_ro s;
          s_code := match s_code s with Some x => Some x | None => Some ([], 0) end |} = view s.
Proof. unfold view; cbn. destruct (s_code s) as [[? ?]|]; reflexivity. Qed.

Lemma flush_some m cw s a aw : RS m cw s a aw -> sys_flush m a cw s <> None.
Proof.
  intros H. unfold sys_flush. destruct (s_saved s) eqn:SV; [discriminate|].
  destruct (s_ro s) eqn:RO; [|discriminate].
  destruct (RS_ro _ _ _ _ _ H RO) as [x X]. congruence.
Qed.

Lemma flush_RS m cw s a aw cw1 s1 :
  RS m cw s a aw -> sys_flush m a cw s = Some (cw1, s1) ->
  RS m cw1 s1 a aw /\ is_Some (s_saved s1) /\ s_ro s1 = s_ro s /\ live_mono m cw cw1 /\
  (s_ro s = true -> cw1 = cw) /\ cw_bal cw1 = cw_bal cw /\
  (forall a', a' <> a -> cw_states cw1 !! a' = cw_states cw !! a').
Proof.
  intros H F. unfold sys_flush in F. destruct (s_saved s) as [r|] eqn:SV.
  - injection F as <- <-.
    split; [exact H|]. split; [rewrite SV; eauto|]. split; [reflexivity|].
    split; [apply live_mono_refl|]. split; [auto|]. split; auto.
  - destruct (s_ro s) eqn:RO; [discriminate|]. injection F as <- <-.
    set (s1 := {| s_slots := s_slots s; s_tslots := s_tslots s; s_nonce := s_nonce s;
                  s_tomb := s_tomb s; s_saved := None; s_ro := s_ro s;
                  s_code := match s_code s with Some x => Some x | None => Some ([], 0) end |}).
    assert (V : view (sys_set_saved s1 (Some (sys_state m s1))) = view s).
    { unfold sys_set_saved, view; cbn. destruct (s_code s) as [[? ?]|]; reflexivity. }
    split.
    { constructor; cbn.
      - intros a' N. rewrite lookup_insert_ne by auto. apply (RS_oc _ _ _ _ _ H); assumption.
      - intros a' k N. rewrite lookup_insert_ne by auto. apply (RS_ot _ _ _ _ _ H); assumption.
      - exact (RS_b _ _ _ _ _ H).
      - exact (RS_e _ _ _ _ _ H).
      - rewrite (RS_sc _ _ _ _ _ H). f_equal. symmetry. exact V.
      - exact (RS_st _ _ _ _ _ H).
      - intros r [= <-]. split; [apply lookup_insert|].
        unfold synced, sys_state; cbn.
        split; [reflexivity|]. split.
        { destruct (map_is_empty (s_tslots s)) eqn:X; cbn.
          - apply map_is_empty_spec in X; auto.
          - rewrite mid_eqb_refl; reflexivity. }
        split; [reflexivity|]. split; [reflexivity|]. split.
        { destruct (s_code s) as [[? ?]|]; reflexivity. }
        apply tomb_not_dead. cbn. exact (RS_tomb _ _ _ _ _ H).
      - exact (RS_tomb _ _ _ _ _ H).
      - intros _. eauto. }
    split; [cbn; eauto|]. split; [reflexivity|]. split.
    { split.
      - intros x ps L D. cbn. destruct (decide (x = a)) as [->|N].
        + eexists. split; [apply lookup_insert|]. apply tomb_not_dead. cbn. exact (RS_tomb _ _ _ _ _ H).
        + exists ps. rewrite lookup_insert_ne by auto. auto.
      - intros x ps'. cbn. destruct (decide (x = a)) as [->|N].
        + rewrite lookup_insert. intros [= <-]. right. split; cbn.
          * exact (RS_tomb _ _ _ _ _ H).
          * destruct (map_is_empty (s_tslots s)); eauto.
        + rewrite lookup_insert_ne by auto. auto. }
    split; [discriminate|]. split; [reflexivity|].
    intros a' N. cbn. apply lookup_insert_ne; auto.
Qed.

(* ---- cache operations preserve the relation ---- *)
Lemma lookup_set_slot (t : gmap Z Z) k v k' :
  set_slot t k v !! k' = if decide (k' = k) then (if v =? 0 then None else Some v) else t !! k'.
Proof.
  unfold set_slot. destruct (decide (k' = k)) as [->|N]; destruct (v =? 0).
  - apply lookup_delete.
  - apply lookup_insert.
  - apply lookup_delete_ne; auto.
  - apply lookup_insert_ne; auto.
Qed.

Lemma RS_sstore m cw s a aw k v :
  RS m cw s a aw -> s_ro s = false -> RS m cw (sys_sstore s k v) a (a_sstore aw a k v).
Proof.
  intros H RO. unfold a_sstore.
  destruct (upd_contract_rest aw a (fun c => {| c_storage := set_slot (c_storage c) k v; c_code := c_code c;
    c_codeid := c_codeid c; c_nonce := c_nonce c; c_tomb := c_tomb c; c_dead := c_dead c |})) as (E1 & E2 & E3).
  constructor.
  - intros a' N. rewrite upd_contract_lookup. destruct (decide (a' = a)); [contradiction|].
    apply (RS_oc _ _ _ _ _ H); assumption.
  - intros a' k' N. rewrite E1. apply (RS_ot _ _ _ _ _ H); assumption.
  - rewrite E2. exact (RS_b _ _ _ _ _ H).
  - rewrite E3. exact (RS_e _ _ _ _ _ H).
  - rewrite upd_contract_lookup. destruct (decide (a = a)); [|contradiction].
    rewrite (RS_sc _ _ _ _ _ H). reflexivity.
  - intros k'. rewrite E1. exact (RS_st _ _ _ _ _ H k').
  - intros r. cbn. destruct (slot_changed (s_slots s) k v) eqn:C; [discriminate|].
    intros SV. destruct (RS_sync _ _ _ _ _ H _ SV) as [L (S1 & S2 & S3 & S4 & S5 & S6)].
    split; [assumption|]. unfold synced; cbn. rewrite set_slot_unchanged by assumption. auto 10.
  - exact (RS_tomb _ _ _ _ _ H).
  - cbn. rewrite RO. discriminate.
Qed.

Lemma RS_tstore m cw s a aw k v :
  RS m cw s a aw -> s_ro s = false -> RS m cw (sys_tstore s k v) a (a_tstore aw a k v).
Proof.
  intros H RO. constructor; cbn.
  - exact (RS_oc _ _ _ _ _ H).
  - intros a' k' N. destruct (v =? 0).
    + rewrite lookup_delete_ne by congruence. apply (RS_ot _ _ _ _ _ H); assumption.
    + rewrite lookup_insert_ne by congruence. apply (RS_ot _ _ _ _ _ H); assumption.
  - exact (RS_b _ _ _ _ _ H).
  - exact (RS_e _ _ _ _ _ H).
  - exact (RS_sc _ _ _ _ _ H).
  - intros k'. rewrite lookup_set_slot. destruct (decide (k' = k)) as [->|N].
    + destruct (v =? 0); [apply lookup_delete | apply lookup_insert].
    + destruct (v =? 0).
      * rewrite lookup_delete_ne by congruence. exact (RS_st _ _ _ _ _ H k').
      * rewrite lookup_insert_ne by congruence. exact (RS_st _ _ _ _ _ H k').
  - intros r. destruct (slot_changed (s_tslots s) k v) eqn:C; [discriminate|].
    intros SV. destruct (RS_sync _ _ _ _ _ H _ SV) as [L (S1 & S2 & S3 & S4 & S5 & S6)].
    split; [assumption|]. unfold synced; cbn. rewrite set_slot_unchanged by assumption. auto 10.
  - exact (RS_tomb _ _ _ _ _ H).
  - rewrite RO. discriminate.
Qed.

Lemma RS_log m cw s a aw t :
  RS m cw s a aw -> RS m (cw_log cw a t) s a (a_log aw a t).
Proof.
  intros H. constructor; cbn.
  - exact (RS_oc _ _ _ _ _ H).
  - exact (RS_ot _ _ _ _ _ H).
  - exact (RS_b _ _ _ _ _ H).
  - rewrite (RS_e _ _ _ _ _ H). reflexivity.
  - exact (RS_sc _ _ _ _ _ H).
  - exact (RS_st _ _ _ _ _ H).
  - exact (RS_sync _ _ _ _ _ H).
  - exact (RS_tomb _ _ _ _ _ H).
  - exact (RS_ro _ _ _ _ _ H).
Qed.

Lemma RS_bump m cw s a aw :
  RS m cw s a aw -> s_ro s = false -> RS m cw (sys_bump s) a (a_bump aw a).
Proof.
  intros H RO. unfold a_bump.
  destruct (upd_contract_rest aw a (fun c => {| c_storage := c_storage c; c_code := c_code c;
    c_codeid := c_codeid c; c_nonce := c_nonce c + 1; c_tomb := c_tomb c; c_dead := c_dead c |})) as (E1 & E2 & E3).
  constructor.
  - intros a' N. rewrite upd_contract_lookup. destruct (decide (a' = a)); [contradiction|].
    apply (RS_oc _ _ _ _ _ H); assumption.
  - intros a' k' N. rewrite E1. apply (RS_ot _ _ _ _ _ H); assumption.
  - rewrite E2. exact (RS_b _ _ _ _ _ H).
  - rewrite E3. exact (RS_e _ _ _ _ _ H).
  - rewrite upd_contract_lookup. destruct (decide (a = a)); [|contradiction].
    rewrite (RS_sc _ _ _ _ _ H). reflexivity.
  - intros k'. rewrite E1. exact (RS_st _ _ _ _ _ H k').
  - cbn. discriminate.
  - exact (RS_tomb _ _ _ _ _ H).
  - cbn. rewrite RO. discriminate.
Qed.

Lemma RS_setcode m cw s a aw cd i :
  RS m cw s a aw -> s_ro s = false -> RS m cw (sys_setcode s cd i) a (a_setcode aw a cd i).
Proof.
  intros H RO. unfold a_setcode.
  destruct (upd_contract_rest aw a (fun c => {| c_storage := c_storage c; c_code := cd;
    c_codeid := i; c_nonce := c_nonce c; c_tomb := c_tomb c; c_dead := c_dead c |})) as (E1 & E2 & E3).
  constructor.
  - intros a' N. rewrite upd_contract_lookup. destruct (decide (a' = a)); [contradiction|].
    apply (RS_oc _ _ _ _ _ H); assumption.
  - intros a' k' N. rewrite E1. apply (RS_ot _ _ _ _ _ H); assumption.
  - rewrite E2. exact (RS_b _ _ _ _ _ H).
  - rewrite E3. exact (RS_e _ _ _ _ _ H).
  - rewrite upd_contract_lookup. destruct (decide (a = a)); [|contradiction].
    rewrite (RS_sc _ _ _ _ _ H). reflexivity.
  - intros k'. rewrite E1. exact (RS_st _ _ _ _ _ H k').
  - cbn. discriminate.
  - exact (RS_tomb _ _ _ _ _ H).
  - cbn. rewrite RO. discriminate.
Qed.

Lemma RS_selfdestruct m cw s a aw b :
  RS m cw s a aw -> s_ro s = false ->
  RS m (cw_move cw a b (getb (cw_bal cw) a)) (sys_mark m s) a
       (a_tomb (a_move aw a b (getb (w_bal aw) a)) a).
Proof.
  intros H RO. unfold a_tomb.
  set (aw1 := a_move aw a b (getb (w_bal aw) a)).
  destruct (upd_contract_rest aw1 a (fun c => {| c_storage := c_storage c; c_code := c_code c;
    c_codeid := c_codeid c; c_nonce := c_nonce c; c_tomb := true; c_dead := c_dead c |})) as (E1 & E2 & E3).
  constructor.
  - intros a' N. rewrite upd_contract_lookup. destruct (decide (a' = a)); [contradiction|].
    apply (RS_oc _ _ _ _ _ H); assumption.
  - intros a' k' N. rewrite E1. apply (RS_ot _ _ _ _ _ H); assumption.
  - rewrite E2. cbn. rewrite (RS_b _ _ _ _ _ H). reflexivity.
  - rewrite E3. exact (RS_e _ _ _ _ _ H).
  - rewrite upd_contract_lookup. destruct (decide (a = a)); [|contradiction].
    cbn. rewrite (RS_sc _ _ _ _ _ H). reflexivity.
  - intros k'. rewrite E1. exact (RS_st _ _ _ _ _ H k').
  - cbn. discriminate.
  - cbn. auto.
  - cbn. rewrite RO. discriminate.
Qed.

(* ---- reload after a successful send ---- *)
Lemma reload_RS m cw1 s1 a aw cw2 aw' :
  RS m cw1 s1 a aw -> is_Some (s_saved s1) ->
  R m cw2 aw' -> live_mono m cw1 cw2 -> (s_ro s1 = true -> cw2 = cw1) ->
  RS m cw2 (sys_reload m a cw2 s1) a aw'.
Proof.
  intros H [r SV] HR LM FR.
  destruct (RS_sync _ _ _ _ _ H _ SV) as [L S].
  assert (D : is_dead m r = false) by apply S.
  destruct (proj1 LM _ _ L D) as (root & L2 & D2).
  unfold sys_reload. destruct (s_ro s1) eqn:RO.
  - (* read-only: nothing moved *)
    rewrite (FR eq_refl) in *. rewrite L in L2. injection L2 as <-.
    pose proof (RS_of_R m cw1 aw' a r true HR L D) as H'.
    constructor.
    + exact (RS_oc _ _ _ _ _ H').
    + exact (RS_ot _ _ _ _ _ H').
    + exact (RS_b _ _ _ _ _ H').
    + exact (RS_e _ _ _ _ _ H').
    + rewrite (RS_sc _ _ _ _ _ H'). f_equal.
      rewrite <- (synced_view m _ r (synced_load m true r D)). apply synced_view; assumption.
    + intros k. rewrite (RS_st _ _ _ _ _ H' k).
      rewrite <- (synced_t m _ r k (synced_load m true r D)). apply synced_t; assumption.
    + intros r'. rewrite SV. intros [= <-]. auto.
    + exact (RS_tomb _ _ _ _ _ H).
    + intros _. rewrite SV; eauto.
  - rewrite L2.
    pose proof (RS_of_R m cw2 aw' a root false HR L2 D2) as H'.
    destruct (bool_decide (s_saved s1 = Some root)) eqn:B.
    + apply bool_decide_eq_true in B. rewrite SV in B. injection B as <-.
      constructor.
      * exact (RS_oc _ _ _ _ _ H').
      * exact (RS_ot _ _ _ _ _ H').
      * exact (RS_b _ _ _ _ _ H').
      * exact (RS_e _ _ _ _ _ H').
      * rewrite (RS_sc _ _ _ _ _ H'). f_equal.
        rewrite <- (synced_view m _ r (synced_load m false r D)). apply synced_view; assumption.
      * intros k. rewrite (RS_st _ _ _ _ _ H' k).
        rewrite <- (synced_t m _ r k (synced_load m false r D)). apply synced_t; assumption.
      * intros r'. rewrite SV. intros [= <-]. auto.
      * exact (RS_tomb _ _ _ _ _ H).
      * rewrite RO. discriminate.
    + unfold sys_load in H'. rewrite D2 in H'. rewrite <- RO in H' at 1.
      constructor.
      * exact (RS_oc _ _ _ _ _ H').
      * exact (RS_ot _ _ _ _ _ H').
      * exact (RS_b _ _ _ _ _ H').
      * exact (RS_e _ _ _ _ _ H').
      * exact (RS_sc _ _ _ _ _ H').
      * exact (RS_st _ _ _ _ _ H').
      * exact (RS_sync _ _ _ _ _ H').
      * exact (RS_tomb _ _ _ _ _ H').
      * cbn. discriminate.
Qed.

Lemma reload_ro m a cw s : s_ro (sys_reload m a cw s) = s_ro s.
Proof.
  unfold sys_reload. destruct (s_ro s) eqn:RO; [assumption|].
  destruct (cw_states cw !! a); [|assumption].
  destruct (bool_decide _); [assumption | reflexivity].
Qed.

Lemma RS_intro_clean m cw s a aw r :
  R m cw aw -> s_saved s = Some r -> cw_states cw !! a = Some r -> synced m s r ->
  (s_tomb s = None \/ s_tomb s = Some m) -> RS m cw s a aw.
Proof.
  intros [Rc Rt Rb Re] SV L S T. constructor; [auto | auto | auto | auto | | | | auto | ].
  - rewrite Rc, L. cbn. f_equal. apply synced_view; assumption.
  - intros k. rewrite Rt, L. cbn. apply synced_t; assumption.
  - intros r'. rewrite SV. intros [= <-]. auto.
  - intros _. rewrite SV; eauto.
Qed.

(* ------------------------------------------------------------------------------------------ *)
(* simulation of one activation, given the simulation of the nested invocations                *)
(* ------------------------------------------------------------------------------------------ *)
Definition req_ro (r : req) : bool :=
  match r with RCall _ _ _ _ rdo => rdo | RDelegate c _ _ => ro c | RCreate _ _ _ _ => false end.
Definition req_ok (m : mid) (cw : cworld) (r : req) : Prop :=
  match r with
  | RDelegate c _ _ => exists ps, cw_states cw !! self c = Some ps /\ is_dead m ps = false
  | _ => True
  end.

Definition sim_invoke (m : mid) (ci : req -> cworld -> cworld * res)
                      (ai : req -> world -> world * res) : Prop :=
  forall r cw aw cw' rc aw' ra, R m cw aw -> req_ok m cw r ->
    ci r cw = (cw', rc) -> ai r aw = (aw', ra) ->
    rc = ra /\ R m cw' aw' /\ live_mono m cw cw' /\
    (req_ro r = true -> cw' = cw) /\ (fst rc <> 0 -> cw' = cw).

Lemma c_send_sim m ci ai a r cw s aw aw' ra :
  sim_invoke m ci ai -> RS m cw s a aw ->
  match r with RDelegate c _ _ => self c = a | _ => True end ->
  (s_ro s = true -> req_ro r = true) ->
  ai r aw = (aw', ra) ->
  exists cw' s', c_send m ci a r cw s = Some (cw', s', ra) /\ RS m cw' s' a aw' /\
                 s_ro s' = s_ro s /\ live_mono m cw cw' /\ (s_ro s = true -> cw' = cw).
Proof.
  intros SI H OKR ROR AI. unfold c_send.
  destruct (sys_flush m a cw s) as [[cw1 s1]|] eqn:F; [|exfalso; eapply flush_some; eauto].
  destruct (flush_RS _ _ _ _ _ _ _ H F) as (H1 & [r1 SV1] & RO1 & LM1 & FR1 & _ & _).
  destruct (RS_sync _ _ _ _ _ H1 _ SV1) as [L1 S1].
  pose proof (R_of_RS _ _ _ _ _ _ H1 SV1) as R1.
  destruct (ci r cw1) as [cw2 [code data]] eqn:CI.
  assert (OK1 : req_ok m cw1 r).
  { destruct r; cbn; auto. subst a. exists r1. split; [assumption | apply S1]. }
  destruct (SI _ _ _ _ _ _ _ R1 OK1 CI AI) as (<- & R2 & LM2 & FRO & FFAIL).
  cbn in FFAIL.
  destruct (code =? 0) eqn:C.
  - eexists _, _. split; [reflexivity|].
    split.
    { eapply reload_RS; eauto; intros X; apply FRO, ROR; congruence. }
    split; [rewrite reload_ro; assumption|].
    split; [eapply live_mono_trans; eauto|].
    intros X. rewrite FRO by auto. auto.
  - assert (cw2 = cw1) as -> by (apply FFAIL; intros ->; discriminate).
    eexists _, _. split; [reflexivity|].
    split; [eapply RS_intro_clean; eauto; exact (RS_tomb _ _ _ _ _ H1)|].
    split; [assumption|]. split; [assumption|]. assumption.
Qed.

Lemma a_sload_view m cw s a aw k : RS m cw s a aw -> a_sload aw a k = get_slot (s_slots s) k.
Proof. intros H. unfold a_sload. rewrite (RS_sc _ _ _ _ _ H). reflexivity. Qed.
Lemma a_tload_view m cw s a aw k : RS m cw s a aw -> a_tload aw a k = get_slot (s_tslots s) k.
Proof. intros H. unfold a_tload, get_slot. rewrite (RS_st _ _ _ _ _ H). reflexivity. Qed.
Lemma a_nonce_view m cw s a aw : RS m cw s a aw -> a_nonce aw a = s_nonce s.
Proof. intros H. unfold a_nonce. rewrite (RS_sc _ _ _ _ _ H). reflexivity. Qed.

Lemma live_mono_states m cw cw' : cw_states cw' = cw_states cw -> live_mono m cw cw'.
Proof. intros E. split; [intros a ps L D; rewrite E; eauto | intros a ps L; rewrite <- E; auto]. Qed.

(* the statement proved for every script by induction *)
Definition run_sim (E : env) (m : mid) ci ai (scr : script) : Prop :=
  forall c cw s aw log cw' s' oc aw' oa,
  RS m cw s (self c) aw -> s_ro s = ro c ->
  crun E m ci c scr cw s log = (cw', s', oc) ->
  arun E ai c scr aw log = (aw', oa) ->
  oc = oa /\
  (forall l, oc = ORet l ->
     RS m cw' s' (self c) aw' /\ s_ro s' = ro c /\ live_mono m cw cw' /\ (ro c = true -> cw' = cw)).

Lemma delegate_target m cw s (a : addr) aw (tgt : addr) :
  RS m cw s a aw ->
  negb ((tgt =? a) || bool_decide (is_Some (cw_states cw !! tgt))) = true <->
  w_contracts aw !! tgt = None.
Proof.
  intros H. destruct (Z.eqb_spec tgt a) as [->|N].
  - rewrite (RS_sc _ _ _ _ _ H). cbn. split; discriminate.
  - rewrite (RS_oc _ _ _ _ _ H) by assumption.
    destruct (cw_states cw !! tgt) as [ps|].
    + rewrite bool_decide_eq_true_2 by eauto. cbn. split; discriminate.
    + rewrite bool_decide_eq_false_2 by (intros [? ?]; discriminate). cbn. split; auto.
Qed.

Lemma call_step E m ci ai kind tgt entry value prop rest :
  sim_invoke m ci ai -> run_sim E m ci ai rest ->
  run_sim E m ci ai (Call kind tgt entry value prop :: rest).
Proof.
  intros SI IH c cw s aw log cw' s' oc aw' oa H RO CR AR.
  cbn [crun arun] in CR, AR. rewrite RO in CR.
  destruct (match kind with KCall => ro c && (0 <? value) | _ => false end) eqn:G.
  { injection CR as <- <- <-. injection AR as <- <-. split; [reflexivity | discriminate]. }
  (* one lemma for the three kinds: what was sent, and where we stand afterwards *)
  assert (SENT : forall sent awx rax,
     sent = (match kind with
        | KCall => c_send m ci (self c) (RCall (self c) tgt value entry (ro c)) cw s
        | KStatic => c_send m ci (self c) (RCall (self c) tgt 0 entry true) cw s
        | KDelegate =>
            if negb ((tgt =? self c) || bool_decide (is_Some (cw_states cw !! tgt)))
            then Some (cw, s, (OK, [])) else
            match sys_flush m (self c) cw s with
            | None => None
            | Some (cw1, s1) =>
                let s1' := sys_reload m (self c) cw1 s1 in
                match cw_states cw1 !! tgt with
                | Some tps =>
                    if is_dead m tps then Some (cw1, s1', (OK, []))
                    else c_send m ci (self c) (RDelegate c tgt entry) cw1 s1'
                | None => Some (cw1, s1', (OK, []))
                end
            end
        end) ->
     (awx, rax) = (match kind with
        | KCall => ai (RCall (self c) tgt value entry (ro c)) aw
        | KStatic => ai (RCall (self c) tgt 0 entry true) aw
        | KDelegate =>
            match w_contracts aw !! tgt with
            | None => (aw, (OK, []))
            | Some ct => if c_dead ct then (aw, (OK, [])) else ai (RDelegate c tgt entry) aw
            end
        end) ->
     exists cwx sx, sent = Some (cwx, sx, rax) /\ RS m cwx sx (self c) awx /\ s_ro sx = s_ro s /\
                    live_mono m cw cwx /\ (s_ro s = true -> cwx = cw)).
  { intros sent awx rax ES EA. destruct kind.
    - subst sent. eapply c_send_sim; eauto; try (cbn; congruence).
    - subst sent. eapply c_send_sim; eauto; try (cbn; congruence).
    - destruct (negb ((tgt =? self c) || bool_decide (is_Some (cw_states cw !! tgt)))) eqn:NT.
      + apply (delegate_target _ _ _ _ _ _ H) in NT. rewrite NT in EA. injection EA as -> ->.
        subst sent. eexists _, _. split; [reflexivity|]. split; [assumption|].
        split; [reflexivity|]. split; [apply live_mono_refl | auto].
      + assert (NN : w_contracts aw !! tgt <> None).
        { intros X. apply (delegate_target _ _ _ _ _ _ H) in X. congruence. }
        destruct (sys_flush m (self c) cw s) as [[cw1 s1]|] eqn:F; [|exfalso; eapply flush_some; eauto].
        destruct (flush_RS _ _ _ _ _ _ _ H F) as (H1 & [r1 SV1] & RO1 & LM1 & FR1 & _ & ST1).
        pose proof (R_of_RS _ _ _ _ _ _ H1 SV1) as R1.
        assert (H1' : RS m cw1 (sys_reload m (self c) cw1 s1) (self c) aw).
        { eapply reload_RS; eauto using live_mono_refl. }
        destruct (w_contracts aw !! tgt) as [ct|] eqn:AT; [|congruence].
        rewrite (R_c _ _ _ R1) in AT.
        destruct (cw_states cw1 !! tgt) as [tps|] eqn:CT; [|discriminate]. cbn in AT.
        injection AT as <-.
        assert (DD : c_dead (abs_c m tps) = is_dead m tps).
        { unfold abs_c. destruct (is_dead m tps); reflexivity. }
        rewrite DD in EA. cbn zeta in ES.
        destruct (is_dead m tps).
        * injection EA as -> ->. subst sent. eexists _, _. split; [reflexivity|].
          split; [assumption|]. split; [rewrite reload_ro; assumption|]. split; [assumption|assumption].
        * symmetry in EA.
          destruct (c_send_sim m ci ai (self c) (RDelegate c tgt entry) cw1 _ aw awx rax SI H1' eq_refl)
            as (cwx & sx & E1 & E2 & E3 & E4 & E5); auto.
          { rewrite reload_ro. cbn. congruence. }
          subst sent. exists cwx, sx. split; [assumption|]. split; [assumption|].
          split; [rewrite E3, reload_ro; assumption|].
          split; [eapply live_mono_trans; eauto|].
          intros X. rewrite E5 by (rewrite reload_ro; congruence). auto. }
  match type of CR with (match ?X with _ => _ end) = _ => remember X as sent eqn:ES end.
  match type of AR with (let '(_, _) := ?X in _) = _ => destruct X as [awx [codea dataa]] eqn:EA end.
  destruct (SENT sent awx (codea, dataa) eq_refl eq_refl) as (cwx & sx & -> & HX & ROX & LMX & FRX).
  cbn iota beta in CR.
  destruct (negb (codea =? 0) && prop) eqn:P.
  - injection CR as <- <- <-. injection AR as <- <-. split; [reflexivity | discriminate].
  - assert (ROX' : s_ro sx = ro c) by congruence.
    destruct (IH c cwx sx awx _ _ _ _ _ _ HX ROX' CR AR) as [-> K]. split; [reflexivity|].
    intros l EL. destruct (K l EL) as (K1 & K2 & K3 & K4). split; [assumption|]. split; [assumption|].
    split; [eapply live_mono_trans; eauto|].
    intros X. rewrite K4 by assumption. apply FRX. congruence.
Qed.

Lemma create_step E m ci ai t value rest :
  sim_invoke m ci ai -> run_sim E m ci ai rest -> run_sim E m ci ai (Create t value :: rest).
Proof.
  intros SI IH c cw s aw log cw' s' oc aw' oa H RO CR AR.
  cbn [crun arun create_addr] in CR, AR. rewrite RO in CR.
  destruct (ex_intro (fun b => ro c = b) (ro c) eq_refl) as [b ROC]; rewrite ROC in CR, AR; destruct b.
  { injection CR as <- <- <-. injection AR as <- <-. split; [reflexivity | discriminate]. }
  rewrite <- (RS_b _ _ _ _ _ H) in CR.
  match type of CR with (if ?b then _ else _) = _ => destruct b eqn:B end.
  { exact (IH _ _ _ _ _ _ _ _ _ _ H RO CR AR). }
  try rewrite (a_nonce_view _ _ _ _ _ H) in AR.
  pose proof (RS_bump _ _ _ _ _ H (eq_trans RO ROC)) as H1.
  match type of CR with (match ?o with _ => _ end) = _ => destruct o as [na|] eqn:OA end.
  2: { exact (IH _ _ _ _ _ _ _ _ _ _ H1 RO CR AR). }
  match type of AR with (let '(_, _) := ?X in _) = _ => destruct X as [awx [codea dataa]] eqn:EA end.
  destruct (c_send_sim m ci ai (self c) (RCreate (self c) na value t) cw (sys_bump s)
              (a_bump aw (self c)) awx (codea, dataa) SI H1 I)
    as (cwx & sx & ES & HX & ROX & LMX & FRX).
  { cbn. rewrite RO, ROC. discriminate. }
  { exact EA. }
  rewrite ES in CR.
  assert (ROX' : s_ro sx = ro c) by (rewrite ROX; cbn; exact RO).
  destruct (IH _ _ _ _ _ _ _ _ _ _ HX ROX' CR AR) as [-> K]. split; [reflexivity|].
  intros l EL. destruct (K l EL) as (K1 & K2 & K3 & K4).
  split; [assumption|]. split; [assumption|]. split; [eapply live_mono_trans; eauto|].
  rewrite ROC. discriminate.
Qed.

Lemma create2_step E m ci ai salt t value rest :
  sim_invoke m ci ai -> run_sim E m ci ai rest -> run_sim E m ci ai (Create2 salt t value :: rest).
Proof.
  intros SI IH c cw s aw log cw' s' oc aw' oa H RO CR AR.
  cbn [crun arun create_addr] in CR, AR. rewrite RO in CR.
  destruct (ex_intro (fun b => ro c = b) (ro c) eq_refl) as [b ROC]; rewrite ROC in CR, AR; destruct b.
  { injection CR as <- <- <-. injection AR as <- <-. split; [reflexivity | discriminate]. }
  rewrite <- (RS_b _ _ _ _ _ H) in CR.
  match type of CR with (if ?b then _ else _) = _ => destruct b eqn:B end.
  { exact (IH _ _ _ _ _ _ _ _ _ _ H RO CR AR). }
  try rewrite (a_nonce_view _ _ _ _ _ H) in AR.
  pose proof (RS_bump _ _ _ _ _ H (eq_trans RO ROC)) as H1.
  match type of CR with (match ?o with _ => _ end) = _ => destruct o as [na|] eqn:OA end.
  2: { exact (IH _ _ _ _ _ _ _ _ _ _ H1 RO CR AR). }
  match type of AR with (let '(_, _) := ?X in _) = _ => destruct X as [awx [codea dataa]] eqn:EA end.
  destruct (c_send_sim m ci ai (self c) (RCreate (self c) na value t) cw (sys_bump s)
              (a_bump aw (self c)) awx (codea, dataa) SI H1 I)
    as (cwx & sx & ES & HX & ROX & LMX & FRX).
  { cbn. rewrite RO, ROC. discriminate. }
  { exact EA. }
  rewrite ES in CR.
  assert (ROX' : s_ro sx = ro c) by (rewrite ROX; cbn; exact RO).
  destruct (IH _ _ _ _ _ _ _ _ _ _ HX ROX' CR AR) as [-> K]. split; [reflexivity|].
  intros l EL. destruct (K l EL) as (K1 & K2 & K3 & K4).
  split; [assumption|]. split; [assumption|]. split; [eapply live_mono_trans; eauto|].
  rewrite ROC. discriminate.
Qed.

Lemma crun_sim E m ci ai : sim_invoke m ci ai -> forall scr, run_sim E m ci ai scr.
Proof.
  intros SI scr. induction scr as [|a rest IH].
  { intros c cw s aw log cw' s' oc aw' oa H RO CR AR. cbn in CR, AR.
    injection CR as <- <- <-. injection AR as <- <-. split; [reflexivity|].
    intros l _. split; [assumption|]. split; [assumption|]. split; [apply live_mono_refl | auto]. }
  destruct a.
  - (* SStore *)
    intros c cw s aw log cw' s' oc aw' oa H RO CR AR. cbn [crun arun] in CR, AR. rewrite RO in CR.
    destruct (ex_intro (fun b => ro c = b) (ro c) eq_refl) as [b ROC]; rewrite ROC in CR, AR; destruct b.
    { injection CR as <- <- <-. injection AR as <- <-. split; [reflexivity | discriminate]. }
    exact (IH _ _ _ _ _ _ _ _ _ _ (RS_sstore _ _ _ _ _ k v H (eq_trans RO ROC)) RO CR AR).
  - (* SLoad *)
    intros c cw s aw log cw' s' oc aw' oa H RO CR AR. cbn [crun arun] in CR, AR.
    rewrite (a_sload_view _ _ _ _ _ k H) in AR. exact (IH _ _ _ _ _ _ _ _ _ _ H RO CR AR).
  - (* TStore *)
    intros c cw s aw log cw' s' oc aw' oa H RO CR AR. cbn [crun arun] in CR, AR. rewrite RO in CR.
    destruct (ex_intro (fun b => ro c = b) (ro c) eq_refl) as [b ROC]; rewrite ROC in CR, AR; destruct b.
    { injection CR as <- <- <-. injection AR as <- <-. split; [reflexivity | discriminate]. }
    exact (IH _ _ _ _ _ _ _ _ _ _ (RS_tstore _ _ _ _ _ k v H (eq_trans RO ROC)) RO CR AR).
  - (* TLoad *)
    intros c cw s aw log cw' s' oc aw' oa H RO CR AR. cbn [crun arun] in CR, AR.
    rewrite (a_tload_view _ _ _ _ _ k H) in AR. exact (IH _ _ _ _ _ _ _ _ _ _ H RO CR AR).
  - (* Log *)
    intros c cw s aw log cw' s' oc aw' oa H RO CR AR. cbn [crun arun] in CR, AR. rewrite RO in CR.
    destruct (ex_intro (fun b => ro c = b) (ro c) eq_refl) as [b ROC]; rewrite ROC in CR, AR; destruct b.
    { injection CR as <- <- <-. injection AR as <- <-. split; [reflexivity | discriminate]. }
    destruct (IH _ _ _ _ _ _ _ _ _ _ (RS_log _ _ _ _ _ tag H) RO CR AR) as [-> K].
    split; [reflexivity|]. intros l EL. destruct (K l EL) as (K1 & K2 & K3 & K4).
    split; [assumption|]. split; [assumption|].
    split; [|rewrite ROC; discriminate].
    eapply live_mono_trans; [|exact K3]. apply live_mono_states. reflexivity.
  - (* Env *)
    intros c cw s aw log cw' s' oc aw' oa H RO CR AR. cbn [crun arun] in CR, AR.
    rewrite (RS_b _ _ _ _ _ H) in AR. exact (IH _ _ _ _ _ _ _ _ _ _ H RO CR AR).
  - (* Call *) apply call_step; assumption.
  - (* Create *) apply create_step; assumption.
  - (* Create2 *) apply create2_step; assumption.
  - (* SelfDestruct *)
    intros c cw s aw log cw' s' oc aw' oa H RO CR AR. cbn [crun arun] in CR, AR. rewrite RO in CR.
    destruct (ex_intro (fun b => ro c = b) (ro c) eq_refl) as [b ROC]; rewrite ROC in CR, AR; destruct b.
    { injection CR as <- <- <-. injection AR as <- <-. split; [reflexivity | discriminate]. }
    injection CR as <- <- <-. injection AR as <- <-. split; [reflexivity|].
    intros l _. split; [apply RS_selfdestruct; [assumption | exact (eq_trans RO ROC)]|]. split; [cbn; assumption|].
    split; [apply live_mono_states; reflexivity | rewrite ROC; discriminate].
  - (* Revert *)
    intros c cw s aw log cw' s' oc aw' oa H RO CR AR. cbn in CR, AR.
    injection CR as <- <- <-. injection AR as <- <-. split; [reflexivity | discriminate].
  - (* Return *)
    intros c cw s aw log cw' s' oc aw' oa H RO CR AR. cbn in CR, AR.
    injection CR as <- <- <-. injection AR as <- <-. split; [reflexivity|].
    intros l _. split; [assumption|]. split; [assumption|]. split; [apply live_mono_refl | auto].
Qed.

(* ------------------------------------------------------------------------------------------ *)
(* simulation of invocations (VM level), by induction on the fuel                              *)
(* ------------------------------------------------------------------------------------------ *)
Lemma R_move m cw aw f t v : R m cw aw -> R m (cw_move cw f t v) (a_move aw f t v).
Proof.
  intros [Rc Rt Rb Re]. constructor; cbn; auto. rewrite Rb. reflexivity.
Qed.

Lemma c_dead_abs m ps : c_dead (abs_c m ps) = is_dead m ps.
Proof. unfold abs_c. destruct (is_dead m ps); reflexivity. Qed.
Lemma c_code_abs m ps : is_dead m ps = false -> c_code (abs_c m ps) = p_code ps.
Proof. intros D. rewrite abs_c_live by assumption. reflexivity. Qed.

Lemma load_live m rdo ps : is_dead m ps = false ->
  s_code (sys_load m rdo ps) = Some (p_code ps, p_codeid ps) /\ s_ro (sys_load m rdo ps) = rdo.
Proof. intros D. unfold sys_load. rewrite D. auto. Qed.
Lemma load_dead m rdo ps : is_dead m ps = true -> s_code (sys_load m rdo ps) = None.
Proof. intros D. unfold sys_load. rewrite D. reflexivity. Qed.

(* the end of an activation: flush on Return, roll-back otherwise *)
Lemma finish_sim m cw0 aw0 a roc cw' s' oc aw' oa cwf rc awf ra :
  R m cw0 aw0 -> oc = oa ->
  (forall l, oc = ORet l ->
     RS m cw' s' a aw' /\ s_ro s' = roc /\ live_mono m cw0 cw' /\ (roc = true -> cw' = cw0)) ->
  c_finish m cw0 a (cw', s', oc) = (cwf, rc) -> a_finish aw0 (aw', oa) = (awf, ra) ->
  rc = ra /\ R m cwf awf /\ live_mono m cw0 cwf /\ (roc = true -> cwf = cw0) /\
  (fst rc <> 0 -> cwf = cw0).
Proof.
  intros R0 <- K CF AF. unfold c_finish, a_finish in *. destruct oc as [l|l|code].
  - destruct (K l eq_refl) as (H & RO & LM & FR).
    destruct (sys_flush m a cw' s') as [[cw'' s'']|] eqn:F; [|exfalso; eapply flush_some; eauto].
    destruct (flush_RS _ _ _ _ _ _ _ H F) as (H1 & [r1 SV1] & RO1 & LM1 & FR1 & _ & _).
    injection CF as <- <-. injection AF as <- <-.
    split; [reflexivity|]. split; [eapply R_of_RS; eauto|].
    split; [eapply live_mono_trans; eauto|].
    split; [intros X; rewrite FR1 by congruence; auto|].
    cbn. intros X; contradiction X; reflexivity.
  - injection CF as <- <-. injection AF as <- <-.
    split; [reflexivity|]. split; [assumption|]. split; [apply live_mono_refl|]. auto.
  - injection CF as <- <-. injection AF as <- <-.
    split; [reflexivity|]. split; [assumption|]. split; [apply live_mono_refl|]. auto.
Qed.

Lemma R_put_fresh m cw aw na :
  R m cw aw ->
  match cw_states cw !! na with Some ps => is_dead m ps = true | None => True end ->
  RS m cw (new_system false) na (put_contract aw na fresh_contract).
Proof.
  intros [Rc Rt Rb Re] D. constructor; cbn.
  - intros a' N. rewrite lookup_insert_ne by auto. apply Rc.
  - intros a' k N. apply Rt.
  - assumption.
  - assumption.
  - rewrite lookup_insert. reflexivity.
  - intros k. rewrite Rt, lookup_empty. destruct (cw_states cw !! na) as [ps|]; cbn; [|reflexivity].
    unfold abs_t. rewrite D. reflexivity.
  - discriminate.
  - auto.
  - discriminate.
Qed.

Lemma live_mono_move m cw f t v : live_mono m cw (cw_move cw f t v).
Proof. apply live_mono_states. reflexivity. Qed.

Lemma invoke_sim E m : forall f, sim_invoke m (cinvoke E m f) (ainvoke E f).
Proof.
  induction f as [|f IH]; intros r cw aw cw' rc aw' ra HR OKR CI AI.
  { cbn in CI, AI. injection CI as <- <-. injection AI as <- <-.
    split; [reflexivity|]. split; [assumption|]. split; [apply live_mono_refl|]. auto. }
  pose proof (crun_sim E m _ _ IH) as RUN.
  destruct r as [from to value entry rdo | c tgt entry | creator na value t];
    cbn [cinvoke ainvoke] in CI, AI.
  - (* RCall *)
    rewrite <- (R_b _ _ _ HR) in CI.
    destruct ((value <? 0) || (getb (w_bal aw) from <? value)) eqn:G1.
    { injection CI as <- <-. injection AI as <- <-.
      split; [reflexivity|]. split; [assumption|]. split; [apply live_mono_refl|]. auto. }
    destruct (rdo && (0 <? value)) eqn:G2.
    { injection CI as <- <-. injection AI as <- <-.
      split; [reflexivity|]. split; [assumption|]. split; [apply live_mono_refl|]. auto. }
    pose proof (R_move m cw aw from to value HR) as R1.
    assert (FRM : rdo = true -> cw_move cw from to value = cw).
    { intros ->. cbn in G2. destruct (0 <? value) eqn:V; [discriminate|].
      apply orb_false_iff in G1 as [G1 _].
      assert (value = 0) as -> by lia. apply cw_move_zero. }
    set (cw1 := cw_move cw from to value) in *. set (aw1 := a_move aw from to value) in *.
    rewrite (R_c _ _ _ R1) in AI.
    destruct (cw_states cw1 !! to) as [ps|] eqn:L; cbn [fmap option_fmap option_map] in AI.
    2: { destruct (existsb (Z.eqb to) (e_eoas E)).
         - injection CI as <- <-. injection AI as <- <-.
           split; [reflexivity|]. split; [assumption|]. split; [apply live_mono_move|].
           split; [assumption|]. cbn. intros X; contradiction X; reflexivity.
         - injection CI as <- <-. injection AI as <- <-.
           split; [reflexivity|]. split; [assumption|]. split; [apply live_mono_refl|]. auto. }
    rewrite c_dead_abs in AI.
    destruct (is_dead m ps) eqn:D.
    { rewrite (load_dead _ _ _ D) in CI. injection CI as <- <-. injection AI as <- <-.
      split; [reflexivity|]. split; [assumption|]. split; [apply live_mono_move|].
      split; [assumption|]. cbn. intros X; contradiction X; reflexivity. }
    destruct (load_live m rdo ps D) as [LC LR]. rewrite LC in CI. rewrite (c_code_abs _ _ D) in AI.
    destruct (lookup_entry (p_code ps) entry) as [scr|].
    2: { injection CI as <- <-. injection AI as <- <-.
         split; [reflexivity|]. split; [assumption|]. split; [apply live_mono_move|].
         split; [assumption|]. cbn. intros X; contradiction X; reflexivity. }
    set (c := {| self := to; caller := from; callvalue := value; ro := rdo |}) in *.
    destruct (crun E m (cinvoke E m f) c scr cw1 (sys_load m rdo ps) []) as [[cwr sr] oc] eqn:CR.
    destruct (arun E (ainvoke E f) c scr aw1 []) as [awr oa] eqn:AR.
    pose proof (RS_of_R m cw1 aw1 to ps rdo R1 L D) as H1.
    destruct (RUN scr c cw1 _ aw1 [] _ _ _ _ _ H1 LR CR AR) as [EO K].
    assert (K' : forall l, oc = ORet l ->
       RS m cwr sr to awr /\ s_ro sr = rdo /\ live_mono m cw cwr /\ (rdo = true -> cwr = cw)).
    { intros l EL. destruct (K l EL) as (K1 & K2 & K3 & K4). split; [assumption|]. split; [assumption|].
      split; [eapply live_mono_trans; [apply live_mono_move | exact K3]|].
      intros X. cbn in K4. rewrite (K4 X). apply FRM; assumption. }
    destruct (finish_sim m cw aw to rdo cwr sr oc awr oa cw' rc aw' ra HR EO K' CI AI)
      as (F1 & F2 & F3 & F4 & F5).
    split; [assumption|]. split; [assumption|]. split; [assumption|]. split; assumption.
  - (* RDelegate *)
    destruct OKR as (sps & SL & SD).
    rewrite (R_c _ _ _ HR) in AI.
    destruct (cw_states cw !! tgt) as [tps|] eqn:L; cbn [fmap option_fmap option_map] in AI.
    2: { injection CI as <- <-. injection AI as <- <-.
         split; [reflexivity|]. split; [assumption|]. split; [apply live_mono_refl|]. auto. }
    rewrite c_dead_abs in AI.
    destruct (is_dead m tps) eqn:D.
    { injection CI as <- <-. injection AI as <- <-.
      split; [reflexivity|]. split; [assumption|]. split; [apply live_mono_refl|]. auto. }
    rewrite (c_code_abs _ _ D) in AI.
    destruct (lookup_entry (p_code tps) entry) as [scr|].
    2: { injection CI as <- <-. injection AI as <- <-.
         split; [reflexivity|]. split; [assumption|]. split; [apply live_mono_refl|]. auto. }
    rewrite SL in CI.
    destruct (crun E m (cinvoke E m f) c scr cw (sys_load m (ro c) sps) []) as [[cwr sr] oc] eqn:CR.
    destruct (arun E (ainvoke E f) c scr aw []) as [awr oa] eqn:AR.
    pose proof (RS_of_R m cw aw (self c) sps (ro c) HR SL SD) as H1.
    destruct (load_live m (ro c) sps SD) as [LC LR].
    destruct (RUN scr c cw _ aw [] _ _ _ _ _ H1 LR CR AR) as [EO K].
    destruct (finish_sim m cw aw (self c) (ro c) cwr sr oc awr oa cw' rc aw' ra HR EO K CI AI)
      as (F1 & F2 & F3 & F4 & F5).
    split; [assumption|]. split; [assumption|]. split; [assumption|]. split; assumption.
  - (* RCreate *)
    destruct (lookup_entry (e_tmpls E) t) as [tm|].
    2: { injection CI as <- <-. injection AI as <- <-.
         split; [reflexivity|]. split; [assumption|]. split; [apply live_mono_refl|]. auto. }
    rewrite (R_c _ _ _ HR) in AI.
    assert (EX : match abs_c m <$> cw_states cw !! na with
                 | Some ct => negb (c_dead ct) | None => false end =
                 match cw_states cw !! na with
                 | Some ps => negb (is_dead m ps) | None => false end).
    { destruct (cw_states cw !! na); cbn; [rewrite c_dead_abs|]; reflexivity. }
    rewrite EX in AI. clear EX.
    destruct (match cw_states cw !! na with
              | Some ps => negb (is_dead m ps) | None => false end) eqn:G.
    { injection CI as <- <-. injection AI as <- <-.
      split; [reflexivity|]. split; [assumption|]. split; [apply live_mono_refl|]. auto. }
    pose proof (R_move m cw aw creator na value HR) as R1.
    set (cw1 := cw_move cw creator na value) in *. set (aw1 := a_move aw creator na value) in *.
    assert (DN : match cw_states cw1 !! na with Some ps => is_dead m ps = true | None => True end).
    { subst cw1. cbn. destruct (cw_states cw !! na); [|exact I]. apply negb_false_iff; assumption. }
    pose proof (R_put_fresh m cw1 aw1 na R1 DN) as H1.
    set (c := {| self := na; caller := creator; callvalue := value; ro := false |}) in *.
    destruct (crun E m (cinvoke E m f) c (t_ctor tm) cw1 (new_system false) []) as [[cwr sr] oc] eqn:CR.
    destruct (arun E (ainvoke E f) c (t_ctor tm) (put_contract aw1 na fresh_contract) [])
      as [awr oa] eqn:AR.
    destruct (RUN (t_ctor tm) c cw1 _ _ [] _ _ _ _ _ H1 eq_refl CR AR) as [<- K].
    destruct oc as [l|l|code].
    + destruct (K l eq_refl) as (K1 & K2 & K3 & K4). cbn in K1, K2.
      pose proof (RS_setcode m cwr sr na awr (t_code tm) (t_id tm) K1 K2) as H2.
      destruct (sys_flush m na cwr (sys_setcode sr (t_code tm) (t_id tm))) as [[cw3 s3]|] eqn:F;
        [|exfalso; eapply flush_some; eauto].
      destruct (flush_RS _ _ _ _ _ _ _ H2 F) as (H3 & [r3 SV3] & RO3 & LM3 & FR3 & _ & _).
      injection CI as <- <-. injection AI as <- <-.
      split; [reflexivity|]. split; [eapply R_of_RS; eauto|].
      split.
      { eapply live_mono_trans; [apply live_mono_move|]. eapply live_mono_trans; eauto. }
      split; [discriminate|]. cbn. intros X; contradiction X; reflexivity.
    + injection CI as <- <-. injection AI as <- <-.
      split; [reflexivity|]. split; [assumption|]. split; [apply live_mono_refl|]. auto.
    + injection CI as <- <-. injection AI as <- <-.
      split; [reflexivity|]. split; [assumption|]. split; [apply live_mono_refl|]. auto.
Qed.

(* ------------------------------------------------------------------------------------------ *)
(* sequences of top-level messages                                                             *)
(* ------------------------------------------------------------------------------------------ *)
Definition seq_of (q : gmap addr Z) (o : addr) : Z := default 0 (q !! o).
(* a stored message identity comes from an earlier message of its origin *)
Definition older (q : gmap addr Z) (x : mid) : Prop := snd x < seq_of q (fst x).

(* contract as seen between messages: any tombstone is stale *)
Definition abs_b (ps : pstate) : contract :=
  match p_tomb ps with
  | Some _ => dead_contract
  | None => {| c_storage := p_slots ps; c_code := p_code ps; c_codeid := p_codeid ps;
               c_nonce := p_nonce ps; c_tomb := false; c_dead := false |}
  end.

Record Rb (cs : cstate) (aw : world) : Prop := {
  Rb_old : forall a ps, cw_states (cs_world cs) !! a = Some ps ->
             (forall t, p_tomb ps = Some t -> older (cs_seq cs) t) /\
             (forall ts l, p_tdata ps = Some (ts, l) -> older (cs_seq cs) l);
  Rb_c : forall a, w_contracts aw !! a = abs_b <$> (cw_states (cs_world cs) !! a);
  Rb_t : w_transient aw = ∅;
  Rb_bal : w_bal aw = cw_bal (cs_world cs);
}.

Lemma older_neq q o x : older q x -> x <> (o, seq_of q o).
Proof. unfold older. intros H ->. cbn in H. lia. Qed.

Lemma R_begin cs aw o :
  Rb cs aw -> R (o, seq_of (cs_seq cs) o) (cw_begin (cs_world cs)) (a_begin aw).
Proof.
  intros [Ho Hc Ht Hb]. set (m := (o, seq_of (cs_seq cs) o)).
  constructor; cbn; auto.
  - intros a. rewrite Hc. destruct (cw_states (cs_world cs) !! a) as [ps|] eqn:L; cbn; [|reflexivity].
    f_equal. destruct (Ho _ _ L) as [H1 _]. unfold abs_b, abs_c, is_dead.
    destruct (p_tomb ps) as [t|]; [|reflexivity].
    rewrite (proj2 (mid_eqb_neq t m)); [reflexivity|]. apply older_neq. auto.
  - intros a k. rewrite Ht, lookup_empty.
    destruct (cw_states (cs_world cs) !! a) as [ps|] eqn:L; cbn; [|reflexivity].
    destruct (Ho _ _ L) as [_ H2]. unfold abs_t. destruct (is_dead m ps); [reflexivity|].
    unfold tslots_of. destruct (p_tdata ps) as [[ts l]|]; [|rewrite lookup_empty; reflexivity].
    rewrite (proj2 (mid_eqb_neq l m)); [rewrite lookup_empty; reflexivity|].
    apply older_neq. eauto.
Qed.

Lemma finalize_abs m ps :
  (let c := abs_c m ps in if c_tomb c then dead_contract else c) = abs_b ps.
Proof.
  unfold abs_c, abs_b, is_dead. destruct (p_tomb ps) as [t|]; cbn; [|reflexivity].
  destruct (mid_eqb t m); reflexivity.
Qed.

Lemma Rb_end cs aw1 cw1 o :
  (forall a ps, cw_states (cs_world cs) !! a = Some ps ->
     (forall t, p_tomb ps = Some t -> older (cs_seq cs) t) /\
     (forall ts l, p_tdata ps = Some (ts, l) -> older (cs_seq cs) l)) ->
  R (o, seq_of (cs_seq cs) o) cw1 aw1 ->
  live_mono (o, seq_of (cs_seq cs) o) (cw_begin (cs_world cs)) cw1 ->
  Rb {| cs_world := cw1; cs_seq := <[ o := seq_of (cs_seq cs) o + 1 ]> (cs_seq cs) |} (a_finalize aw1).
Proof.
  intros Ho [Rc Rt Rb' Re] [_ P]. set (m := (o, seq_of (cs_seq cs) o)) in *.
  assert (UP : forall x, older (cs_seq cs) x \/ x = m ->
                older (<[ o := seq_of (cs_seq cs) o + 1 ]> (cs_seq cs)) x).
  { intros x [H | ->]; unfold older, seq_of in *.
    - destruct (decide (fst x = o)) as [E|N].
      + rewrite E in *. rewrite lookup_insert. cbn. lia.
      + rewrite lookup_insert_ne by auto. assumption.
    - cbn. rewrite lookup_insert. cbn. lia. }
  constructor; cbn.
  - intros a ps L. destruct (P _ _ L) as [L0 | [W1 W2]].
    + cbn in L0. destruct (Ho _ _ L0) as [H1 H2]. split.
      * intros t T. apply UP. left. auto.
      * intros ts l T. apply UP. left. eauto.
    + split.
      * intros t T. apply UP. right. destruct W1 as [W1|W1]; congruence.
      * intros ts l T. apply UP. right. destruct W2 as [W2|[ts' W2]]; congruence.
  - intros a. rewrite lookup_fmap, Rc. destruct (cw_states cw1 !! a) as [ps|]; cbn; [|reflexivity].
    f_equal. apply finalize_abs.
  - reflexivity.
  - assumption.
Qed.

Lemma obs_addr_eq cs aw a :
  Rb cs aw -> a_obs_addr aw a = c_obs_addr (cs_world cs) a.
Proof.
  intros [Ho Hc Ht Hb]. unfold a_obs_addr, c_obs_addr. rewrite Hc, Hb.
  destruct (cw_states (cs_world cs) !! a) as [ps|]; cbn; [|reflexivity].
  unfold abs_b. destruct (p_tomb ps); reflexivity.
Qed.

Lemma msg_sim E fuel cs aw x cs' rc aw' ra :
  Rb cs aw -> cmsg E fuel cs x = (cs', rc) -> amsg E fuel aw x = (aw', ra) ->
  rc = ra /\ Rb cs' aw' /\ c_obs E (cs_world cs') rc = a_obs E aw' ra.
Proof.
  intros HB CM AM. unfold cmsg, amsg in *.
  change (default 0 (cs_seq cs !! m_from x)) with (seq_of (cs_seq cs) (m_from x)) in CM.
  set (m := (m_from x, seq_of (cs_seq cs) (m_from x))) in *.
  destruct (cinvoke E m fuel _ (cw_begin (cs_world cs))) as [cw1 r1] eqn:CI.
  destruct (ainvoke E fuel _ (a_begin aw)) as [aw1 r2] eqn:AI.
  injection CM as <- <-. injection AM as <- <-.
  pose proof (R_begin cs aw (m_from x) HB) as R0.
  destruct (invoke_sim E m fuel (RCall (m_from x) (m_to x) (m_value x) (m_entry x) false) _ _ _ _ _ _ R0 I CI AI) as (<- & R1 & LM & _ & _).
  pose proof (Rb_end cs aw1 cw1 (m_from x) (Rb_old _ _ HB) R1 LM) as HB'.
  split; [reflexivity|]. split; [assumption|].
  unfold c_obs, a_obs. f_equal. f_equal. f_equal.
  - apply flat_map_ext. intros a. symmetry. apply (obs_addr_eq _ _ a HB').
  - cbn. rewrite (R_e _ _ _ R1). reflexivity.
Qed.

(* THE REFINEMENT: for every environment, fuel, pair of related initial states and every sequence
   of top-level messages, the concrete System protocol and the abstract specification produce the
   same observations (exit code, read log, storage / nonce / code / liveness of every observed
   contract, balances, events) after every message *)
Theorem system_refines_spec_rel E fuel : forall msgs cs aw,
  Rb cs aw -> c_observe E fuel cs msgs = a_observe E fuel aw msgs.
Proof.
  induction msgs as [|x rest IH]; intros cs aw HB; [reflexivity|].
  cbn [c_observe a_observe].
  destruct (cmsg E fuel cs x) as [cs' rc] eqn:CM. destruct (amsg E fuel aw x) as [aw' ra] eqn:AM.
  destruct (msg_sim _ _ _ _ _ _ _ _ _ HB CM AM) as (-> & HB' & EO).
  rewrite EO. f_equal. apply IH; assumption.
Qed.

(* initial worlds built the same way are related *)
Lemma Rb_init cs bals :
  Rb {| cs_world := mk_cworld cs bals; cs_seq := ∅ |} (mk_world cs bals).
Proof.
  assert (L : forall a, (list_to_map (map (fun '(a, cd) => (a, mk_contract cd a)) cs) : gmap addr contract) !! a =
                abs_b <$> ((list_to_map (map (fun '(a, cd) => (a, mk_pstate cd a)) cs) : gmap addr pstate) !! a)).
  { intros a. induction cs as [|[a0 cd] cs IH]; cbn; [rewrite !lookup_empty; reflexivity|].
    destruct (decide (a = a0)) as [->|N].
    - rewrite !lookup_insert. reflexivity.
    - rewrite !lookup_insert_ne by auto. exact IH. }
  assert (T : forall a ps, (list_to_map (map (fun '(a, cd) => (a, mk_pstate cd a)) cs) : gmap addr pstate) !! a = Some ps ->
                p_tomb ps = None /\ p_tdata ps = None).
  { clear L. intros a ps. induction cs as [|[a0 cd] cs IH]; cbn; [rewrite lookup_empty; discriminate|].
    destruct (decide (a = a0)) as [->|N].
    - rewrite lookup_insert. intros [= <-]. auto.
    - rewrite lookup_insert_ne by auto. exact IH. }
  constructor; cbn.
  - intros a ps H. destruct (T _ _ H) as [T1 T2]. split; intros; congruence.
  - exact L.
  - reflexivity.
  - reflexivity.
Qed.

Theorem system_refines_spec E fuel cs bals msgs :
  c_observe E fuel {| cs_world := mk_cworld cs bals; cs_seq := ∅ |} msgs =
  a_observe E fuel (mk_world cs bals) msgs.
Proof. apply system_refines_spec_rel, Rb_init. Qed.

(* ------------------------------------------------------------------------------------------ *)
(* the clauses of the property                                                                 *)
(* ------------------------------------------------------------------------------------------ *)

(* every state reachable by top-level messages from an initial world satisfies the between-messages
   relation with the specification's world *)
Fixpoint c_run (E : env) (fuel : nat) (cs : cstate) (ms : list msg) : cstate :=
  match ms with [] => cs | x :: rest => c_run E fuel (fst (cmsg E fuel cs x)) rest end.
Fixpoint a_run (E : env) (fuel : nat) (w : world) (ms : list msg) : world :=
  match ms with [] => w | x :: rest => a_run E fuel (fst (amsg E fuel w x)) rest end.

Lemma Rb_run E fuel : forall ms cs aw, Rb cs aw -> Rb (c_run E fuel cs ms) (a_run E fuel aw ms).
Proof.
  induction ms as [|x rest IH]; intros cs aw HB; [exact HB|]. cbn.
  destruct (cmsg E fuel cs x) as [cs' rc] eqn:CM. destruct (amsg E fuel aw x) as [aw' ra] eqn:AM.
  destruct (msg_sim _ _ _ _ _ _ _ _ _ HB CM AM) as (_ & HB' & _). cbn. apply IH; assumption.
Qed.

Lemma flush_keeps m a cw s cw1 s1 :
  sys_flush m a cw s = Some (cw1, s1) ->
  s_slots s1 = s_slots s /\ s_tslots s1 = s_tslots s /\ s_nonce s1 = s_nonce s /\ s_tomb s1 = s_tomb s.
Proof.
  unfold sys_flush. destruct (s_saved s); [intros [= <- <-]; auto|].
  destruct (s_ro s); [discriminate|]. intros [= <- <-]. auto.
Qed.

(* (1) outer writes are visible to inner (re-entrant) activations: every send is preceded by a
   flush, after which the persisted state of the caller -- what any nested activation of the same
   contract loads -- is exactly the caller's cache *)
Lemma outer_writes_visible_to_inner_l m cw s a aw cw1 s1 :
  RS m cw s a aw -> sys_flush m a cw s = Some (cw1, s1) ->
  exists root, cw_states cw1 !! a = Some root /\
    forall rdo, let s_in := sys_load m rdo root in
      s_slots s_in = s_slots s /\ s_tslots s_in = s_tslots s /\ s_nonce s_in = s_nonce s /\
      s_tomb s_in = s_tomb s.
Proof.
  intros H F. destruct (flush_RS _ _ _ _ _ _ _ H F) as (H1 & [r SV] & _).
  destruct (RS_sync _ _ _ _ _ H1 _ SV) as [L (S1 & S2 & S3 & S4 & S5 & S6)].
  destruct (flush_keeps _ _ _ _ _ _ F) as (K1 & K2 & K3 & K4).
  exists r. split; [assumption|]. intros rdo. unfold sys_load. rewrite S6. cbn.
  rewrite <- S1, <- S2, <- S3, <- S4. auto.
Qed.

Lemma reload_saved m a cw s : is_Some (s_saved s) -> is_Some (s_saved (sys_reload m a cw s)).
Proof.
  intros H. unfold sys_reload. destruct (s_ro s); [assumption|].
  destruct (cw_states cw !! a); [|assumption]. destruct (bool_decide _); [assumption | cbn; eauto].
Qed.

(* (2) inner writes are visible to the outer activation: after a SUCCESSFUL send the caller's cache
   is synchronised with the persisted state its callee tree left behind (whatever nesting,
   re-entrancy or reverted sub-calls happened inside) *)
Lemma inner_writes_visible_to_outer_l E m f a r cw s aw cw' s' data :
  RS m cw s a aw ->
  match r with RDelegate c _ _ => self c = a | _ => True end ->
  (s_ro s = true -> req_ro r = true) ->
  c_send m (cinvoke E m f) a r cw s = Some (cw', s', (0, data)) ->
  exists root, cw_states cw' !! a = Some root /\ s_saved s' = Some root /\
               s_slots s' = p_slots root /\ s_tslots s' = tslots_of m (p_tdata root) /\
               s_nonce s' = p_nonce root /\ s_tomb s' = p_tomb root.
Proof.
  intros H OKR ROR CS.
  destruct (ainvoke E f r aw) as [aw' ra] eqn:AI.
  destruct (c_send_sim m _ _ a r cw s aw aw' ra (invoke_sim E m f) H OKR ROR AI)
    as (cwx & sx & ES & HX & _).
  rewrite ES in CS. injection CS as -> -> ->.
  assert (SV : is_Some (s_saved s')).
  { unfold c_send in ES. destruct (sys_flush m a cw s) as [[cw1 s1]|] eqn:F; [|discriminate].
    destruct (flush_RS _ _ _ _ _ _ _ H F) as (_ & SV1 & _).
    destruct (cinvoke E m f r cw1) as [cw2 [code d]]. injection ES as _ <- -> _. cbn.
    apply reload_saved; assumption. }
  destruct SV as [root SV]. destruct (RS_sync _ _ _ _ _ HX _ SV) as [L (S1 & S2 & S3 & S4 & _)].
  exists root. auto 10.
Qed.

Lemma ainvoke_fail_unchanged E f r aw aw' code d :
  ainvoke E f r aw = (aw', (code, d)) -> code <> 0 -> aw' = aw.
Proof.
  destruct f as [|f]; cbn [ainvoke]; [intros [= <- _ _]; reflexivity|].
  assert (FIN : forall w0 x, a_finish w0 x = (aw', (code, d)) -> code <> 0 -> aw' = w0).
  { intros w0 [w1 [l|l|c]]; cbn; intros [= <- <- <-] N; [contradiction N|..]; reflexivity. }
  destruct r as [from to value entry rdo | c tgt entry | creator na value t].
  - destruct (_ || _); [intros [= <- _ _]; reflexivity|].
    destruct (_ && _); [intros [= <- _ _]; reflexivity|].
    destruct (w_contracts _ !! to) as [ct|].
    + destruct (c_dead ct); [intros [= <- <- _] N; contradiction N; reflexivity|].
      destruct (lookup_entry _ _); [apply FIN | intros [= <- <- _] N; contradiction N; reflexivity].
    + destruct (existsb _ _); [intros [= <- <- _] N; contradiction N; reflexivity|].
      intros [= <- _ _]; reflexivity.
  - destruct (w_contracts _ !! tgt) as [ct|]; [|intros [= <- <- _] N; contradiction N; reflexivity].
    destruct (c_dead ct); [intros [= <- <- _] N; contradiction N; reflexivity|].
    destruct (lookup_entry _ _); [apply FIN | intros [= <- <- _] N; contradiction N; reflexivity].
  - destruct (lookup_entry _ _) as [tm|]; [|intros [= <- _ _]; reflexivity].
    destruct (match w_contracts aw !! na with Some _ => _ | None => _ end);
      [intros [= <- _ _]; reflexivity|].
    destruct (arun _ _ _ _ _ _) as [w2 [l|l|c]]; intros [= <- <- _] N;
      [contradiction N|..]; reflexivity.
Qed.

(* (3) a call that reverts or fails leaves no trace: the persisted world (storage of every
   contract, transient data, balances, events) is the one of before the send (up to the caller's own
   flush, which is the cache it already had), and the caller's cache still represents the SAME
   abstract world as before the call -- so the caller continues as if the call never happened *)
Lemma reverted_call_leaves_no_trace_l E m f a r cw s aw cw' s' code data :
  RS m cw s a aw ->
  match r with RDelegate c _ _ => self c = a | _ => True end ->
  (s_ro s = true -> req_ro r = true) ->
  c_send m (cinvoke E m f) a r cw s = Some (cw', s', (code, data)) -> code <> 0 ->
  RS m cw' s' a aw /\ cw_bal cw' = cw_bal cw /\ cw_events cw' = cw_events cw /\
  (forall a', a' <> a -> cw_states cw' !! a' = cw_states cw !! a') /\
  s_slots s' = s_slots s /\ s_tslots s' = s_tslots s /\ s_nonce s' = s_nonce s /\ s_tomb s' = s_tomb s.
Proof.
  intros H OKR ROR CS NZ.
  destruct (ainvoke E f r aw) as [aw' ra] eqn:AI.
  destruct (c_send_sim m _ _ a r cw s aw aw' ra (invoke_sim E m f) H OKR ROR AI)
    as (cwx & sx & ES & HX & _).
  rewrite ES in CS. injection CS as -> -> ->.
  rewrite (ainvoke_fail_unchanged _ _ _ _ _ _ _ AI NZ) in HX. split; [assumption|].
  unfold c_send in ES. destruct (sys_flush m a cw s) as [[cw1 s1]|] eqn:F; [|discriminate].
  destruct (flush_RS _ _ _ _ _ _ _ H F) as (H1 & [r1 SV1] & _ & _ & _ & B1 & ST1).
  pose proof (R_of_RS _ _ _ _ _ _ H1 SV1) as R1.
  destruct (cinvoke E m f r cw1) as [cw2 [code2 d2]] eqn:CI.
  assert (OK1 : req_ok m cw1 r).
  { destruct r; cbn; auto. subst a. destruct (RS_sync _ _ _ _ _ H1 _ SV1) as [L S].
    exists r1. split; [assumption | apply S]. }
  destruct (invoke_sim E m f r cw1 aw cw2 (code2, d2) aw' (code, data) R1 OK1 CI AI)
    as (EQ & _ & _ & _ & FF).
  injection EQ as -> ->. cbn in FF. rewrite (FF NZ) in *.
  destruct (code =? 0) eqn:C; [apply Z.eqb_eq in C; contradiction|].
  injection ES as <- <-.
  destruct (flush_keeps _ _ _ _ _ _ F) as (K1 & K2 & K3 & K4).
  assert (EV : cw_events cw1 = cw_events cw).
  { unfold sys_flush in F. destruct (s_saved s); [injection F as <- _; reflexivity|].
    destruct (s_ro s); [discriminate|]. injection F as <- _. reflexivity. }
  auto 10.
Qed.

(* a failing top-level message changes nothing at all (but the sender's sequence number) *)
Lemma failed_message_no_trace_l E fuel cs aw x cs' code d :
  Rb cs aw -> cmsg E fuel cs x = (cs', (code, d)) -> code <> 0 ->
  cs_world cs' = cw_begin (cs_world cs).
Proof.
  intros HB CM NZ. unfold cmsg in CM.
  change (default 0 (cs_seq cs !! m_from x)) with (seq_of (cs_seq cs) (m_from x)) in CM.
  set (m := (m_from x, seq_of (cs_seq cs) (m_from x))) in *.
  destruct (cinvoke E m fuel _ (cw_begin (cs_world cs))) as [cw1 r1] eqn:CI.
  injection CM as <- ->. cbn.
  destruct (ainvoke E fuel (RCall (m_from x) (m_to x) (m_value x) (m_entry x) false) (a_begin aw))
    as [aw1 r2] eqn:AI.
  pose proof (R_begin cs aw (m_from x) HB) as R0.
  destruct (invoke_sim E m fuel (RCall (m_from x) (m_to x) (m_value x) (m_entry x) false)
              _ _ _ _ _ _ R0 I CI AI) as (_ & _ & _ & _ & FF).
  apply FF. exact NZ.
Qed.

(* (4) transient storage is shared within one top-level message: an activation that loads a state
   flushed during the same message finds the flushed transient slots *)
Lemma transient_shared_within_message_l m s rdo :
  (s_tomb s = None \/ s_tomb s = Some m) ->
  s_tslots (sys_load m rdo (sys_state m s)) = s_tslots s.
Proof.
  intros T. unfold sys_load. rewrite (tomb_not_dead m (sys_state m s)) by exact T. cbn [s_tslots].
  apply tslots_state.
Qed.

(* (5) ... and empty in the next: under any other message identity the same state loads with empty
   transient slots; and after ANY history, every persisted state loads with empty transient slots
   in the next message of any origin *)
Lemma transient_empty_other_message_l m m' s rdo :
  m' <> m -> s_tslots (sys_load m' rdo (sys_state m s)) = ∅.
Proof.
  intros N. unfold sys_load. destruct (is_dead m' (sys_state m s)); [reflexivity|]. cbn.
  destruct (map_is_empty (s_tslots s)); cbn; [reflexivity|].
  rewrite (proj2 (mid_eqb_neq m m')) by congruence. reflexivity.
Qed.

Lemma transient_empty_next_message_l E fuel cs bals ms o a ps rdo :
  let st := c_run E fuel {| cs_world := mk_cworld cs bals; cs_seq := ∅ |} ms in
  cw_states (cs_world st) !! a = Some ps ->
  s_tslots (sys_load (o, seq_of (cs_seq st) o) rdo ps) = ∅.
Proof.
  intros st L. pose proof (Rb_run E fuel ms _ _ (Rb_init cs bals)) as HB. fold st in HB.
  destruct (Rb_old _ _ HB _ _ L) as [_ H2].
  unfold sys_load. destruct (is_dead _ ps); [reflexivity|]. cbn. unfold tslots_of.
  destruct (p_tdata ps) as [[ts l]|]; [|reflexivity].
  rewrite (proj2 (mid_eqb_neq l _)); [reflexivity|]. apply older_neq. eauto.
Qed.

(* (6) SELFDESTRUCT: the balance moves at once; during the same message the contract keeps working
   (every later activation loads its storage and code unchanged); in every later message it loads as
   an empty, code-less, read-only contract, is reported dead, and may be re-created *)
Lemma selfdestruct_pays_at_once_l E m ci c b rest cw s log :
  s_ro s = false ->
  crun E m ci c (SelfDestruct b :: rest) cw s log =
  (cw_move cw (self c) b (getb (cw_bal cw) (self c)), sys_mark m s, ORet []).
Proof. intros RO. cbn. rewrite RO. reflexivity. Qed.

Lemma selfdestruct_deferred_l m s rdo :
  let s_in := sys_load m rdo (sys_state m (sys_mark m s)) in
  s_slots s_in = s_slots s /\ s_tslots s_in = s_tslots s /\ s_nonce s_in = s_nonce s /\
  s_code s_in = Some (p_code (sys_state m s), p_codeid (sys_state m s)) /\ s_ro s_in = rdo.
Proof.
  cbn zeta. unfold sys_load.
  rewrite (tomb_not_dead m (sys_state m (sys_mark m s))) by (right; reflexivity). cbn.
  split; [reflexivity|]. split; [apply (tslots_state m (sys_mark m s))|]. auto.
Qed.

Lemma selfdestruct_then_empty_l m m' s rdo :
  m' <> m -> sys_load m' rdo (sys_state m (sys_mark m s)) = new_system true.
Proof.
  intros N. unfold sys_load, is_dead. cbn. rewrite (proj2 (mid_eqb_neq m m')) by congruence.
  reflexivity.
Qed.

Lemma selfdestruct_observed_dead_l cw a ps t :
  cw_states cw !! a = Some ps -> p_tomb ps = Some t ->
  c_obs_addr cw a = [2; 0; 0; 0; getb (cw_bal cw) a].
Proof. intros L T. unfold c_obs_addr. rewrite L, T. reflexivity. Qed.

(* (7) DELEGATECALL runs the callee's script with the caller's context (same self, caller and
   value) against the caller's own persisted state *)
Lemma delegatecall_uses_caller_context_l E m f c tgt entry cw tps scr ps :
  cw_states cw !! tgt = Some tps -> is_dead m tps = false ->
  lookup_entry (p_code tps) entry = Some scr -> cw_states cw !! self c = Some ps ->
  cinvoke E m (S f) (RDelegate c tgt entry) cw =
  c_finish m cw (self c) (crun E m (cinvoke E m f) c scr cw (sys_load m (ro c) ps) []).
Proof. intros L D LE LS. cbn [cinvoke]. rewrite L, D, LE, LS. reflexivity. Qed.

(* (8) read-only is sticky: a read-only invocation -- including everything it calls, at any depth,
   by CALL, STATICCALL or DELEGATECALL -- leaves the persisted world untouched; writes, logs,
   creations and self-destruction are refused inside it *)
Lemma readonly_no_effect_l E m f r cw aw :
  R m cw aw -> req_ok m cw r -> req_ro r = true -> fst (cinvoke E m f r cw) = cw.
Proof.
  intros HR OKR RO. destruct (cinvoke E m f r cw) as [cw' rc] eqn:CI.
  destruct (ainvoke E f r aw) as [aw' ra] eqn:AI.
  destruct (invoke_sim E m f r cw aw cw' rc aw' ra HR OKR CI AI) as (_ & _ & _ & FR & _).
  cbn. auto.
Qed.

Lemma readonly_rejects_writes_l E m ci c a rest cw s log :
  s_ro s = true ->
  match a with
  | SStore _ _ | TStore _ _ | Log _ | Create _ _ | Create2 _ _ _ | SelfDestruct _ => True
  | _ => False
  end ->
  crun E m ci c (a :: rest) cw s log = (cw, s, OFail USR_READ_ONLY).
Proof. intros RO. destruct a; cbn; rewrite ?RO; try contradiction; reflexivity. Qed.
