(* Partition operations preserve PartInv, part 3: replace_sectors, reschedule_expirations,
   pop_early_terminations. *)
From Coq Require Import ZArith List Bool Lia.
From stdpp Require Import gmap.
From VF Require Import Base.SetSum Model.Partition Model.PartitionInv Proofs.Partition_base
  Proofs.Partition_entry Proofs.Partition_moves Proofs.Partition_lists Proofs.Partition_queue1
  Proofs.Partition_queue2 Proofs.Partition_queue3 Proofs.Partition_queue4 Proofs.Partition_queue5
  Proofs.Partition_queue6 Proofs.Partition_ops1 Proofs.Partition_ops2.
Import ListNotations.
Open Scope Z_scope.

(* the numbers returned by remove_active_sectors are those of the list, whatever the fault set *)
Lemma remove_active_sectors_ns qs tbl (q q' : gmap Z expset) secs ns pw pl fe :
  from_tbl tbl secs -> NoDup (map s_num secs) ->
  remove_active_sectors qs q secs = Ok (q', ns, pw, pl, fe) -> ns = nums_of secs.
Proof.
  intros Hft Hnd. unfold remove_active_sectors.
  destruct (find_sectors_by_expiration qs q secs) as [gs|] eqn:Ef; cbn [rbind]; [|discriminate].
  apply (find_spec qs tbl q secs Hft Hnd) in Ef as [Gok Gnd Gcov]. intros Hfold.
  set (X := nums_of secs) in *.
  set (P := fun (rest : list group) (acc : gmap Z expset * gset N * pp * Z * Z) =>
            let '(_, ns, _, _, _) := acc in
            ns ⊆ X /\ (forall g, g ∈ rest -> g_secs g ⊆ X) /\
            (forall n, n ∈ X -> n ∈ ns \/ exists g, g ∈ rest /\ n ∈ g_secs g)).
  assert (Hfin : P [] (q', ns, pw, pl, fe)).
  { apply (foldM_ind (remove_group qs) P) with (l := gs) (a := (q, ∅, pp0, 0, 0)); [| |exact Hfold];
      unfold P.
    - intros [[[[qc ns0] pw0] pl0] fe0] g rest [[[[qc' ns1] pw1] pl1] fe1] (I1 & I2 & I3) Hstep.
      unfold remove_group in Hstep.
      destruct (q_remove _ _ _ _ _ _ _ _ _) as [q1|]; cbn [rbind] in Hstep; [|discriminate].
      injection Hstep as <- <- <- <- <-.
      assert (g_secs g ⊆ X) by (apply I2; left).
      split; [clear -I1 H; set_solver|]. split; [intros g2 Hg2; apply I2; right; exact Hg2|].
      intros n Hn. destruct (I3 n Hn) as [Hn'|(g2 & Hg2 & Hn2)]; [left; clear -Hn'; set_solver|].
      apply elem_of_cons in Hg2 as [->|Hg2]; [left; clear -Hn2; set_solver|right; eauto].
    - split; [clear; set_solver|]. split.
      + intros g Hg. rewrite Forall_forall in Gok. apply (Gok g Hg).
      + intros n Hn. right. apply Gcov, Hn. }
  unfold P in Hfin. cbn beta iota in Hfin. destruct Hfin as (I1 & _ & I3).
  apply seteq_L. intros n. split; [apply I1|]. intros Hn.
  destruct (I3 n Hn) as [H|(g & Hg & _)]; [exact H|inversion Hg].
Qed.

(* ---------- replace_sectors ---------- *)
Lemma p_replace_sectors_inv qs tbl p old new p' dpow dpl dfee :
  PartInv qs tbl p ->
  from_tbl tbl old -> NoDup (map s_num old) ->
  NoDup (map s_num new) -> Forall (fun s => sector_ok s (s_num s)) new ->
  (forall s, s ∈ new -> s_num s ∈ nums_of old \/ s_num s ∉ sectors p) ->
  p_replace_sectors qs p old new = Ok (p', dpow, dpl, dfee) ->
  let tbl' := store_sectors tbl new in
  PartInv qs tbl' p' /\ nums_of old ⊆ active_sectors p /\
  sectors p' = (sectors p ∖ nums_of old) ∪ nums_of new /\
  faults p' = faults p /\ unproven p' = unproven p /\ terminated p' = terminated p /\
  nums_of new ## (faults p ∪ unproven p ∪ terminated p) /\
  (forall n, n ∈ live_sectors p ∖ nums_of old -> tbl' !! n = tbl !! n) /\
  dpow = pp_sub (spow tbl' (nums_of new)) (spow tbl (nums_of old)) /\
  dpl = spledge tbl' (nums_of new) - spledge tbl (nums_of old) /\
  dfee = sfee tbl' (nums_of new) - sfee tbl (nums_of old).
Proof.
  intros HP Hfo Hndo Hndn Hokn Hnums Hop tbl'.
  unfold p_replace_sectors in Hop.
  destruct (q_replace_sectors qs (expirations p) old new)
    as [[[[[[q ons] nns] dpow0] dpl0] dfee0]|] eqn:Eq; cbn [rbind] in Hop; [|discriminate].
  (* first: which numbers came back, to use the partition's own check *)
  assert (Eons : ons = (nums_of old)).
  { unfold q_replace_sectors in Eq.
    destruct (remove_active_sectors qs (expirations p) old) as [[[[[q1 o1] o2] o3] o4]|] eqn:Er;
      cbn [rbind] in Eq; [|discriminate].
    pose proof (remove_active_sectors_ns qs tbl _ _ _ _ _ _ _ Hfo Hndo Er) as E1.
    destruct (add_active_sectors qs q1 new) as [[[[[q2 n1] n2] n3] n4]|]; cbn [rbind] in Eq; [|discriminate].
    injection Eq as _ <- _ _ _ _. exact E1. }
  subst ons.
  destruct (subset (nums_of old) (active_sectors p)) eqn:Eact; cbn [negb] in Hop; [|discriminate].
  apply subset_true in Eact.
  destruct (partinv_sub _ _ _ HP) as (SF & SU & SR).
  assert (HoF : (nums_of old) ## faults p) by (unfold active_sectors in Eact; clear -Eact; set_solver).
  assert (HoU : (nums_of old) ## unproven p) by (unfold active_sectors in Eact; clear -Eact; set_solver).
  assert (HoL : (nums_of old) ⊆ live_sectors p) by (unfold active_sectors in Eact; clear -Eact; set_solver).
  assert (HnS : forall n, n ∈ (nums_of new) -> n ∈ (nums_of old) \/ n ∉ sectors p).
  { intros n Hn. apply elem_of_nums_of in Hn as (s & Hs & <-). apply Hnums, Hs. }
  assert (HnF : (nums_of new) ## faults p).
  { intros n Hn HF. destruct (HnS n Hn) as [H|H]; [apply (HoF n H HF)|].
    apply H. apply (pi_faults_sectors _ _ _ HP), HF. }
  assert (HnU : (nums_of new) ## unproven p).
  { intros n Hn HU. destruct (HnS n Hn) as [H|H]; [apply (HoU n H HU)|].
    apply H. apply (pi_unproven_sectors _ _ _ HP), HU. }
  assert (HnT : (nums_of new) ## terminated p).
  { intros n Hn HT. destruct (HnS n Hn) as [H|H].
    - apply HoL in H. unfold live_sectors in H. clear -H HT. set_solver.
    - apply H. apply (pi_terminated_sectors _ _ _ HP), HT. }
  assert (HnL : (nums_of new) ## live_sectors p ∖ (nums_of old)).
  { intros n Hn HL. destruct (HnS n Hn) as [H|H]; [clear -H HL; set_solver|].
    unfold live_sectors in HL. clear -H HL. set_solver. }
  assert (Hftn : from_tbl tbl' new) by (intros s Hs; apply store_sectors_lookup; assumption).
  assert (Hext : forall n, n ∈ live_sectors p ∖ (nums_of old) -> tbl' !! n = tbl !! n).
  { intros n Hn. apply store_sectors_lookup_ne.  intros Hn'. apply (HnL n Hn' Hn). }
  destruct (q_replace_sectors_inv qs tbl tbl' (faults p) (live_sectors p) (expirations p) q old new
              (nums_of old) nns dpow0 dpl0 dfee0 (pi_unit _ _ _ HP) (pi_queue _ _ _ HP) Hfo Hndo HoF Hftn Hndn HnF
              HnL Hext Eq) as (HQ & _ & -> & _ & _ & -> & -> & ->).
  destruct (validated _) as [p2|] eqn:Ev; cbn [rbind] in Hop; [|discriminate].
  apply validated_ok in Ev. subst p2. injection Hop as <- <- <- <-.
  cbn [sectors unproven faults recoveries terminated].
  split; [|split; [exact Eact|split; [reflexivity|split; [reflexivity|split; [reflexivity|split;
    [reflexivity|split; [clear -HnF HnU HnT; set_solver|split; [exact Hext|repeat split]]]]]]]].
  assert (Elive : ((sectors p ∖ (nums_of old)) ∪ (nums_of new)) ∖ terminated p = (live_sectors p ∖ (nums_of old)) ∪ (nums_of new)).
  { unfold live_sectors. apply seteq_L. clear -HnT. set_solver. }
  assert (HextU : forall n, n ∈ unproven p -> tbl' !! n = tbl !! n).
  { intros n Hn. apply Hext. clear -Hn SU HoU. set_solver. }
  assert (HextF : forall n, n ∈ faults p -> tbl' !! n = tbl !! n).
  { intros n Hn. apply Hext. clear -Hn SF HoF. set_solver. }
  destruct HP.
  constructor; cbn [sectors unproven faults recoveries terminated expirations early_terminated
                    live_power unproven_power p_faulty_power recovering_power]; try assumption.
  - apply store_sectors_keyed, pi_keyed.
  - unfold live_sectors; cbn [sectors terminated]. rewrite Elive.
    intros n Hn. apply elem_of_union in Hn as [Hn|Hn].
    + rewrite Hext by exact Hn. apply pi_tbl. clear -Hn. set_solver.
    + apply elem_of_nums_of in Hn as (s & Hs & <-). exists s. split; [apply Hftn, Hs|].
      rewrite Forall_forall in Hokn. apply Hokn, Hs.
  - clear -pi_faults_sectors HoF. set_solver.
  - clear -pi_unproven_sectors HoU. set_solver.
  - unfold live_sectors in HoL. clear -pi_terminated_sectors HoL. set_solver.
  - unfold live_sectors; cbn [sectors terminated]. rewrite Elive, pi_live_power.
    rewrite (spow_add_eq tbl' (live_sectors p ∖ (nums_of old) ∪ (nums_of new)) (live_sectors p ∖ (nums_of old)) (nums_of new));
      [|reflexivity|clear -HnL; set_solver].
    rewrite (spow_ext tbl tbl' (live_sectors p ∖ (nums_of old)) Hext).
    rewrite (spow_diff_sub tbl (live_sectors p) (nums_of old) HoL). apply pp_eq; cbn; lia.
  - rewrite pi_unproven_power. symmetry. apply spow_ext, HextU.
  - rewrite pi_faulty_power. symmetry. apply spow_ext, HextF.
  - rewrite pi_recovering_power. symmetry. apply spow_ext. intros n Hn. apply HextF, pi_rec_faults, Hn.
  - unfold live_sectors; cbn [sectors terminated]. rewrite Elive. exact HQ.
Qed.

(* ---------- reschedule_expirations ---------- *)
Lemma nums_of_map_setexp l e : map s_num (map (fun s => set_expiration s e) l) = map s_num l.
Proof. rewrite map_map. reflexivity. Qed.

Lemma p_reschedule_expirations_inv qs tbl p new_exp nums p' infos :
  PartInv qs tbl p ->
  p_reschedule_expirations qs tbl p new_exp nums = Ok (p', infos) ->
  let tbl' := store_sectors tbl (map (fun s => set_expiration s new_exp) infos) in
  PartInv qs tbl' p' /\ sectors p' = sectors p /\ faults p' = faults p /\
  unproven p' = unproven p /\ terminated p' = terminated p /\
  (forall X, spow tbl' X = spow tbl X).
Proof.
  intros HP Hop tbl'. unfold p_reschedule_expirations in Hop.
  remember (((nums ∩ sectors p) ∖ terminated p) ∖ faults p) as act eqn:Eact.
  destruct (load_sectors tbl act) as [infos0|] eqn:El; cbn [rbind] in Hop; [|discriminate].
  destruct (load_from_live _ _ _ _ _ HP El) as (Hft & Hnd & Hn).
  destruct (q_reschedule_expirations qs (expirations p) new_exp infos0) as [q|] eqn:Eq;
    cbn [rbind] in Hop; [|discriminate].
  destruct (validated _) as [p2|] eqn:Ev; cbn [rbind] in Hop; [|discriminate].
  apply validated_ok in Ev. subst p2. injection Hop as <- <-.
  set (mapped := map (fun s => set_expiration s new_exp) infos0) in *.
  assert (Hndm : NoDup (map s_num mapped)) by (unfold mapped; rewrite nums_of_map_setexp; exact Hnd).
  assert (Hnm : nums_of mapped = nums_of infos0).
  { unfold nums_of, mapped. rewrite nums_of_map_setexp. reflexivity. }
  assert (Hother : forall n, n ∉ nums_of infos0 -> tbl' !! n = tbl !! n).
  { intros n Hn'. apply store_sectors_lookup_ne. rewrite Hnm. exact Hn'. }
  assert (Hmoved : forall s, s ∈ infos0 -> tbl' !! s_num s = Some (set_expiration s new_exp)).
  { intros s Hs.
    change (s_num s) with (s_num (set_expiration s new_exp)).
    apply store_sectors_lookup; [exact Hndm|]. unfold mapped. apply elem_of_list_fmap. eauto. }
  assert (Hsame : forall (f : sector -> Z), (forall s, f (set_expiration s new_exp) = f s) ->
            forall n, tget tbl' f n = tget tbl f n).
  { intros f Hf n. destruct (decide (n ∈ nums_of infos0)) as [Hin|Hout].
    - apply elem_of_nums_of in Hin as (s & Hs & <-). unfold tget.
      rewrite (Hmoved s Hs), (Hft s Hs), Hf. reflexivity.
    - unfold tget. rewrite Hother by exact Hout. reflexivity. }
  assert (Hpow : forall X, spow tbl' X = spow tbl X).
  { intros X. unfold spow. f_equal; apply ssum_ext; intros n _; apply Hsame; reflexivity. }
  assert (HF : nums_of infos0 ## faults p) by (rewrite Hn, Eact; clear; set_solver).
  destruct (q_reschedule_expirations_inv qs tbl tbl' (faults p) (live_sectors p) (expirations p) q
              new_exp infos0 (pi_unit _ _ _ HP) (pi_queue _ _ _ HP) Hft Hnd HF Hother Hmoved Eq)
    as (HQ & _).
  cbn [set_exp sectors unproven faults recoveries terminated].
  split; [|repeat split; exact Hpow].
  destruct HP. unfold set_exp.
  constructor; cbn [sectors unproven faults recoveries terminated expirations early_terminated
                    live_power unproven_power p_faulty_power recovering_power]; try assumption.
  - apply store_sectors_keyed, pi_keyed.
  - intros n Hn'. unfold live_sectors in Hn'; cbn [sectors terminated] in Hn'.
    destruct (pi_tbl n Hn') as (s & Hs & Hok).
    destruct (decide (n ∈ nums_of infos0)) as [Hin|Hout].
    + apply elem_of_nums_of in Hin as (s' & Hs' & <-).
      exists (set_expiration s' new_exp). split; [apply Hmoved, Hs'|].
      rewrite (Hft s' Hs') in Hs. injection Hs as ->. exact Hok.
    + exists s. rewrite Hother by exact Hout. auto.
  - rewrite Hpow. exact pi_live_power.
  - rewrite Hpow. exact pi_unproven_power.
  - rewrite Hpow. exact pi_faulty_power.
  - rewrite Hpow. exact pi_recovering_power.
Qed.

(* ---------- pop_early_terminations ---------- *)
Lemma ETInv_refine T (et et' : gmap Z (gset N)) :
  ETInv T et ->
  (forall k X', et' !! k = Some X' -> exists X, et !! k = Some X /\ X' ⊆ X /\ X' <> ∅) ->
  ETInv T et'.
Proof.
  intros [H1 H2] Href. constructor.
  - intros k X' Hk. destruct (Href _ _ Hk) as (X & HX & Hs & Hne).
    destruct (H1 _ _ HX) as (A & _ & C). split; [exact A|]. split; [exact Hne|]. set_solver.
  - intros k1 k2 X1 X2 Hne Hk1 Hk2.
    destruct (Href _ _ Hk1) as (Y1 & HY1 & Hs1 & _). destruct (Href _ _ Hk2) as (Y2 & HY2 & Hs2 & _).
    pose proof (H2 _ _ _ _ Hne HY1 HY2). set_solver.
Qed.

Lemma take_misses_one (l : list N) n : NoDup l -> (n < length l)%nat -> exists x, x ∈ l /\ x ∉ take n l.
Proof.
  intros Hnd Hlen. rewrite <- (take_drop n l) in Hnd. apply NoDup_app in Hnd as (_ & Hd & _).
  destruct (drop n l) as [|x r] eqn:E.
  - apply (f_equal length) in E. rewrite drop_length in E. cbn in E. lia.
  - exists x. split.
    + rewrite <- (take_drop n l), E. apply elem_of_app. right. left.
    + intros Hin. apply (Hd x Hin). left.
Qed.

Lemma firstn_set_rest_nonempty (X : gset N) limit :
  X <> ∅ -> limit < ssize X -> X ∖ firstn_set limit X <> ∅.
Proof.
  intros Hne Hlim. unfold firstn_set, ssize in *.
  assert (Hlen : length (sorted X) = size X).
  { rewrite (Permutation_length (sorted_perm X)). reflexivity. }
  assert (Hpos : (0 < size X)%nat).
  { destruct (size X) eqn:E; [|lia]. apply size_empty_inv in E. exfalso. apply Hne.
    apply leibniz_equiv. exact E. }
  destruct (take_misses_one (sorted X) (Z.to_nat limit) (NoDup_sorted X)) as (x & Hx & Hnx); [lia|].
  intros E. assert (x ∈ X ∖ list_to_set (take (Z.to_nat limit) (sorted X))).
  { apply elem_of_difference. split; [apply elem_of_sorted, Hx|].
    rewrite elem_of_list_to_set. exact Hnx. }
  rewrite E in H. set_solver.
Qed.

Lemma delete_keys_lookup_Some {A} (ks : list Z) (m : gmap Z A) k x :
  fold_left (fun q k => delete k q) ks m !! k = Some x -> m !! k = Some x.
Proof.
  revert m. induction ks as [|k0 ks IH]; intros m; cbn [fold_left]; [auto|].
  intros H. apply IH in H. apply lookup_delete_Some in H as [_ H]. exact H.
Qed.

Lemma p_pop_early_terminations_inv qs tbl p max p' result n more :
  PartInv qs tbl p ->
  p_pop_early_terminations p max = Ok (p', result, n, more) ->
  PartInv qs tbl p' /\ sectors p' = sectors p /\ faults p' = faults p /\
  unproven p' = unproven p /\ terminated p' = terminated p /\ recoveries p' = recoveries p /\
  expirations p' = expirations p.
Proof.
  intros HP Hop. unfold p_pop_early_terminations in Hop.
  match type of Hop with context [fold_left ?f ?l ?a] =>
    set (f0 := f) in *; set (a0 := a) in *; set (l0 := l) in * end.
  set (et := early_terminated p) in *.
  (* invariant of the traversal: a pending remainder is a non-empty part of its entry *)
  assert (Hinv : let '(_, _, _, remaining, _) := fold_left f0 l0 a0 in
            forall k rest, remaining = Some (k, rest) ->
              exists secs, et !! k = Some secs /\ rest ⊆ secs /\ rest <> ∅).
  { pose proof (fold_left_ind f0
      (fun _ acc => let '(_, _, _, remaining, _) := acc in
         forall k rest, remaining = Some (k, rest) ->
           exists secs, et !! k = Some secs /\ rest ⊆ secs /\ rest <> ∅)) as Hind.
    apply Hind; [|subst a0; intros k rest; discriminate].
    intros [[[[res cnt] keys] remaining] go] k rest0 IH. unfold f0.
    destruct go; cbn [negb]; [|exact IH].
    destruct (et !! k) as [secs|] eqn:Ek; [|exact IH].
    destruct (max - cnt <? ssize secs) eqn:Elim; [|exact IH].
    apply Z.ltb_lt in Elim. intros k' rest' [= <- <-]. exists secs. split; [exact Ek|].
    split; [clear; set_solver|]. apply firstn_set_rest_nonempty; [|exact Elim].
    destruct (et_entry _ _ (pi_et _ _ _ HP) _ _ Ek) as (_ & Hne & _). exact Hne. }
  destruct (fold_left f0 l0 a0) as [[[[res cnt] keys] remaining] go].
  destruct (validated _) as [p2|] eqn:Ev; cbn [rbind] in Hop; [|discriminate].
  apply validated_ok in Ev. subst p2. injection Hop as <- _ _ _. cbn.
  split; [|repeat split].
  destruct HP. constructor; cbn; try assumption.
  apply (ETInv_refine _ et); [exact pi_et|].
  intros k X'. destruct remaining as [[kr rest]|].
  - destruct (Hinv kr rest eq_refl) as (secs & Hs & Hsub & Hne).
    destruct (decide (k = kr)) as [->|Hnek].
    + rewrite lookup_insert. intros [= <-]. eauto.
    + rewrite lookup_insert_ne by congruence. intros H. apply delete_keys_lookup_Some in H.
      exists X'. split; [exact H|]. split; [reflexivity|].
      destruct (et_entry _ _ pi_et _ _ H) as (_ & Hne' & _). exact Hne'.
  - intros H. apply delete_keys_lookup_Some in H.
    exists X'. split; [exact H|]. split; [reflexivity|].
    destruct (et_entry _ _ pi_et _ _ H) as (_ & Hne' & _). exact Hne'.
Qed.
