(* Proofs about coq/Model/Vesting.v (property C14): quantisation, the linear schedule, and the three
   table operations. *)
From Coq Require Import ZArith List Bool Lia.
From VF Require Import Gen.Consts Base.Corr Model.Vesting.
Import ListNotations.
Open Scope Z_scope.

Ltac zb :=
  repeat match goal with
  | H : (_ =? _) = true |- _ => apply Z.eqb_eq in H
  | H : (_ =? _) = false |- _ => apply Z.eqb_neq in H
  | H : (_ <? _) = true |- _ => apply Z.ltb_lt in H
  | H : (_ <? _) = false |- _ => apply Z.ltb_ge in H
  | H : (_ <=? _) = true |- _ => apply Z.leb_le in H
  | H : (_ <=? _) = false |- _ => apply Z.leb_gt in H
  | H : negb _ = true |- _ => apply negb_true_iff in H
  | H : negb _ = false |- _ => apply negb_false_iff in H
  | H : (_ && _) = true |- _ => apply andb_true_iff in H; destruct H
  | H : (_ || _) = false |- _ => apply orb_false_iff in H; destruct H
  end.

(* ------------------------------------------------------------------------------------------ *)
(* quantize_up *)

Lemma quantize_up_spec unit off e :
  0 < unit ->
  e <= quantize_up unit off e < e + unit /\
  exists k, quantize_up unit off e = unit * k + Z.rem off unit.
Proof.
  intros Hu. unfold quantize_up.
  set (o := Z.rem off unit). set (x := e - o).
  pose proof (Z.quot_rem' x unit) as Hqr.
  assert (Hrb : 0 <= x -> 0 <= Z.rem x unit < unit) by (intros; apply Z.rem_bound_pos; lia).
  assert (Hrn : x <= 0 -> - unit < Z.rem x unit <= 0).
  { intros Hx. pose proof (Z.rem_bound_pos (- x) unit ltac:(lia) Hu) as Hb.
    replace x with (- - x) by lia. rewrite Z.rem_opp_l'. lia. }
  destruct ((Z.rem x unit =? 0) || (x <? 0)) eqn:E.
  - split; [|exists (Z.quot x unit); reflexivity].
    apply orb_true_iff in E. destruct E as [E|E]; zb.
    + subst x. lia.
    + specialize (Hrn ltac:(lia)). subst x. lia.
  - split; [|exists (Z.quot x unit + 1); reflexivity].
    zb. specialize (Hrb ltac:(lia)). subst x. lia.
Qed.

Lemma quantize_up_ge unit off e : 0 < unit -> e <= quantize_up unit off e.
Proof. intros H. apply (quantize_up_spec unit off e H). Qed.

Lemma quantize_up_lt unit off e : 0 < unit -> quantize_up unit off e < e + unit.
Proof. intros H. apply (quantize_up_spec unit off e H). Qed.

(* a point of the grid  off + unit * Z  inside [e, e + unit) is unique *)
Lemma grid_unique unit a b k1 k2 e :
  0 < unit -> e <= unit * k1 + a < e + unit -> e <= unit * k2 + b < e + unit ->
  (exists j, a - b = unit * j) -> unit * k1 + a = unit * k2 + b.
Proof.
  intros Hu H1 H2 [j Hj].
  assert (unit * (k1 + j - k2) < unit * 1) by lia.
  assert (unit * (-1) < unit * (k1 + j - k2)) by lia.
  assert (k1 + j - k2 = 0) by nia. nia.
Qed.

Lemma quantize_up_mono unit off e1 e2 :
  0 < unit -> e1 <= e2 -> quantize_up unit off e1 <= quantize_up unit off e2.
Proof.
  intros Hu Hle.
  destruct (quantize_up_spec unit off e1 Hu) as [[A1 A2] [k1 A3]].
  destruct (quantize_up_spec unit off e2 Hu) as [[B1 B2] [k2 B3]].
  rewrite A3, B3 in *.
  destruct (Z_le_gt_dec k1 k2) as [Hk|Hk].
  - pose proof (Z.mul_le_mono_nonneg_l k1 k2 unit ltac:(lia) Hk). lia.
  - pose proof (Z.mul_le_mono_nonneg_l (k2 + 1) k1 unit ltac:(lia) ltac:(lia)). lia.
Qed.

(* the quantisation only depends on the offset modulo the unit *)
Lemma quantize_up_offset_shift unit off j e :
  0 < unit -> quantize_up unit (off + unit * j) e = quantize_up unit off e.
Proof.
  intros Hu.
  destruct (quantize_up_spec unit (off + unit * j) e Hu) as [A [k1 A3]].
  destruct (quantize_up_spec unit off e Hu) as [B [k2 B3]].
  rewrite A3 in A |- *. rewrite B3 in B |- *.
  apply (grid_unique unit _ _ k1 k2 e Hu A B).
  pose proof (Z.quot_rem' (off + unit * j) unit). pose proof (Z.quot_rem' off unit).
  exists (j + Z.quot off unit - Z.quot (off + unit * j) unit). lia.
Qed.

(* a grid point is a fixed point *)
Lemma quantize_up_idem unit off e :
  0 < unit -> quantize_up unit off (quantize_up unit off e) = quantize_up unit off e.
Proof.
  intros Hu.
  destruct (quantize_up_spec unit off e Hu) as [A [k1 A3]].
  destruct (quantize_up_spec unit off (quantize_up unit off e) Hu) as [B [k2 B3]].
  rewrite B3. rewrite A3.
  apply (grid_unique unit _ _ k2 k1 (quantize_up unit off e) Hu).
  - rewrite <- B3. exact B.
  - rewrite <- A3. lia.
  - exists 0. lia.
Qed.

(* ------------------------------------------------------------------------------------------ *)
(* tables: sums, order, well-formedness *)

Fixpoint sorted (t : table) : Prop :=
  match t with
  | [] => True
  | (e, _) :: tl => (forall e' a', In (e', a') tl -> e <= e') /\ sorted tl
  end.
Definition nonneg (t : table) : Prop := Forall (fun x : fund => 0 <= snd x) t.
Definition wf (t : table) : Prop := sorted t /\ nonneg t.
Definition all_ge (c : Z) (t : table) : Prop := forall e a, In (e, a) t -> c <= e.

Lemma tbl_sum_cons e a t : tbl_sum ((e, a) :: t) = a + tbl_sum t.
Proof. reflexivity. Qed.
Lemma vested_sum_cons e a t c :
  vested_sum ((e, a) :: t) c = (if e <? c then a else 0) + vested_sum t c.
Proof. reflexivity. Qed.
Lemma unvested_sum_cons e a t c :
  unvested_sum ((e, a) :: t) c = (if e <? c then 0 else a) + unvested_sum t c.
Proof. reflexivity. Qed.

Lemma sum_split t c : tbl_sum t = vested_sum t c + unvested_sum t c.
Proof.
  induction t as [|[e a] t IH]; [reflexivity|].
  rewrite tbl_sum_cons, vested_sum_cons, unvested_sum_cons. destruct (e <? c); lia.
Qed.

Lemma nonneg_cons e a t : nonneg ((e, a) :: t) <-> 0 <= a /\ nonneg t.
Proof.
  unfold nonneg. split.
  - intros H. inversion H; subst. auto.
  - intros [H1 H2]. constructor; auto.
Qed.

Lemma nonneg_sum t : nonneg t -> 0 <= tbl_sum t.
Proof.
  induction t as [|[e a] t IH]; intros H; [cbn; lia|].
  apply nonneg_cons in H. rewrite tbl_sum_cons. destruct H. specialize (IH H0). lia.
Qed.
Lemma nonneg_vested t c : nonneg t -> 0 <= vested_sum t c.
Proof.
  induction t as [|[e a] t IH]; intros H; [cbn; lia|].
  apply nonneg_cons in H. rewrite vested_sum_cons. destruct H. specialize (IH H0).
  destruct (e <? c); lia.
Qed.
Lemma nonneg_unvested t c : nonneg t -> 0 <= unvested_sum t c.
Proof.
  induction t as [|[e a] t IH]; intros H; [cbn; lia|].
  apply nonneg_cons in H. rewrite unvested_sum_cons. destruct H. specialize (IH H0).
  destruct (e <? c); lia.
Qed.

Lemma all_ge_vested c t : all_ge c t -> vested_sum t c = 0.
Proof.
  induction t as [|[e a] t IH]; intros H; [reflexivity|].
  rewrite vested_sum_cons.
  assert (c <= e) by (apply (H e a); left; reflexivity).
  destruct (e <? c) eqn:E; zb; [lia|].
  rewrite IH; [lia|]. intros e' a' Hin. apply (H e' a'). right. assumption.
Qed.
Lemma all_ge_unvested c t : all_ge c t -> unvested_sum t c = tbl_sum t.
Proof. intros H. pose proof (sum_split t c). rewrite (all_ge_vested c t H) in *. lia. Qed.

Lemma all_ge_weaken c c' t : c' <= c -> all_ge c t -> all_ge c' t.
Proof. intros Hle H e a Hin. specialize (H e a Hin). lia. Qed.

Lemma sorted_tail e a t : sorted ((e, a) :: t) -> sorted t /\ all_ge e t.
Proof. cbn. intros [H1 H2]. split; [assumption|]. intros e' a' Hin. apply (H1 e' a' Hin). Qed.

Lemma sorted_cons e a t : all_ge e t -> sorted t -> sorted ((e, a) :: t).
Proof. intros H1 H2. cbn. split; [|assumption]. intros e' a' Hin. apply (H1 e' a' Hin). Qed.

(* `load` only drops an empty head *)
Lemma load_sum t : nonneg t -> tbl_sum (load t) = tbl_sum t.
Proof.
  destruct t as [|[e a] t]; [reflexivity|]. intros H. apply nonneg_cons in H. cbn [load].
  destruct (0 <? a) eqn:E; zb; [reflexivity|]. rewrite tbl_sum_cons. lia.
Qed.
Lemma load_vested t c : nonneg t -> vested_sum (load t) c = vested_sum t c.
Proof.
  destruct t as [|[e a] t]; [reflexivity|]. intros H. apply nonneg_cons in H. cbn [load].
  destruct (0 <? a) eqn:E; zb; [reflexivity|]. rewrite vested_sum_cons. destruct (e <? c); lia.
Qed.
Lemma load_unvested t c : nonneg t -> unvested_sum (load t) c = unvested_sum t c.
Proof.
  intros H. pose proof (sum_split t c). pose proof (sum_split (load t) c).
  rewrite load_sum, load_vested in * by assumption. lia.
Qed.
Lemma load_wf t : wf t -> wf (load t).
Proof.
  destruct t as [|[e a] t]; [auto|]. intros [Hs Hn]. cbn [load].
  destruct (0 <? a); [split; assumption|].
  apply sorted_tail in Hs. apply nonneg_cons in Hn. split; tauto.
Qed.
Lemma load_in t x : In x (load t) -> In x t.
Proof.
  destruct t as [|[e a] t]; [auto|]. cbn [load]. destruct (0 <? a); [auto|]. intros H; right; exact H.
Qed.

(* entries with a positive amount (what `load` and GetVestingFunds are about) *)
Definition pos (t : table) : table := filter (fun x : fund => 0 <? snd x) t.
Definition from_epoch (c : Z) (t : table) : table := filter (fun x : fund => c <=? fst x) t.

Lemma pos_load t : nonneg t -> pos (load t) = pos t.
Proof.
  destruct t as [|[e a] t]; [reflexivity|]. intros H. cbn [load].
  destruct (0 <? a) eqn:E; [reflexivity|]. unfold pos. cbn [filter snd]. rewrite E. reflexivity.
Qed.

(* ------------------------------------------------------------------------------------------ *)
(* take_vested *)

Lemma take_vested_sum c l : tbl_sum l = fst (take_vested c l) + tbl_sum (snd (take_vested c l)).
Proof.
  induction l as [|[e a] l IH]; [reflexivity|]. cbn [take_vested].
  destruct (e <? c); [|cbn [fst snd]; lia].
  destruct (take_vested c l) as [s r]. cbn [fst snd] in *. rewrite tbl_sum_cons. lia.
Qed.

Lemma take_vested_sorted c l :
  sorted l -> take_vested c l = (vested_sum l c, from_epoch c l).
Proof.
  induction l as [|[e a] l IH]; intros Hs; [reflexivity|].
  apply sorted_tail in Hs. destruct Hs as [Hs Hge].
  cbn [take_vested]. rewrite vested_sum_cons. unfold from_epoch. cbn [filter fst].
  destruct (e <? c) eqn:E; zb.
  - rewrite (IH Hs). replace (c <=? e) with false by (symmetry; apply Z.leb_gt; lia). reflexivity.
  - replace (c <=? e) with true by (symmetry; apply Z.leb_le; lia).
    assert (Hall : all_ge c l) by (apply (all_ge_weaken e); assumption).
    rewrite (all_ge_vested c l Hall). f_equal; [lia|]. f_equal.
    clear -Hall. induction l as [|[e' a'] l IH]; [reflexivity|]. cbn [filter fst].
    assert (c <= e') by (apply (Hall e' a'); left; reflexivity).
    replace (c <=? e') with true by (symmetry; apply Z.leb_le; lia).
    f_equal. apply IH. intros x y Hin. apply (Hall x y). right. assumption.
Qed.

Lemma from_epoch_in c t x : In x (from_epoch c t) -> In x t /\ c <= fst x.
Proof. unfold from_epoch. intros H. apply filter_In in H. destruct H as [H1 H2]. zb. auto. Qed.

Lemma from_epoch_sorted c t : sorted t -> sorted (from_epoch c t).
Proof.
  induction t as [|[e a] t IH]; intros Hs; [exact I|].
  apply sorted_tail in Hs. destruct Hs as [Hs Hge]. unfold from_epoch. cbn [filter fst].
  destruct (c <=? e); [|apply IH; assumption].
  apply sorted_cons; [|apply IH; assumption].
  intros e' a' Hin. apply from_epoch_in in Hin. apply (Hge e' a'). tauto.
Qed.
Lemma from_epoch_nonneg c t : nonneg t -> nonneg (from_epoch c t).
Proof.
  unfold nonneg, from_epoch. intros H. apply Forall_forall. intros x Hin. apply filter_In in Hin.
  rewrite Forall_forall in H. apply H. tauto.
Qed.
Lemma from_epoch_all_ge c t : all_ge c (from_epoch c t).
Proof. intros e a Hin. apply from_epoch_in in Hin. cbn in Hin. tauto. Qed.
Lemma from_epoch_sum c t : tbl_sum (from_epoch c t) = unvested_sum t c.
Proof.
  induction t as [|[e a] t IH]; [reflexivity|]. unfold from_epoch in *. cbn [filter fst].
  rewrite unvested_sum_cons.
  destruct (c <=? e) eqn:E; zb.
  - rewrite tbl_sum_cons, IH. replace (e <? c) with false by (symmetry; apply Z.ltb_ge; lia). lia.
  - rewrite IH. replace (e <? c) with true by (symmetry; apply Z.ltb_lt; lia). lia.
Qed.
Lemma pos_from_epoch c t : pos (from_epoch c t) = from_epoch c (pos t).
Proof.
  unfold pos, from_epoch. induction t as [|x t IH]; [reflexivity|]. cbn [filter].
  destruct (c <=? fst x) eqn:E1, (0 <? snd x) eqn:E2; cbn [filter]; rewrite ?E1, ?E2, IH; reflexivity.
Qed.
