(* Proofs about coq/Model/Vesting.v (property C14): quantisation, the linear schedule, and the three
   table operations. *)
From Coq Require Import ZArith List Bool Lia.
From VF Require Import Gen.Consts Base.Corr Model.Vesting.
Import ListNotations.
Open Scope Z_scope.

Ltac zb :=
  repeat match goal with
  | H : (_ =? _) = true |- _ => apply Z.eqb_eq in H
  | H : (_ =? _) = false |- _ => apply Z.eqb_neq in H
  | H : (_ <? _) = true |- _ => apply Z.ltb_lt in H
  | H : (_ <? _) = false |- _ => apply Z.ltb_ge in H
  | H : (_ <=? _) = true |- _ => apply Z.leb_le in H
  | H : (_ <=? _) = false |- _ => apply Z.leb_gt in H
  | H : negb _ = true |- _ => apply negb_true_iff in H
  | H : negb _ = false |- _ => apply negb_false_iff in H
  | H : (_ && _) = true |- _ => apply andb_true_iff in H; destruct H
  | H : (_ || _) = false |- _ => apply orb_false_iff in H; destruct H
  end.

(* ------------------------------------------------------------------------------------------ *)
(* quantize_up *)

Lemma quantize_up_spec unit off e :
  0 < unit ->
  e <= quantize_up unit off e < e + unit /\
  exists k, quantize_up unit off e = unit * k + Z.rem off unit.
Proof.
  intros Hu. unfold quantize_up.
  set (o := Z.rem off unit). set (x := e - o).
  pose proof (Z.quot_rem' x unit) as Hqr.
  assert (Hrb : 0 <= x -> 0 <= Z.rem x unit < unit) by (intros; apply Z.rem_bound_pos; lia).
  assert (Hrn : x <= 0 -> - unit < Z.rem x unit <= 0).
  { intros Hx. pose proof (Z.rem_bound_pos (- x) unit ltac:(lia) Hu) as Hb.
    replace x with (- - x) by lia. rewrite Z.rem_opp_l'. lia. }
  destruct ((Z.rem x unit =? 0) || (x <? 0)) eqn:E.
  - split; [|exists (Z.quot x unit); reflexivity].
    apply orb_true_iff in E. destruct E as [E|E]; zb.
    + subst x. lia.
    + specialize (Hrn ltac:(lia)). subst x. lia.
  - split; [|exists (Z.quot x unit + 1); reflexivity].
    zb. specialize (Hrb ltac:(lia)). subst x. lia.
Qed.

Lemma quantize_up_ge unit off e : 0 < unit -> e <= quantize_up unit off e.
Proof. intros H. apply (quantize_up_spec unit off e H). Qed.

Lemma quantize_up_lt unit off e : 0 < unit -> quantize_up unit off e < e + unit.
Proof. intros H. apply (quantize_up_spec unit off e H). Qed.

(* a point of the grid  off + unit * Z  inside [e, e + unit) is unique *)
Lemma grid_unique unit a b k1 k2 e :
  0 < unit -> e <= unit * k1 + a < e + unit -> e <= unit * k2 + b < e + unit ->
  (exists j, a - b = unit * j) -> unit * k1 + a = unit * k2 + b.
Proof.
  intros Hu H1 H2 [j Hj].
  assert (unit * (k1 + j - k2) < unit * 1) by lia.
  assert (unit * (-1) < unit * (k1 + j - k2)) by lia.
  assert (k1 + j - k2 = 0) by nia. nia.
Qed.

Lemma quantize_up_mono unit off e1 e2 :
  0 < unit -> e1 <= e2 -> quantize_up unit off e1 <= quantize_up unit off e2.
Proof.
  intros Hu Hle.
  destruct (quantize_up_spec unit off e1 Hu) as [[A1 A2] [k1 A3]].
  destruct (quantize_up_spec unit off e2 Hu) as [[B1 B2] [k2 B3]].
  rewrite A3, B3 in *.
  destruct (Z_le_gt_dec k1 k2) as [Hk|Hk].
  - pose proof (Z.mul_le_mono_nonneg_l k1 k2 unit ltac:(lia) Hk). lia.
  - pose proof (Z.mul_le_mono_nonneg_l (k2 + 1) k1 unit ltac:(lia) ltac:(lia)). lia.
Qed.

(* the quantisation only depends on the offset modulo the unit *)
Lemma quantize_up_offset_shift unit off j e :
  0 < unit -> quantize_up unit (off + unit * j) e = quantize_up unit off e.
Proof.
  intros Hu.
  destruct (quantize_up_spec unit (off + unit * j) e Hu) as [A [k1 A3]].
  destruct (quantize_up_spec unit off e Hu) as [B [k2 B3]].
  rewrite A3 in A |- *. rewrite B3 in B |- *.
  apply (grid_unique unit _ _ k1 k2 e Hu A B).
  pose proof (Z.quot_rem' (off + unit * j) unit). pose proof (Z.quot_rem' off unit).
  exists (j + Z.quot off unit - Z.quot (off + unit * j) unit). lia.
Qed.

(* a grid point is a fixed point *)
Lemma quantize_up_idem unit off e :
  0 < unit -> quantize_up unit off (quantize_up unit off e) = quantize_up unit off e.
Proof.
  intros Hu.
  destruct (quantize_up_spec unit off e Hu) as [A [k1 A3]].
  destruct (quantize_up_spec unit off (quantize_up unit off e) Hu) as [B [k2 B3]].
  rewrite B3. rewrite A3.
  apply (grid_unique unit _ _ k2 k1 (quantize_up unit off e) Hu).
  - rewrite <- B3. exact B.
  - rewrite <- A3. lia.
  - exists 0. lia.
Qed.

(* ------------------------------------------------------------------------------------------ *)
(* tables: sums, order, well-formedness *)

Fixpoint sorted (t : table) : Prop :=
  match t with
  | [] => True
  | (e, _) :: tl => (forall e' a', In (e', a') tl -> e <= e') /\ sorted tl
  end.
Definition nonneg (t : table) : Prop := Forall (fun x : fund => 0 <= snd x) t.
Definition wf (t : table) : Prop := sorted t /\ nonneg t.
Definition all_ge (c : Z) (t : table) : Prop := forall e a, In (e, a) t -> c <= e.

Lemma tbl_sum_cons e a t : tbl_sum ((e, a) :: t) = a + tbl_sum t.
Proof. reflexivity. Qed.
Lemma vested_sum_cons e a t c :
  vested_sum ((e, a) :: t) c = (if e <? c then a else 0) + vested_sum t c.
Proof. reflexivity. Qed.
Lemma unvested_sum_cons e a t c :
  unvested_sum ((e, a) :: t) c = (if e <? c then 0 else a) + unvested_sum t c.
Proof. reflexivity. Qed.

Lemma sum_split t c : tbl_sum t = vested_sum t c + unvested_sum t c.
Proof.
  induction t as [|[e a] t IH]; [reflexivity|].
  rewrite tbl_sum_cons, vested_sum_cons, unvested_sum_cons. destruct (e <? c); lia.
Qed.

Lemma nonneg_cons e a t : nonneg ((e, a) :: t) <-> 0 <= a /\ nonneg t.
Proof.
  unfold nonneg. split.
  - intros H. inversion H; subst. auto.
  - intros [H1 H2]. constructor; auto.
Qed.

Lemma nonneg_sum t : nonneg t -> 0 <= tbl_sum t.
Proof.
  induction t as [|[e a] t IH]; intros H; [cbn; lia|].
  apply nonneg_cons in H. rewrite tbl_sum_cons. destruct H. specialize (IH H0). lia.
Qed.
Lemma nonneg_vested t c : nonneg t -> 0 <= vested_sum t c.
Proof.
  induction t as [|[e a] t IH]; intros H; [cbn; lia|].
  apply nonneg_cons in H. rewrite vested_sum_cons. destruct H. specialize (IH H0).
  destruct (e <? c); lia.
Qed.
Lemma nonneg_unvested t c : nonneg t -> 0 <= unvested_sum t c.
Proof.
  induction t as [|[e a] t IH]; intros H; [cbn; lia|].
  apply nonneg_cons in H. rewrite unvested_sum_cons. destruct H. specialize (IH H0).
  destruct (e <? c); lia.
Qed.

Lemma all_ge_vested c t : all_ge c t -> vested_sum t c = 0.
Proof.
  induction t as [|[e a] t IH]; intros H; [reflexivity|].
  rewrite vested_sum_cons.
  assert (c <= e) by (apply (H e a); left; reflexivity).
  destruct (e <? c) eqn:E; zb; [lia|].
  rewrite IH; [lia|]. intros e' a' Hin. apply (H e' a'). right. assumption.
Qed.
Lemma all_ge_unvested c t : all_ge c t -> unvested_sum t c = tbl_sum t.
Proof. intros H. pose proof (sum_split t c). rewrite (all_ge_vested c t H) in *. lia. Qed.

Lemma all_ge_weaken c c' t : c' <= c -> all_ge c t -> all_ge c' t.
Proof. intros Hle H e a Hin. specialize (H e a Hin). lia. Qed.

Lemma sorted_tail e a t : sorted ((e, a) :: t) -> sorted t /\ all_ge e t.
Proof. cbn. intros [H1 H2]. split; [assumption|]. intros e' a' Hin. apply (H1 e' a' Hin). Qed.

Lemma sorted_cons e a t : all_ge e t -> sorted t -> sorted ((e, a) :: t).
Proof. intros H1 H2. cbn. split; [|assumption]. intros e' a' Hin. apply (H1 e' a' Hin). Qed.

(* `load` only drops an empty head *)
Lemma load_sum t : nonneg t -> tbl_sum (load t) = tbl_sum t.
Proof.
  destruct t as [|[e a] t]; [reflexivity|]. intros H. apply nonneg_cons in H. cbn [load].
  destruct (0 <? a) eqn:E; zb; [reflexivity|]. rewrite tbl_sum_cons. lia.
Qed.
Lemma load_vested t c : nonneg t -> vested_sum (load t) c = vested_sum t c.
Proof.
  destruct t as [|[e a] t]; [reflexivity|]. intros H. apply nonneg_cons in H. cbn [load].
  destruct (0 <? a) eqn:E; zb; [reflexivity|]. rewrite vested_sum_cons. destruct (e <? c); lia.
Qed.
Lemma load_unvested t c : nonneg t -> unvested_sum (load t) c = unvested_sum t c.
Proof.
  intros H. pose proof (sum_split t c). pose proof (sum_split (load t) c).
  rewrite load_sum, load_vested in * by assumption. lia.
Qed.
Lemma load_wf t : wf t -> wf (load t).
Proof.
  destruct t as [|[e a] t]; [auto|]. intros [Hs Hn]. cbn [load].
  destruct (0 <? a); [split; assumption|].
  apply sorted_tail in Hs. apply nonneg_cons in Hn. split; tauto.
Qed.
Lemma load_in t x : In x (load t) -> In x t.
Proof.
  destruct t as [|[e a] t]; [auto|]. cbn [load]. destruct (0 <? a); [auto|]. intros H; right; exact H.
Qed.

(* entries with a positive amount (what `load` and GetVestingFunds are about) *)
Definition pos (t : table) : table := filter (fun x : fund => 0 <? snd x) t.
Definition from_epoch (c : Z) (t : table) : table := filter (fun x : fund => c <=? fst x) t.

Lemma pos_load t : nonneg t -> pos (load t) = pos t.
Proof.
  destruct t as [|[e a] t]; [reflexivity|]. intros H. cbn [load].
  destruct (0 <? a) eqn:E; [reflexivity|]. unfold pos. cbn [filter snd]. rewrite E. reflexivity.
Qed.

(* ------------------------------------------------------------------------------------------ *)
(* take_vested *)

Lemma take_vested_sum c l : tbl_sum l = fst (take_vested c l) + tbl_sum (snd (take_vested c l)).
Proof.
  induction l as [|[e a] l IH]; [reflexivity|]. cbn [take_vested].
  destruct (e <? c); [|cbn [fst snd]; lia].
  destruct (take_vested c l) as [s r]. cbn [fst snd] in *. rewrite tbl_sum_cons. lia.
Qed.

Lemma take_vested_sorted c l :
  sorted l -> take_vested c l = (vested_sum l c, from_epoch c l).
Proof.
  induction l as [|[e a] l IH]; intros Hs; [reflexivity|].
  apply sorted_tail in Hs. destruct Hs as [Hs Hge].
  cbn [take_vested]. rewrite vested_sum_cons. unfold from_epoch. cbn [filter fst].
  destruct (e <? c) eqn:E; zb.
  - rewrite (IH Hs). replace (c <=? e) with false by (symmetry; apply Z.leb_gt; lia). reflexivity.
  - replace (c <=? e) with true by (symmetry; apply Z.leb_le; lia).
    assert (Hall : all_ge c l) by (apply (all_ge_weaken e); assumption).
    rewrite (all_ge_vested c l Hall). rewrite Z.add_0_r. f_equal. f_equal.
    clear -Hall. induction l as [|[e' a'] l IH]; [reflexivity|]. cbn [filter fst].
    assert (c <= e') by (apply (Hall e' a'); left; reflexivity).
    replace (c <=? e') with true by (symmetry; apply Z.leb_le; lia).
    f_equal. apply IH. intros x y Hin. apply (Hall x y). right. assumption.
Qed.

Lemma from_epoch_in c t x : In x (from_epoch c t) -> In x t /\ c <= fst x.
Proof. unfold from_epoch. intros H. apply filter_In in H. destruct H as [H1 H2]. zb. auto. Qed.

Lemma from_epoch_sorted c t : sorted t -> sorted (from_epoch c t).
Proof.
  induction t as [|[e a] t IH]; intros Hs; [exact I|].
  apply sorted_tail in Hs. destruct Hs as [Hs Hge]. unfold from_epoch. cbn [filter fst].
  destruct (c <=? e); [|apply IH; assumption].
  apply sorted_cons; [|apply IH; assumption].
  intros e' a' Hin. apply from_epoch_in in Hin. apply (Hge e' a'). tauto.
Qed.
Lemma from_epoch_nonneg c t : nonneg t -> nonneg (from_epoch c t).
Proof.
  unfold nonneg, from_epoch. intros H. apply Forall_forall. intros x Hin. apply filter_In in Hin.
  rewrite Forall_forall in H. apply H. tauto.
Qed.
Lemma from_epoch_all_ge c t : all_ge c (from_epoch c t).
Proof. intros e a Hin. apply from_epoch_in in Hin. cbn in Hin. tauto. Qed.
Lemma from_epoch_sum c t : tbl_sum (from_epoch c t) = unvested_sum t c.
Proof.
  induction t as [|[e a] t IH]; [reflexivity|]. unfold from_epoch in *. cbn [filter fst].
  rewrite unvested_sum_cons.
  destruct (c <=? e) eqn:E; zb.
  - rewrite tbl_sum_cons, IH. replace (e <? c) with false by (symmetry; apply Z.ltb_ge; lia). lia.
  - rewrite IH. replace (e <? c) with true by (symmetry; apply Z.ltb_lt; lia). lia.
Qed.
Lemma pos_from_epoch c t : pos (from_epoch c t) = from_epoch c (pos t).
Proof.
  unfold pos, from_epoch. induction t as [|x t IH]; [reflexivity|]. cbn [filter].
  destruct (c <=? fst x) eqn:E1, (0 <? snd x) eqn:E2; cbn [filter]; rewrite ?E1, ?E2, IH; reflexivity.
Qed.

Lemma from_epoch_id c t : all_ge c t -> from_epoch c t = t.
Proof.
  induction t as [|[e a] t IH]; intros H; [reflexivity|]. unfold from_epoch in *. cbn [filter fst].
  assert (c <= e) by (apply (H e a); left; reflexivity).
  replace (c <=? e) with true by (symmetry; apply Z.leb_le; lia).
  f_equal. apply IH. intros x y Hin. apply (H x y). right. assumption.
Qed.
Lemma pos_all_ge c t : all_ge c t -> all_ge c (pos t).
Proof. intros H e a Hin. unfold pos in Hin. apply filter_In in Hin. apply (H e a). tauto. Qed.

(* what is still locked from epoch c on vests later exactly as before *)
Lemma from_epoch_vested c t e : c <= e -> vested_sum (from_epoch c t) e = vested_sum t e - vested_sum t c.
Proof.
  intros Hce. induction t as [|[ep a] t IH]; [reflexivity|]. unfold from_epoch in *. cbn [filter fst].
  rewrite !vested_sum_cons.
  destruct (c <=? ep) eqn:E; zb.
  - rewrite vested_sum_cons, IH. replace (ep <? c) with false by (symmetry; apply Z.ltb_ge; lia).
    destruct (ep <? e); lia.
  - rewrite IH. replace (ep <? c) with true by (symmetry; apply Z.ltb_lt; lia).
    replace (ep <? e) with true by (symmetry; apply Z.ltb_lt; lia). lia.
Qed.

(* ------------------------------------------------------------------------------------------ *)
(* merge *)

Lemma merge_nil_l (b : table) : merge [] b = b.
Proof. destruct b; reflexivity. Qed.
Lemma merge_nil_r (a : table) : merge a [] = a.
Proof. destruct a as [|[e x] a]; reflexivity. Qed.
Lemma merge_cons_cons ea xa (a : table) eb xb (b : table) :
  merge ((ea, xa) :: a) ((eb, xb) :: b) =
  if ea <? eb then (ea, xa) :: merge a ((eb, xb) :: b)
  else if eb <? ea then (eb, xb) :: merge ((ea, xa) :: a) b
  else (ea, xa + xb) :: merge a b.
Proof. reflexivity. Qed.

Ltac merge_ind a b IHa IHb :=
  induction a as [|[?ea ?xa] a IHa]; intros b;
  [rewrite merge_nil_l|
   induction b as [|[?eb ?xb] b IHb];
   [rewrite merge_nil_r|rewrite merge_cons_cons]].

Lemma merge_sum a : forall b, tbl_sum (merge a b) = tbl_sum a + tbl_sum b.
Proof.
  merge_ind a b IHa IHb; [cbn; lia|cbn; lia|].
  destruct (ea <? eb); [|destruct (eb <? ea)]; rewrite !tbl_sum_cons.
  - rewrite IHa, tbl_sum_cons. lia.
  - rewrite IHb, tbl_sum_cons. lia.
  - rewrite IHa. lia.
Qed.

Lemma merge_vested c a : forall b, vested_sum (merge a b) c = vested_sum a c + vested_sum b c.
Proof.
  merge_ind a b IHa IHb; [cbn; lia|cbn; lia|].
  destruct (ea <? eb) eqn:E1; [|destruct (eb <? ea) eqn:E2]; rewrite !vested_sum_cons.
  - rewrite IHa, vested_sum_cons. lia.
  - rewrite IHb, vested_sum_cons. lia.
  - rewrite IHa. zb. assert (ea = eb) by lia. subst. destruct (eb <? c); lia.
Qed.

Lemma merge_all_ge c a : forall b, all_ge c a -> all_ge c b -> all_ge c (merge a b).
Proof.
  merge_ind a b IHa IHb; intros Ha Hb; [assumption|assumption|].
  assert (Ha0 : c <= ea) by (apply (Ha ea xa); left; reflexivity).
  assert (Hb0 : c <= eb) by (apply (Hb eb xb); left; reflexivity).
  assert (Ha' : all_ge c a) by (intros x y Hin; apply (Ha x y); right; assumption).
  assert (Hb' : all_ge c b) by (intros x y Hin; apply (Hb x y); right; assumption).
  destruct (ea <? eb); [|destruct (eb <? ea)]; intros x y [Heq|Hin].
  - inversion Heq; subst; assumption.
  - apply (IHa _ Ha' Hb x y Hin).
  - inversion Heq; subst; assumption.
  - apply (IHb Ha Hb' x y Hin).
  - inversion Heq; subst; assumption.
  - apply (IHa _ Ha' Hb' x y Hin).
Qed.

Lemma merge_sorted a : forall b, sorted a -> sorted b -> sorted (merge a b).
Proof.
  merge_ind a b IHa IHb; intros Ha Hb; [assumption|assumption|].
  destruct (sorted_tail _ _ _ Ha) as [Ha1 Ha2]. destruct (sorted_tail _ _ _ Hb) as [Hb1 Hb2].
  destruct (ea <? eb) eqn:E1; [|destruct (eb <? ea) eqn:E2]; zb.
  - apply sorted_cons; [|apply IHa; assumption].
    apply merge_all_ge; [assumption|].
    intros x y [Heq|Hin]; [inversion Heq; subst; lia|]. specialize (Hb2 x y Hin). lia.
  - apply sorted_cons; [|apply IHb; assumption].
    apply merge_all_ge; [|assumption].
    intros x y [Heq|Hin]; [inversion Heq; subst; lia|]. specialize (Ha2 x y Hin). lia.
  - apply sorted_cons; [|apply IHa; assumption].
    apply merge_all_ge; [assumption|]. apply (all_ge_weaken eb); [lia|assumption].
Qed.

Lemma merge_nonneg a : forall b, nonneg a -> nonneg b -> nonneg (merge a b).
Proof.
  merge_ind a b IHa IHb; intros Ha Hb; [assumption|assumption|].
  apply nonneg_cons in Ha. apply nonneg_cons in Hb. destruct Ha as [Ha0 Ha'], Hb as [Hb0 Hb'].
  destruct (ea <? eb); [|destruct (eb <? ea)]; apply nonneg_cons; split; try lia.
  - apply IHa; [assumption|apply nonneg_cons; auto].
  - apply IHb; [apply nonneg_cons; auto|assumption].
  - apply IHa; assumption.
Qed.

(* ------------------------------------------------------------------------------------------ *)
(* the schedule generator *)

Section Sched.
  Variables sum vbegin period step unit offset : Z.
  Hypothesis Hsum : 0 <= sum.
  Hypothesis Hper : 0 < period.
  Hypothesis Hstep : 0 < step.
  Hypothesis Hunit : 0 < unit.

  Let q (e : Z) : Z := quantize_up unit offset e.
  (* cumulative amount that has left the schedule once the entry at epoch ve has vested *)
  Definition cumt (ve : Z) : Z := if ve - vbegin <? period then sum * (ve - vbegin) / period else sum.
  Let gen (f : nat) (vsf ep : Z) : table := gen_new f sum vbegin period step unit offset vsf ep.

  Lemma gen_S f vsf ep :
    gen (S f) vsf ep =
    if sum <=? vsf then [] else
    (q (ep + step), cumt (q (ep + step)) - vsf) :: gen f (cumt (q (ep + step))) (ep + step).
  Proof. reflexivity. Qed.

  Lemma q_ge e : e <= q e.
  Proof. apply quantize_up_ge. assumption. Qed.
  Lemma q_lt e : q e < e + unit.
  Proof. apply quantize_up_lt. assumption. Qed.
  Lemma q_mono a b : a <= b -> q a <= q b.
  Proof. apply quantize_up_mono. assumption. Qed.

  Lemma div_mono a b : a <= b -> sum * a / period <= sum * b / period.
  Proof.
    intros H. apply Z.div_le_mono; [assumption|]. apply Z.mul_le_mono_nonneg_l; assumption.
  Qed.
  Lemma div_full a : period <= a -> sum <= sum * a / period.
  Proof.
    intros H. pose proof (div_mono period a H) as Hm. rewrite Z.div_mul in Hm by lia. exact Hm.
  Qed.
  Lemma div_nonneg a : 0 <= a -> 0 <= sum * a / period.
  Proof. intros H. apply Z.div_pos; [|assumption]. apply Z.mul_nonneg_nonneg; assumption. Qed.
  Lemma div_below a : a < period -> 0 < sum -> sum * a / period < sum.
  Proof.
    intros H Hs. apply Z.div_lt_upper_bound; [assumption|].
    rewrite (Z.mul_comm period sum). apply Z.mul_lt_mono_pos_l; assumption.
  Qed.
  Lemma div_le_sum a : a <= period -> sum * a / period <= sum.
  Proof.
    intros H. pose proof (div_mono a period H) as Hm. rewrite Z.div_mul in Hm by lia. exact Hm.
  Qed.

  Lemma cumt_bounds v : vbegin <= v -> 0 <= cumt v <= sum.
  Proof.
    intros H. unfold cumt. destruct (v - vbegin <? period) eqn:E; zb; [|lia].
    split; [apply div_nonneg; lia|apply div_le_sum; lia].
  Qed.
  Lemma cumt_mono v1 v2 : vbegin <= v1 -> v1 <= v2 -> cumt v1 <= cumt v2.
  Proof.
    intros H1 H2. unfold cumt.
    destruct (v1 - vbegin <? period) eqn:E1, (v2 - vbegin <? period) eqn:E2; zb; try lia.
    - apply div_mono; lia.
    - apply div_le_sum; lia.
  Qed.
  Lemma cumt_full v : period <= v - vbegin -> cumt v = sum.
  Proof. intros H. unfold cumt. destruct (v - vbegin <? period) eqn:E; zb; lia. Qed.

  Lemma gen_all_ge f : forall vsf ep, all_ge (q (ep + step)) (gen f vsf ep).
  Proof.
    induction f as [|f IH]; intros vsf ep; [intros e a []|].
    rewrite gen_S. destruct (sum <=? vsf); [intros e a []|].
    intros e a [Heq|Hin]; [inversion Heq; subst; lia|].
    specialize (IH _ _ e a Hin). pose proof (q_mono (ep + step) (ep + step + step) ltac:(lia)). lia.
  Qed.

  Lemma gen_sorted f : forall vsf ep, sorted (gen f vsf ep).
  Proof.
    induction f as [|f IH]; intros vsf ep; [exact I|].
    rewrite gen_S. destruct (sum <=? vsf); [exact I|].
    apply sorted_cons; [|apply IH].
    apply (all_ge_weaken (q (ep + step + step))); [apply q_mono; lia|apply gen_all_ge].
  Qed.

  Lemma gen_nonneg f : forall vsf ep,
    vbegin <= ep -> vsf <= cumt (q (ep + step)) -> nonneg (gen f vsf ep).
  Proof.
    induction f as [|f IH]; intros vsf ep Hep Hv; [constructor|].
    rewrite gen_S. destruct (sum <=? vsf); [constructor|].
    apply nonneg_cons. split; [lia|]. apply IH; [lia|].
    pose proof (q_ge (ep + step)). apply cumt_mono; [lia|apply q_mono; lia].
  Qed.

  Lemma gen_sum f : forall vsf ep,
    vbegin <= ep -> vsf <= sum -> (vsf < sum -> ep - vbegin < period) ->
    period <= ep - vbegin + Z.of_nat f * step ->
    tbl_sum (gen f vsf ep) = sum - vsf.
  Proof.
    induction f as [|f IH]; intros vsf ep Hep Hv Hprog Hfuel.
    - cbn [gen gen_new tbl_sum fold_right]. cbn in Hfuel. lia.
    - rewrite gen_S. destruct (sum <=? vsf) eqn:E; zb; [cbn; lia|].
      rewrite tbl_sum_cons. pose proof (q_ge (ep + step)) as Hq.
      pose proof (cumt_bounds (q (ep + step)) ltac:(lia)) as Hb.
      rewrite IH; [lia|lia|lia| |].
      + intros Hlt. destruct (Z_lt_ge_dec (ep + step - vbegin) period) as [|Hge]; [assumption|].
        rewrite cumt_full in Hlt by lia. lia.
      + rewrite Nat2Z.inj_succ in Hfuel. lia.
  Qed.

  Lemma gen_on_grid f : forall vsf ep x a, In (x, a) (gen f vsf ep) -> q x = x.
  Proof.
    induction f as [|f IH]; intros vsf ep x a; [intros []|].
    rewrite gen_S. destruct (sum <=? vsf); [intros []|].
    intros [Heq|Hin]; [|apply (IH _ _ _ _ Hin)].
    inversion Heq; subst. apply quantize_up_idem. assumption.
  Qed.

  Variable e : Z.   (* the epoch at which unlock_vested_funds is called *)

  Definition upper : Z := Z.min sum (sum * Z.max 0 (e - vbegin) / period).
  Definition lower : Z := Z.min sum (sum * (e - vbegin - step - unit) / period).

  Lemma cumt_le_upper v : vbegin <= v -> v < e -> cumt v <= upper.
  Proof.
    intros H1 H2. unfold upper. rewrite Z.max_r by lia. apply Z.min_glb.
    - apply cumt_bounds; assumption.
    - unfold cumt. destruct (v - vbegin <? period) eqn:E; zb; [apply div_mono; lia|apply div_full; lia].
  Qed.

  Lemma upper_nonneg : 0 <= upper.
  Proof. unfold upper. apply Z.min_glb; [assumption|]. apply div_nonneg. lia. Qed.

  Lemma gen_upper f : forall vsf ep,
    vbegin <= ep -> vsf + vested_sum (gen f vsf ep) e <= Z.max vsf upper.
  Proof.
    induction f as [|f IH]; intros vsf ep Hep; [cbn; lia|].
    rewrite gen_S. destruct (sum <=? vsf); [cbn; lia|].
    rewrite vested_sum_cons. pose proof (q_ge (ep + step)) as Hq.
    destruct (q (ep + step) <? e) eqn:E; zb.
    - specialize (IH (cumt (q (ep + step))) (ep + step) ltac:(lia)).
      pose proof (cumt_le_upper (q (ep + step)) ltac:(lia) E). lia.
    - rewrite (all_ge_vested e); [lia|].
      apply (all_ge_weaken (q (ep + step + step))); [|apply gen_all_ge].
      pose proof (q_mono (ep + step) (ep + step + step) ltac:(lia)). lia.
  Qed.

  Lemma gen_lower f : forall vsf ep,
    vbegin <= ep ->
    Z.min sum (sum * (ep - vbegin) / period) <= vsf ->
    vsf <= cumt (q (ep + step)) ->
    period <= ep - vbegin + Z.of_nat f * step ->
    lower <= vsf + vested_sum (gen f vsf ep) e.
  Proof.
    induction f as [|f IH]; intros vsf ep Hep HK HJ Hfuel.
    - cbn [gen gen_new vested_sum fold_right]. cbn in Hfuel.
      pose proof (div_full (ep - vbegin) ltac:(lia)). unfold lower. lia.
    - rewrite gen_S. destruct (sum <=? vsf) eqn:E0; zb; [unfold lower; cbn; lia|].
      rewrite vested_sum_cons. pose proof (q_ge (ep + step)) as Hq. pose proof (q_lt (ep + step)) as Hq'.
      destruct (q (ep + step) <? e) eqn:E; zb.
      + assert (lower <= cumt (q (ep + step)) + vested_sum (gen f (cumt (q (ep + step))) (ep + step)) e); [|lia].
        apply IH; [lia| | |rewrite Nat2Z.inj_succ in Hfuel; lia].
        * unfold cumt. destruct (q (ep + step) - vbegin <? period) eqn:E2; zb; [|lia].
          pose proof (div_mono (ep + step - vbegin) (q (ep + step) - vbegin) ltac:(lia)). lia.
        * apply cumt_mono; [lia|apply q_mono; lia].
      + rewrite (all_ge_vested e).
        * pose proof (div_mono (e - vbegin - step - unit) (ep - vbegin) ltac:(lia)). unfold lower. lia.
        * apply (all_ge_weaken (q (ep + step + step))); [|apply gen_all_ge].
          pose proof (q_mono (ep + step) (ep + step + step) ltac:(lia)). lia.
  Qed.
End Sched.

(* ------------------------------------------------------------------------------------------ *)
(* new_schedule: the schedule add_locked_funds merges into the table *)

Definition spec_ok (sp : vspec) : Prop :=
  0 <= initial_delay sp /\ 0 < vest_period sp /\ 0 < step_duration sp /\ 0 < quantization sp.

Lemma sched_fuel_enough sp :
  spec_ok sp -> vest_period sp <= Z.of_nat (sched_fuel sp) * step_duration sp.
Proof.
  intros (_ & Hp & Hs & _). unfold sched_fuel.
  pose proof (Z.div_pos (vest_period sp) (step_duration sp) ltac:(lia) Hs).
  rewrite Z2Nat.id by lia. rewrite Z.max_r by lia.
  pose proof (Z.div_mod (vest_period sp) (step_duration sp) ltac:(lia)).
  pose proof (Z.mod_pos_bound (vest_period sp) (step_duration sp) Hs). nia.
Qed.

Section NewSchedule.
  Variables (cur sum pps : Z) (sp : vspec).
  Hypothesis Hok : spec_ok sp.
  Hypothesis Hsum : 0 <= sum.
  Let vbegin := cur + initial_delay sp.
  Let new := new_schedule cur sum pps sp.

  Lemma new_schedule_sum : tbl_sum new = sum.
  Proof.
    destruct Hok as (Hd & Hp & Hs & Hq). unfold new, new_schedule.
    rewrite (gen_sum sum _ _ _ _ pps Hsum Hp Hs Hq); try lia.
    pose proof (sched_fuel_enough sp Hok). fold vbegin. lia.
  Qed.

  Lemma new_schedule_sorted : sorted new.
  Proof. destruct Hok as (Hd & Hp & Hs & Hq). apply gen_sorted; assumption. Qed.

  Lemma new_schedule_nonneg : nonneg new.
  Proof.
    destruct Hok as (Hd & Hp & Hs & Hq). apply gen_nonneg; try assumption; [lia|].
    apply cumt_bounds; try assumption. pose proof (quantize_up_ge (quantization sp) pps (cur + initial_delay sp + step_duration sp) Hq). lia.
  Qed.

  (* every entry lies strictly after the current epoch, on the quantisation grid *)
  Lemma new_schedule_after : all_ge (cur + initial_delay sp + step_duration sp) new.
  Proof.
    destruct Hok as (Hd & Hp & Hs & Hq).
    apply (all_ge_weaken (quantize_up (quantization sp) pps (cur + initial_delay sp + step_duration sp))).
    - apply quantize_up_ge. assumption.
    - apply gen_all_ge; assumption.
  Qed.

  Lemma new_schedule_upper e :
    vested_sum new e <= Z.min sum (sum * Z.max 0 (e - vbegin) / vest_period sp).
  Proof.
    destruct Hok as (Hd & Hp & Hs & Hq).
    pose proof (gen_upper sum vbegin _ _ _ pps Hsum Hp Hs Hq e (sched_fuel sp) 0 vbegin ltac:(lia)) as H.
    pose proof (upper_nonneg sum vbegin _ Hsum Hp e). unfold upper in *. unfold new, new_schedule. fold vbegin. lia.
  Qed.

  Lemma new_schedule_lower e :
    Z.min sum (sum * (e - vbegin - step_duration sp - quantization sp) / vest_period sp) <= vested_sum new e.
  Proof.
    destruct Hok as (Hd & Hp & Hs & Hq).
    pose proof (gen_lower sum vbegin _ _ _ pps Hsum Hp Hs Hq e (sched_fuel sp) 0 vbegin ltac:(lia)) as H.
    unfold lower in H. unfold new, new_schedule. fold vbegin.
    replace (vbegin - vbegin) with 0 in H by lia. rewrite Z.mul_0_r, Z.div_0_l in H by lia.
    pose proof (sched_fuel_enough sp Hok).
    apply H; [lia| |lia].
    apply cumt_bounds; try assumption.
    pose proof (quantize_up_ge (quantization sp) pps (vbegin + step_duration sp) Hq). lia.
  Qed.

  Lemma new_schedule_complete e :
    vbegin + vest_period sp + step_duration sp + quantization sp <= e -> vested_sum new e = sum.
  Proof.
    intros He. destruct Hok as (Hd & Hp & Hs & Hq).
    pose proof (new_schedule_upper e). pose proof (new_schedule_lower e).
    pose proof (div_full sum (vest_period sp) Hsum Hp (e - vbegin - step_duration sp - quantization sp) ltac:(lia)).
    lia.
  Qed.

  Lemma new_schedule_on_grid e a :
    In (e, a) new -> quantize_up (quantization sp) pps e = e.
  Proof.
    destruct Hok as (Hd & Hp & Hs & Hq). unfold new, new_schedule.
    apply (gen_on_grid sum _ _ _ _ pps Hq).
  Qed.
End NewSchedule.

(* ------------------------------------------------------------------------------------------ *)
(* the three operations *)

Lemma add_locked_funds_spec t cur sum pps sp t' u :
  wf t -> spec_ok sp -> 0 <= sum ->
  add_locked_funds t cur sum pps sp = (t', u) ->
  u = vested_sum t cur /\ wf t' /\ all_ge cur t' /\
  tbl_sum t' = tbl_sum t - u + sum /\
  unvested_sum t' cur = unvested_sum t cur + sum /\
  (forall e, cur <= e ->
     vested_sum t' e = (vested_sum t e - vested_sum t cur) + vested_sum (new_schedule cur sum pps sp) e).
Proof.
  intros [Hs Hn] Hok Hsum. unfold add_locked_funds.
  set (new := new_schedule cur sum pps sp).
  pose proof (load_wf t (conj Hs Hn)) as [Hls Hln].
  assert (Hms : sorted (merge (load t) new)) by (apply merge_sorted; [assumption|apply new_schedule_sorted; assumption]).
  assert (Hmn : nonneg (merge (load t) new)) by (apply merge_nonneg; [assumption|apply new_schedule_nonneg; assumption]).
  rewrite (take_vested_sorted cur _ Hms). intros Heq. inversion Heq; subst t' u; clear Heq.
  assert (Hnew0 : vested_sum new cur = 0).
  { apply all_ge_vested. apply (all_ge_weaken (cur + initial_delay sp + step_duration sp)).
    - destruct Hok as (? & ? & ? & ?). lia.
    - apply new_schedule_after; assumption. }
  assert (Hu : vested_sum (merge (load t) new) cur = vested_sum t cur).
  { rewrite merge_vested, load_vested, Hnew0 by assumption. lia. }
  assert (Hsumm : tbl_sum (merge (load t) new) = tbl_sum t + sum).
  { rewrite merge_sum, load_sum by assumption. unfold new. rewrite new_schedule_sum by assumption. lia. }
  pose proof (sum_split (merge (load t) new) cur) as Hsp.
  split; [exact Hu|]. split; [split; [apply from_epoch_sorted|apply from_epoch_nonneg]; assumption|].
  split; [apply from_epoch_all_ge|].
  assert (Ht' : tbl_sum (from_epoch cur (merge (load t) new)) = tbl_sum t - vested_sum t cur + sum).
  { rewrite from_epoch_sum. lia. }
  split; [rewrite Hu; exact Ht'|]. split.
  - rewrite all_ge_unvested by apply from_epoch_all_ge. rewrite Ht'. pose proof (sum_split t cur). lia.
  - intros e He. rewrite from_epoch_vested by assumption. rewrite !merge_vested, !load_vested by assumption.
    fold new. lia.
Qed.

Lemma unlock_vested_funds_spec t cur t' u :
  wf t -> unlock_vested_funds t cur = (t', u) ->
  u = vested_sum t cur /\ wf t' /\ tbl_sum t' = tbl_sum t - u /\
  pos t' = from_epoch cur (pos t) /\
  unvested_sum t' cur = unvested_sum t cur /\
  (forall e, cur <= e -> vested_sum t' e = vested_sum t e - u).
Proof.
  intros [Hs Hn]. unfold unlock_vested_funds. destruct t as [|[he ha] tl].
  - intros Heq; inversion Heq; subst. cbn. repeat split; auto; try constructor; try (intros; lia).
  - remember ((he, ha) :: tl) as t0 eqn:Et0.
    destruct (he <? cur) eqn:E; zb.
    + pose proof (load_wf _ (conj Hs Hn)) as [Hls Hln].
      rewrite (take_vested_sorted cur _ Hls). intros Heq.
      assert (Hu : u = vested_sum (load t0) cur) by congruence.
      assert (Ht' : t' = from_epoch cur (load t0)) by congruence.
      clear Heq. subst t' u.
      rewrite load_vested by assumption.
      split; [reflexivity|]. split; [split; [apply from_epoch_sorted|apply from_epoch_nonneg]; assumption|].
      split; [|split; [|split]].
      * rewrite from_epoch_sum, load_unvested by assumption.
        pose proof (sum_split t0 cur). lia.
      * rewrite pos_from_epoch, pos_load by assumption. reflexivity.
      * rewrite all_ge_unvested by apply from_epoch_all_ge.
        rewrite from_epoch_sum, load_unvested by assumption. reflexivity.
      * intros e He. rewrite from_epoch_vested, !load_vested by assumption. reflexivity.
    + intros Heq.
      assert (Hu : u = 0) by congruence. assert (Ht' : t' = t0) by congruence. clear Heq. subst t' u.
      assert (Hall : all_ge cur t0).
      { subst t0. destruct (sorted_tail _ _ _ Hs) as [_ Hge].
        intros x y [Hx|Hin]; [inversion Hx; subst; lia|]. specialize (Hge x y Hin). lia. }
      rewrite (all_ge_vested cur _ Hall).
      split; [reflexivity|]. split; [split; assumption|]. split; [lia|].
      split; [|split; [reflexivity|intros; lia]].
      rewrite from_epoch_id; [reflexivity|]. apply pos_all_ge. assumption.
Qed.

Lemma slow_unlock_spec cur l : forall target v u r v' u',
  sorted l -> nonneg l -> 0 <= target ->
  slow_unlock cur target v u l = (r, v', u') ->
  v' = v + vested_sum l cur /\
  u' = u + Z.min target (unvested_sum l cur) /\
  wf r /\ all_ge cur r /\
  tbl_sum r = unvested_sum l cur - Z.min target (unvested_sum l cur).
Proof.
  induction l as [|[e a] tl IH]; intros target v u r v' u' Hs Hn Ht.
  - cbn [slow_unlock vested_sum unvested_sum fold_right]. intros Heq; inversion Heq; subst.
    rewrite Z.min_r by lia.
    split; [lia|]. split; [lia|]. split; [split; constructor|]. split; [intros x y []|]. cbn. lia.
  - destruct (sorted_tail _ _ _ Hs) as [Hs' Hge]. apply nonneg_cons in Hn. destruct Hn as [Ha Hn'].
    cbn [slow_unlock]. rewrite vested_sum_cons, unvested_sum_cons.
    destruct (e <? cur) eqn:E; zb.
    + intros Heq. destruct (IH _ _ _ _ _ _ Hs' Hn' Ht Heq) as (A & B & C & D & F).
      repeat split; try assumption; try apply C; lia.
    + assert (Hall : all_ge cur tl) by (apply (all_ge_weaken e); assumption).
      pose proof (nonneg_unvested tl cur Hn') as Hunv.
      rewrite (all_ge_vested cur tl Hall).
      destruct (a <? target) eqn:E2; zb.
      * intros Heq. assert (Ht' : 0 <= target - a) by lia.
        destruct (IH _ _ _ _ _ _ Hs' Hn' Ht' Heq) as (A & B & C & D & F).
        rewrite (all_ge_vested cur tl Hall) in A.
        repeat split; try assumption; try apply C; lia.
      * intros Heq; inversion Heq; subst r v' u'; clear Heq.
        split; [lia|]. split; [lia|]. split; [|split].
        -- split; [apply sorted_cons; assumption|apply nonneg_cons; split; [lia|assumption]].
        -- intros x y [Hx|Hin]; [inversion Hx; subst; lia|apply (Hall x y Hin)].
        -- rewrite tbl_sum_cons. rewrite (all_ge_unvested cur tl Hall) in *. lia.
Qed.

Lemma unlock_both_spec t cur target t' v u :
  wf t -> 0 <= target ->
  unlock_vested_and_unvested_funds t cur target = (t', v, u) ->
  v = vested_sum t cur /\ u = Z.min target (unvested_sum t cur) /\
  wf t' /\ tbl_sum t' = tbl_sum t - v - u /\
  vested_sum t' cur = 0 /\ unvested_sum t' cur = unvested_sum t cur - u.
Proof.
  intros [Hs Hn] Ht. unfold unlock_vested_and_unvested_funds. destruct t as [|[he ha] tl].
  - intros Heq; inversion Heq; subst. cbn. repeat split; try constructor; lia.
  - destruct ((cur <=? he) && (target <=? ha)) eqn:E.
    + zb. intros Heq; inversion Heq; subst t' v u; clear Heq.
      destruct (sorted_tail _ _ _ Hs) as [Hs' Hge]. apply nonneg_cons in Hn. destruct Hn as [Ha Hn'].
      assert (Hall : all_ge cur tl) by (apply (all_ge_weaken he); assumption).
      pose proof (nonneg_unvested tl cur Hn').
      rewrite !vested_sum_cons, !unvested_sum_cons, !tbl_sum_cons.
      replace (he <? cur) with false by (symmetry; apply Z.ltb_ge; lia).
      rewrite (all_ge_vested cur tl Hall).
      split; [lia|]. split; [lia|]. split; [|repeat split; lia].
      split; [apply sorted_cons; assumption|apply nonneg_cons; split; [lia|assumption]].
    + intros Heq. pose proof (load_wf _ (conj Hs Hn)) as [Hls Hln].
      destruct (slow_unlock_spec cur _ _ _ _ _ _ _ Hls Hln Ht Heq) as (A & B & C & D & F).
      rewrite load_vested, load_unvested in * by assumption.
      pose proof (sum_split ((he, ha) :: tl) cur).
      split; [lia|]. split; [lia|]. split; [assumption|]. split; [lia|].
      split; [apply all_ge_vested; assumption|]. rewrite all_ge_unvested by assumption. lia.
Qed.

(* after the last entry's epoch everything is unlocked: over time exactly the table's total unlocks *)
Lemma unlock_all_eventually t cur t' u :
  wf t -> (forall e a, In (e, a) t -> e < cur) ->
  unlock_vested_funds t cur = (t', u) -> u = tbl_sum t /\ tbl_sum t' = 0 /\ pos t' = [].
Proof.
  intros Hwf Hall Heq. destruct (unlock_vested_funds_spec _ _ _ _ Hwf Heq) as (A & B & C & D & _).
  assert (Hv : vested_sum t cur = tbl_sum t).
  { clear -Hall. induction t as [|[e a] t IH]; [reflexivity|].
    rewrite vested_sum_cons, tbl_sum_cons.
    assert (e < cur) by (apply (Hall e a); left; reflexivity).
    replace (e <? cur) with true by (symmetry; apply Z.ltb_lt; lia).
    rewrite IH; [lia|]. intros x y Hin. apply (Hall x y). right. assumption. }
  split; [lia|]. split; [lia|]. rewrite D.
  clear -Hall. unfold pos, from_epoch. induction t as [|[e a] t IH]; [reflexivity|]. cbn [filter snd].
  assert (e < cur) by (apply (Hall e a); left; reflexivity).
  assert (IH' : filter (fun x : fund => cur <=? fst x) (filter (fun x : fund => 0 <? snd x) t) = [])
    by (apply IH; intros x y Hin; apply (Hall x y); right; assumption).
  destruct (0 <? a); [|exact IH']. cbn [filter fst].
  replace (cur <=? e) with false by (symmetry; apply Z.leb_gt; lia). exact IH'.
Qed.
